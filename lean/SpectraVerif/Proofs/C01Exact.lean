/-
  `ExactKernels`: the exact-arithmetic specifications of the numeric kernels that the orchestration model `Orch` calls, stated
  against an interpretation of the model's opaque types in an ordered field `F` — and the core of `c01_histories`
  (helper file of Properties/C01.lean).

  The factorization kernels are specified the way C07 proves them: each call of `facInit` keeps the invariant, each call of
  `factorize` / `restartFac` IS a finite sequence of C07 steps (extend | breakdown-continue with a zero residual | compress)
  with their side conditions, so that `C07.run_kryE` / `C07.run_R_zero` (the content of `c07_run`) give the Krylov relation after it.
  The small eigen-solver is specified by `H y = θ y` and "the estimate is the last coordinate" (C09: TridiagEigen), the
  convergence test by the code's formula, `assemble` by `x = V y`.
-/
import Mathlib.Data.Matrix.Mul
import Mathlib.Algebra.Order.Field.Basic
import SpectraVerif.Proofs.C07Run
import SpectraVerif.Proofs.C01Bridge
import SpectraVerif.Proofs.C01Matrix
import SpectraVerif.Proofs.C01Orch

set_option linter.unusedSectionVars false
set_option linter.unusedVariables false
open Finset Matrix

namespace C01E
open Orch C07 C01O C01B C01M

variable {φ ρ ε κ β τ ω : Type} {F : Type} [Field F] [LinearOrder F] [IsStrictOrderedRing F]

/-- the factorization satisfies the exact Krylov relation at its advertised dimension (no error columns) -/
def Good {n : ℕ} (A : (Fin n → F) →ₗ[F] (Fin n → F)) (s : C07.St F (Fin n → F)) : Prop :=
  KryE A s.V s.H s.f s.k s.R ∧ s.R = fun _ => 0

theorem good_run {n : ℕ} (A : (Fin n → F) →ₗ[F] (Fin n → F)) (s : C07.St F (Fin n → F)) (l : List (C07.Step F (Fin n → F)))
    (hok : allOk A s l) (hex : allExact A s l) (h : Good A s) : Good A (C07.run A s l) :=
  ⟨run_kryE A l s hok h.1, run_R_zero A l s hex h.2⟩

theorem good_kry {n : ℕ} (A : (Fin n → F) →ₗ[F] (Fin n → F)) (s : C07.St F (Fin n → F)) (h : Good A s) : Kry A s.V s.H s.f s.k := by
  have := h.1; rw [h.2] at this; exact (kry_iff_kryE A _ _ _ _).mpr this

/-- exact-arithmetic specifications of the kernels of `K` for the operator `M` (the matrix the solver iterates on: `A` itself
    for `SymEigsSolver`, `(A - σI)⁻¹` for `SymEigsShiftSolver`) -/
structure ExactKernels (K : Kern φ ρ ε κ β τ ω) (c : Cfg) (n : ℕ) (M : Matrix (Fin n) (Fin n) F) (eps23 : F) where
  /-- interpretation of the factorization object: `V`, `H`, `f`, `k` (and C07's error columns) -/
  abs : φ → C07.St F (Fin n → F)
  /-- `m_fac.f_norm()` -/
  fnorm : φ → F
  val : ρ → F
  est : ε → F
  /-- a Ritz vector in Krylov coordinates (only the first `ncv` coordinates matter) -/
  vec : κ → ℕ → F
  out : ω → Fin n → F
  tolv : τ → F
  /-- what the derived class does to a Ritz value in `sort_ritzpair` -/
  back : F → F
  ncv_pos : 0 < c.ncv
  nev_le : c.nev ≤ c.ncv
  /-- C07 (`c07_init`): `init` hands over a valid 1-step relation, or leaves the factorization alone when it throws -/
  init_good : ∀ v0 fac, Good (opOf M) (abs fac) → Good (opOf M) (abs (K.facInit v0 fac).fac)
  /-- C07 (`c07_extend`, `c07_breakdown` with a zero residual): `factorize_from` is a sequence of exact steps -/
  factorize_steps : ∀ a b fac, ∃ l, allOk (opOf M) (abs fac) l ∧ allExact (opOf M) (abs fac) l ∧
      abs (K.factorize a b fac).fac = C07.run (opOf M) (abs fac) l
  /-- C07 + C08 (`c07_compress`, QR helpers: `H Q = Q H⁺`, bandwidth) : the restart is a sequence of exact steps -/
  restart_steps : ∀ k vals fac, ∃ l, allOk (opOf M) (abs fac) l ∧ allExact (opOf M) (abs fac) l ∧
      abs (K.restartFac k vals fac).fac = C07.run (opOf M) (abs fac) l
  /-- `c07_dim_model`: a non-throwing `factorize_from(max(1,k), ncv)` ends at dimension `ncv` -/
  factorize_full : ∀ fac, (K.factorize (max 1 (K.facDim fac)) c.ncv fac).exn = none →
      (abs (K.factorize (max 1 (K.facDim fac)) c.ncv fac).fac).k = c.ncv
  /-- a non-throwing restart ends at dimension `ncv` again -/
  restart_full : ∀ k vals fac, k < c.ncv → (K.restartFac k vals fac).exn = none → (abs (K.restartFac k vals fac).fac).k = c.ncv
  /-- `f_norm()` is the Euclidean norm of the residual vector -/
  fnorm_spec : ∀ fac, 0 ≤ fnorm fac ∧ fnorm fac * fnorm fac = nsq (abs fac).f
  /-- C09 (TridiagEigen): every returned column is an eigenvector of the projected matrix for the returned value, and the
      "estimate" is its last coordinate -/
  eig_spec : ∀ fac evals lastRow cols, K.eig fac = .ok (evals, lastRow, cols) → ∀ j, j < c.ncv →
      (∀ i, i < c.ncv → ∑ a ∈ range c.ncv, (abs fac).H i a * vec (cols.getD j K.zeroκ) a
          = val (evals.getD j K.zeroρ) * vec (cols.getD j K.zeroκ) i) ∧
      est (lastRow.getD j K.zeroε) = vec (cols.getD j K.zeroκ) (c.ncv - 1)
  /-- C18: the selection index vector has entries `< ncv` -/
  select_lt : ∀ sel evals ind, K.select sel evals c.ncv = .ok ind → ∀ i, i < c.ncv → ind.getD i 0 < c.ncv
  /-- C18: the final sort's index vector has entries `< nev` -/
  sort_lt : ∀ rule vals ind, K.sortIdx rule vals c.nev = .ok ind → ∀ i, i < c.nev → ind.getD i 0 < c.nev
  /-- `num_converged`: a set flag means `|est| * ‖f‖ < tol * max(eps^(2/3), |θ|)` -/
  conv_spec : ∀ tol fac θ e, K.convTest tol fac θ e = true → |est e| * fnorm fac < tolv tol * max eps23 |val θ|
  /-- `eigenvectors()`: `x = V y` -/
  assemble_spec : ∀ fac y, out (K.assemble fac y) = ∑ j ∈ range c.ncv, vec y j • (abs fac).V j
  /-- the back-transformation acts entry by entry -/
  back_spec : ∀ l : List ρ, l.length = c.nev → (K.backTransform l).length = c.nev ∧
      ∀ i, i < c.nev → val ((K.backTransform l).getD i K.zeroρ) = back (val (l.getD i K.zeroρ))

variable {K : Kern φ ρ ε κ β τ ω} {c : Cfg} {n : ℕ} {M : Matrix (Fin n) (Fin n) F} {eps23 : F}

/-- `Good` is kept by each factorization kernel -/
theorem ExactKernels.factorize_good (X : ExactKernels K c n M eps23) (a b : Nat) (fac : φ) (h : Good (opOf M) (X.abs fac)) :
    Good (opOf M) (X.abs (K.factorize a b fac).fac) := by
  obtain ⟨l, hok, hex, he⟩ := X.factorize_steps a b fac
  rw [he]; exact good_run _ _ l hok hex h

theorem ExactKernels.restart_good (X : ExactKernels K c n M eps23) (k : Nat) (vals : List ρ) (fac : φ) (h : Good (opOf M) (X.abs fac)) :
    Good (opOf M) (X.abs (K.restartFac k vals fac).fac) := by
  obtain ⟨l, hok, hex, he⟩ := X.restart_steps k vals fac
  rw [he]; exact good_run _ _ l hok hex h

/-- the Krylov relation at full dimension -/
def Full (X : ExactKernels K c n M eps23) (fac : φ) : Prop := Good (opOf M) (X.abs fac) ∧ (X.abs fac).k = c.ncv

theorem getD_map_range {α : Type} (g : Nat → α) (d : α) (N i : Nat) (h : i < N) :
    ((List.range N).map g).getD i d = g i := by
  simp [List.getD_eq_getElem?_getD, h]

theorem mapHead_getD {α : Type} (k : Nat) (f : List α → List α) (l : List α) (d : α) (j : Nat) (hj : j < k)
    (hf : (f (l.take k)).length = k) : (mapHead k f l).getD j d = (f (l.take k)).getD j d := by
  unfold mapHead
  rw [List.take_of_length_le (by omega)]
  simp [List.getD_eq_getElem?_getD, List.getElem?_append_left (show j < (f (l.take k)).length by omega)]

/-- **Core of `c01_histories`**: one `compute()` that returns normally from ANY state whose factorization satisfies the Krylov
    relation (in particular the state after any history) hands back, at every flagged position `i < nev`, a pair
    `(back ν, x)` with `‖M x - ν x‖² < (tol · max(eps23, |ν|))²`. -/
theorem compute_pairs (X : ExactKernels K c n M eps23) (sel : Int) (maxit : Nat) (tol : τ) (sorting : Int)
    (s : St φ ρ ε κ) (hs : Good (opOf M) (X.abs s.fac)) (r : Nat)
    (h : (compute K c sel maxit tol sorting s).out = .ok r) :
    ∀ i, i < c.nev → (compute K c sel maxit tol sorting s).st.ritzConv.getD i false = true →
      ∃ ν : F, X.val ((compute K c sel maxit tol sorting s).st.ritzVal.getD i K.zeroρ) = X.back ν ∧
        nsq (M *ᵥ X.out (K.assemble (compute K c sel maxit tol sorting s).st.fac
                ((compute K c sel maxit tol sorting s).st.ritzVec.getD i K.zeroκ))
             - ν • X.out (K.assemble (compute K c sel maxit tol sorting s).st.fac
                ((compute K c sel maxit tol sorting s).st.ritzVec.getD i K.zeroκ)))
          < (X.tolv tol * max eps23 |ν|) ^ 2 := by
  intro i hi hflag
  obtain ⟨s3, ind, hret, hfull, hfresh, hfac, hind, hpair⟩ :=
    compute_ok_final K c (fun fac => Good (opOf M) (X.abs fac)) (Full X)
      (fun fac hg hex => ⟨X.factorize_good _ _ fac hg, X.factorize_full fac hex⟩)
      (fun k vals fac hg hk hex => ⟨X.restart_good k vals fac hg.1, X.restart_full k vals fac hk hex⟩)
      X.nev_le sel maxit tol sorting s hs r h
  obtain ⟨hval, hvec, hconv⟩ := hpair i hi
  obtain ⟨evals, lastRow, cols, sidx, heig, hsel, hrv, hre, hrvec⟩ := hret
  -- position in the pre-sort state, and in the eigen-decomposition
  have hj : ind.getD i 0 < c.nev := X.sort_lt sorting _ ind hind i hi
  generalize hjdef : ind.getD i 0 = j at hj hval hvec hconv
  have hjc : j < c.ncv := lt_of_lt_of_le hj X.nev_le
  have hp : sidx.getD j 0 < c.ncv := X.select_lt sel evals sidx hsel j hjc
  generalize hpdef : sidx.getD j 0 = p at hp
  have e_val : s3.ritzVal.getD j K.zeroρ = evals.getD p K.zeroρ := by
    rw [hrv, getD_map_range _ _ _ _ hjc, hpdef]
  have e_est : s3.ritzEst.getD j K.zeroε = lastRow.getD p K.zeroε := by
    rw [hre, getD_map_range _ _ _ _ hjc, hpdef]
  have e_vec : s3.ritzVec.getD j K.zeroκ = cols.getD p K.zeroκ := by
    rw [hrvec, getD_map_range _ _ _ _ hj, hpdef]
  -- the flag is the convergence test on this pair
  have hflag3 : K.convTest tol s3.fac (s3.ritzVal.getD j K.zeroρ) (s3.ritzEst.getD j K.zeroε) = true := by
    rw [hflag] at hconv
    rw [hfresh] at hconv
    unfold convFlags at hconv
    rw [getD_map_range _ _ _ _ hj] at hconv
    exact hconv.symm
  obtain ⟨hHy, hest⟩ := X.eig_spec s3.fac evals lastRow cols heig p hp
  have hct := X.conv_spec tol s3.fac _ _ hflag3
  rw [e_val, e_est, hest] at hct
  -- the residual identity at full dimension
  have hK : Kry (opOf M) (X.abs s3.fac).V (X.abs s3.fac).H (X.abs s3.fac).f c.ncv := by
    have := good_kry (opOf M) _ hfull.1; rw [hfull.2] at this; exact this
  have hres := ritz_residual_nat M _ _ _ c.ncv X.ncv_pos hK (X.val (evals.getD p K.zeroρ)) (X.vec (cols.getD p K.zeroκ)) hHy
  refine ⟨X.val (evals.getD p K.zeroρ), ?_, ?_⟩
  · -- the value handed back is the back-transformed Ritz value
    rw [hval]
    have hlen : s3.ritzVal.length = c.ncv := by rw [hrv]; simp
    have htake : (s3.ritzVal.take c.nev).length = c.nev := by rw [List.length_take, hlen]; exact Nat.min_eq_left X.nev_le
    obtain ⟨hbl, hbv⟩ := X.back_spec (s3.ritzVal.take c.nev) htake
    rw [mapHead_getD c.nev K.backTransform s3.ritzVal K.zeroρ j hj hbl, hbv j hj]
    congr 2
    rw [← e_val]
    simp [List.getD_eq_getElem?_getD, List.getElem?_take, hj]
  · rw [hfac, hvec, e_vec, X.assemble_spec, hres, nsq_smul]
    obtain ⟨hn0, hn1⟩ := X.fnorm_spec s3.fac
    exact sq_bound _ _ _ _ hn0 hn1 hct

end C01E
