/-
  Lemmas for C15 (Davidson): Gram matrix of Ritz vectors, exit invariant with the full cache, DPR correction over a field.
-/
import SpectraVerif.Proofs.C15Lemmas
import SpectraVerif.Proofs.C15Loop
import Mathlib.Algebra.BigOperators.Group.List.Basic
import Mathlib.Algebra.Field.Basic
import Mathlib.Tactic.Ring
import Mathlib.Tactic.FieldSimp

namespace C15L
open Dav

variable {R M : Type} [CommRing R] [AddCommGroup M] [Module R M]
set_option linter.unusedSectionVars false
variable {K : Kern R M} {A : M →ₗ[R] M}

/-! ### `lincomb` as a sum -/

theorem foldl_acc (hL : Linear K A) (l : List (R × M)) (a : M) :
    l.foldl (fun acc cv => K.add acc (K.smul cv.1 cv.2)) a = a + l.foldl (fun acc cv => K.add acc (K.smul cv.1 cv.2)) 0 := by
  induction l generalizing a with
  | nil => simp
  | cons x xs ih =>
    simp only [List.foldl_cons]
    rw [ih, ih (K.add 0 _), hL.add, hL.add, hL.smul, zero_add, add_assoc]

theorem lincomb_cons (hL : Linear K A) (c : R) (cs : List R) (v : M) (vs : List M) :
    lincomb K (c :: cs) (v :: vs) = c • v + lincomb K cs vs := by
  unfold lincomb
  simp only [List.zip_cons_cons, List.foldl_cons]
  rw [hL.zero, foldl_acc hL, hL.add, hL.smul, zero_add]

theorem lincomb_nil_right (hL : Linear K A) (cs : List R) : lincomb K cs ([] : List M) = 0 := by
  unfold lincomb; simp [hL.zero]

theorem lincomb_nil_left (hL : Linear K A) (vs : List M) : lincomb K ([] : List R) vs = 0 := by
  unfold lincomb; simp [hL.zero]

/-! ### symmetric bilinear form, orthonormal lists, Gram lemma -/

/-- a symmetric bilinear form on `M` (e.g. the Euclidean dot product of `Fin n → R`) -/
structure IsSymBilin (ip : M → M → R) : Prop where
  add_left : ∀ u v w, ip (u + v) w = ip u w + ip v w
  smul_left : ∀ (c : R) u w, ip (c • u) w = c * ip u w
  symm : ∀ u v, ip u v = ip v u

theorem IsSymBilin.zero_left {ip : M → M → R} (h : IsSymBilin ip) (w : M) : ip 0 w = 0 := by
  have := h.smul_left 0 0 w; simpa using this
theorem IsSymBilin.zero_right {ip : M → M → R} (h : IsSymBilin ip) (w : M) : ip w 0 = 0 := by
  rw [h.symm]; exact h.zero_left w
theorem IsSymBilin.add_right {ip : M → M → R} (h : IsSymBilin ip) (u v w : M) : ip w (u + v) = ip w u + ip w v := by
  rw [h.symm, h.add_left, h.symm u, h.symm v]
theorem IsSymBilin.smul_right {ip : M → M → R} (h : IsSymBilin ip) (c : R) (u w : M) : ip w (c • u) = c * ip w u := by
  rw [h.symm, h.smul_left, h.symm]

/-- mutually orthogonal unit vectors -/
def ON (ip : M → M → R) (B : List M) : Prop := B.Pairwise (fun u v => ip u v = 0) ∧ ∀ u ∈ B, ip u u = 1

/-- Euclidean dot product of two coefficient lists -/
def sdot (ys zs : List R) : R := (List.zipWith (· * ·) ys zs).sum

theorem ip_lincomb_zero {ip : M → M → R} (h : IsSymBilin ip) (hL : Linear K A) (u : M) (B : List M)
    (hu : ∀ v ∈ B, ip u v = 0) (zs : List R) : ip u (lincomb K zs B) = 0 := by
  induction B generalizing zs with
  | nil => rw [lincomb_nil_right hL]; exact h.zero_right u
  | cons b B ih =>
    cases zs with
    | nil => rw [lincomb_nil_left hL]; exact h.zero_right u
    | cons z zs =>
      rw [lincomb_cons hL, h.add_right, h.smul_right, hu b (List.mem_cons_self ..), ih (fun v hv => hu v (List.mem_cons_of_mem _ hv)) zs]
      simp

/-- Gram lemma: for an orthonormal basis `B`, `(B y) · (B z) = y · z` -/
theorem gram (ip : M → M → R) (h : IsSymBilin ip) (hL : Linear K A) (B : List M) (hB : ON ip B) (ys zs : List R)
    (hy : ys.length = B.length) (hz : zs.length = B.length) :
    ip (lincomb K ys B) (lincomb K zs B) = sdot ys zs := by
  induction B generalizing ys zs with
  | nil =>
    rw [lincomb_nil_right hL, h.zero_left]
    cases ys with
    | nil => simp [sdot]
    | cons _ _ => simp at hy
  | cons b B ih =>
    cases ys with
    | nil => simp at hy
    | cons y ys =>
      cases zs with
      | nil => simp at hz
      | cons z zs =>
        obtain ⟨hpw, hunit⟩ := hB
        rw [List.pairwise_cons] at hpw
        obtain ⟨hb, hpw'⟩ := hpw
        have hB' : ON ip B := ⟨hpw', fun u hu => hunit u (List.mem_cons_of_mem _ hu)⟩
        have ih' := ih hB' ys zs (by simpa using hy) (by simpa using hz)
        have e1 : ip (y • b) (z • b) = y * z := by
          rw [h.smul_left, h.smul_right, hunit b (List.mem_cons_self ..)]; ring
        have e2 : ip (y • b) (lincomb K zs B) = 0 := by
          rw [h.smul_left, ip_lincomb_zero h hL b B hb zs]; ring
        have e3 : ip (lincomb K ys B) (z • b) = 0 := by
          rw [h.smul_right, h.symm, ip_lincomb_zero h hL b B hb ys]; ring
        rw [lincomb_cons hL, lincomb_cons hL, h.add_left, h.add_right, h.add_right, e1, e2, e3, ih']
        simp only [sdot, List.zipWith_cons_cons, List.sum_cons]
        ring

/-! ### exit invariant with the full cache -/

theorem loop_invFull (hL : Linear K A) (hO : OrthKeepsLeft K) (c : Cfg) (corr : List (Pair R M) → List M) (sel : Int) (tol : R)
    (maxit fuel : Nat) (s : St R M) (h : Inv K A s) (hs : s.niter + fuel = maxit) (hf : 0 < fuel) :
    InvFull K A (loop K c corr sel tol maxit fuel s) := by
  induction fuel generalizing s with
  | zero => omega
  | succ f ih =>
    unfold loop
    have hI := iterHead_invFull hL c sel tol h
    have hfl := iterHead_fields K c sel tol s
    rcases hh : iterHead K c sel tol s with ⟨r, s1⟩
    rw [hh] at hI hfl
    simp only at hI hfl
    obtain ⟨_, hn, _, _⟩ := hfl
    match r with
    | none => exact invFull_of_pairs_subset hI rfl rfl (fun p hp => hp)
    | some true => exact invFull_of_pairs_subset hI rfl rfl (fun p hp => hp)
    | some false =>
      simp only
      split
      · exact invFull_of_pairs_subset hI rfl rfl (fun p hp => hp)
      · rename_i hne
        apply ih
        · exact inv_of_fields (extend_inv hO hI (corr s1.pairs)) rfl rfl rfl
        · simp only [extendBasis, hn]; omega
        · omega

end C15L

/-! ### DPR correction over a field -/
namespace C15L
open Dav

variable {F : Type} [Field F]

/-- coordinate form of `DavidsonSymEigsSolver::calculate_correction_vector`: `t i = r i / (θ - d i)` -/
theorem dpr_solves_iff (n : Nat) (d : Nat → F) (θ : F) :
    (∀ r : Nat → F, ∀ i < n, (θ - d i) * (r i / (θ - d i)) = r i) ↔ ∀ i < n, θ ≠ d i := by
  constructor
  · intro h i hi heq
    have := h (fun _ => 1) i hi
    rw [heq, sub_self, zero_mul] at this
    exact zero_ne_one this
  · intro h r i hi
    have : θ - d i ≠ 0 := sub_ne_zero.mpr (h i hi)
    field_simp

end C15L
