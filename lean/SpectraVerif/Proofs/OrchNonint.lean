/-
  Noninterference for the orchestration model: `init()` rebuilds everything `compute()` reads.

  `R` is a relation on factorization objects ("agree on the live part").  If every kernel respects `R` (`Respects K R`) — in
  particular `facInit` produces `R`-related results from ARBITRARY old objects — then two solver objects in arbitrary states
  (fresh, reused after any history, left half-way by an exception) behave identically from `init(v)` on.
-/
import SpectraVerif.Proofs.OrchLemmas

namespace Orch

variable {φ ρ ε κ β τ ω : Type}

/-- what it means for the kernels to read only the `R`-relevant part of the factorization object -/
structure Respects (K : Kern φ ρ ε κ β τ ω) (R : φ → φ → Prop) : Prop where
  facInit : ∀ v a b, R (K.facInit v a).fac (K.facInit v b).fac ∧ (K.facInit v a).ops = (K.facInit v b).ops ∧
    (K.facInit v a).exn = (K.facInit v b).exn
  factorize : ∀ k m a b, R a b → R (K.factorize k m a).fac (K.factorize k m b).fac ∧
    (K.factorize k m a).ops = (K.factorize k m b).ops ∧ (K.factorize k m a).exn = (K.factorize k m b).exn
  facDim : ∀ a b, R a b → K.facDim a = K.facDim b
  eig : ∀ a b, R a b → K.eig a = K.eig b
  convTest : ∀ t a b x y, R a b → K.convTest t a x y = K.convTest t b x y
  restartFac : ∀ k vals a b, R a b → R (K.restartFac k vals a).fac (K.restartFac k vals b).fac ∧
    (K.restartFac k vals a).ops = (K.restartFac k vals b).ops ∧ (K.restartFac k vals a).exn = (K.restartFac k vals b).exn
  assemble : ∀ a b x, R a b → K.assemble a x = K.assemble b x

/-- two object states that differ at most in the irrelevant part of the factorization and in `m_info` -/
structure SimSt (R : φ → φ → Prop) (s1 s2 : St φ ρ ε κ) : Prop where
  fac : R s1.fac s2.fac
  ritzVal : s1.ritzVal = s2.ritzVal
  ritzVec : s1.ritzVec = s2.ritzVec
  ritzEst : s1.ritzEst = s2.ritzEst
  ritzConv : s1.ritzConv = s2.ritzConv
  nmatop : s1.nmatop = s2.nmatop
  niter : s1.niter = s2.niter

variable (K : Kern φ ρ ε κ β τ ω) (c : Cfg) {R : φ → φ → Prop} (hK : Respects K R)
include hK

/-- `init(v)` from ANY two states gives similar states and the same outcome -/
theorem init_sim (v0 : β) (s1 s2 : St φ ρ ε κ) :
    SimSt R (init K c v0 s1).1 (init K c v0 s2).1 ∧ (init K c v0 s1).2 = (init K c v0 s2).2 := by
  obtain ⟨h1, h2, h3⟩ := hK.facInit v0 s1.fac s2.fac
  refine ⟨⟨?_, rfl, rfl, rfl, rfl, ?_, rfl⟩, ?_⟩
  · exact h1
  · simp [init, h2]
  · simp [init, h3]

theorem retrieve_sim (sel : Int) (s1 s2 : St φ ρ ε κ) (h : SimSt R s1 s2) :
    SimSt R (retrieve K c sel s1).1 (retrieve K c sel s2).1 ∧ (retrieve K c sel s1).2 = (retrieve K c sel s2).2 := by
  obtain ⟨f1, rv1, rvec1, rest1, rconv1, nm1, ni1, info1⟩ := s1
  obtain ⟨f2, rv2, rvec2, rest2, rconv2, nm2, ni2, info2⟩ := s2
  obtain ⟨hfac, e1, e2, e3, e4, e5, e6⟩ := h
  dsimp only at hfac e1 e2 e3 e4 e5 e6
  subst e1 e2 e3 e4 e5 e6
  unfold retrieve
  dsimp only
  rw [hK.eig _ _ hfac]
  cases K.eig f2 with
  | error e => exact ⟨⟨hfac, rfl, rfl, rfl, rfl, rfl, rfl⟩, rfl⟩
  | ok t =>
    obtain ⟨evals, lastRow, cols⟩ := t
    dsimp only
    cases K.select sel evals c.ncv with
    | error e => exact ⟨⟨hfac, rfl, rfl, rfl, rfl, rfl, rfl⟩, rfl⟩
    | ok ind => exact ⟨⟨hfac, rfl, rfl, rfl, rfl, rfl, rfl⟩, rfl⟩

theorem restart_sim (k : Nat) (sel : Int) (s1 s2 : St φ ρ ε κ) (h : SimSt R s1 s2) :
    SimSt R (restart K c k sel s1).1 (restart K c k sel s2).1 ∧ (restart K c k sel s1).2 = (restart K c k sel s2).2 := by
  obtain ⟨f1, rv1, rvec1, rest1, rconv1, nm1, ni1, info1⟩ := s1
  obtain ⟨f2, rv2, rvec2, rest2, rconv2, nm2, ni2, info2⟩ := s2
  obtain ⟨hfac, e1, e2, e3, e4, e5, e6⟩ := h
  dsimp only at hfac e1 e2 e3 e4 e5 e6
  subst e1 e2 e3 e4 e5 e6
  unfold restart
  split
  · exact ⟨⟨hfac, rfl, rfl, rfl, rfl, rfl, rfl⟩, rfl⟩
  · dsimp only
    obtain ⟨r1, r2, r3⟩ := hK.restartFac k rv1 f1 f2 hfac
    rw [r3, r2]
    cases (K.restartFac k rv1 f2).exn with
    | some e => exact ⟨⟨r1, rfl, rfl, rfl, rfl, rfl, rfl⟩, rfl⟩
    | none => exact retrieve_sim K c hK sel _ _ ⟨r1, rfl, rfl, rfl, rfl, rfl, rfl⟩

theorem convFlags_sim (tol : τ) (s1 s2 : St φ ρ ε κ) (h : SimSt R s1 s2) :
    convFlags K c tol s1 = convFlags K c tol s2 := by
  obtain ⟨f1, rv1, rvec1, rest1, rconv1, nm1, ni1, info1⟩ := s1
  obtain ⟨f2, rv2, rvec2, rest2, rconv2, nm2, ni2, info2⟩ := s2
  obtain ⟨hfac, e1, e2, e3, e4, e5, e6⟩ := h
  dsimp only at hfac e1 e2 e3 e4 e5 e6
  subst e1 e2 e3 e4 e5 e6
  unfold convFlags
  apply List.map_congr_left
  intro j _
  exact hK.convTest _ _ _ _ _ hfac

theorem loop_sim (sel : Int) (tol : τ) (rem i nconv nres : Nat) (s1 s2 : St φ ρ ε κ) (h : SimSt R s1 s2) :
    SimSt R (loop K c sel tol rem i nconv nres s1).st (loop K c sel tol rem i nconv nres s2).st ∧
    (loop K c sel tol rem i nconv nres s1).i = (loop K c sel tol rem i nconv nres s2).i ∧
    (loop K c sel tol rem i nconv nres s1).nconv = (loop K c sel tol rem i nconv nres s2).nconv ∧
    (loop K c sel tol rem i nconv nres s1).restarts = (loop K c sel tol rem i nconv nres s2).restarts ∧
    (loop K c sel tol rem i nconv nres s1).exn = (loop K c sel tol rem i nconv nres s2).exn := by
  induction rem generalizing i nconv nres s1 s2 with
  | zero => exact ⟨h, rfl, rfl, rfl, rfl⟩
  | succ rem ih =>
    have hcf := convFlags_sim K c hK tol s1 s2 h
    obtain ⟨f1, rv1, rvec1, rest1, rconv1, nm1, ni1, info1⟩ := s1
    obtain ⟨f2, rv2, rvec2, rest2, rconv2, nm2, ni2, info2⟩ := s2
    obtain ⟨hfac, e1, e2, e3, e4, e5, e6⟩ := h
    dsimp only at hfac e1 e2 e3 e4 e5 e6
    subst e1 e2 e3 e4 e5 e6
    unfold loop
    dsimp only
    rw [hcf]
    split
    · exact ⟨⟨hfac, rfl, rfl, rfl, rfl, rfl, rfl⟩, rfl, rfl, rfl, rfl⟩
    · have hr := restart_sim K c hK (K.nevAdj c (countTrue (convFlags K c tol ⟨f2, rv1, rvec1, rest1, rconv1, nm1, ni1, info2⟩)) rv1 rest1) sel
        ⟨f1, rv1, rvec1, rest1, convFlags K c tol ⟨f2, rv1, rvec1, rest1, rconv1, nm1, ni1, info2⟩, nm1, ni1, info1⟩
        ⟨f2, rv1, rvec1, rest1, convFlags K c tol ⟨f2, rv1, rvec1, rest1, rconv1, nm1, ni1, info2⟩, nm1, ni1, info2⟩
        ⟨hfac, rfl, rfl, rfl, rfl, rfl, rfl⟩
      revert hr
      generalize restart K c _ sel ⟨f1, rv1, rvec1, rest1, _, nm1, ni1, info1⟩ = p1
      generalize restart K c _ sel ⟨f2, rv1, rvec1, rest1, _, nm1, ni1, info2⟩ = p2
      intro hr
      obtain ⟨a1, g1⟩ := p1
      obtain ⟨a2, g2⟩ := p2
      dsimp only at hr
      obtain ⟨hr1, hr2⟩ := hr
      subst hr2
      cases g1 with
      | some e => exact ⟨hr1, rfl, rfl, rfl, rfl⟩
      | none => exact ih _ _ _ a1 a2 hr1

theorem refresh_sim (tol : τ) (maxit : Nat) (L1 L2 : LoopRes φ ρ ε κ) (h : SimSt R L1.st L2.st) (hi : L1.i = L2.i)
    (hn : L1.nconv = L2.nconv) :
    SimSt R (refresh K c tol maxit L1).1 (refresh K c tol maxit L2).1 ∧ (refresh K c tol maxit L1).2 = (refresh K c tol maxit L2).2 := by
  unfold refresh
  rw [hi, convFlags_sim K c hK tol _ _ h]
  split
  · exact ⟨⟨h.fac, h.ritzVal, h.ritzVec, h.ritzEst, rfl, h.nmatop, h.niter⟩, rfl⟩
  · exact ⟨h, hn⟩

omit hK in
theorem sortRitz_sim (rule : Int) (s1 s2 : St φ ρ ε κ) (h : SimSt R s1 s2) :
    SimSt R (sortRitz K c rule s1).1 (sortRitz K c rule s2).1 ∧ (sortRitz K c rule s1).2 = (sortRitz K c rule s2).2 := by
  obtain ⟨f1, rv1, rvec1, rest1, rconv1, nm1, ni1, info1⟩ := s1
  obtain ⟨f2, rv2, rvec2, rest2, rconv2, nm2, ni2, info2⟩ := s2
  obtain ⟨hfac, e1, e2, e3, e4, e5, e6⟩ := h
  dsimp only at hfac e1 e2 e3 e4 e5 e6
  subst e1 e2 e3 e4 e5 e6
  unfold sortRitz
  dsimp only
  cases K.sortIdx rule (mapHead c.nev K.backTransform rv1) c.nev with
  | error e => exact ⟨⟨hfac, rfl, rfl, rfl, rfl, rfl, rfl⟩, rfl⟩
  | ok ind => exact ⟨⟨hfac, rfl, rfl, rfl, rfl, rfl, rfl⟩, rfl⟩

/-- `compute` maps similar states to similar states with identical outcome, loop counter and restart count;
    on a normal return `m_info` is identical too -/
theorem compute_sim (sel : Int) (maxit : Nat) (tol : τ) (sorting : Int) (s1 s2 : St φ ρ ε κ) (h : SimSt R s1 s2) :
    SimSt R (compute K c sel maxit tol sorting s1).st (compute K c sel maxit tol sorting s2).st ∧
    (compute K c sel maxit tol sorting s1).out = (compute K c sel maxit tol sorting s2).out ∧
    (compute K c sel maxit tol sorting s1).i = (compute K c sel maxit tol sorting s2).i ∧
    (compute K c sel maxit tol sorting s1).restarts = (compute K c sel maxit tol sorting s2).restarts ∧
    (∀ r, (compute K c sel maxit tol sorting s2).out = .ok r →
      (compute K c sel maxit tol sorting s1).st.info = (compute K c sel maxit tol sorting s2).st.info) := by
  obtain ⟨f1, rv1, rvec1, rest1, rconv1, nm1, ni1, info1⟩ := s1
  obtain ⟨f2, rv2, rvec2, rest2, rconv2, nm2, ni2, info2⟩ := s2
  obtain ⟨hfac, e1, e2, e3, e4, e5, e6⟩ := h
  dsimp only at hfac e1 e2 e3 e4 e5 e6
  subst e1 e2 e3 e4 e5 e6
  unfold compute
  dsimp only
  rw [hK.facDim f1 f2 hfac]
  generalize max 1 (K.facDim f2) = k0
  obtain ⟨q1, q2, q3⟩ := hK.factorize k0 c.ncv f1 f2 hfac
  rw [q3, q2]
  cases (K.factorize k0 c.ncv f2).exn with
  | some e => exact ⟨⟨q1, rfl, rfl, rfl, rfl, rfl, rfl⟩, rfl, rfl, rfl, by intro r hr; cases hr⟩
  | none =>
    dsimp only
    have hr := retrieve_sim K c hK sel
      ⟨(K.factorize k0 c.ncv f1).fac, rv1, rvec1, rest1, rconv1, nm1 + (K.factorize k0 c.ncv f2).ops, ni1, info1⟩
      ⟨(K.factorize k0 c.ncv f2).fac, rv1, rvec1, rest1, rconv1, nm1 + (K.factorize k0 c.ncv f2).ops, ni1, info2⟩
      ⟨q1, rfl, rfl, rfl, rfl, rfl, rfl⟩
    revert hr
    generalize retrieve K c sel ⟨(K.factorize k0 c.ncv f1).fac, rv1, rvec1, rest1, rconv1, _, ni1, info1⟩ = p1
    generalize retrieve K c sel ⟨(K.factorize k0 c.ncv f2).fac, rv1, rvec1, rest1, rconv1, _, ni1, info2⟩ = p2
    intro hr
    obtain ⟨a1, g1⟩ := p1
    obtain ⟨a2, g2⟩ := p2
    dsimp only at hr
    obtain ⟨hr1, hr2⟩ := hr
    subst hr2
    cases g1 with
    | some e => exact ⟨hr1, rfl, rfl, rfl, by intro r hr; cases hr⟩
    | none =>
      dsimp only
      obtain ⟨l1, l2, l3, l4, l5⟩ := loop_sim K c hK sel tol maxit 0 0 0 a1 a2 hr1
      rw [l5]
      cases (loop K c sel tol maxit 0 0 0 a2).exn with
      | some e => exact ⟨l1, rfl, l2, l4, by intro r hr; cases hr⟩
      | none =>
        dsimp only
        obtain ⟨m1, m2⟩ := refresh_sim K c hK tol maxit _ _ l1 l2 l3
        have hq := sortRitz_sim K c sorting _ _ m1
        revert hq
        generalize sortRitz K c sorting (refresh K c tol maxit (loop K c sel tol maxit 0 0 0 a1)).1 = w1
        generalize sortRitz K c sorting (refresh K c tol maxit (loop K c sel tol maxit 0 0 0 a2)).1 = w2
        intro hq
        obtain ⟨b1, j1⟩ := w1
        obtain ⟨b2, j2⟩ := w2
        dsimp only at hq
        obtain ⟨hq1, hq2⟩ := hq
        subst hq2
        cases j1 with
        | some e => exact ⟨hq1, rfl, l2, l4, by intro r hr; cases hr⟩
        | none =>
          dsimp only
          refine ⟨⟨hq1.fac, hq1.ritzVal, hq1.ritzVec, hq1.ritzEst, hq1.ritzConv, hq1.nmatop, ?_⟩, by rw [m2], l2, l4, ?_⟩
          · dsimp only; rw [hq1.niter, l2]
          · intro r _; rw [m2]

/-- accessors agree on similar states -/
theorem accessors_sim (s1 s2 : St φ ρ ε κ) (h : SimSt R s1 s2) (nvec : Nat) :
    eigenvalues K c s1 = eigenvalues K c s2 ∧ eigenvectors K c nvec s1 = eigenvectors K c nvec s2 ∧
    s1.niter = s2.niter ∧ s1.nmatop = s2.nmatop := by
  obtain ⟨f1, rv1, rvec1, rest1, rconv1, nm1, ni1, info1⟩ := s1
  obtain ⟨f2, rv2, rvec2, rest2, rconv2, nm2, ni2, info2⟩ := s2
  obtain ⟨hfac, e1, e2, e3, e4, e5, e6⟩ := h
  dsimp only at hfac e1 e2 e3 e4 e5 e6
  subst e1 e2 e3 e4 e5 e6
  refine ⟨rfl, ?_, rfl, rfl⟩
  unfold eigenvectors eigenvectorCoords convIdx
  apply List.map_congr_left
  intro x _
  exact hK.assemble _ _ _ hfac

end Orch

namespace Orch
variable {φ ρ ε κ β τ ω : Type} (K : Kern φ ρ ε κ β τ ω) (c : Cfg)

/-- `e` is an exception that some kernel call reports (the orchestration layer has no `throw` of its own and no `catch`) -/
def Raised (e : Exn) : Prop :=
  (∃ v a, (K.facInit v a).exn = some e) ∨ (∃ k m a, (K.factorize k m a).exn = some e) ∨ (∃ a, K.eig a = .error e) ∨
  (∃ s v n, K.select s v n = .error e) ∨ (∃ k v a, (K.restartFac k v a).exn = some e) ∨ (∃ r v n, K.sortIdx r v n = .error e)

theorem retrieve_raised (sel : Int) (s : St φ ρ ε κ) (e : Exn) (h : (retrieve K c sel s).2 = some e) : Raised K e := by
  unfold retrieve at h
  split at h
  · rename_i e' he; simp at h; subst h; exact Or.inr (Or.inr (Or.inl ⟨_, he⟩))
  · split at h
    · rename_i e' he; simp at h; subst h; exact Or.inr (Or.inr (Or.inr (Or.inl ⟨_, _, _, he⟩)))
    · simp at h

theorem restart_raised (k : Nat) (sel : Int) (s : St φ ρ ε κ) (e : Exn) (h : (restart K c k sel s).2 = some e) : Raised K e := by
  unfold restart at h
  split at h
  · simp at h
  · dsimp only at h
    split at h
    · rename_i e' he; simp at h; subst h; exact Or.inr (Or.inr (Or.inr (Or.inr (Or.inl ⟨_, _, _, he⟩))))
    · exact retrieve_raised K c sel _ e h

theorem loop_raised (sel : Int) (tol : τ) (rem i nconv nres : Nat) (s : St φ ρ ε κ) (e : Exn)
    (h : (loop K c sel tol rem i nconv nres s).exn = some e) : Raised K e := by
  induction rem generalizing i nconv nres s with
  | zero => simp [loop] at h
  | succ rem ih =>
    unfold loop at h
    dsimp only at h
    split at h
    · simp at h
    · split at h
      · rename_i s2 e' heq
        simp at h; subst h
        exact restart_raised K c _ sel _ e' (by rw [heq])
      · exact ih _ _ _ _ h

/-- every exception that leaves `compute` is one a kernel reported: nothing is invented, nothing is translated -/
theorem compute_raised (sel : Int) (maxit : Nat) (tol : τ) (sorting : Int) (s : St φ ρ ε κ) (e : Exn)
    (h : (compute K c sel maxit tol sorting s).out = .error e) : Raised K e := by
  unfold compute at h
  dsimp only at h
  split at h
  · rename_i e' he; simp at h; subst h; exact Or.inr (Or.inl ⟨_, _, _, he⟩)
  · split at h
    · rename_i s2 e' hr; simp at h; subst h; exact retrieve_raised K c sel _ e' (by rw [hr])
    · split at h
      · rename_i e' hl; simp at h; subst h; exact loop_raised K c sel tol maxit 0 0 0 _ e' hl
      · split at h
        · rename_i s4 e' hs
          simp at h; subst h
          unfold sortRitz at hs
          dsimp only at hs
          split at hs
          · rename_i e'' he; simp at hs; obtain ⟨_, rfl⟩ := hs
            exact Or.inr (Or.inr (Or.inr (Or.inr (Or.inr ⟨_, _, _, he⟩))))
          · simp at hs
        · simp at h

/-- an exception in the initial factorization leaves `compute` unchanged (same object) -/
theorem compute_propagates_factorize (sel : Int) (maxit : Nat) (tol : τ) (sorting : Int) (s : St φ ρ ε κ) (e : Exn)
    (h : (K.factorize (max 1 (K.facDim s.fac)) c.ncv s.fac).exn = some e) : (compute K c sel maxit tol sorting s).out = .error e := by
  unfold compute; dsimp only; rw [h]

/-- an exception in the factorization's `init` leaves `init` unchanged -/
theorem init_propagates (v0 : β) (s : St φ ρ ε κ) : (init K c v0 s).2 = (K.facInit v0 s.fac).exn := rfl

/-- an exception raised by a restart's factorization in iteration `i` leaves the loop unchanged (no later iteration runs) -/
theorem restart_propagates (k : Nat) (sel : Int) (s : St φ ρ ε κ) (e : Exn) (hk : k < c.ncv)
    (h : (K.restartFac k s.ritzVal s.fac).exn = some e) : (restart K c k sel s).2 = some e := by
  unfold restart
  rw [if_neg (by omega)]
  dsimp only
  rw [h]

end Orch
