/-
  Lemmas about the LOBPCG bookkeeping model `Model/LOBPCG.lean` (all kernels universally quantified; only `A*`, `B*` linear).
-/
import SpectraVerif.Model.LOBPCG
import Mathlib.Algebra.Module.LinearMap.Defs
import Mathlib.Tactic.Abel

set_option linter.unusedSectionVars false

namespace Lobpcg
open List

/-! ### block algebra -/
section alg
variable {α V : Type} [CommRing α] [AddCommGroup V] [Module α V]

/-- `Σ_k c_k • v_k`, truncated at the shorter list (normal form of `lincomb 0`) -/
def sumZip : List α → List V → V
  | c :: cs, v :: vs => c • v + sumZip cs vs
  | _, _ => 0

@[simp] theorem sumZip_nil_left (vs : List V) : sumZip ([] : List α) vs = 0 := by
  cases vs <;> rfl

@[simp] theorem sumZip_nil_right (cs : List α) : sumZip cs ([] : List V) = 0 := by
  cases cs <;> rfl

@[simp] theorem sumZip_cons (c : α) (cs : List α) (v : V) (vs : List V) :
    sumZip (c :: cs) (v :: vs) = c • v + sumZip cs vs := rfl

theorem lincombGo_eq (acc : V) (cs : List α) (vs : List V) : lincombGo acc cs vs = acc + sumZip cs vs := by
  induction cs generalizing acc vs with
  | nil => simp [lincombGo]
  | cons c cs ih =>
    cases vs with
    | nil => simp [lincombGo]
    | cons v vs => simp only [lincombGo, ih, sumZip_cons, add_assoc]

theorem lincomb_zero_eq (cs : List α) (vs : List V) : lincomb (0 : V) cs vs = sumZip cs vs := by
  cases cs with
  | nil => simp [lincomb]
  | cons c cs =>
    cases vs with
    | nil => simp [lincomb]
    | cons v vs => simp only [lincomb, lincombGo_eq, sumZip_cons]

theorem mulCoef_zero_eq (M : List V) (C : List (List α)) : mulCoef (0 : V) M C = C.map (fun c => sumZip c M) := by
  unfold mulCoef; simp only [lincomb_zero_eq]

variable {W : Type} [AddCommGroup W] [Module α W]

theorem map_sumZip (f : V → W) (hf : IsLinearMap α f) (cs : List α) (vs : List V) :
    f (sumZip cs vs) = sumZip cs (vs.map f) := by
  induction cs generalizing vs with
  | nil => simp [show f 0 = 0 from (hf.mk' f).map_zero]
  | cons c cs ih =>
    cases vs with
    | nil => simp [show f 0 = 0 from (hf.mk' f).map_zero]
    | cons v vs => simp only [sumZip_cons, List.map_cons, hf.map_add, hf.map_smul, ih]

theorem map_mulCoef (f : V → W) (hf : IsLinearMap α f) (M : List V) (C : List (List α)) :
    (mulCoef (0 : V) M C).map f = mulCoef (0 : W) (M.map f) C := by
  simp only [mulCoef_zero_eq, List.map_map]
  apply List.map_congr_left
  intro c _
  exact map_sumZip f hf c M

theorem map_addB (f : V → W) (hf : ∀ x y, f (x + y) = f x + f y) (M N : List V) :
    (addB M N).map f = addB (M.map f) (N.map f) := by
  unfold addB
  induction M generalizing N with
  | nil => simp
  | cons m M ih =>
    cases N with
    | nil => simp
    | cons n N => simp only [List.zipWith_cons_cons, List.map_cons, hf, ih]

theorem map_removeColsFrom {V W : Type} (f : V → W) (i : Nat) (del : List Nat) (M : List V) :
    removeColsFrom i del (M.map f) = (removeColsFrom i del M).map f := by
  induction M generalizing i with
  | nil => rfl
  | cons m M ih =>
    simp only [List.map_cons, removeColsFrom]
    split
    · exact ih _
    · simp only [List.map_cons, ih]

theorem map_removeCols {V W : Type} (f : V → W) (del : List Nat) (M : List V) :
    removeCols (M.map f) del = (removeCols M del).map f := map_removeColsFrom f 0 del M

theorem residual_getElem? (a b : List V) (t : List α) (i : Nat) (ai bi : V) (ti : α)
    (ha : a[i]? = some ai) (hb : b[i]? = some bi) (ht : t[i]? = some ti) :
    (residual a b t)[i]? = some (ai - ti • bi) := by
  induction a generalizing b t i with
  | nil => simp at ha
  | cons a0 as ih =>
    cases b with
    | nil => simp at hb
    | cons b0 bs =>
      cases t with
      | nil => simp at ht
      | cons t0 ts =>
        cases i with
        | zero =>
          simp only [List.getElem?_cons_zero, Option.some.injEq] at ha hb ht
          subst ha hb ht; simp [residual]
        | succ i =>
          simp only [List.getElem?_cons_succ] at ha hb ht
          simp only [residual, List.getElem?_cons_succ]
          exact ih bs ts i ha hb ht

theorem residual_length (a b : List V) (t : List α) :
    (residual a b t).length = min a.length (min b.length t.length) := by
  induction a generalizing b t with
  | nil => simp [residual]
  | cons a0 as ih =>
    cases b with
    | nil => simp [residual]
    | cons b0 bs =>
      cases t with
      | nil => simp [residual]
      | cons t0 ts => simp only [residual, List.length_cons, ih]; omega

/-! ### the update `X*C_X + R*C_R + D*C_D` is `[X R D] * C` -/

theorem sumZip_take (cs : List α) (vs : List V) : sumZip (cs.take vs.length) vs = sumZip cs vs := by
  induction cs generalizing vs with
  | nil => simp
  | cons c cs ih =>
    cases vs with
    | nil => simp
    | cons v vs => simp only [List.length_cons, List.take_succ_cons, sumZip_cons, ih]

theorem sumZip_append (cs : List α) (X Y : List V) :
    sumZip cs (X ++ Y) = sumZip cs X + sumZip (cs.drop X.length) Y := by
  induction X generalizing cs with
  | nil => simp
  | cons x X ih =>
    cases cs with
    | nil => simp
    | cons c cs => simp only [List.cons_append, sumZip_cons, List.length_cons, List.drop_succ_cons, ih, add_assoc]

theorem addB_map_map {γ : Type} (f g : γ → V) (C : List γ) :
    addB (C.map f) (C.map g) = C.map (fun c => f c + g c) := by
  unfold addB
  induction C with
  | nil => rfl
  | cons c C ih => simp only [List.map_cons, List.zipWith_cons_cons, ih]

theorem mulCoef_rowsOf (M : List V) (C : List (List α)) (start : Nat) :
    mulCoef (0 : V) M (rowsOf C start M.length) = C.map (fun col => sumZip (col.drop start) M) := by
  rw [mulCoef_zero_eq]
  unfold rowsOf
  rw [List.map_map]
  apply List.map_congr_left
  intro col _
  exact sumZip_take _ _

/-- three-block update (iterations ≥ 1) -/
theorem update_concat3 (X R D : List V) (C : List (List α)) :
    addB (mulCoef (0 : V) X (rowsOf C 0 X.length))
        (addB (mulCoef (0 : V) R (rowsOf C X.length R.length))
              (mulCoef (0 : V) D (rowsOf C (X.length + R.length) D.length))) =
      mulCoef (0 : V) (X ++ R ++ D) C := by
  rw [mulCoef_rowsOf, mulCoef_rowsOf, mulCoef_rowsOf, addB_map_map, addB_map_map, mulCoef_zero_eq]
  apply List.map_congr_left
  intro col _
  simp only [List.drop_zero, sumZip_append, List.length_append, add_assoc]

/-- two-block update (iteration 0: no directions yet) -/
theorem update_concat2 (X R : List V) (C : List (List α)) :
    addB (mulCoef (0 : V) X (rowsOf C 0 X.length)) (mulCoef (0 : V) R (rowsOf C X.length R.length)) =
      mulCoef (0 : V) (X ++ R) C := by
  rw [mulCoef_rowsOf, mulCoef_rowsOf, addB_map_map, mulCoef_zero_eq]
  apply List.map_congr_left
  intro col _
  simp only [List.drop_zero, sumZip_append]

/-! ### bilinear forms on linear combinations -/

/-- `b : V → V → α` is bilinear -/
structure IsBilin (b : V → V → α) : Prop where
  add_left : ∀ x y z, b (x + y) z = b x z + b y z
  smul_left : ∀ (a : α) x z, b (a • x) z = a * b x z
  add_right : ∀ x y z, b x (y + z) = b x y + b x z
  smul_right : ∀ (a : α) x y, b x (a • y) = a * b x y

theorem IsBilin.ofLinearMap (B : V →ₗ[α] V →ₗ[α] α) : IsBilin (fun x y => B x y) where
  add_left x y z := by simp only [map_add, LinearMap.add_apply]
  smul_left a x z := by simp only [map_smul, LinearMap.smul_apply, smul_eq_mul]
  add_right x y z := map_add _ y z
  smul_right a x y := by simp only [map_smul, smul_eq_mul]

/-- `Σ_k c_k Σ_l d_l b(S_k, T_l)` (both sums truncated like `lincomb`): the `(c, d)` entry of `Cᵀ (Sᵀ B T) D` -/
def gramForm (b : V → V → α) (S T : List V) (c d : List α) : α :=
  sumZip c (S.map (fun s => sumZip d (T.map (fun t => b s t))))

theorem bilin_sumZip (b : V → V → α) (hb : IsBilin b) (c d : List α) (S T : List V) :
    b (sumZip c S) (sumZip d T) = gramForm b S T c d := by
  unfold gramForm
  have h1 : IsLinearMap α (fun s : V => b s (sumZip d T)) :=
    ⟨fun x y => hb.add_left x y _, fun a x => by simp only [hb.smul_left, smul_eq_mul]⟩
  have e1 := map_sumZip (fun s : V => b s (sumZip d T)) h1 c S
  rw [e1]
  congr 1
  apply List.map_congr_left
  intro s _
  exact map_sumZip (fun t : V => b s t)
    ⟨fun x y => hb.add_right s x y, fun a x => by simp only [hb.smul_right, smul_eq_mul]⟩ d T

/-- B-orthonormality of the new block from orthonormality of the coefficient columns w.r.t. the Gram matrix of the basis -/
theorem borth_mulCoef (b : V → V → α) (hb : IsBilin b) (S : List V) (C : List (List α))
    (h : ∀ i j (hi : i < C.length) (hj : j < C.length), gramForm b S S C[i] C[j] = if i = j then 1 else 0)
    (i j : Nat) (hi : i < (mulCoef (0 : V) S C).length) (hj : j < (mulCoef (0 : V) S C).length) :
    b (mulCoef (0 : V) S C)[i] (mulCoef (0 : V) S C)[j] = if i = j then 1 else 0 := by
  have hi' : i < C.length := by simpa [mulCoef] using hi
  have hj' : j < C.length := by simpa [mulCoef] using hj
  have ei : (mulCoef (0 : V) S C)[i] = sumZip C[i] S := by simp [mulCoef_zero_eq]
  have ej : (mulCoef (0 : V) S C)[j] = sumZip C[j] S := by simp [mulCoef_zero_eq]
  rw [ei, ej, bilin_sumZip b hb]
  exact h i j hi' hj'

end alg

/-! ### `sort_epairs` and shapes -/
section shapes
variable {α β V : Type}

theorem insertKey_length_le (lt : α → α → Bool) (k : α) (v : β) (m : List (α × β)) :
    (insertKey lt k v m).length ≤ m.length + 1 := by
  induction m with
  | nil => simp [insertKey]
  | cons p m ih =>
    obtain ⟨k', v'⟩ := p
    unfold insertKey
    split
    · simp
    · split
      · simp only [List.length_cons]; omega
      · simp

theorem foldl_insertKey_length_le (lt : α → α → Bool) (ps : List (α × β)) (m : List (α × β)) :
    (ps.foldl (fun m p => insertKey lt p.1 p.2 m) m).length ≤ m.length + ps.length := by
  induction ps generalizing m with
  | nil => simp
  | cons p ps ih =>
    simp only [List.foldl_cons, List.length_cons]
    have h1 := ih (insertKey lt p.1 p.2 m)
    have h2 := insertKey_length_le lt p.1 p.2 m
    omega

/-- `sort_epairs` keeps the number of eigenvalues and of coefficient columns (when they agree, as they do in the code) -/
theorem sortEpairs_length (lt : α → α → Bool) (θ : List α) (C : List β) (h : θ.length = C.length) :
    (sortEpairs lt θ C).1.length = θ.length ∧ (sortEpairs lt θ C).2.length = C.length := by
  unfold sortEpairs
  simp only []
  have := foldl_insertKey_length_le lt (θ.zip C) []
  simp only [List.length_nil, List.length_zip, Nat.zero_add] at this
  simp only [List.length_append, List.length_map, List.length_drop]
  omega

@[simp] theorem length_mulCoef [Add V] [SMul α V] (z : V) (M : List V) (C : List (List α)) :
    (mulCoef z M C).length = C.length := by simp [mulCoef]

@[simp] theorem length_addB [Add V] (M N : List V) : (addB M N).length = min M.length N.length := by simp [addB]

@[simp] theorem length_rowsOf (C : List (List α)) (a b : Nat) : (rowsOf C a b).length = C.length := by simp [rowsOf]

end shapes

/-! ### the model: facts that hold for every scalar and column type (also the executable `Float` instance) -/
section modelgen
variable {α V : Type} [Add V] [Sub V] [SMul α V] (K : Kern α V) (c : Cfg)

/-- every one of the first `nev` columns of `W` exists and passes the code's norm test -/
def Passes (K : Kern α V) (c : Cfg) (t : α) (W : List V) : Prop :=
  ∀ i, i < c.nev → ∃ w, W[i]? = some w ∧ K.below t w = true

/-- a statement about both kinds of step result -/
def StepRes.Sat (P : St α V → Loc V → Prop) (Q : St α V → Loc V → Exit → Prop) : StepRes α V → Prop
  | .cont s l => P s l
  | .stop s l e => Q s l e

/-- invariant rule for the iteration loop -/
theorem StepRes.Sat.imp {P P' : St α V → Loc V → Prop} {Q Q' : St α V → Loc V → Exit → Prop} {r : StepRes α V}
    (h : r.Sat P Q) (hP : ∀ s l, P s l → P' s l) (hQ : ∀ s l e, Q s l e → Q' s l e) : r.Sat P' Q' := by
  cases r with
  | cont s l => exact hP s l h
  | stop s l e => exact hQ s l e h

theorem StepRes.Sat.cont {P : St α V → Loc V → Prop} {Q : St α V → Loc V → Exit → Prop} {r : StepRes α V}
    (h : r.Sat P Q) {s : St α V} {l : Loc V} (e : r = .cont s l) : P s l := by subst e; exact h

theorem StepRes.Sat.stop {P : St α V → Loc V → Prop} {Q : St α V → Loc V → Exit → Prop} {r : StepRes α V}
    (h : r.Sat P Q) {s : St α V} {l : Loc V} {x : Exit} (e : r = .stop s l x) : Q s l x := by subst e; exact h

/-- invariant rule for the iteration loop -/
theorem loop_sat (t : α) (I : St α V → Loc V → Prop) (J : St α V → Loc V → Exit → Prop)
    (hstep : ∀ iter s l, I s l → (step K c t iter s l).Sat I J)
    (hex : ∀ s l, I s l → J s l .exhausted) :
    ∀ fuel iter s l, I s l →
      J (loop K c t fuel iter s l).1 (loop K c t fuel iter s l).2.1 (loop K c t fuel iter s l).2.2 := by
  intro fuel
  induction fuel with
  | zero => intro iter s l h; exact hex s l h
  | succ fuel ih =>
    intro iter s l h
    have hs := hstep iter s l h
    unfold loop
    cases hr : step K c t iter s l with
    | cont s' l' => rw [hr] at hs; exact ih (iter + 1) s' l' hs
    | stop s' l' e => rw [hr] at hs; exact hs

/-- the one unfolding of `compute`: some number of loop passes from the state after the initial phase, then either the
    exception exit (state as the loop left it) or `finalize` -/
theorem compute_cases (maxit : Int) (tol : α) (s0 : St α V) :
    ∃ fuel, (fuel = if (initPhase K (reset s0)).2.2 then min c.n maxit.toNat else 0) ∧
      (compute K c maxit tol s0).l = (loop K c (K.tolL2 tol c.n) fuel 0 (initPhase K (reset s0)).1 (initPhase K (reset s0)).2.1).2.1 ∧
      (compute K c maxit tol s0).exit = (loop K c (K.tolL2 tol c.n) fuel 0 (initPhase K (reset s0)).1 (initPhase K (reset s0)).2.1).2.2 ∧
      (compute K c maxit tol s0).initOk = (initPhase K (reset s0)).2.2 ∧
      (((∃ i, (compute K c maxit tol s0).exit = .rrThrew i) ∧ (compute K c maxit tol s0).threw = true ∧
          (compute K c maxit tol s0).s = (loop K c (K.tolL2 tol c.n) fuel 0 (initPhase K (reset s0)).1 (initPhase K (reset s0)).2.1).1) ∨
       ((∀ i, (compute K c maxit tol s0).exit ≠ .rrThrew i) ∧ (compute K c maxit tol s0).threw = false ∧
          (compute K c maxit tol s0).s = finalize K c (K.tolL2 tol c.n)
            (loop K c (K.tolL2 tol c.n) fuel 0 (initPhase K (reset s0)).1 (initPhase K (reset s0)).2.1).1
            (loop K c (K.tolL2 tol c.n) fuel 0 (initPhase K (reset s0)).1 (initPhase K (reset s0)).2.1).2.1)) := by
  refine ⟨_, rfl, ?_⟩
  unfold compute
  simp only []
  split
  · rename_i i he
    exact ⟨rfl, rfl, rfl, Or.inl ⟨⟨i, he⟩, rfl, rfl⟩⟩
  · rename_i hne
    refine ⟨rfl, rfl, rfl, Or.inr ⟨?_, ?_, ?_⟩⟩
    · intro i hi
      exact hne i hi
    · rfl
    · rfl

/-- the value of `m_info` when the loop is left through exit `e`, `i0` being its value before -/
def exitInfo (e : Exit) (i0 : EInfo) : EInfo :=
  match e with
  | .converged _ => .success
  | .orthRFailed _ => .numericalIssue
  | .orthDFailed _ => .numericalIssue
  | .gramFailed _ => .numericalIssue
  | .rrFailed _ => .noConvergence
  | .rrThrew _ => i0
  | .exhausted => i0

theorem step_info (t : α) (iter : Nat) (s : St α V) (l : Loc V) :
    (step K c t iter s l).Sat (fun s' _ => s'.info = s.info)
      (fun s' l' e => s'.info = exitInfo e s.info ∧
        (∀ i, e = .converged i → c.nev - (delCols K c t (residual l'.AX l'.BX s'.evals)).length = 0)) := by
  unfold step
  simp only []
  repeat' split
  all_goals simp only [StepRes.Sat, exitInfo, true_and, reduceCtorEq, false_imp_iff, implies_true]
  intro _ _; assumption

theorem filter_range_length_eq (p : Nat → Bool) (n : Nat) :
    ((List.range n).filter p).length = n ↔ ∀ i, i < n → p i = true := by
  constructor
  · intro h i hi
    have h1 : ((List.range n).filter p).length = (List.range n).length := by simpa using h
    have h2 := List.length_filter_eq_length_iff.mp h1
    exact h2 i (List.mem_range.mpr hi)
  · intro h
    have : ((List.range n).filter p).length = (List.range n).length :=
      List.length_filter_eq_length_iff.mpr (fun i hi => h i (List.mem_range.mp hi))
    simpa using this

theorem filter_range_length_le (p : Nat → Bool) (n : Nat) : ((List.range n).filter p).length ≤ n := by
  have := List.length_filter_le p (List.range n)
  simpa using this

theorem sub_filter_range_zero_iff (p : Nat → Bool) (n : Nat) :
    n - ((List.range n).filter p).length = 0 ↔ ∀ i, i < n → p i = true := by
  rw [← filter_range_length_eq]
  have := filter_range_length_le p n
  omega

/-- the block size computed by `checkConvergence_getBlocksize` is 0 exactly when all `nev` columns pass the test -/
theorem blockSize_zero_iff (t : α) (W : List V) : c.nev - (delCols K c t W).length = 0 ↔ Passes K c t W := by
  unfold delCols Passes
  rw [sub_filter_range_zero_iff]
  constructor
  · intro h i hi
    have := h i hi
    split at this
    · rename_i w hw; exact ⟨w, hw, this⟩
    · cases this
  · intro h i hi
    obtain ⟨w, hw, hb⟩ := h i hi
    simp only [hw, hb]

theorem finalize_frame (t : α) (s : St α V) (l : Loc V) :
    (finalize K c t s l).X = s.X ∧ (finalize K c t s l).evals = s.evals ∧ (finalize K c t s l).evecs = s.evecs ∧
    (finalize K c t s l).resid = residual l.AX l.BX s.evals := by
  unfold finalize; simp only []; split <;> exact ⟨rfl, rfl, rfl, rfl⟩

theorem finalize_info (t : α) (s : St α V) (l : Loc V) :
    (Passes K c t (residual l.AX l.BX s.evals) →
      (finalize K c t s l).info = if K.borth s.X l.BX then .success else .numericalIssue) ∧
    (¬ Passes K c t (residual l.AX l.BX s.evals) → (finalize K c t s l).info = s.info) := by
  unfold finalize; simp only []
  have hb := blockSize_zero_iff K c t (residual l.AX l.BX s.evals)
  constructor
  · intro h; rw [if_pos (hb.mpr h)]
  · intro h; rw [if_neg (fun h' => h (hb.mp h'))]

theorem initPhase_info (s0 : St α V) :
    ((initPhase K s0).2.2 = true → (initPhase K s0).1.info = s0.info) ∧
    ((initPhase K s0).1.info = s0.info ∨ (initPhase K s0).1.info = .numericalIssue ∨
      (initPhase K s0).1.info = .noConvergence) := by
  unfold initPhase
  simp only []
  repeat' split
  all_goals simp_all

theorem initPhase_ok_iff (s0 : St α V) :
    (initPhase K s0).2.2 = true ↔
      ∃ X', K.orth .initX s0.X (s0.X.map K.applyB) = some X' ∧ (K.eig0 X' (X'.map K.applyA)).isSome := by
  unfold initPhase
  simp only []
  repeat' split
  all_goals simp_all

/-- accepted by the inner solver's constructor ⇔ `1 ≤ nev ≤ rows - 1`: with `ncv = min(10, rows - 1)`, replaced by
    `min(rows, 2 nev)` when that is `≤ nev`, the conditions `nev < ncv ≤ rows` hold whenever the pencil has more rows than `nev` -/
theorem innerGuard_iff (nev rows : Nat) : innerGuard nev rows = true ↔ 1 ≤ nev ∧ nev + 1 ≤ rows := by
  unfold innerGuard innerNcv Gen.Guard.herm_ctor_rvalue
  simp only [Bool.or_eq_true, decide_eq_true_eq]
  by_cases hc : min 10 ((rows : Int) - 1) ≤ (nev : Int)
  · rw [if_pos hc]
    constructor
    · intro h
      split at h
      · exact absurd h (by decide)
      · split at h
        · exact absurd h (by decide)
        · omega
    · intro h
      rw [if_neg (by omega), if_neg (by omega)]
      decide
  · rw [if_neg hc]
    constructor
    · intro h
      split at h
      · exact absurd h (by decide)
      · split at h
        · exact absurd h (by decide)
        · omega
    · intro h
      rw [if_neg (by omega), if_neg (by omega)]
      decide

/-- a completed iteration means the inner solver's constructor accepted `(nev, innerNcv nev rows)` on `rows = nev + bs (+ bs)` -/
theorem step_guard (t : α) (iter : Nat) (s : St α V) (l : Loc V) :
    (step K c t iter s l).Sat
      (fun _ _ => ∃ bs, 0 < bs ∧ bs ≤ c.nev ∧ innerGuard c.nev (c.nev + bs + (if iter > 0 then bs else 0)) = true)
      (fun _ _ _ => True) := by
  unfold step
  simp only []
  repeat' split
  all_goals simp only [StepRes.Sat]
  all_goals
    refine ⟨c.nev - (delCols K c t (residual l.AX l.BX s.evals)).length, by omega, by omega, ?_⟩
    apply Classical.byContradiction
    intro hn
    simp only [Bool.not_eq_true] at hn
    contradiction

/-- after a completed iteration `m_evalues`/`m_evectors` are the sorted output of the Rayleigh-Ritz kernel of THIS iteration -/
theorem step_evecs (t : α) (iter : Nat) (s : St α V) (l : Loc V) :
    (step K c t iter s l).Sat
      (fun s' _ => ∃ inp θ0 C0, K.rr inp = .ok θ0 C0 ∧ inp.iter = iter ∧ inp.X = s.X ∧ inp.evals = s.evals ∧
        s'.evals = (sortEpairs K.lt θ0 C0).1 ∧ s'.evecs = (sortEpairs K.lt θ0 C0).2)
      (fun _ _ _ => True) := by
  unfold step
  simp only []
  repeat' split
  all_goals simp only [StepRes.Sat]
  all_goals
    rename_i hg
    exact ⟨_, _, _, hg, rfl, rfl, rfl, rfl, rfl⟩

/-- the new iterate of a completed iteration, in terms of the published `m_residuals` (= the orthonormalised `R`), the
    directions `D` used and the published coefficient matrix -/
theorem step_update (t : α) (iter : Nat) (s : St α V) (l : Loc V) :
    (step K c t iter s l).Sat
      (fun s' _ => ∃ (D : List V) (bs : Nat),
        s'.X = addB (mulCoef K.zeroV s.X (rowsOf s'.evecs 0 c.nev))
          (if iter > 0 then addB (mulCoef K.zeroV s'.resid (rowsOf s'.evecs c.nev bs))
              (mulCoef K.zeroV D (rowsOf s'.evecs (c.nev + bs) bs))
            else mulCoef K.zeroV s'.resid (rowsOf s'.evecs c.nev bs)))
      (fun _ _ _ => True) := by
  unfold step
  simp only []
  repeat' split
  all_goals simp only [StepRes.Sat]
  all_goals first | exact ⟨_, _, rfl⟩ | exact ⟨[], _, rfl⟩

/-- shapes: a completed iteration leaves `nev` columns/values if the Rayleigh-Ritz kernel returns `nev` pairs; every other
    exit leaves `X`, `m_evalues`, `m_evectors` untouched -/
theorem step_shape (hrr : ∀ inp θ C, K.rr inp = .ok θ C → θ.length = c.nev ∧ C.length = c.nev)
    (t : α) (iter : Nat) (s : St α V) (l : Loc V) :
    (step K c t iter s l).Sat
      (fun s' _ => s'.X.length = c.nev ∧ s'.evals.length = c.nev ∧ s'.evecs.length = c.nev)
      (fun s' _ _ => s'.X = s.X ∧ s'.evals = s.evals ∧ s'.evecs = s.evecs) := by
  unfold step
  simp only []
  repeat' split
  all_goals simp only [StepRes.Sat, and_self]
  all_goals
    rename_i hg
    obtain ⟨h1, h2⟩ := hrr _ _ _ hg
    obtain ⟨h3, h4⟩ := sortEpairs_length K.lt _ _ (h1.trans h2.symm)
    simp only [length_addB, length_mulCoef, length_rowsOf, h3, h4, h1, h2, Nat.min_self, and_self]

theorem initPhase_shape (heig : ∀ X AX θ C, K.eig0 X AX = some (θ, C) → θ.length = c.nev ∧ C.length = c.nev)
    (s0 : St α V) (hok : (initPhase K s0).2.2 = true) :
    (initPhase K s0).1.X.length = c.nev ∧ (initPhase K s0).1.evals.length = c.nev ∧
      (initPhase K s0).1.evecs.length = c.nev := by
  revert hok
  unfold initPhase
  cases ho : K.orth .initX s0.X (s0.X.map K.applyB) with
  | none =>
    simp only []
    split <;> simp
  | some X' =>
  simp only []
  split
  · simp
  rename_i hg
  intro _
  obtain ⟨h1, h2⟩ := heig _ _ _ _ hg
  obtain ⟨h3, h4⟩ := sortEpairs_length K.lt _ _ (h1.trans h2.symm)
  simp only [length_mulCoef, h3, h4, h1, h2, and_self]

/-- `m_info` after the loop is determined by the exit, and the `converged` exit means all columns passed on the final blocks -/
theorem loop_info (t : α) (fuel iter : Nat) (s : St α V) (l : Loc V) :
    (loop K c t fuel iter s l).1.info = exitInfo (loop K c t fuel iter s l).2.2 s.info ∧
    (∀ i, (loop K c t fuel iter s l).2.2 = .converged i →
      Passes K c t (residual (loop K c t fuel iter s l).2.1.AX (loop K c t fuel iter s l).2.1.BX
        (loop K c t fuel iter s l).1.evals)) := by
  refine loop_sat K c t (fun s' _ => s'.info = s.info)
    (fun s' l' e => s'.info = exitInfo e s.info ∧
      (∀ i, e = .converged i → Passes K c t (residual l'.AX l'.BX s'.evals))) ?_ ?_ fuel iter s l rfl
  · intro it s1 l1 h1
    refine (step_info K c t it s1 l1).imp (fun s' l' h => h.trans h1) (fun s' l' e h => ⟨?_, ?_⟩)
    · rw [h.1, h1]
    · intro i hi; exact (blockSize_zero_iff K c t _).mp (h.2 i hi)
  · intro s1 l1 h1
    exact ⟨h1, fun i hi => by cases hi⟩

theorem loop_shape (hrr : ∀ inp θ C, K.rr inp = .ok θ C → θ.length = c.nev ∧ C.length = c.nev)
    (t : α) (fuel iter : Nat) (s : St α V) (l : Loc V)
    (h : s.X.length = c.nev ∧ s.evals.length = c.nev ∧ s.evecs.length = c.nev) :
    (loop K c t fuel iter s l).1.X.length = c.nev ∧ (loop K c t fuel iter s l).1.evals.length = c.nev ∧
      (loop K c t fuel iter s l).1.evecs.length = c.nev := by
  refine loop_sat K c t (fun s' _ => s'.X.length = c.nev ∧ s'.evals.length = c.nev ∧ s'.evecs.length = c.nev)
    (fun s' _ _ => s'.X.length = c.nev ∧ s'.evals.length = c.nev ∧ s'.evecs.length = c.nev) ?_ ?_ fuel iter s l h
  · intro it s1 l1 h1
    refine (step_shape K c hrr t it s1 l1).imp (fun s' l' h => h) (fun s' l' e h => ?_)
    rw [h.1, h.2.1, h.2.2]; exact h1
  · intro s1 l1 h1; exact h1

end modelgen

/-! ### the model over a commutative ring with linear `A*`, `B*` -/
section model
variable {α V : Type} [CommRing α] [AddCommGroup V] [Module α V] (K : Kern α V) (c : Cfg)

/-- the only assumptions on the kernels: `zeroV` is the zero column and `A*`, `B*` are linear -/
structure Lawful (K : Kern α V) : Prop where
  zero : K.zeroV = 0
  A : IsLinearMap α K.applyA
  B : IsLinearMap α K.applyB

/-- the tracked products are what their names say -/
def Inv (K : Kern α V) (s : St α V) (l : Loc V) : Prop :=
  l.AX = s.X.map K.applyA ∧ l.BX = s.X.map K.applyB ∧ l.AD = l.D.map K.applyA ∧ l.BD = l.D.map K.applyB

theorem initPhase_inv (hK : Lawful K) (s0 : St α V)
    (h : (K.orth .initX s0.X (s0.X.map K.applyB)).isSome) :
    Inv K (initPhase K s0).1 (initPhase K s0).2.1 := by
  unfold initPhase
  obtain ⟨X', hX'⟩ := Option.isSome_iff_exists.mp h
  simp only [hX']
  split
  · exact ⟨rfl, rfl, rfl, rfl⟩
  · simp only [Inv, hK.zero, map_mulCoef _ hK.A, map_mulCoef _ hK.B, List.map_nil, and_self]

theorem step_inv (hK : Lawful K) (t : α) (iter : Nat) (s : St α V) (l : Loc V) (h : Inv K s l) :
    (step K c t iter s l).Sat (Inv K) (fun s' l' _ => Inv K s' l') := by
  obtain ⟨h1, h2, h3, h4⟩ := h
  unfold step
  simp only []
  rcases Nat.eq_zero_or_pos iter with hi | hi
  · subst hi
    simp only [Nat.lt_irrefl, gt_iff_lt, if_false]
    repeat' split
    all_goals simp only [StepRes.Sat, Inv]
    all_goals first
      | exact ⟨h1, h2, h3, h4⟩
      | simp only [hK.zero, map_addB _ hK.A.map_add, map_addB _ hK.B.map_add, map_mulCoef _ hK.A, map_mulCoef _ hK.B,
          h1, h2, and_self]
  · simp only [gt_iff_lt, hi, if_true]
    have h3' := fun del => (congrArg (fun M => removeCols M del) h3).trans (map_removeCols K.applyA del l.D)
    have h4' := fun del => (congrArg (fun M => removeCols M del) h4).trans (map_removeCols K.applyB del l.D)
    split
    · exact ⟨h1, h2, h3, h4⟩
    split
    · exact ⟨h1, h2, h3' _, h4' _⟩
    split
    · exact ⟨h1, h2, h3' _, h4' _⟩
    rename_i l1 hl1
    have hI : l1.AX = s.X.map K.applyA ∧ l1.BX = s.X.map K.applyB ∧ l1.AD = l1.D.map K.applyA ∧
        l1.BD = l1.D.map K.applyB := by
      split at hl1
      · cases hl1
      · cases hl1; exact ⟨h1, h2, rfl, rfl⟩
    obtain ⟨g1, g2, g3, g4⟩ := hI
    repeat' split
    all_goals simp only [StepRes.Sat, Inv]
    all_goals first
      | exact ⟨g1, g2, g3, g4⟩
      | simp only [hK.zero, map_addB _ hK.A.map_add, map_addB _ hK.B.map_add, map_mulCoef _ hK.A, map_mulCoef _ hK.B,
          g1, g2, g3, g4, and_self]


end model

end Lobpcg
