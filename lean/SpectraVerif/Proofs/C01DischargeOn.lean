/-
  `ExactKernelsOn`: the exact-arithmetic kernel specifications of `C01E.ExactKernels`, RELATIVISED to an invariant `Inv : φ → Prop`
  on the factorization object that the kernels preserve AS THEY ARE CALLED by `Orch.init` / `Orch.compute`
  (helper file of Properties/C01.lean).

  `ExactKernels` asks for its specifications on EVERY factorization object, every `factorize a b`, every `restartFac k`; the real
  numeric kernels do not meet that (malformed arrays; `factorize a b` with `a <` current dimension; `restartFac 0`).  But
  `Orch.compute` only ever calls
      `K.factorize (max 1 (K.facDim s.fac)) c.ncv s.fac`                          and
      `K.restartFac k s.ritzVal s.fac`  with `k = K.nevAdj c nconv s.ritzVal s.ritzEst`, `k < c.ncv`,
  the latter on a state whose factorization came out of a non-throwing `factorize … c.ncv` or a non-throwing earlier `restartFac`
  (dimension `ncv`).  The history theorems are re-proved here under specifications that are only required on `Inv`, for exactly
  those calls.
-/
import SpectraVerif.Proofs.C01Exact
import SpectraVerif.Proofs.C01ExactOrth

set_option linter.unusedSectionVars false
set_option linter.unusedVariables false
open Finset Matrix

namespace C01E
open Orch C07 C01O C01B C01M

variable {φ ρ ε κ β τ ω : Type} {F : Type} [Field F] [LinearOrder F] [IsStrictOrderedRing F]

/-- exact-arithmetic specifications of the kernels of `K` for the operator `M`, required only on the invariant `Inv` and only for
    the calls `Orch.init` / `Orch.compute` make -/
structure ExactKernelsOn (K : Kern φ ρ ε κ β τ ω) (c : Cfg) (n : ℕ) (M : Matrix (Fin n) (Fin n) F) (eps23 : F)
    (Inv : φ → Prop) (Start : β → Prop) where
  abs : φ → C07.St F (Fin n → F)
  fnorm : φ → F
  val : ρ → F
  est : ε → F
  vec : κ → ℕ → F
  out : ω → Fin n → F
  tolv : τ → F
  back : F → F
  ncv_pos : 0 < c.ncv
  nev_le : c.nev ≤ c.ncv
  /-- on the invariant the exact Krylov relation holds at the advertised dimension -/
  inv_good : ∀ fac, Inv fac → Good (opOf M) (abs fac)
  /-- `init` with an admissible start vector keeps the invariant (also when it throws) -/
  inv_init : ∀ v0 fac, Start v0 → Inv fac → Inv (K.facInit v0 fac).fac
  /-- the one `factorize_from` call of `compute` keeps the invariant (also when it throws) -/
  inv_factorize : ∀ fac, Inv fac → Inv (K.factorize (max 1 (K.facDim fac)) c.ncv fac).fac
  /-- … and ends at dimension `ncv` when it does not throw -/
  factorize_full : ∀ fac, Inv fac → (K.factorize (max 1 (K.facDim fac)) c.ncv fac).exn = none →
      (abs (K.factorize (max 1 (K.facDim fac)) c.ncv fac).fac).k = c.ncv
  /-- a restart from a full factorization with `0 < k < ncv` keeps the invariant (also when it throws) and ends at dimension `ncv`
      when it does not throw -/
  inv_restart : ∀ k vals fac, Inv fac → (abs fac).k = c.ncv → 0 < k → k < c.ncv →
      Inv (K.restartFac k vals fac).fac ∧
      ((K.restartFac k vals fac).exn = none → (abs (K.restartFac k vals fac).fac).k = c.ncv)
  nevAdj_pos : ∀ nconv rv re, 0 < K.nevAdj c nconv rv re
  fnorm_spec : ∀ fac, Inv fac → 0 ≤ fnorm fac ∧ fnorm fac * fnorm fac = nsq (abs fac).f
  eig_spec : ∀ fac evals lastRow cols, Inv fac → (abs fac).k = c.ncv → K.eig fac = .ok (evals, lastRow, cols) → ∀ j, j < c.ncv →
      (∀ i, i < c.ncv → ∑ a ∈ range c.ncv, (abs fac).H i a * vec (cols.getD j K.zeroκ) a
          = val (evals.getD j K.zeroρ) * vec (cols.getD j K.zeroκ) i) ∧
      est (lastRow.getD j K.zeroε) = vec (cols.getD j K.zeroκ) (c.ncv - 1)
  select_lt : ∀ sel evals ind, K.select sel evals c.ncv = .ok ind → ∀ i, i < c.ncv → ind.getD i 0 < c.ncv
  sort_lt : ∀ rule vals ind, K.sortIdx rule vals c.nev = .ok ind → ∀ i, i < c.nev → ind.getD i 0 < c.nev
  conv_spec : ∀ tol fac θ e, Inv fac → K.convTest tol fac θ e = true → |est e| * fnorm fac < tolv tol * max eps23 |val θ|
  assemble_spec : ∀ fac y, Inv fac → out (K.assemble fac y) = ∑ j ∈ range c.ncv, vec y j • (abs fac).V j
  back_spec : ∀ l : List ρ, l.length = c.nev → (K.backTransform l).length = c.nev ∧
      ∀ i, i < c.nev → val ((K.backTransform l).getD i K.zeroρ) = back (val (l.getD i K.zeroρ))

/-- the `init` calls of a history use admissible start vectors -/
def StartsOk (Start : β → Prop) : List (Call β τ) → Prop
  | [] => True
  | .init v0 :: rest => Start v0 ∧ StartsOk Start rest
  | .compute _ _ _ _ :: rest => StartsOk Start rest

variable {K : Kern φ ρ ε κ β τ ω} {c : Cfg} {n : ℕ} {M : Matrix (Fin n) (Fin n) F} {eps23 : F}
  {Inv : φ → Prop} {Start : β → Prop}

/-- the invariant at full dimension: what holds after a non-throwing `factorize … ncv` and after a non-throwing restart -/
def FullOn (X : ExactKernelsOn K c n M eps23 Inv Start) (fac : φ) : Prop := Inv fac ∧ (X.abs fac).k = c.ncv

/-! ### the invariant on every path -/

/-- `restart` from a full factorization with `0 < k`, on every path: the invariant is kept; without an exception the result is
    full again -/
theorem restart_inv_on (X : ExactKernelsOn K c n M eps23 Inv Start) (k : Nat) (sel : Int) (s : St φ ρ ε κ)
    (h : Inv s.fac) (hfull : (X.abs s.fac).k = c.ncv) (hk : 0 < k) :
    Inv (restart K c k sel s).1.fac ∧
    ((restart K c k sel s).2 = none → (X.abs (restart K c k sel s).1.fac).k = c.ncv) := by
  unfold restart
  split
  · exact ⟨h, fun _ => hfull⟩
  · rename_i hk2
    obtain ⟨hi, hf⟩ := X.inv_restart k s.ritzVal s.fac h hfull hk (by omega)
    dsimp only
    split
    · rename_i e he
      exact ⟨hi, fun h => by simp at h⟩
    · rename_i he
      have := (retrieve_frame K c sel { s with fac := (K.restartFac k s.ritzVal s.fac).fac, nmatop := s.nmatop + (K.restartFac k s.ritzVal s.fac).ops }).2.2.2.2
      rw [this]; exact ⟨hi, fun _ => hf he⟩

/-- the loop from a full factorization, on every path (also when a restart or the following `retrieve` throws) -/
theorem loop_inv_on (X : ExactKernelsOn K c n M eps23 Inv Start) (sel : Int) (tol : τ) (rem i nconv nres : Nat) (s : St φ ρ ε κ)
    (h : Inv s.fac) (hfull : (X.abs s.fac).k = c.ncv) :
    Inv (loop K c sel tol rem i nconv nres s).st.fac := by
  induction rem generalizing i nconv nres s with
  | zero => simpa [loop] using h
  | succ rem ih =>
    unfold loop
    dsimp only
    split
    · exact h
    · have hr := restart_inv_on X (K.nevAdj c (countTrue (convFlags K c tol s)) s.ritzVal s.ritzEst) sel
        { s with ritzConv := convFlags K c tol s } h hfull (X.nevAdj_pos _ _ _)
      split
      · rename_i s2 e heq
        rw [heq] at hr; exact hr.1
      · rename_i s2 heq
        rw [heq] at hr
        exact ih (i + 1) _ _ s2 hr.1 (hr.2 rfl)

/-- `compute()` on EVERY path (normal return, exception at any stage) keeps the invariant -/
theorem compute_inv_on (X : ExactKernelsOn K c n M eps23 Inv Start) (sel : Int) (maxit : Nat) (tol : τ) (sorting : Int)
    (s : St φ ρ ε κ) (h : Inv s.fac) :
    Inv (compute K c sel maxit tol sorting s).st.fac := by
  have h1 : Inv (afterFactorize K c s).fac := X.inv_factorize _ h
  have h1f : (K.factorize (max 1 (K.facDim s.fac)) c.ncv s.fac).exn = none →
      (X.abs (afterFactorize K c s).fac).k = c.ncv := X.factorize_full _ h
  unfold compute
  dsimp only
  split
  · exact h1
  · rename_i hex
    have h1f := h1f hex
    have hrf := (retrieve_frame K c sel (afterFactorize K c s)).2.2.2.2
    unfold afterFactorize at hrf h1 h1f
    split
    · rename_i s2 e hr; rw [hr] at hrf; dsimp only at hrf ⊢; rw [hrf]; exact h1
    · rename_i s2 hr; rw [hr] at hrf; dsimp only at hrf
      have h2 : Inv s2.fac := by rw [hrf]; exact h1
      have h2f : (X.abs s2.fac).k = c.ncv := by rw [hrf]; exact h1f
      have h3 := loop_inv_on X sel tol maxit 0 0 0 s2 h2 h2f
      split
      · exact h3
      · have hsf := (sortRitz_frame K c sorting (refresh K c tol maxit (loop K c sel tol maxit 0 0 0 s2)).1).2.2.2
        rw [refresh_fac] at hsf
        split
        · rename_i s4 e hs; rw [hs] at hsf; dsimp only at hsf ⊢; rw [hsf]; exact h3
        · rename_i s4 hs; rw [hs] at hsf; dsimp only at hsf ⊢; rw [hsf]; exact h3

/-- … hence every history of `init()` / `compute()` calls whose `init`s use admissible start vectors keeps it -/
theorem run_inv_on (X : ExactKernelsOn K c n M eps23 Inv Start) (hist : List (Call β τ)) (hS : StartsOk Start hist)
    (s : St φ ρ ε κ) (h : Inv s.fac) : Inv (Orch.run K c s hist).fac := by
  induction hist generalizing s with
  | nil => exact h
  | cons call rest ih =>
    simp only [Orch.run, List.foldl_cons]
    cases call with
    | init v0 =>
      apply ih hS.2
      simp only [step, init]; exact X.inv_init _ _ hS.1 h
    | compute sel maxit tol sorting =>
      apply ih hS
      simp only [step]; exact compute_inv_on X sel maxit tol sorting s h

/-! ### the normal return, with the restart hypothesis only for the `k` the loop really uses -/

/-- `C01O.loop_invariant` with the restart hypothesis only required for `k = nev_adjusted(nconv)` evaluated on the state's own Ritz
    data — the only way `loop` calls `restart` -/
theorem loop_invariant_adj (sel : Int) (tol : τ) (I : St φ ρ ε κ → Prop)
    (hconv : ∀ s flags, I s → I { s with ritzConv := flags })
    (hrestart : ∀ s nconv s2, I s → restart K c (K.nevAdj c nconv s.ritzVal s.ritzEst) sel s = (s2, none) → I s2)
    (rem i nconv nres : Nat) (s : St φ ρ ε κ) (hI : I s) (hl : (loop K c sel tol rem i nconv nres s).exn = none) :
    I (loop K c sel tol rem i nconv nres s).st := by
  induction rem generalizing i nconv nres s with
  | zero => simpa [loop] using hI
  | succ rem ih =>
    unfold loop at hl ⊢
    dsimp only at hl ⊢
    split
    · exact hconv s _ hI
    · rename_i hnc
      rw [if_neg hnc] at hl
      split
      · rename_i s2 e heq
        rw [heq] at hl; simp at hl
      · rename_i s2 heq
        rw [heq] at hl
        dsimp only at hl
        exact ih (i + 1) _ _ s2
          (hrestart { s with ritzConv := convFlags K c tol s } (countTrue (convFlags K c tol s)) s2 (hconv s _ hI) heq) hl

/-- `C01O.compute_ok_final` with the restart hypothesis only required for `k` of the form `nev_adjusted(…)` -/
theorem compute_ok_final_adj (P Pfull : φ → Prop)
    (hF : ∀ fac, P fac → (K.factorize (max 1 (K.facDim fac)) c.ncv fac).exn = none →
            Pfull (K.factorize (max 1 (K.facDim fac)) c.ncv fac).fac)
    (hR : ∀ nconv rv re vals fac, Pfull fac → K.nevAdj c nconv rv re < c.ncv →
            (K.restartFac (K.nevAdj c nconv rv re) vals fac).exn = none →
            Pfull (K.restartFac (K.nevAdj c nconv rv re) vals fac).fac)
    (hcfg : c.nev ≤ c.ncv)
    (sel : Int) (maxit : Nat) (tol : τ) (sorting : Int) (s : St φ ρ ε κ) (hP : P s.fac) (r : Nat)
    (h : (compute K c sel maxit tol sorting s).out = .ok r) :
    ∃ s3 : St φ ρ ε κ, ∃ ind,
      Retrieved K c sel s3 ∧ Pfull s3.fac ∧ s3.ritzConv = convFlags K c tol s3 ∧
      (compute K c sel maxit tol sorting s).st.fac = s3.fac ∧
      K.sortIdx sorting (mapHead c.nev K.backTransform s3.ritzVal) c.nev = .ok ind ∧
      ∀ i, i < c.nev →
        (compute K c sel maxit tol sorting s).st.ritzVal.getD i K.zeroρ
          = (mapHead c.nev K.backTransform s3.ritzVal).getD (ind.getD i 0) K.zeroρ ∧
        (compute K c sel maxit tol sorting s).st.ritzVec.getD i K.zeroκ = s3.ritzVec.getD (ind.getD i 0) K.zeroκ ∧
        (compute K c sel maxit tol sorting s).st.ritzConv.getD i false = s3.ritzConv.getD (ind.getD i 0) false := by
  obtain ⟨s2, s4, hfx, hr, hl, hs, hst, _, _, _⟩ := compute_ok_unfold K c sel maxit tol sorting s r h
  obtain ⟨hret2, hfac2, _⟩ := retrieve_retrieved K c sel _ s2 hr
  have hfull2 : Pfull s2.fac := by
    rw [hfac2]; exact hF s.fac hP hfx
  have hinv : Retrieved K c sel (loop K c sel tol maxit 0 0 0 s2).st ∧ Pfull (loop K c sel tol maxit 0 0 0 s2).st.fac := by
    refine loop_invariant_adj sel tol (fun s => Retrieved K c sel s ∧ Pfull s.fac) ?_ ?_ maxit 0 0 0 s2 ⟨hret2, hfull2⟩ hl
    · intro s flags hs; exact hs
    · intro s nconv s2' hI hre
      rcases restart_ok_cases K c _ sel s s2' hre with ⟨_, heq⟩ | ⟨hk, hex, hret⟩
      · rw [heq]; exact hI
      · obtain ⟨a, b, _⟩ := retrieve_retrieved K c sel _ s2' hret
        refine ⟨a, ?_⟩
        rw [b]; exact hR nconv s.ritzVal s.ritzEst s.ritzVal s.fac hI.2 hk hex
  obtain ⟨hfr, _⟩ := refresh_fresh K c sel tol maxit s2 hl
  have hret3 : Retrieved K c sel (refresh K c tol maxit (loop K c sel tol maxit 0 0 0 s2)).1 ∧
      Pfull (refresh K c tol maxit (loop K c sel tol maxit 0 0 0 s2)).1.fac := by
    unfold refresh; split
    · exact hinv
    · exact hinv
  obtain ⟨ind, hind, hpair⟩ := sortRitz_pairing K c hcfg sorting _ s4 hs
  refine ⟨(refresh K c tol maxit (loop K c sel tol maxit 0 0 0 s2)).1, ind, hret3.1, hret3.2, hfr, ?_, hind, ?_⟩
  · rw [hst]
    have := (sortRitz_frame K c sorting (refresh K c tol maxit (loop K c sel tol maxit 0 0 0 s2)).1).2.2.2
    rw [hs] at this; exact this
  · intro i hi
    rw [hst]; exact hpair i hi

/-! ### residual bound for the pairs handed back -/

/-- **Core of `histories_on`**: one `compute()` that returns normally from ANY state whose factorization satisfies the invariant
    hands back, at every flagged position `i < nev`, a pair `(back ν, x)` with `‖M x - ν x‖² < (tol · max(eps23, |ν|))²`. -/
theorem compute_pairs_on (X : ExactKernelsOn K c n M eps23 Inv Start) (sel : Int) (maxit : Nat) (tol : τ) (sorting : Int)
    (s : St φ ρ ε κ) (hs : Inv s.fac) (r : Nat)
    (h : (compute K c sel maxit tol sorting s).out = .ok r) :
    ∀ i, i < c.nev → (compute K c sel maxit tol sorting s).st.ritzConv.getD i false = true →
      ∃ ν : F, X.val ((compute K c sel maxit tol sorting s).st.ritzVal.getD i K.zeroρ) = X.back ν ∧
        nsq (M *ᵥ X.out (K.assemble (compute K c sel maxit tol sorting s).st.fac
                ((compute K c sel maxit tol sorting s).st.ritzVec.getD i K.zeroκ))
             - ν • X.out (K.assemble (compute K c sel maxit tol sorting s).st.fac
                ((compute K c sel maxit tol sorting s).st.ritzVec.getD i K.zeroκ)))
          < (X.tolv tol * max eps23 |ν|) ^ 2 := by
  intro i hi hflag
  obtain ⟨s3, ind, hret, hfull, hfresh, hfac, hind, hpair⟩ :=
    compute_ok_final_adj (K := K) (c := c) Inv (FullOn X)
      (fun fac hg hex => ⟨X.inv_factorize fac hg, X.factorize_full fac hg hex⟩)
      (fun nconv rv re vals fac hg hk hex =>
        ⟨(X.inv_restart _ vals fac hg.1 hg.2 (X.nevAdj_pos nconv rv re) hk).1,
         (X.inv_restart _ vals fac hg.1 hg.2 (X.nevAdj_pos nconv rv re) hk).2 hex⟩)
      X.nev_le sel maxit tol sorting s hs r h
  obtain ⟨hval, hvec, hconv⟩ := hpair i hi
  obtain ⟨evals, lastRow, cols, sidx, heig, hsel, hrv, hre, hrvec⟩ := hret
  -- position in the pre-sort state, and in the eigen-decomposition
  have hj : ind.getD i 0 < c.nev := X.sort_lt sorting _ ind hind i hi
  generalize hjdef : ind.getD i 0 = j at hj hval hvec hconv
  have hjc : j < c.ncv := lt_of_lt_of_le hj X.nev_le
  have hp : sidx.getD j 0 < c.ncv := X.select_lt sel evals sidx hsel j hjc
  generalize hpdef : sidx.getD j 0 = p at hp
  have e_val : s3.ritzVal.getD j K.zeroρ = evals.getD p K.zeroρ := by
    rw [hrv, getD_map_range _ _ _ _ hjc, hpdef]
  have e_est : s3.ritzEst.getD j K.zeroε = lastRow.getD p K.zeroε := by
    rw [hre, getD_map_range _ _ _ _ hjc, hpdef]
  have e_vec : s3.ritzVec.getD j K.zeroκ = cols.getD p K.zeroκ := by
    rw [hrvec, getD_map_range _ _ _ _ hj, hpdef]
  -- the flag is the convergence test on this pair
  have hflag3 : K.convTest tol s3.fac (s3.ritzVal.getD j K.zeroρ) (s3.ritzEst.getD j K.zeroε) = true := by
    rw [hflag] at hconv
    rw [hfresh] at hconv
    unfold convFlags at hconv
    rw [getD_map_range _ _ _ _ hj] at hconv
    exact hconv.symm
  obtain ⟨hHy, hest⟩ := X.eig_spec s3.fac evals lastRow cols hfull.1 hfull.2 heig p hp
  have hct := X.conv_spec tol s3.fac _ _ hfull.1 hflag3
  rw [e_val, e_est, hest] at hct
  -- the residual identity at full dimension
  have hK : Kry (opOf M) (X.abs s3.fac).V (X.abs s3.fac).H (X.abs s3.fac).f c.ncv := by
    have := good_kry (opOf M) _ (X.inv_good _ hfull.1); rw [hfull.2] at this; exact this
  have hres := ritz_residual_nat M _ _ _ c.ncv X.ncv_pos hK (X.val (evals.getD p K.zeroρ)) (X.vec (cols.getD p K.zeroκ)) hHy
  refine ⟨X.val (evals.getD p K.zeroρ), ?_, ?_⟩
  · -- the value handed back is the back-transformed Ritz value
    rw [hval]
    have hlen : s3.ritzVal.length = c.ncv := by rw [hrv]; simp
    have htake : (s3.ritzVal.take c.nev).length = c.nev := by rw [List.length_take, hlen]; exact Nat.min_eq_left X.nev_le
    obtain ⟨hbl, hbv⟩ := X.back_spec (s3.ritzVal.take c.nev) htake
    rw [mapHead_getD c.nev K.backTransform s3.ritzVal K.zeroρ j hj hbl, hbv j hj]
    congr 2
    rw [← e_val]
    simp [List.getD_eq_getElem?_getD, hj]
  · rw [hfac, hvec, e_vec, X.assemble_spec _ _ hfull.1, hres, nsq_smul]
    obtain ⟨hn0, hn1⟩ := X.fnorm_spec s3.fac hfull.1
    exact sq_bound _ _ _ _ hn0 hn1 hct

/-- **Every history**, relativised: after ANY finite sequence of `init()` / `compute()` calls (the `init`s with admissible start
    vectors) on an object whose factorization satisfied the invariant at the start, a `compute()` that returns hands back, at every
    position it flags as converged, a value `back ν` and the vector `x = V y` with `‖M x − ν x‖² < (tol · max(eps23, |ν|))²`. -/
theorem histories_on (X : ExactKernelsOn K c n M eps23 Inv Start) (hist : List (Call β τ)) (hS : StartsOk Start hist)
    (s0 : St φ ρ ε κ) (h0 : Inv s0.fac)
    (sel : Int) (maxit : Nat) (tol : τ) (sorting : Int) (r : Nat)
    (h : (compute K c sel maxit tol sorting (Orch.run K c s0 hist)).out = .ok r) :
    let s' := (compute K c sel maxit tol sorting (Orch.run K c s0 hist)).st
    ∀ i ∈ convIdx c s',
      ∃ ν : F, X.val (s'.ritzVal.getD i K.zeroρ) = X.back ν ∧
        nsq (M *ᵥ X.out (K.assemble s'.fac (s'.ritzVec.getD i K.zeroκ)) - ν • X.out (K.assemble s'.fac (s'.ritzVec.getD i K.zeroκ)))
          < (X.tolv tol * max eps23 |ν|) ^ 2 := by
  intro s' i hi
  have hinv := run_inv_on X hist hS s0 h0
  simp only [convIdx, List.mem_filter, List.mem_range] at hi
  exact compute_pairs_on X sel maxit tol sorting _ hinv r h i hi.1 hi.2

/-! ### orthonormality -/

/-- the orthogonality halves of the kernel specifications, on the invariant -/
structure ExactOrthOn (X : ExactKernelsOn K c n M eps23 Inv Start) where
  /-- on the invariant `VᵀV = I`, `Vᵀf = 0` at the advertised dimension -/
  inv_orth : ∀ fac, Inv fac → OrthGood (X.abs fac)
  /-- C09: the eigenvector matrix of the projected problem has orthonormal columns -/
  eig_orth : ∀ fac evals lastRow cols, Inv fac → (X.abs fac).k = c.ncv → K.eig fac = .ok (evals, lastRow, cols) →
      ∀ j, j < c.ncv → ∀ j', j' < c.ncv →
      ∑ a ∈ range c.ncv, X.vec (cols.getD j K.zeroκ) a * X.vec (cols.getD j' K.zeroκ) a = if j = j' then 1 else 0
  /-- C18: both index vectors are injective on their range (they are permutations) -/
  select_inj : ∀ sel evals ind, K.select sel evals c.ncv = .ok ind → ∀ i, i < c.ncv → ∀ i', i' < c.ncv → ind.getD i 0 = ind.getD i' 0 → i = i'
  sort_inj : ∀ rule vals ind, K.sortIdx rule vals c.nev = .ok ind → ∀ i, i < c.nev → ∀ i', i' < c.nev → ind.getD i 0 = ind.getD i' 0 → i = i'

/-- **Orthonormality for one compute()**: from any state whose factorization satisfies the invariant, the vectors handed back at
    two positions `i`, `i'` satisfy `x_i · x_i' = δ_{i i'}`. -/
theorem compute_orth_on (X : ExactKernelsOn K c n M eps23 Inv Start) (O : ExactOrthOn X) (sel : Int) (maxit : Nat) (tol : τ)
    (sorting : Int) (s : St φ ρ ε κ) (hs : Inv s.fac) (r : Nat)
    (h : (compute K c sel maxit tol sorting s).out = .ok r) :
    ∀ i, i < c.nev → ∀ i', i' < c.nev →
      X.out (K.assemble (compute K c sel maxit tol sorting s).st.fac ((compute K c sel maxit tol sorting s).st.ritzVec.getD i K.zeroκ))
        ⬝ᵥ X.out (K.assemble (compute K c sel maxit tol sorting s).st.fac ((compute K c sel maxit tol sorting s).st.ritzVec.getD i' K.zeroκ))
      = if i = i' then 1 else 0 := by
  intro i hi i' hi'
  obtain ⟨s3, ind, hret, hfull, _, hfac, hind, hpair⟩ :=
    compute_ok_final_adj (K := K) (c := c) Inv (FullOn X)
      (fun fac hg hex => ⟨X.inv_factorize fac hg, X.factorize_full fac hg hex⟩)
      (fun nconv rv re vals fac hg hk hex =>
        ⟨(X.inv_restart _ vals fac hg.1 hg.2 (X.nevAdj_pos nconv rv re) hk).1,
         (X.inv_restart _ vals fac hg.1 hg.2 (X.nevAdj_pos nconv rv re) hk).2 hex⟩)
      X.nev_le sel maxit tol sorting s hs r h
  obtain ⟨_, hvec, _⟩ := hpair i hi
  obtain ⟨_, hvec', _⟩ := hpair i' hi'
  obtain ⟨evals, lastRow, cols, sidx, heig, hsel, _, _, hrvec⟩ := hret
  have hj : ind.getD i 0 < c.nev := X.sort_lt sorting _ ind hind i hi
  have hj' : ind.getD i' 0 < c.nev := X.sort_lt sorting _ ind hind i' hi'
  have hjc : ind.getD i 0 < c.ncv := lt_of_lt_of_le hj X.nev_le
  have hjc' : ind.getD i' 0 < c.ncv := lt_of_lt_of_le hj' X.nev_le
  have hp : sidx.getD (ind.getD i 0) 0 < c.ncv := X.select_lt sel evals sidx hsel _ hjc
  have hp' : sidx.getD (ind.getD i' 0) 0 < c.ncv := X.select_lt sel evals sidx hsel _ hjc'
  have e_vec : s3.ritzVec.getD (ind.getD i 0) K.zeroκ = cols.getD (sidx.getD (ind.getD i 0) 0) K.zeroκ := by
    rw [hrvec, getD_map_range _ _ _ _ hj]
  have e_vec' : s3.ritzVec.getD (ind.getD i' 0) K.zeroκ = cols.getD (sidx.getD (ind.getD i' 0) 0) K.zeroκ := by
    rw [hrvec, getD_map_range _ _ _ _ hj']
  have hON : ON (dotIP n) (X.abs s3.fac).V c.ncv := by
    have := (O.inv_orth _ hfull.1).1; rw [hfull.2] at this; exact this
  rw [hfac, hvec, hvec', e_vec, e_vec', X.assemble_spec _ _ hfull.1, X.assemble_spec _ _ hfull.1, ← Vmat_mulVec, ← Vmat_mulVec,
    dot_mulVec_of_orth _ (on_vmat _ _ hON)]
  have hdot : yvec (X.vec (cols.getD (sidx.getD (ind.getD i 0) 0) K.zeroκ)) c.ncv ⬝ᵥ
      yvec (X.vec (cols.getD (sidx.getD (ind.getD i' 0) 0) K.zeroκ)) c.ncv
      = ∑ a ∈ range c.ncv, X.vec (cols.getD (sidx.getD (ind.getD i 0) 0) K.zeroκ) a * X.vec (cols.getD (sidx.getD (ind.getD i' 0) 0) K.zeroκ) a := by
    simp only [dotProduct, yvec]
    exact Fin.sum_univ_eq_sum_range (fun a => X.vec (cols.getD (sidx.getD (ind.getD i 0) 0) K.zeroκ) a * X.vec (cols.getD (sidx.getD (ind.getD i' 0) 0) K.zeroκ) a) c.ncv
  rw [hdot, O.eig_orth s3.fac evals lastRow cols hfull.1 hfull.2 heig _ hp _ hp']
  by_cases hii : i = i'
  · subst hii; simp
  · have : sidx.getD (ind.getD i 0) 0 ≠ sidx.getD (ind.getD i' 0) 0 := by
      intro he
      have h1 := O.select_inj sel evals sidx hsel _ hjc _ hjc' he
      exact hii (O.sort_inj sorting _ ind hind i hi i' hi' h1)
    rw [if_neg this, if_neg hii]

/-- **Every history, orthonormality**, relativised: the vectors handed back after ANY history are orthonormal. -/
theorem histories_orth_on (X : ExactKernelsOn K c n M eps23 Inv Start) (O : ExactOrthOn X) (hist : List (Call β τ))
    (hS : StartsOk Start hist) (s0 : St φ ρ ε κ) (h0 : Inv s0.fac)
    (sel : Int) (maxit : Nat) (tol : τ) (sorting : Int) (r : Nat)
    (h : (compute K c sel maxit tol sorting (Orch.run K c s0 hist)).out = .ok r) :
    let s' := (compute K c sel maxit tol sorting (Orch.run K c s0 hist)).st
    ∀ i ∈ convIdx c s', ∀ i' ∈ convIdx c s',
      X.out (K.assemble s'.fac (s'.ritzVec.getD i K.zeroκ)) ⬝ᵥ X.out (K.assemble s'.fac (s'.ritzVec.getD i' K.zeroκ))
        = if i = i' then 1 else 0 := by
  intro s' i hi i' hi'
  have hinv := run_inv_on X hist hS s0 h0
  simp only [convIdx, List.mem_filter, List.mem_range] at hi hi'
  exact compute_orth_on X O sel maxit tol sorting _ hinv r h i hi.1 i' hi'.1

end C01E
