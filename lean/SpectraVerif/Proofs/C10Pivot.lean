/-
  C10 — pivoting_1x1(k, r) of the model is the symmetric interchange k <-> r of the trailing block (helper lemmas).
-/
import Mathlib.Tactic.Ring
import Mathlib.Tactic.Linarith
import SpectraVerif.Proofs.C10Elim
open Gen.BK

set_option linter.unusedSectionVars false
set_option linter.unusedVariables false
set_option linter.unusedSimpArgs false
namespace BKLDLT
section
variable {α : Type} [Add α] [Sub α] [Mul α] [Div α] [Neg α] [Sc α]

theorem sized_swap {n : Int} {s : St α} {a b c d : Int} (h : Sized n s) : Sized n (s.swap a b c d) := by
  simp only [St.swap]; exact sized_wr (sized_wr (sized_get (sized_get h)))

theorem rd_swap {n : Int} {s : St α} {a b c d i j : Int} (hs : Sized n s) (hab : 0 ≤ b ∧ b ≤ a ∧ a < n) (hcd : 0 ≤ d ∧ d ≤ c ∧ c < n)
    (hij : 0 ≤ j ∧ j ≤ i ∧ i < n) :
    (s.swap a b c d).rd i j = if i = c ∧ j = d then s.rd a b else if i = a ∧ j = b then s.rd c d else s.rd i j := by
  simp only [St.swap]
  rw [rd_wr (n := n) (sized_wr (sized_get (sized_get hs))) hcd hij, rd_wr (n := n) (sized_get (sized_get hs)) hab hij]
  simp only [get_fst, rd_get]

/-- the symmetric matrix represented by the packed lower triangle -/
def symrd (s : St α) (a b : Int) : α := if b ≤ a then s.rd a b else s.rd b a
/-- the transposition `k ↔ r` -/
def tr (k r x : Int) : Int := if x = k then r else if x = r then k else x

/-- `pivoting_1x1(k, r)` is the symmetric interchange `k ↔ r` of the trailing block `A[k:, k:]` (columns left of `k` untouched) -/
theorem pivoting_1x1_spec {n : Int} {s : St α} {k r : Int} (hs : Sized n s) (hk : 0 ≤ k) (hkr : k ≤ r) (hr : r < n) :
    Sized n (pivoting_1x1 s k r) ∧
    ∀ i j, 0 ≤ j → j ≤ i → i < n → (pivoting_1x1 s k r).rd i j = if k ≤ j then symrd s (tr k r i) (tr k r j) else s.rd i j := by
  unfold pivoting_1x1
  have hs0 : Sized n (s.setPerm k r) := hs
  have hr0 : ∀ i j, (s.setPerm k r).rd i j = s.rd i j := fun _ _ => rfl
  split
  · rename_i hkr'
    subst hkr'
    refine ⟨hs0, fun i j h1 h2 h3 => ?_⟩
    rw [hr0]
    unfold symrd tr
    by_cases c : k ≤ j
    · rw [if_pos c]
      have e1 : (if i = k then k else if i = k then k else i) = i := by split <;> simp_all
      have e2 : (if j = k then k else if j = k then k else j) = j := by split <;> simp_all
      rw [e1, e2, if_pos h2]
    · rw [if_neg c]
  · rename_i hne
    have hlt : k < r := by omega
    have hkk : 0 ≤ k ∧ k ≤ k ∧ k < n := ⟨hk, le_refl _, by omega⟩
    have hrr : 0 ≤ r ∧ r ≤ r ∧ r < n := ⟨by omega, le_refl _, hr⟩
    have hs1 : Sized n ((s.setPerm k r).swap k k r r) := sized_swap hs0
    have hr1 : ∀ i j, 0 ≤ j → j ≤ i → i < n → ((s.setPerm k r).swap k k r r).rd i j =
        if i = r ∧ j = r then s.rd k k else if i = k ∧ j = k then s.rd r r else s.rd i j := by
      intro i j a b c; rw [rd_swap (n := n) hs0 hkk hrr ⟨a, b, c⟩]; rfl
    have hn1 : ((s.setPerm k r).swap k k r r).n = n := hs1.1
    dsimp only
    rw [hn1]
    have phA := foldl_range_inv' (fun (t : Int) (s' : St α) => Sized n s' ∧ ∀ i j, 0 ≤ j → j ≤ i → i < n →
        s'.rd i j = if r < i ∧ i < t ∧ j = k then s.rd i r else if r < i ∧ i < t ∧ j = r then s.rd i k
          else ((s.setPerm k r).swap k k r r).rd i j)
      (fun (s' : St α) (i : Int) => s'.swap i k i r) (r + 1) n _ (by omega)
      ⟨hs1, fun i j a b c => by rw [if_neg (by omega), if_neg (by omega)]⟩
      (fun t s' ht0 ht1 hP => by
        obtain ⟨hsz, hrd⟩ := hP
        refine ⟨sized_swap hsz, fun i j a b c => ?_⟩
        rw [rd_swap (n := n) hsz ⟨hk, by omega, by omega⟩ ⟨by omega, by omega, by omega⟩ ⟨a, b, c⟩]
        by_cases c1 : i = t ∧ j = r
        · obtain ⟨e1, e2⟩ := c1; rw [e1, e2]
          rw [if_pos ⟨rfl, rfl⟩, hrd t k hk (by omega) (by omega), if_neg (by omega), if_neg (by omega),
            hr1 t k hk (by omega) (by omega), if_neg (by omega), if_neg (by omega), if_neg (by omega), if_pos ⟨by omega, by omega, rfl⟩]
        · rw [if_neg c1]
          by_cases c2 : i = t ∧ j = k
          · obtain ⟨e1, e2⟩ := c2; rw [e1, e2]
            rw [if_pos ⟨rfl, rfl⟩, hrd t r (by omega) (by omega) (by omega), if_neg (by omega), if_neg (by omega),
              hr1 t r (by omega) (by omega) (by omega), if_neg (by omega), if_neg (by omega), if_pos ⟨by omega, by omega, rfl⟩]
          · rw [if_neg c2, hrd i j a b c]
            by_cases c3 : r < i ∧ i < t ∧ j = k
            · rw [if_pos c3, if_pos (show r < i ∧ i < t + 1 ∧ j = k by omega)]
            · rw [if_neg c3, if_neg (show ¬(r < i ∧ i < t + 1 ∧ j = k) by omega)]
              by_cases c4 : r < i ∧ i < t ∧ j = r
              · rw [if_pos c4, if_pos (show r < i ∧ i < t + 1 ∧ j = r by omega)]
              · rw [if_neg c4, if_neg (show ¬(r < i ∧ i < t + 1 ∧ j = r) by omega)])
    have phB := foldl_range_inv' (fun (t : Int) (s' : St α) => Sized n s' ∧ ∀ i j, 0 ≤ j → j ≤ i → i < n →
        s'.rd i j = if j = k ∧ k < i ∧ i < t then s.rd r i else if i = r ∧ k < j ∧ j < t then s.rd j k
          else ((intRange (r + 1) n).foldl (fun (s' : St α) (i : Int) => s'.swap i k i r) ((s.setPerm k r).swap k k r r)).rd i j)
      (fun (s' : St α) (j : Int) => s'.swap j k r j) (k + 1) r _ (by omega)
      ⟨phA.1, fun i j a b c => by rw [if_neg (by omega), if_neg (by omega)]⟩
      (fun t s' ht0 ht1 hP => by
        obtain ⟨hsz, hrd⟩ := hP
        refine ⟨sized_swap hsz, fun i j a b c => ?_⟩
        rw [rd_swap (n := n) hsz ⟨hk, by omega, by omega⟩ ⟨by omega, by omega, by omega⟩ ⟨a, b, c⟩]
        by_cases c1 : i = r ∧ j = t
        · obtain ⟨e1, e2⟩ := c1; rw [e1, e2]
          rw [if_pos ⟨rfl, rfl⟩, hrd t k hk (by omega) (by omega), if_neg (by omega), if_neg (by omega),
            phA.2 t k hk (by omega) (by omega), if_neg (by omega), if_neg (by omega),
            hr1 t k hk (by omega) (by omega), if_neg (by omega), if_neg (by omega), if_neg (by omega), if_pos ⟨rfl, by omega, by omega⟩]
        · rw [if_neg c1]
          by_cases c2 : i = t ∧ j = k
          · obtain ⟨e1, e2⟩ := c2; rw [e1, e2]
            rw [if_pos ⟨rfl, rfl⟩, hrd r t (by omega) (by omega) (by omega), if_neg (by omega), if_neg (by omega),
              phA.2 r t (by omega) (by omega) (by omega), if_neg (by omega), if_neg (by omega),
              hr1 r t (by omega) (by omega) (by omega), if_neg (by omega), if_neg (by omega), if_pos ⟨rfl, by omega, by omega⟩]
          · rw [if_neg c2, hrd i j a b c]
            by_cases c3 : j = k ∧ k < i ∧ i < t
            · rw [if_pos c3, if_pos (show j = k ∧ k < i ∧ i < t + 1 by omega)]
            · rw [if_neg c3, if_neg (show ¬(j = k ∧ k < i ∧ i < t + 1) by omega)]
              by_cases c4 : i = r ∧ k < j ∧ j < t
              · rw [if_pos c4, if_pos (show i = r ∧ k < j ∧ j < t + 1 by omega)]
              · rw [if_neg c4, if_neg (show ¬(i = r ∧ k < j ∧ j < t + 1) by omega)])
    refine ⟨phB.1, fun i j a b c => ?_⟩
    rw [phB.2 i j a b c, phA.2 i j a b c, hr1 i j a b c]
    unfold symrd tr
    split_ifs <;> first | rfl | (exfalso; omega) | (congr 1 <;> omega)

/-- `interchange_rows(r1, r2, c1, c2)`: rows `r1`, `r2` exchanged in columns `c1..c2` (the finished columns of `L`), nothing else -/
theorem interchange_rows_spec {n : Int} {s : St α} {r1 r2 c1 c2 : Int} (hs : Sized n s) (hc : 0 ≤ c1) (h1 : c2 < r1) (h2 : r1 ≤ r2) (h3 : r2 < n) :
    Sized n (interchange_rows s r1 r2 c1 c2) ∧
    ∀ i j, 0 ≤ j → j ≤ i → i < n → (interchange_rows s r1 r2 c1 c2).rd i j =
      if c1 ≤ j ∧ j ≤ c2 ∧ i = r1 then s.rd r2 j else if c1 ≤ j ∧ j ≤ c2 ∧ i = r2 then s.rd r1 j else s.rd i j := by
  unfold interchange_rows
  split
  · rename_i e
    subst e
    refine ⟨hs, fun i j a b c => ?_⟩
    by_cases c1' : c1 ≤ j ∧ j ≤ c2 ∧ i = r1
    · rw [if_pos c1', c1'.2.2]
    · rw [if_neg c1', if_neg c1']
  · rename_i hne
    by_cases hle : c1 ≤ c2 + 1
    · have inv := foldl_range_inv' (fun (t : Int) (s' : St α) => Sized n s' ∧ ∀ i j, 0 ≤ j → j ≤ i → i < n →
          s'.rd i j = if c1 ≤ j ∧ j < t ∧ i = r1 then s.rd r2 j else if c1 ≤ j ∧ j < t ∧ i = r2 then s.rd r1 j else s.rd i j)
        (fun (s' : St α) (j : Int) => s'.swap r1 j r2 j) c1 (c2 + 1) s hle
        ⟨hs, fun i j a b c => by rw [if_neg (by omega), if_neg (by omega)]⟩
        (fun t s' ht0 ht1 hP => by
          obtain ⟨hsz, hrd⟩ := hP
          refine ⟨sized_swap hsz, fun i j a b c => ?_⟩
          rw [rd_swap (n := n) hsz ⟨by omega, by omega, by omega⟩ ⟨by omega, by omega, by omega⟩ ⟨a, b, c⟩]
          by_cases d1 : i = r2 ∧ j = t
          · obtain ⟨e1, e2⟩ := d1; rw [e1, e2]
            rw [if_pos ⟨rfl, rfl⟩, hrd r1 t (by omega) (by omega) (by omega), if_neg (by omega), if_neg (by omega),
              if_neg (show ¬(c1 ≤ t ∧ t < t + 1 ∧ r2 = r1) by omega), if_pos (show c1 ≤ t ∧ t < t + 1 ∧ r2 = r2 by omega)]
          · rw [if_neg d1]
            by_cases d2 : i = r1 ∧ j = t
            · obtain ⟨e1, e2⟩ := d2; rw [e1, e2]
              rw [if_pos ⟨rfl, rfl⟩, hrd r2 t (by omega) (by omega) (by omega), if_neg (by omega), if_neg (by omega),
                if_pos (show c1 ≤ t ∧ t < t + 1 ∧ r1 = r1 by omega)]
            · rw [if_neg d2, hrd i j a b c]
              by_cases d3 : c1 ≤ j ∧ j < t ∧ i = r1
              · rw [if_pos d3, if_pos (show c1 ≤ j ∧ j < t + 1 ∧ i = r1 by omega)]
              · rw [if_neg d3, if_neg (show ¬(c1 ≤ j ∧ j < t + 1 ∧ i = r1) by omega)]
                by_cases d4 : c1 ≤ j ∧ j < t ∧ i = r2
                · rw [if_pos d4, if_pos (show c1 ≤ j ∧ j < t + 1 ∧ i = r2 by omega)]
                · rw [if_neg d4, if_neg (show ¬(c1 ≤ j ∧ j < t + 1 ∧ i = r2) by omega)])
      refine ⟨inv.1, fun i j a b c => ?_⟩
      rw [inv.2 i j a b c]
      by_cases d3 : c1 ≤ j ∧ j ≤ c2 ∧ i = r1
      · rw [if_pos d3, if_pos (show c1 ≤ j ∧ j < c2 + 1 ∧ i = r1 by omega)]
      · rw [if_neg d3, if_neg (show ¬(c1 ≤ j ∧ j < c2 + 1 ∧ i = r1) by omega)]
        by_cases d4 : c1 ≤ j ∧ j ≤ c2 ∧ i = r2
        · rw [if_pos d4, if_pos (show c1 ≤ j ∧ j < c2 + 1 ∧ i = r2 by omega)]
        · rw [if_neg d4, if_neg (show ¬(c1 ≤ j ∧ j < c2 + 1 ∧ i = r2) by omega)]
    · rw [intRange_empty c1 (c2 + 1) (by omega)]
      refine ⟨hs, fun i j a b c => ?_⟩
      rw [if_neg (by omega), if_neg (by omega)]; rfl

theorem tr_left (a b : Int) : tr a b a = b := by simp [tr]
theorem tr_right (a b : Int) : tr a b b = a := by unfold tr; split <;> simp_all
theorem tr_other {a b x : Int} (h1 : x ≠ a) (h2 : x ≠ b) : tr a b x = x := by simp [tr, h1, h2]

/-- `pivoting_2x2(k, r, p)` with `p = k` (the variant the code uses): the symmetric interchange `k+1 ↔ r` of the trailing block `A[k:, k:]` -/
theorem pivoting_2x2_spec {n : Int} {s : St α} {k r : Int} (hs : Sized n s) (hk : 0 ≤ k) (hr1 : k + 1 ≤ r) (hr : r < n) :
    Sized n (pivoting_2x2 s k r k) ∧
    ∀ i j, 0 ≤ j → j ≤ i → i < n → (pivoting_2x2 s k r k).rd i j =
      if k ≤ j then symrd s (tr (k + 1) r i) (tr (k + 1) r j) else s.rd i j := by
  have e1 : pivoting_1x1 s k k = s.setPerm k k := by unfold pivoting_1x1; simp
  have hs1 : Sized n (s.setPerm k k) := hs
  have p2 := pivoting_1x1_spec (s := s.setPerm k k) (k := k + 1) (r := r) hs1 (by omega) hr1 hr
  have hsym : ∀ a b, symrd (s.setPerm k k) a b = symrd s a b := fun _ _ => rfl
  have hrd1 : ∀ a b, (s.setPerm k k).rd a b = s.rd a b := fun _ _ => rfl
  have hs3 : Sized n ((pivoting_1x1 (s.setPerm k k) (k + 1) r).swap (k + 1) k r k) := sized_swap p2.1
  unfold pivoting_2x2
  rw [e1]
  refine ⟨hs3, fun i j a b c => ?_⟩
  show ((pivoting_1x1 (s.setPerm k k) (k + 1) r).swap (k + 1) k r k).rd i j = _
  rw [rd_swap (n := n) p2.1 ⟨hk, by omega, by omega⟩ ⟨hk, by omega, hr⟩ ⟨a, b, c⟩]
  by_cases cA : i = r ∧ j = k
  · obtain ⟨e1, e2⟩ := cA
    rw [if_pos ⟨e1, e2⟩, p2.2 (k + 1) k hk (by omega) (by omega), if_neg (by omega), hrd1, e1, e2, if_pos (le_refl _),
      tr_right, tr_other (by omega) (by omega)]
    unfold symrd; rw [if_pos (by omega)]
  · rw [if_neg cA]
    by_cases cB : i = k + 1 ∧ j = k
    · obtain ⟨e1, e2⟩ := cB
      rw [if_pos ⟨e1, e2⟩, p2.2 r k hk (by omega) hr, if_neg (by omega), hrd1, e1, e2, if_pos (le_refl _),
        tr_left, tr_other (by omega) (by omega)]
      unfold symrd; rw [if_pos (by omega)]
    · rw [if_neg cB, p2.2 i j a b c]
      simp only [hsym, hrd1]
      by_cases cj : k + 1 ≤ j
      · rw [if_pos cj, if_pos (by omega)]
      · rw [if_neg cj]
        by_cases cj2 : k ≤ j
        · have ej : j = k := by omega
          rw [if_pos cj2, ej, tr_other (x := k) (by omega) (by omega), tr_other (x := i) (by omega) (by omega)]
          unfold symrd; rw [if_pos (by omega)]
        · rw [if_neg cj2]

end
end BKLDLT
