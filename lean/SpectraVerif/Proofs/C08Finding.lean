/-
  C08 helper: the mechanism behind known finding C08-F1.  `DoubleShiftQR::compute` deflates a subdiagonal entry when
  `|h| ≤ eps_abs` OR `|h| ≤ eps·(|d₀|+|d₁|)`; the first test is ABSOLUTE (`eps_abs = min()·10·n/eps`), i.e. it fires whatever
  the size of the neighbouring diagonal entries — and of `‖H‖` — is.
-/
import Mathlib.Algebra.Order.Field.Basic
import SpectraVerif.Proofs.C08Mat
import SpectraVerif.Proofs.ScField
import SpectraVerif.Model.DoubleShiftQR

set_option linter.unusedSectionVars false

namespace C08Finding
open Lin QRModel C08Mat

variable {K : Type} [Field K] [LinearOrder K] [IsStrictOrderedRing K] (F : FieldFns K)

abbrev mget (M : Mat K) (i j : Nat) : K := @Mat.get K (scOfField F) M i j
abbrev split (n : Nat) (epsAbs : K) (st : Mat K × Array Nat) (i : Nat) : Mat K × Array Nat :=
  @DoubleShiftQR.splitStep K _ _ (scOfField F) n epsAbs st i

theorem zero_eq : @Lin.zero K (scOfField F) = (0 : K) := by
  show ((0 : Int) : K) = 0
  exact Int.cast_zero

/-- one step of the first pass of `compute`: an entry with `|h| ≤ epsAbs` is replaced by an exact `0` and starts a new block,
    for EVERY value of the diagonal entries `H(i,i)`, `H(i+1,i+1)` -/
theorem abs_deflation (H : Mat K) (hw : WF H) (n : Nat) (hr : H.rows = n) (hc : H.cols = n) (zi : Array Nat) (epsAbs : K)
    (i : Nat) (hi : i + 1 < n) (hsmall : |mget F H (i + 1) i| ≤ epsAbs) :
    mget F (split F n epsAbs (H, zi) i).1 (i + 1) i = 0 ∧ (split F n epsAbs (H, zi) i).2 = zi.push (i + 1) := by
  have hneg : @DoubleShiftQR.negligible K _ _ (scOfField F) epsAbs (mget F H (i + 1) i) (mget F H i i) (mget F H (i + 1) (i + 1)) = true := by
    simp [DoubleShiftQR.negligible, hsmall]
  have e : split F n epsAbs (H, zi) i =
      (@UpperHessenbergQR.zeroBelow K (scOfField F) (H.set (i + 1) i (@Lin.zero K (scOfField F))) n i, zi.push (i + 1)) := by
    show @DoubleShiftQR.splitStep K _ _ (scOfField F) n epsAbs (H, zi) i = _
    unfold DoubleShiftQR.splitStep
    simp only [hneg, if_true]
    rfl
  rw [e]
  refine ⟨?_, rfl⟩
  have hw' : WF (H.set (i + 1) i (@Lin.zero K (scOfField F))) := set_WF hw _ _ _
  have hr' : (H.set (i + 1) i (@Lin.zero K (scOfField F))).rows = n := by rw [set_rows]; exact hr
  have hc' : (H.set (i + 1) i (@Lin.zero K (scOfField F))).cols = n := by rw [set_cols]; exact hc
  obtain ⟨_, _, _, hg⟩ := @zeroBelow_spec K (scOfField F) _ hw' n i hr'.symm hi (by omega)
  show @Mat.get K (scOfField F) _ (i + 1) i = 0
  rw [hg (i + 1) i (by omega) (by omega)]
  rw [if_neg (by omega)]
  rw [@get_set K (scOfField F) H hw (i + 1) i (i + 1) i _ (by omega) (by omega) (by omega) (by omega)]
  simp [zero_eq]

end C08Finding
