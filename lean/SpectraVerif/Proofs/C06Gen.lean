/-
  C06 — read/write footprint of the numeric kernel record of the GENERAL family (`GenSolver.genKern`: GenEigsSolver,
  GenEigsRealShiftSolver; and `GenSolver.computeCS`: GenEigsComplexShiftSolver).

  * `gen_respects`: every kernel of `genKernC` (= `genKern` with the object's `const` members pinned in `facInit`, the same
    construction as `hermKernC`) reads only the live part of the factorization object: `restartFac` (the single/double-shift loop
    with `UpperHessenbergQR` / `DoubleShiftQR`, `compress_H`, `compress_V`, `Arnoldi.factorize_from`), `eig` (`HessEigen` on `H`),
    `convTest` (`beta`), `assemble` (`V`), `factorize`, `facDim`; `facInit` rebuilds the live part from ANY old object.
  * `gen_run_wf`: the constants survive every history; `gen_init_bridge`: on objects carrying the constructor's constants
    `Orch.init (genKernC …)` is `Orch.init (genKern …)`.
  * complex-shift class: `computeWith_sim` (the noninterference step for `GenSolver.computeWith` with a state-dependent prologue
    that preserves similarity), `csPre_sim` (the prologue of `GenEigsComplexShiftSolver::sort_ritzpair` reads `V`, the Ritz vectors
    and the Ritz values only), `computeWith_wfi`.
-/
import SpectraVerif.Model.GenSolver
import SpectraVerif.Proofs.C06Footprint

namespace C06Footprint
open Lin Arnoldi Orch

section
variable {α : Type} [Add α] [Sub α] [Mul α] [Div α] [Neg α] [Sc α]
set_option linter.unusedSectionVars false

/-! ### the shift loop of `GenEigsBase::restart` -/

/-- one pass (single or double shift) reads `H` and the accumulated `Q`, writes `H`, `k` and `Q` -/
theorem gen_shiftStep_erase (ritz : Int → GenSolver.Cx α) (p : Nat × Bool) {x y : State α × Mat α} (h : eraseP x = eraseP y) :
    eraseP (GenSolver.shiftStep ritz x p) = eraseP (GenSolver.shiftStep ritz y p) := by
  obtain ⟨x1, x2⟩ := x
  obtain ⟨y1, y2⟩ := y
  simp only [eraseP, Prod.mk.injEq] at h
  obtain ⟨h1, h2⟩ := h
  subst h2
  have hH : x1.H = y1.H := erase_H h1
  unfold GenSolver.shiftStep
  dsimp only
  split
  · simp only [eraseP, hH, Prod.mk.injEq, and_true]
    exact of_upd (G := fun s => erase (compress_H s _ 2)) (fun s a b => rfl) h1
  · simp only [eraseP, hH, Prod.mk.injEq, and_true]
    exact of_upd (G := fun s => erase (compress_H s _ 1)) (fun s a b => rfl) h1

theorem gen_shiftStep_consts (ritz : Int → GenSolver.Cx α) (p : Nat × Bool) (x : State α × Mat α) :
    consts (GenSolver.shiftStep ritz x p).1 = consts x.1 := by
  unfold GenSolver.shiftStep
  dsimp only
  split <;> rfl

theorem gen_shiftStep_ops (ritz : Int → GenSolver.Cx α) (p : Nat × Bool) (x : State α × Mat α) :
    (GenSolver.shiftStep ritz x p).1.ops = x.1.ops := by
  unfold GenSolver.shiftStep
  dsimp only
  split <;> rfl

/-- the shift loop of `GenEigsBase::restart` (QR sweeps + `compress_H`, `Q` accumulated from the identity) -/
def genShiftLoop (ncv k : Nat) (ritzVal : List (GenSolver.Cx α)) (s : State α) : State α × Mat α :=
  (GenSolver.shiftPasses (GenSolver.clistFn ritzVal) ncv (ncv - k) k).foldl (GenSolver.shiftStep (GenSolver.clistFn ritzVal))
    (s, Mat.identity ncv)

theorem genShiftLoop_erase (ncv k : Nat) (ritzVal : List (GenSolver.Cx α)) {s t : State α} (h : erase s = erase t) :
    eraseP (genShiftLoop ncv k ritzVal s) = eraseP (genShiftLoop ncv k ritzVal t) := by
  unfold genShiftLoop
  apply foldl_proj (σ := State α × Mat α) eraseP
  · intro x y p hxy
    exact gen_shiftStep_erase _ p hxy
  · simp only [eraseP, h]

theorem genShiftLoop_consts (ncv k : Nat) (ritzVal : List (GenSolver.Cx α)) (s : State α) :
    consts (genShiftLoop ncv k ritzVal s).1 = consts s := by
  unfold genShiftLoop
  exact foldl_inv (σ := State α × Mat α) (fun p => consts p.1) _ (fun x p => gen_shiftStep_consts _ p x) _ (s, Mat.identity ncv)

theorem genShiftLoop_ops (ncv k : Nat) (ritzVal : List (GenSolver.Cx α)) (s : State α) :
    (genShiftLoop ncv k ritzVal s).1.ops = s.ops := by
  unfold genShiftLoop
  exact foldl_inv (σ := State α × Mat α) (fun p => p.1.ops) _ (fun x p => gen_shiftStep_ops _ p x) _ (s, Mat.identity ncv)

theorem gen_restartFac_eq (op : Arnoldi.Op α) (ncv k : Nat) (ritzVal : List (GenSolver.Cx α)) (s : State α) :
    GenSolver.restartFac op ncv k ritzVal s =
      (match Arnoldi.factorize_from op (compress_V op (genShiftLoop ncv k ritzVal s).1 (genShiftLoop ncv k ritzVal s).2) k ncv with
       | some s3 => ⟨s3, s3.ops - s.ops, none⟩
       | none => ⟨compress_V op (genShiftLoop ncv k ritzVal s).1 (genShiftLoop ncv k ritzVal s).2, 0,
          some (.invalidArgument "Arnoldi: from_k is larger than the current subspace dimension")⟩) := rfl

/-! ### the kernel record of the general family -/

/-- `genKern` with the constants of the factorization object pinned in `facInit` (what the C++ gets from `const` members), and a
    canonical object in the rejected-start-vector case -/
def genKernC (op : Arnoldi.Op α) (c : Orch.Cfg) (eps23 : α) (back : GenSolver.Cx α → GenSolver.Cx α) (near0 eps : α) :
    Orch.Kern (Arnoldi.State α) (GenSolver.Cx α) (GenSolver.Cx α) (Vec (GenSolver.Cx α)) (Vec α) α (Vec (GenSolver.Cx α)) :=
  withFacInit (GenSolver.genKern op c eps23 back) (fun v0 s =>
      match Arnoldi.init op { s with n := c.n, m := c.ncv, near0 := near0, eps := eps, ops := 0 } v0 with
      | some s' => ⟨s', s'.ops, none⟩
      | none => ⟨State.mk0 c.n c.ncv near0 eps, 0, some (.invalidArgument "initial residual vector cannot be zero")⟩)

/-- on an object with the constructor's constants the pinned `facInit` is `genKern`'s (same exception and count; same object
    whenever the start vector is accepted) -/
theorem genKernC_facInit_eq (op : Arnoldi.Op α) (c : Orch.Cfg) (eps23 : α) (back : GenSolver.Cx α → GenSolver.Cx α) (near0 eps : α)
    (v0 : Vec α) (s : State α) (hs : consts s = (c.n, c.ncv, near0, eps)) :
    ((genKernC op c eps23 back near0 eps).facInit v0 s).exn = ((GenSolver.genKern op c eps23 back).facInit v0 s).exn ∧
    ((genKernC op c eps23 back near0 eps).facInit v0 s).ops = ((GenSolver.genKern op c eps23 back).facInit v0 s).ops ∧
    (((GenSolver.genKern op c eps23 back).facInit v0 s).exn = none →
      ((genKernC op c eps23 back near0 eps).facInit v0 s).fac = ((GenSolver.genKern op c eps23 back).facInit v0 s).fac) := by
  have e : ({ s with n := c.n, m := c.ncv, near0 := near0, eps := eps, ops := 0 } : State α) = { s with ops := 0 } := by
    obtain ⟨n, m, k, V, H, f, beta, nr0, ep, ops, ne, nr⟩ := s
    simp only [consts, Prod.mk.injEq] at hs
    obtain ⟨h1, h2, h3, h4⟩ := hs
    subst h1 h2 h3 h4
    rfl
  simp only [genKernC, withFacInit, GenSolver.genKern, e]
  cases Arnoldi.init op { s with ops := 0 } v0 with
  | none => exact ⟨rfl, rfl, fun h => by cases h⟩
  | some s' => exact ⟨rfl, rfl, fun _ => rfl⟩

/-- **the obligation, general family**: every numeric kernel of `GenEigsSolver` / `GenEigsRealShiftSolver` reads only the live
    part of the factorization object, and `facInit` rebuilds the live part from ANY old object -/
theorem gen_respects (op : Arnoldi.Op α) (c : Orch.Cfg) (eps23 : α) (back : GenSolver.Cx α → GenSolver.Cx α) (near0 eps : α) :
    Orch.Respects (genKernC op c eps23 back near0 eps) (Live c.n c.ncv near0 eps) where
  facInit := by
    intro v a b
    have h := init_any op c.n c.ncv near0 eps v a b
    simp only [genKernC, withFacInit]
    cases ha : Arnoldi.init op { a with n := c.n, m := c.ncv, near0 := near0, eps := eps, ops := 0 } v with
    | none =>
      cases hb : Arnoldi.init op { b with n := c.n, m := c.ncv, near0 := near0, eps := eps, ops := 0 } v with
      | none => exact ⟨⟨rfl, rfl, rfl⟩, rfl, rfl⟩
      | some b' => rw [ha, hb] at h; cases h
    | some a' =>
      cases hb : Arnoldi.init op { b with n := c.n, m := c.ncv, near0 := near0, eps := eps, ops := 0 } v with
      | none => rw [ha, hb] at h; cases h
      | some b' =>
        rw [ha, hb] at h
        simp only [Option.map_some, Option.some.injEq] at h
        exact ⟨⟨(init_consts op v _ a' ha).trans rfl, (init_consts op v _ b' hb).trans rfl, h⟩, erase_ops h, rfl⟩
  factorize := by
    intro k m a b hab
    obtain ⟨ca, cb, hab'⟩ := hab
    have h := arnoldi_factorize_erase op k m hab'
    simp only [genKernC, withFacInit, GenSolver.genKern]
    cases ha : Arnoldi.factorize_from op a k m with
    | none =>
      cases hb : Arnoldi.factorize_from op b k m with
      | none => exact ⟨⟨ca, cb, hab'⟩, rfl, rfl⟩
      | some b' => rw [ha, hb] at h; cases h
    | some a' =>
      cases hb : Arnoldi.factorize_from op b k m with
      | none => rw [ha, hb] at h; cases h
      | some b' =>
        rw [ha, hb] at h
        simp only [Option.map_some, Option.some.injEq] at h
        refine ⟨⟨(arnoldi_factorize_consts op k m a a' ha).trans ca, (arnoldi_factorize_consts op k m b b' hb).trans cb, h⟩, ?_, rfl⟩
        show a'.ops - a.ops = b'.ops - b.ops
        rw [erase_ops h, erase_ops hab']
  facDim := by
    intro a b hab
    exact erase_k hab.2.2
  eig := by
    intro a b hab
    simp only [genKernC, withFacInit, GenSolver.genKern, GenSolver.eigH, erase_H hab.2.2]
  convTest := by
    intro t a b x y hab
    simp only [genKernC, withFacInit, GenSolver.genKern, GenSolver.convTest, erase_beta hab.2.2]
  restartFac := by
    intro k vals a b hab
    obtain ⟨ca, cb, hab'⟩ := hab
    simp only [genKernC, withFacInit, GenSolver.genKern]
    rw [gen_restartFac_eq, gen_restartFac_eq]
    have hL := genShiftLoop_erase c.ncv k vals hab'
    simp only [eraseP, Prod.mk.injEq] at hL
    obtain ⟨hL1, hL2⟩ := hL
    rw [← hL2]
    generalize hQ : (genShiftLoop c.ncv k vals a).2 = Q
    have cA : consts (genShiftLoop c.ncv k vals a).1 = _ := (genShiftLoop_consts _ _ _ a).trans ca
    have cB : consts (genShiftLoop c.ncv k vals b).1 = _ := (genShiftLoop_consts _ _ _ b).trans cb
    revert hL1 cA cB
    generalize (genShiftLoop c.ncv k vals a).1 = a1
    generalize (genShiftLoop c.ncv k vals b).1 = b1
    intro hL1 cA cB
    have hV := compress_V_erase op Q hL1
    have cA2 : consts (compress_V op a1 Q) = _ := (compress_V_consts op Q a1).trans cA
    have cB2 : consts (compress_V op b1 Q) = _ := (compress_V_consts op Q b1).trans cB
    revert hV cA2 cB2
    generalize compress_V op a1 Q = a2
    generalize compress_V op b1 Q = b2
    intro hV cA2 cB2
    have h := arnoldi_factorize_erase op k c.ncv hV
    cases ha : Arnoldi.factorize_from op a2 k c.ncv with
    | none =>
      cases hb : Arnoldi.factorize_from op b2 k c.ncv with
      | none => exact ⟨⟨cA2, cB2, hV⟩, rfl, rfl⟩
      | some b' => rw [ha, hb] at h; cases h
    | some a' =>
      cases hb : Arnoldi.factorize_from op b2 k c.ncv with
      | none => rw [ha, hb] at h; cases h
      | some b' =>
        rw [ha, hb] at h
        simp only [Option.map_some, Option.some.injEq] at h
        refine ⟨⟨(arnoldi_factorize_consts op k c.ncv a2 a' ha).trans cA2, (arnoldi_factorize_consts op k c.ncv b2 b' hb).trans cB2, h⟩, ?_, rfl⟩
        show a'.ops - a.ops = b'.ops - b.ops
        rw [erase_ops h, erase_ops hab']
  assemble := by
    intro a b x hab
    show GenSolver.assemble c.ncv a x = GenSolver.assemble c.ncv b x
    unfold GenSolver.assemble
    rw [erase_V hab.2.2]

/-! ### histories -/

variable (op : Arnoldi.Op α) (c : Orch.Cfg) (eps23 : α) (back : GenSolver.Cx α → GenSolver.Cx α) (near0 eps : α)

/-- state of a solver object of the general family -/
abbrev GSt (α : Type) := St (State α) (GenSolver.Cx α) (GenSolver.Cx α) (Vec (GenSolver.Cx α))

/-- the object carries the constants its constructor installed -/
def WfG (s : GSt α) : Prop := consts s.fac = (c.n, c.ncv, near0, eps)

theorem gen_construct_wf : WfG c near0 eps (construct (State.mk0 c.n c.ncv near0 eps) : GSt α) := rfl

theorem gen_simSt_refl {s : GSt α} (h : WfG c near0 eps s) : SimSt (Live c.n c.ncv near0 eps) s s :=
  ⟨Live.refl h, rfl, rfl, rfl, rfl, rfl, rfl⟩

theorem gen_init_wf (v0 : Vec α) {s : GSt α} (h : WfG c near0 eps s) :
    WfG c near0 eps (init (GenSolver.genKern op c eps23 back) c v0 s).1 := by
  show consts ((GenSolver.genKern op c eps23 back).facInit v0 s.fac).fac = _
  simp only [GenSolver.genKern]
  cases hi : Arnoldi.init op { s.fac with ops := 0 } v0 with
  | none => exact h
  | some s' => exact (init_consts op v0 _ s' hi).trans h

theorem gen_compute_wf (sel : Int) (maxit : Nat) (tol : α) (sorting : Int) {s : GSt α} (h : WfG c near0 eps s) :
    WfG c near0 eps (compute (GenSolver.genKern op c eps23 back) c sel maxit tol sorting s).st := by
  have hs := (compute_sim (genKernC op c eps23 back near0 eps) c (gen_respects op c eps23 back near0 eps)
    sel maxit tol sorting s s (gen_simSt_refl c near0 eps h)).1.fac
  rw [genKernC, compute_wfi] at hs
  exact hs.1

theorem gen_step_wf (call : Call (Vec α) α) {s : GSt α} (h : WfG c near0 eps s) :
    WfG c near0 eps (step (GenSolver.genKern op c eps23 back) c s call) := by
  cases call with
  | init v0 => exact gen_init_wf op c eps23 back near0 eps v0 h
  | compute sel maxit tol sorting => exact gen_compute_wf op c eps23 back near0 eps sel maxit tol sorting h

/-- the constants survive every history (runs that did not converge, runs that threw, anything) -/
theorem gen_run_wf (hist : List (Call (Vec α) α)) : ∀ {s : GSt α}, WfG c near0 eps s →
    WfG c near0 eps (run (GenSolver.genKern op c eps23 back) c s hist) := by
  induction hist with
  | nil => intro s h; exact h
  | cons call hist ih => intro s h; exact ih (gen_step_wf op c eps23 back near0 eps call h)

/-- on a well-formed object `init` with the pinned kernel is `init` with `genKern`: same exception, and the same new object
    whenever the start vector is accepted -/
theorem gen_init_bridge (v0 : Vec α) {s : GSt α} (h : WfG c near0 eps s) :
    (init (genKernC op c eps23 back near0 eps) c v0 s).2 = (init (GenSolver.genKern op c eps23 back) c v0 s).2 ∧
    ((init (GenSolver.genKern op c eps23 back) c v0 s).2 = none →
      (init (genKernC op c eps23 back near0 eps) c v0 s).1 = (init (GenSolver.genKern op c eps23 back) c v0 s).1) := by
  obtain ⟨h1, h2, h3⟩ := genKernC_facInit_eq op c eps23 back near0 eps v0 s.fac h
  refine ⟨h1, ?_⟩
  intro hn
  have h3' := h3 hn
  unfold Orch.init
  simp only [h2, h3']
  rfl

end

/-! ### `computeWith`: `Orch.compute` with a state-dependent prologue of `sort_ritzpair` (complex-shift class) -/

section cw
variable {φ ρ ε κ β τ ω : Type} (K : Kern φ ρ ε κ β τ ω) (c : Cfg) {R : φ → φ → Prop}

/-- `computeWith` never calls `facInit` -/
theorem computeWith_wfi (g : β → φ → FacRes φ) (pre : St φ ρ ε κ → St φ ρ ε κ) (sel : Int) (maxit : Nat) (tol : τ) (sorting : Int)
    (s : St φ ρ ε κ) :
    GenSolver.computeWith (withFacInit K g) c pre sel maxit tol sorting s = GenSolver.computeWith K c pre sel maxit tol sorting s := by
  unfold GenSolver.computeWith
  simp only [retrieve_wfi, loop_wfi, refresh_wfi, sortRitz_wfi]
  rfl

/-- `computeWith` maps similar states to similar states with identical outcome, provided the prologue does -/
theorem computeWith_sim (hK : Respects K R) (pre : St φ ρ ε κ → St φ ρ ε κ)
    (hpre : ∀ s1 s2, SimSt R s1 s2 → SimSt R (pre s1) (pre s2))
    (sel : Int) (maxit : Nat) (tol : τ) (sorting : Int) (s1 s2 : St φ ρ ε κ) (h : SimSt R s1 s2) :
    SimSt R (GenSolver.computeWith K c pre sel maxit tol sorting s1).st (GenSolver.computeWith K c pre sel maxit tol sorting s2).st ∧
    (GenSolver.computeWith K c pre sel maxit tol sorting s1).out = (GenSolver.computeWith K c pre sel maxit tol sorting s2).out ∧
    (∀ r, (GenSolver.computeWith K c pre sel maxit tol sorting s2).out = .ok r →
      (GenSolver.computeWith K c pre sel maxit tol sorting s1).st.info = (GenSolver.computeWith K c pre sel maxit tol sorting s2).st.info) := by
  obtain ⟨f1, rv1, rvec1, rest1, rconv1, nm1, ni1, info1⟩ := s1
  obtain ⟨f2, rv2, rvec2, rest2, rconv2, nm2, ni2, info2⟩ := s2
  obtain ⟨hfac, e1, e2, e3, e4, e5, e6⟩ := h
  dsimp only at hfac e1 e2 e3 e4 e5 e6
  subst e1 e2 e3 e4 e5 e6
  unfold GenSolver.computeWith
  dsimp only
  rw [hK.facDim f1 f2 hfac]
  generalize max 1 (K.facDim f2) = k0
  obtain ⟨q1, q2, q3⟩ := hK.factorize k0 c.ncv f1 f2 hfac
  rw [q3, q2]
  cases (K.factorize k0 c.ncv f2).exn with
  | some e => exact ⟨⟨q1, rfl, rfl, rfl, rfl, rfl, rfl⟩, rfl, by intro r hr; cases hr⟩
  | none =>
    dsimp only
    have hr := retrieve_sim K c hK sel
      ⟨(K.factorize k0 c.ncv f1).fac, rv1, rvec1, rest1, rconv1, nm1 + (K.factorize k0 c.ncv f2).ops, ni1, info1⟩
      ⟨(K.factorize k0 c.ncv f2).fac, rv1, rvec1, rest1, rconv1, nm1 + (K.factorize k0 c.ncv f2).ops, ni1, info2⟩
      ⟨q1, rfl, rfl, rfl, rfl, rfl, rfl⟩
    revert hr
    generalize retrieve K c sel ⟨(K.factorize k0 c.ncv f1).fac, rv1, rvec1, rest1, rconv1, _, ni1, info1⟩ = p1
    generalize retrieve K c sel ⟨(K.factorize k0 c.ncv f2).fac, rv1, rvec1, rest1, rconv1, _, ni1, info2⟩ = p2
    intro hr
    obtain ⟨a1, g1⟩ := p1
    obtain ⟨a2, g2⟩ := p2
    dsimp only at hr
    obtain ⟨hr1, hr2⟩ := hr
    subst hr2
    cases g1 with
    | some e => exact ⟨hr1, rfl, by intro r hr; cases hr⟩
    | none =>
      dsimp only
      obtain ⟨l1, l2, l3, l4, l5⟩ := loop_sim K c hK sel tol maxit 0 0 0 a1 a2 hr1
      rw [l5]
      cases (loop K c sel tol maxit 0 0 0 a2).exn with
      | some e => exact ⟨l1, rfl, by intro r hr; cases hr⟩
      | none =>
        dsimp only
        obtain ⟨m1, m2⟩ := refresh_sim K c hK tol maxit _ _ l1 l2 l3
        have hq := sortRitz_sim K c sorting _ _ (hpre _ _ m1)
        revert hq
        generalize sortRitz K c sorting (pre (refresh K c tol maxit (loop K c sel tol maxit 0 0 0 a1)).1) = w1
        generalize sortRitz K c sorting (pre (refresh K c tol maxit (loop K c sel tol maxit 0 0 0 a2)).1) = w2
        intro hq
        obtain ⟨b1, j1⟩ := w1
        obtain ⟨b2, j2⟩ := w2
        dsimp only at hq
        obtain ⟨hq1, hq2⟩ := hq
        subst hq2
        cases j1 with
        | some e => exact ⟨hq1, rfl, by intro r hr; cases hr⟩
        | none =>
          dsimp only
          refine ⟨⟨hq1.fac, hq1.ritzVal, hq1.ritzVec, hq1.ritzEst, hq1.ritzConv, hq1.nmatop, ?_⟩, by rw [m2], ?_⟩
          · dsimp only; rw [hq1.niter, l2]
          · intro r _; rw [m2]

end cw

section cs
variable {α : Type} [Add α] [Sub α] [Mul α] [Div α] [Neg α] [Sc α]
set_option linter.unusedSectionVars false

/-- the prologue of `GenEigsComplexShiftSolver::sort_ritzpair` as a state transformer -/
def csPre (probe : Vec α → Vec α) (c : Cfg) (sigmar sigmai : α) (st : GSt α) : GSt α :=
  { st with ritzVal := GenSolver.csBack probe c sigmar sigmai st }

theorem computeCS_eq (op : Arnoldi.Op α) (probe : Vec α → Vec α) (c : Cfg) (eps23 sigmar sigmai : α)
    (sel : Int) (maxit : Nat) (tol : α) (sorting : Int) (s : GSt α) :
    GenSolver.computeCS op probe c eps23 sigmar sigmai sel maxit tol sorting s =
      GenSolver.computeWith (GenSolver.genKern op c eps23 id) c (csPre probe c sigmar sigmai) sel maxit tol sorting s := rfl

/-- the prologue reads `V` (live), the Ritz vectors and the Ritz values, and writes the Ritz values -/
theorem csPre_sim (probe : Vec α → Vec α) (c : Cfg) (sigmar sigmai near0 eps : α) (s1 s2 : GSt α)
    (h : SimSt (Live c.n c.ncv near0 eps) s1 s2) :
    SimSt (Live c.n c.ncv near0 eps) (csPre probe c sigmar sigmai s1) (csPre probe c sigmar sigmai s2) := by
  obtain ⟨hfac, e1, e2, e3, e4, e5, e6⟩ := h
  refine ⟨hfac, ?_, e2, e3, e4, e5, e6⟩
  show GenSolver.csBack probe c sigmar sigmai s1 = GenSolver.csBack probe c sigmar sigmai s2
  unfold GenSolver.csBack
  rw [erase_V hfac.2.2, e1, e2]

/-! ### histories of a `GenEigsComplexShiftSolver` object -/

variable (op : Arnoldi.Op α) (probe : Vec α → Vec α) (c : Cfg) (eps23 sigmar sigmai near0 eps : α)

/-- one public call on a complex-shift solver (`compute` = `GenSolver.computeCS`) -/
def stepCS (s : GSt α) : Call (Vec α) α → GSt α
  | .init v0 => (init (GenSolver.genKern op c eps23 id) c v0 s).1
  | .compute sel maxit tol sorting => (GenSolver.computeCS op probe c eps23 sigmar sigmai sel maxit tol sorting s).st

def runCS (s : GSt α) (h : List (Call (Vec α) α)) : GSt α := h.foldl (stepCS op probe c eps23 sigmar sigmai) s

/-- `computeCS` on two similar objects: similar objects, same outcome, same `info` on return -/
theorem computeCS_sim (sel : Int) (maxit : Nat) (tol : α) (sorting : Int) (s1 s2 : GSt α)
    (h : SimSt (Live c.n c.ncv near0 eps) s1 s2) :
    SimSt (Live c.n c.ncv near0 eps) (GenSolver.computeCS op probe c eps23 sigmar sigmai sel maxit tol sorting s1).st
      (GenSolver.computeCS op probe c eps23 sigmar sigmai sel maxit tol sorting s2).st ∧
    (GenSolver.computeCS op probe c eps23 sigmar sigmai sel maxit tol sorting s1).out =
      (GenSolver.computeCS op probe c eps23 sigmar sigmai sel maxit tol sorting s2).out ∧
    (∀ r, (GenSolver.computeCS op probe c eps23 sigmar sigmai sel maxit tol sorting s2).out = .ok r →
      (GenSolver.computeCS op probe c eps23 sigmar sigmai sel maxit tol sorting s1).st.info =
      (GenSolver.computeCS op probe c eps23 sigmar sigmai sel maxit tol sorting s2).st.info) := by
  have hs := computeWith_sim (genKernC op c eps23 id near0 eps) c (gen_respects op c eps23 id near0 eps)
    (csPre probe c sigmar sigmai) (csPre_sim probe c sigmar sigmai near0 eps) sel maxit tol sorting s1 s2 h
  rw [genKernC, computeWith_wfi, computeWith_wfi] at hs
  exact hs

theorem computeCS_wf (sel : Int) (maxit : Nat) (tol : α) (sorting : Int) {s : GSt α} (h : WfG c near0 eps s) :
    WfG c near0 eps (GenSolver.computeCS op probe c eps23 sigmar sigmai sel maxit tol sorting s).st :=
  (computeCS_sim op probe c eps23 sigmar sigmai near0 eps sel maxit tol sorting s s (gen_simSt_refl c near0 eps h)).1.fac.1

theorem runCS_wf (hist : List (Call (Vec α) α)) : ∀ {s : GSt α}, WfG c near0 eps s →
    WfG c near0 eps (runCS op probe c eps23 sigmar sigmai s hist) := by
  induction hist with
  | nil => intro s h; exact h
  | cons call hist ih =>
    intro s h
    refine ih ?_
    cases call with
    | init v0 => exact gen_init_wf op c eps23 id near0 eps v0 h
    | compute sel maxit tol sorting => exact computeCS_wf op probe c eps23 sigmar sigmai near0 eps sel maxit tol sorting h

end cs
end C06Footprint
