/-
  Lemmas for C15 (Davidson): `RitzPairs::sort` orders the pairs by the selection rule.  Reuses the C18 theorems about the
  translated `Gen.Sort.argsort` (exact arithmetic = any linearly ordered field).
-/
import SpectraVerif.Properties.C18
import SpectraVerif.Model.Davidson
import Mathlib.Data.List.Nodup

namespace C15L
open Dav Gen.Sort

section
variable {F : Type} [Field F] [LinearOrder F] [IsStrictOrderedRing F] (Fn : FieldFns F)

/-- the value function `Exec.argsortList` hands to the translated `argsort` -/
def valsFn (vals : List F) : Int → F :=
  fun i => if i < 0 then @Lin.zero F (scOfField Fn) else vals.toArray.getD i.toNat (@Lin.zero F (scOfField Fn))

theorem range_map_getD (l : List Int) (n : Nat) (hn : l.length = n) :
    (List.range n).map (fun (i : Nat) => (l.getD i 0).toNat) = l.map Int.toNat := by
  apply List.ext_getElem
  · simp [hn]
  · intro i h1 h2
    simp only [List.getElem_map, List.getElem_range]
    have hi : i < l.length := by simpa using h2
    simp [List.getD_eq_getElem?_getD, List.getElem?_eq_getElem hi]

theorem baseOrder_length (sel : Int) (values : Int → F) (n : Nat) : (C18.baseOrder Fn sel values n).length = n := by
  have := (C18.c18_perm_base Fn sel values n).length_eq
  rw [this, intRange_length]; omega

theorem baseOrder_mem (sel : Int) (values : Int → F) (n : Nat) (b : Int) (hb : b ∈ C18.baseOrder Fn sel values n) :
    0 ≤ b ∧ b < n := by
  have := (C18.c18_perm_base Fn sel values n).mem_iff.mp hb
  exact mem_intRange.mp this

/-- for the four rules of the symmetric solvers `argsortList` is the C18 base order -/
theorem argsortList_eq (sel : Int) (vals : List F) (h : sel = 0 ∨ sel = 3 ∨ sel = 4 ∨ sel = 7) :
    @Exec.argsortList F _ _ _ _ _ (scOfField Fn) sel vals
      = (C18.baseOrder Fn sel (valsFn Fn vals) vals.length).map Int.toNat := by
  have hr : argsort_rule sel ≠ -1 := (C18.c18_dispatch_real sel).mpr (by rcases h with h | h | h | h <;> simp [h])
  obtain ⟨ind, hind, hval⟩ := C18.c18_argsort_value Fn sel (valsFn Fn vals) vals.length hr
  have h8 : sel ≠ 8 := by rcases h with h | h | h | h <;> omega
  unfold Exec.argsortList
  simp only
  have : @argsort F _ _ _ _ _ (scOfField Fn) sel
      (fun i => if i < 0 then @Lin.zero F (scOfField Fn) else vals.toArray.getD i.toNat (@Lin.zero F (scOfField Fn))) vals.length
      = Res.ok ind := hind
  rw [this]
  simp only
  rw [← range_map_getD _ vals.length (baseOrder_length Fn sel _ _)]
  apply List.map_congr_left
  intro i hi
  have hi' : i < vals.length := List.mem_range.mp hi
  have := hval (i : Int) (by omega) (by omega)
  simp only [h8, if_false] at this
  rw [this]; simp

/-- the values of the pairs selected along an index list all of whose entries are valid -/
theorem values_along {ν : Type} (pairs : List (Pair F ν)) (l : List Int) (hl : ∀ b ∈ l, 0 ≤ b ∧ b < (pairs.length : Int)) :
    ((l.map Int.toNat).filterMap (fun i => pairs[i]?)).map (fun p => p.value)
      = l.map (valsFn Fn (pairs.map (fun p => p.value))) := by
  induction l with
  | nil => rfl
  | cons b l ih =>
    have hb := hl b (List.mem_cons_self ..)
    have hlt : b.toNat < pairs.length := by omega
    have ih' := ih (fun x hx => hl x (List.mem_cons_of_mem _ hx))
    simp only [List.map_cons, List.filterMap_cons, List.getElem?_eq_getElem hlt]
    rw [ih']
    congr 1
    have hneg : ¬ (b < 0) := by omega
    simp only [valsFn, hneg, if_false]
    simp [hlt]

/-- `RitzPairs::sort(selection)` with the library's `argsort`: the values come out ordered by the rule -/
theorem sortPairs_ordered {ν : Type} (K : Kern F ν) (hK : K.argsort = @Exec.argsortList F _ _ _ _ _ (scOfField Fn))
    (sel : Int) (h : sel = 0 ∨ sel = 3 ∨ sel = 4 ∨ sel = 7) (s : St F ν) :
    ((sortPairs K sel s).pairs.map (fun p => p.value)).Pairwise (fun x y =>
      (sel = 0 → |y| ≤ |x|) ∧ (sel = 3 → y ≤ x) ∧ (sel = 4 → |x| ≤ |y|) ∧ (sel = 7 → x ≤ y)) := by
  unfold sortPairs
  simp only
  rw [hK, argsortList_eq Fn sel _ h]
  have hlen : (s.pairs.map (fun p => p.value)).length = s.pairs.length := List.length_map _
  rw [hlen]
  rw [values_along Fn s.pairs _ (fun b hb => baseOrder_mem Fn sel _ _ b hb)]
  have hs := C18.c18_sorted Fn sel (valsFn Fn (s.pairs.map (fun p => p.value))) s.pairs.length
  rw [List.pairwise_map]
  refine List.Pairwise.imp ?_ hs
  intro a b hab
  exact ⟨hab.1, fun h3 => hab.2.1 (Or.inl h3), hab.2.2.1, hab.2.2.2⟩

/-- the translated `argsort` repeats no index (hypothesis `ArgsortSpec` of the orthonormality theorem) -/
theorem argsortList_nodup (sel : Int) (vals : List F) (h : sel = 0 ∨ sel = 3 ∨ sel = 4 ∨ sel = 7) :
    (@Exec.argsortList F _ _ _ _ _ (scOfField Fn) sel vals).Nodup := by
  rw [argsortList_eq Fn sel vals h]
  have hp := C18.c18_perm_base Fn sel (valsFn Fn vals) vals.length
  have hnd : (C18.baseOrder Fn sel (valsFn Fn vals) vals.length).Nodup := by
    rw [hp.nodup_iff]
    unfold intRange
    refine List.Nodup.map ?_ List.nodup_range
    intro a b hab; simpa using hab
  refine List.Nodup.map_on ?_ hnd
  intro a ha b hb hab
  have h1 := baseOrder_mem Fn sel _ _ a ha
  have h2 := baseOrder_mem Fn sel _ _ b hb
  omega

/-- ... and `RitzPairs::sort` keeps the number of pairs (hypothesis `LenSpec.sort` of the bookkeeping theorem) -/
theorem sortPairs_length {ν : Type} (K : Kern F ν) (hK : K.argsort = @Exec.argsortList F _ _ _ _ _ (scOfField Fn))
    (sel : Int) (h : sel = 0 ∨ sel = 3 ∨ sel = 4 ∨ sel = 7) (ps : List (Pair F ν)) :
    ((K.argsort sel (ps.map (fun p => p.value))).filterMap (fun i => ps[i]?)).length = ps.length := by
  rw [hK, argsortList_eq Fn sel _ h]
  have hlen : (ps.map (fun p => p.value)).length = ps.length := List.length_map _
  rw [hlen]
  have hv := values_along Fn ps (C18.baseOrder Fn sel (valsFn Fn (ps.map (fun p => p.value))) ps.length)
    (fun b hb => baseOrder_mem Fn sel _ _ b hb)
  have := congrArg List.length hv
  simp only [List.length_map] at this
  rw [this, baseOrder_length]

end
end C15L
