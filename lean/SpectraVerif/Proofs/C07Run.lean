/-
  Orthogonality under compress, the Lanczos three-term coefficients, shape facts, and the composition of steps
  (helper lemmas for Properties/C07.lean; builds on Proofs/C07Krylov.lean).
-/
import SpectraVerif.Proofs.C07Krylov

open Finset

namespace C07

variable {𝕜 : Type*} [Field 𝕜] {E : Type*} [AddCommGroup E] [Module 𝕜 E]

/-- `V⁺ = V Q` -/
def mulQ (V : ℕ → E) (Q : ℕ → ℕ → 𝕜) (m : ℕ) : ℕ → E := fun j => ∑ a ∈ range m, Q a j • V a

/-- columns of `Q` orthonormal (`QᴴQ = I` on the first `k1` columns) keep `VᴴBV = I` -/
theorem compress_on (P : IP 𝕜 E) (V : ℕ → E) (Q : ℕ → ℕ → 𝕜) (m k1 : ℕ) (hON : ON P V m)
    (hQ : ∀ i, i < k1 → ∀ j, j < k1 → ∑ a ∈ range m, P.conj (Q a i) * Q a j = if i = j then 1 else 0) :
    ON P (mulQ V Q m) k1 := by
  intro i hi j hj
  simp only [mulQ]
  rw [P.sum_left, ← hQ i hi j hj]
  apply sum_congr rfl
  intro a ha
  rw [P.smul_left, P.sum_right, sum_eq_single a]
  · rw [P.smul_right, hON a (mem_range.mp ha) a (mem_range.mp ha)]; simp
  · intro b hb hne
    rw [P.smul_right, hON a (mem_range.mp ha) b (mem_range.mp hb)]
    simp [Ne.symm hne]
  · intro hn; exact absurd ha hn

/-- `f⁺ = q f + η v⁺_k` is orthogonal to the first `k` columns of `V⁺` -/
theorem compress_fo (P : IP 𝕜 E) (V : ℕ → E) (Q : ℕ → ℕ → 𝕜) (f : E) (m k : ℕ) (q η : 𝕜)
    (hFO : FO P V f m) (hONp : ON P (mulQ V Q m) (k + 1)) :
    FO P (mulQ V Q m) (q • f + η • mulQ V Q m k) k := by
  intro j hj
  rw [P.add_right, P.smul_right, P.smul_right, hONp j (by omega) k (by omega)]
  have hne : j ≠ k := Nat.ne_of_lt hj
  have : P.ip (mulQ V Q m j) f = 0 := by
    simp only [mulQ]
    rw [P.sum_left]
    apply sum_eq_zero
    intro a ha
    rw [P.smul_left, hFO a (mem_range.mp ha), mul_zero]
  rw [this]; simp [hne]

/-- Lanczos: for a `B`-self-adjoint operator, an orthonormal extended basis and an exact `k`-step relation, the
    projection coefficients of `A v_k` on the old basis are `(0, …, 0, β)`: the three-term recurrence IS full Gram–Schmidt -/
theorem lanczos_coeffs (P : IP 𝕜 E) (A : E →ₗ[𝕜] E) (V : ℕ → E) (H : ℕ → ℕ → 𝕜) (f : E) (k : ℕ) (β : 𝕜)
    (hsa : ∀ x y, P.ip x (A y) = P.ip (A x) y)
    (hβ : β ≠ 0) (hβc : P.conj β = β)
    (hK : Kry A V H f k)
    (hON : ON P (extV V k (β⁻¹ • f)) (k + 1)) :
    ∀ i, i < k → P.ip (extV V k (β⁻¹ • f) i) (A (extV V k (β⁻¹ • f) k)) = if i + 1 = k then β else 0 := by
  intro i hi
  set V' := extV V k (β⁻¹ • f) with hV'
  have hne : i ≠ k := Nat.ne_of_lt hi
  have hVi : V' i = V i := by simp [hV', extV, Function.update_of_ne hne]
  have hVk : V' k = β⁻¹ • f := by simp [hV', extV]
  have hf : f = β • V' k := by rw [hVk, smul_smul, mul_inv_cancel₀ hβ, one_smul]
  rw [hsa, hVi, hK i hi, P.add_left, P.sum_left]
  have hz : ∑ l ∈ range k, P.ip (H l i • V l) (V' k) = 0 := by
    apply sum_eq_zero
    intro l hl
    have hlk : l ≠ k := Nat.ne_of_lt (mem_range.mp hl)
    have hVl : V l = V' l := by simp [hV', extV, Function.update_of_ne hlk]
    rw [P.smul_left, hVl, hON l (by have := mem_range.mp hl; omega) k (by omega)]
    simp [hlk]
  rw [hz, zero_add]
  by_cases hik : i + 1 = k
  · simp only [hik, if_true]
    rw [hf, P.smul_left, hβc, hON k (by omega) k (by omega)]; simp
  · simp [hik, P.zero_left]

/-! ### shape -/

/-- leading `k × k` block upper Hessenberg -/
def Hess (H : ℕ → ℕ → 𝕜) (k : ℕ) : Prop := ∀ i j, i < k → j < k → j + 1 < i → H i j = 0

theorem hess_ext (H : ℕ → ℕ → 𝕜) (k : ℕ) (sub : 𝕜) (h : ℕ → 𝕜) (hH : Hess H k) : Hess (extH H k sub h) (k + 1) := by
  intro i j hi hj hij
  have hjk : j ≠ k := by omega
  simp only [extH, hjk, if_false]
  by_cases hik : i = k
  · have : j + 1 ≠ k := by omega
    simp [hik, this]
  · simp only [hik, if_false]; exact hH i j (by omega) (by omega) hij

/-- leading `k × k` block symmetric tridiagonal -/
def TriSym (H : ℕ → ℕ → 𝕜) (k : ℕ) : Prop :=
  (∀ i j, i < k → j < k → (j + 1 < i ∨ i + 1 < j) → H i j = 0) ∧ (∀ i j, i < k → j < k → H i j = H j i)

/-- the coefficient column the Lanczos code writes: `H(k-1,k) = β`, `H(k,k) = α`, nothing else -/
def lanH (k : ℕ) (α β : 𝕜) : ℕ → 𝕜 := fun i => if i = k then α else if i + 1 = k then β else 0

theorem trisym_ext (H : ℕ → ℕ → 𝕜) (k : ℕ) (α β : 𝕜) (hH : TriSym H k) :
    TriSym (extH H k β (lanH k α β)) (k + 1) := by
  constructor
  · intro i j hi hj hij
    simp only [extH, lanH]
    by_cases hjk : j = k
    · have h1 : i ≠ k := by omega
      have h2 : i + 1 ≠ k := by omega
      simp [hjk, h1, h2]
    · by_cases hik : i = k
      · have : j + 1 ≠ k := by omega
        simp [hjk, hik, this]
      · simp only [hjk, hik, if_false]; exact hH.1 i j (by omega) (by omega) hij
  · intro i j hi hj
    simp only [extH, lanH]
    by_cases hjk : j = k <;> by_cases hik : i = k
    · simp [hjk, hik]
    · subst hjk
      by_cases h1 : i + 1 = j
      · simp [hik, h1]
      · simp [hik, h1]
    · subst hik
      by_cases h1 : j + 1 = i
      · simp [hjk, h1]
      · simp [hjk, h1]
    · simp only [hjk, hik, if_false]; exact hH.2 i j (by omega) (by omega)

theorem trisym_hess (H : ℕ → ℕ → 𝕜) (k : ℕ) (hH : TriSym H k) : Hess H k :=
  fun i j hi hj hij => hH.1 i j hi hj (Or.inl hij)

/-- What `Lanczos::factorize_from`'s re-orthogonalisation drops.  The correction `f -= V g` uses the FULL coefficient vector `g`,
    but only `H(k-1,k) += g(k-1)`, `H(k,k-1) = H(k-1,k)`, `H(k,k) += g(k)` are recorded.  Starting from the exact three-term
    step, the `(k+1)`-step relation then holds with the explicit error columns
      `R k = Σ_{j+1<k} g j • v_j`  (the dropped coefficients)  and  `R (k-1) = - g(k-1) • v_k`  (the symmetrised sub-diagonal),
    which vanish iff those coefficients are zero (exact arithmetic + orthonormal basis: `lanczos_coeffs`). -/
theorem lanczos_dropped (A : E →ₗ[𝕜] E) (V : ℕ → E) (H : ℕ → ℕ → 𝕜) (f : E) (k : ℕ) (β α : 𝕜) (hβ : β ≠ 0)
    (g : ℕ → 𝕜) (hK : Kry A V H f k) :
    let V' := extV V k (β⁻¹ • f)
    KryE A V' (extH H k (β + g (k - 1)) (lanH k (α + g k) (β + g (k - 1))))
      (resid A V' k (lanH k α β) - ∑ j ∈ range (k + 1), g j • V' j) (k + 1)
      (fun j => if j = k then ∑ i ∈ range (k + 1), (if i + 1 < k then g i else 0) • V' i
                else if j + 1 = k then - g (k - 1) • V' k else 0) := by
  intro V'
  have h1 := step_general A V H f k (fun _ => 0) (β⁻¹ • f) (β + g (k - 1))
    (lanH k (α + g k) (β + g (k - 1))) ((kry_iff_kryE A V H f k).mp hK)
  intro j hj
  have e := h1 j hj
  rcases Nat.lt_succ_iff_lt_or_eq.mp hj with hlt | heq
  · have hne : j ≠ k := Nat.ne_of_lt hlt
    have hjk1 : j + 1 ≠ k + 1 := by omega
    rw [e]
    simp only [hjk1, if_false, add_zero, extR, hne]
    by_cases hlast : j + 1 = k
    · simp only [hlast, if_true, zero_add]
      have hx : (β + g (k - 1)) • β⁻¹ • f = f + g (k - 1) • β⁻¹ • f := by
        rw [add_smul, smul_smul β, mul_inv_cancel₀ hβ, one_smul]
      have : f - (β + g (k - 1)) • β⁻¹ • f = - g (k - 1) • extV V k (β⁻¹ • f) k := by
        rw [hx]; simp only [extV, Function.update_self, neg_smul]; abel
      rw [this]
    · simp only [hlast, if_false, add_zero]; rfl
  · subst heq
    rw [e]
    simp only [if_true, extR, add_zero]
    -- residuals differ exactly by the dropped / recorded coefficients
    have hr : resid A V' j (lanH j (α + g j) (β + g (j - 1)))
        = resid A V' j (lanH j α β) - ∑ i ∈ range (j + 1), g i • V' i
          + ∑ i ∈ range (j + 1), (if i + 1 < j then g i else 0) • V' i := by
      simp only [resid]
      have : ∀ i ∈ range (j + 1), lanH j (α + g j) (β + g (j - 1)) i • V' i
          = lanH j α β i • V' i + g i • V' i - (if i + 1 < j then g i else 0) • V' i := by
        intro i hi
        have hi' := mem_range.mp hi
        simp only [lanH]
        by_cases h1 : i = j
        · have : ¬ (i + 1 < j) := by omega
          simp [h1, add_smul]
        · by_cases h2 : i + 1 = j
          · have h3 : ¬ (i + 1 < j) := by omega
            have h4 : j - 1 = i := by omega
            simp [h1, h2, h4, add_smul]
          · have h3 : i + 1 < j := by omega
            simp [h1, h2, h3]
      rw [sum_congr rfl this, sum_sub_distrib, sum_add_distrib]
      abel
    rw [hr]
    abel


/-! ### composition over any finite sequence of steps -/

/-- factorization state (the data members of `Arnoldi`) plus the accumulated error columns -/
structure St (𝕜 : Type*) (E : Type*) where
  V : ℕ → E
  H : ℕ → ℕ → 𝕜
  f : E
  k : ℕ
  R : ℕ → E

/-- what the code can do to a factorization between two hand-over points -/
inductive Step (𝕜 : Type*) (E : Type*) where
  /-- regular extension: `v = f/β`, `H(k,k-1) = β`, coefficient column `h` (after all re-orthogonalisation corrections) -/
  | extend (β : 𝕜) (h : ℕ → 𝕜)
  /-- breakdown / local restart: residual discarded, fresh direction `g` (from `expand_basis`), `v = g/γ`, `H(k,k-1) = 0` -/
  | restart (g : E) (γ : 𝕜) (h : ℕ → 𝕜)
  /-- implicit restart: `H ← Hp (= QᴴHQ)`, `V ← VQ`, `f ← Q(m-1,k-1) f + Hp(k,k-1) v⁺_k`, `k ← knew` -/
  | compress (knew : ℕ) (Q Hp : ℕ → ℕ → 𝕜)

def St.step (A : E →ₗ[𝕜] E) (s : St 𝕜 E) : Step 𝕜 E → St 𝕜 E
  | .extend β h =>
      let V' := extV s.V s.k (β⁻¹ • s.f)
      ⟨V', extH s.H s.k β h, resid A V' s.k h, s.k + 1, extR s.R s.k 0⟩
  | .restart g γ h =>
      let V' := extV s.V s.k (γ⁻¹ • g)
      ⟨V', extH s.H s.k 0 h, resid A V' s.k h, s.k + 1, extR s.R s.k s.f⟩
  | .compress knew Q Hp =>
      ⟨mulQ s.V Q s.k, Hp, Q (s.k - 1) (knew - 1) • s.f + Hp knew (knew - 1) • mulQ s.V Q s.k knew, knew,
        fun j => ∑ a ∈ range s.k, Q a j • s.R a⟩

/-- side conditions of a step (what the QR helpers guarantee for `compress`: C08) -/
def Step.ok (s : St 𝕜 E) : Step 𝕜 E → Prop
  | .extend β _ => β ≠ 0
  | .restart _ _ _ => True
  | .compress knew Q Hp =>
      0 < knew ∧ knew < s.k ∧
      (∀ i, i < s.k → ∀ j, j < knew → ∑ a ∈ range s.k, s.H i a * Q a j = ∑ b ∈ range s.k, Q i b * Hp b j) ∧
      (∀ b j, j + 1 < b → j < knew → b < s.k → Hp b j = 0) ∧
      (∀ j, j + 1 < knew → Q (s.k - 1) j = 0)

/-- the step discards nothing -/
def Step.exact (s : St 𝕜 E) : Step 𝕜 E → Prop
  | .restart _ _ _ => s.f = 0
  | _ => True

def run (A : E →ₗ[𝕜] E) (s : St 𝕜 E) (l : List (Step 𝕜 E)) : St 𝕜 E := l.foldl (St.step A) s

def allOk (A : E →ₗ[𝕜] E) : St 𝕜 E → List (Step 𝕜 E) → Prop
  | _, [] => True
  | s, st :: rest => st.ok s ∧ allOk A (s.step A st) rest

def allExact (A : E →ₗ[𝕜] E) : St 𝕜 E → List (Step 𝕜 E) → Prop
  | _, [] => True
  | s, st :: rest => st.exact s ∧ allExact A (s.step A st) rest

theorem step_kryE (A : E →ₗ[𝕜] E) (s : St 𝕜 E) (st : Step 𝕜 E) (hok : st.ok s)
    (hK : KryE A s.V s.H s.f s.k s.R) :
    KryE A (s.step A st).V (s.step A st).H (s.step A st).f (s.step A st).k (s.step A st).R := by
  cases st with
  | extend β h =>
    have := step_general A s.V s.H s.f s.k s.R (β⁻¹ • s.f) β h hK
    have hd : s.f - β • β⁻¹ • s.f = 0 := by
      rw [smul_smul, mul_inv_cancel₀ hok, one_smul, sub_self]
    rw [hd] at this
    exact this
  | restart g γ h =>
    have := step_general A s.V s.H s.f s.k s.R (γ⁻¹ • g) 0 h hK
    simpa [St.step] using this
  | compress knew Q Hp =>
    obtain ⟨h0, hlt, hHQ, hHess, hband⟩ := hok
    exact compress_general A s.V s.H Hp Q s.f s.k knew s.R h0 hlt hK hHQ hHess hband

theorem run_kryE (A : E →ₗ[𝕜] E) (l : List (Step 𝕜 E)) : ∀ (s : St 𝕜 E), allOk A s l →
    KryE A s.V s.H s.f s.k s.R →
    KryE A (run A s l).V (run A s l).H (run A s l).f (run A s l).k (run A s l).R := by
  induction l with
  | nil => intro s _ h; exact h
  | cons st rest ih =>
    intro s hok hK
    exact ih (s.step A st) hok.2 (step_kryE A s st hok.1 hK)

theorem step_R_zero (A : E →ₗ[𝕜] E) (s : St 𝕜 E) (st : Step 𝕜 E) (hex : st.exact s) (hR : s.R = fun _ => 0) :
    (s.step A st).R = fun _ => 0 := by
  cases st with
  | extend β h => simp only [St.step, hR]; exact extR_zero s.k
  | restart g γ h =>
    have hf : s.f = 0 := hex
    simp only [St.step, hR, hf]; exact extR_zero s.k
  | compress knew Q Hp => funext j; simp [St.step, hR]

theorem run_R_zero (A : E →ₗ[𝕜] E) (l : List (Step 𝕜 E)) : ∀ (s : St 𝕜 E), allExact A s l → (s.R = fun _ => 0) →
    (run A s l).R = fun _ => 0 := by
  induction l with
  | nil => intro s _ h; exact h
  | cons st rest ih =>
    intro s hex hR
    exact ih (s.step A st) hex.2 (step_R_zero A s st hex.1 hR)

/-- orthogonality side conditions of a step: the coefficients are the exact projections, `β` is the `B`-norm of `f`,
    the fresh direction is `B`-orthogonal to `V`, the columns of `Q` are orthonormal -/
def Step.orthOk (P : IP 𝕜 E) (A : E →ₗ[𝕜] E) (s : St 𝕜 E) : Step 𝕜 E → Prop
  | .extend β h => β ≠ 0 ∧ P.conj β = β ∧ β * β = P.ip s.f s.f ∧
      ∀ i, i < s.k + 1 → h i = P.ip (extV s.V s.k (β⁻¹ • s.f) i) (A (extV s.V s.k (β⁻¹ • s.f) s.k))
  | .restart g γ h => FO P s.V g s.k ∧ γ ≠ 0 ∧ P.conj γ = γ ∧ γ * γ = P.ip g g ∧
      ∀ i, i < s.k + 1 → h i = P.ip (extV s.V s.k (γ⁻¹ • g) i) (A (extV s.V s.k (γ⁻¹ • g) s.k))
  | .compress knew Q _ => knew < s.k ∧
      ∀ i, i < knew + 1 → ∀ j, j < knew + 1 → ∑ a ∈ range s.k, P.conj (Q a i) * Q a j = if i = j then 1 else 0

def allOrthOk (P : IP 𝕜 E) (A : E →ₗ[𝕜] E) : St 𝕜 E → List (Step 𝕜 E) → Prop
  | _, [] => True
  | s, st :: rest => st.orthOk P A s ∧ allOrthOk P A (s.step A st) rest

theorem on_mono (P : IP 𝕜 E) (V : ℕ → E) (k k' : ℕ) (h : k ≤ k') (hON : ON P V k') : ON P V k :=
  fun i hi j hj => hON i (by omega) j (by omega)

theorem step_orth (P : IP 𝕜 E) (A : E →ₗ[𝕜] E) (s : St 𝕜 E) (st : Step 𝕜 E) (hok : st.orthOk P A s)
    (hON : ON P s.V s.k) (hFO : FO P s.V s.f s.k) :
    ON P (s.step A st).V (s.step A st).k ∧ FO P (s.step A st).V (s.step A st).f (s.step A st).k := by
  cases st with
  | extend β h =>
    obtain ⟨hβ, hβc, hn, hh⟩ := hok
    have hON' := on_extend P s.V s.k s.f β hON hFO hβ hβc hn
    exact ⟨hON', resid_orth P _ (s.k + 1) _ h hON' hh⟩
  | restart g γ h =>
    obtain ⟨hg, hγ, hγc, hn, hh⟩ := hok
    have hON' := on_extend P s.V s.k g γ hON hg hγ hγc hn
    exact ⟨hON', resid_orth P _ (s.k + 1) _ h hON' hh⟩
  | compress knew Q Hp =>
    obtain ⟨hlt, hQ⟩ := hok
    have hON' : ON P (mulQ s.V Q s.k) (knew + 1) := compress_on P s.V Q s.k (knew + 1) hON hQ
    exact ⟨on_mono P _ knew (knew + 1) (by omega) hON', compress_fo P s.V Q s.f s.k knew _ _ hFO hON'⟩

theorem run_orth (P : IP 𝕜 E) (A : E →ₗ[𝕜] E) (l : List (Step 𝕜 E)) : ∀ (s : St 𝕜 E), allOrthOk P A s l →
    ON P s.V s.k → FO P s.V s.f s.k →
    ON P (run A s l).V (run A s l).k ∧ FO P (run A s l).V (run A s l).f (run A s l).k := by
  induction l with
  | nil => intro s _ h1 h2; exact ⟨h1, h2⟩
  | cons st rest ih =>
    intro s hok h1 h2
    obtain ⟨a, b⟩ := step_orth P A s st hok.1 h1 h2
    exact ih (s.step A st) hok.2 a b

/-- advertised dimension after a sequence: `+1` per extension / restart, `knew` after a compress -/
def dimAfter : ℕ → List (Step 𝕜 E) → ℕ
  | k, [] => k
  | k, .extend _ _ :: rest => dimAfter (k + 1) rest
  | k, .restart _ _ _ :: rest => dimAfter (k + 1) rest
  | _, .compress knew _ _ :: rest => dimAfter knew rest

theorem run_dim (A : E →ₗ[𝕜] E) (l : List (Step 𝕜 E)) : ∀ (s : St 𝕜 E), (run A s l).k = dimAfter s.k l := by
  induction l with
  | nil => intro s; rfl
  | cons st rest ih =>
    intro s
    cases st <;> simp only [run, List.foldl_cons, dimAfter] <;> exact ih _

end C07
