/-
  C10 — tier 3: `solve_inplace` returns a solution.  Given the factorization identity `P (A − σI) Pᵀ = L D Lᵀ` (hypothesis `hid`,
  proved separately) and non-singular diagonal blocks (hypothesis `hD`), the five phases of `solve_inplace`
  (P, L⁻¹, D⁻¹, L⁻ᵀ, Pᵀ) compose to `x` with `(A − σI) x = b`, in exact arithmetic (`scOfField`).
-/
import Mathlib.Tactic.Ring
import Mathlib.Tactic.Linarith
import Mathlib.Tactic.FieldSimp
import Mathlib.Algebra.BigOperators.Intervals
import Mathlib.Algebra.BigOperators.Ring.Finset
import SpectraVerif.Proofs.C10FactorDefs
import SpectraVerif.Proofs.C10Scalar
open Gen.BK

set_option linter.unusedSectionVars false
set_option linter.unusedVariables false
set_option linter.unusedSimpArgs false
namespace BKLDLT
namespace SolveC
section
variable {K : Type} [Field K]

/-! ### sums over integer intervals -/
/-- `∑_{lo ≤ c < hi} f c` -/
def isum (lo hi : Int) (f : Int → K) : K := ∑ t ∈ Finset.range (hi - lo).toNat, f (lo + (t : Int))

theorem isum_empty {lo hi : Int} (f : Int → K) (h : hi ≤ lo) : isum lo hi f = 0 := by
  have e : (hi - lo).toNat = 0 := by omega
  simp [isum, e]

theorem isum_succ_right {lo hi : Int} (f : Int → K) (h : lo ≤ hi) : isum lo (hi + 1) f = isum lo hi f + f hi := by
  have e : (hi + 1 - lo).toNat = (hi - lo).toNat + 1 := by omega
  have e2 : lo + (((hi - lo).toNat : Nat) : Int) = hi := by omega
  simp only [isum, e, Finset.sum_range_succ, e2]

theorem isum_succ_left {lo hi : Int} (f : Int → K) (h : lo < hi) : isum lo hi f = f lo + isum (lo + 1) hi f := by
  have e : (hi - lo).toNat = (hi - (lo + 1)).toNat + 1 := by omega
  simp only [isum, e, Finset.sum_range_succ']
  rw [add_comm]
  congr 1
  · simp
  · apply Finset.sum_congr rfl
    intro t _
    congr 1; push_cast; ring

theorem isum_congr {lo hi : Int} {f g : Int → K} (h : ∀ c, lo ≤ c → c < hi → f c = g c) : isum lo hi f = isum lo hi g := by
  unfold isum
  apply Finset.sum_congr rfl
  intro t ht
  have := Finset.mem_range.1 ht
  exact h _ (by omega) (by omega)

theorem isum_zero {lo hi : Int} {f : Int → K} (h : ∀ c, lo ≤ c → c < hi → f c = 0) : isum lo hi f = 0 := by
  rw [isum_congr (g := fun _ => 0) h]
  simp [isum]

theorem isum_split {lo hi : Int} (f : Int → K) (mid : Int) (h1 : lo ≤ mid) (h2 : mid ≤ hi) :
    isum lo hi f = isum lo mid f + isum mid hi f := by
  have e : (hi - lo).toNat = (mid - lo).toNat + (hi - mid).toNat := by omega
  simp only [isum, e, Finset.sum_range_add]
  congr 1
  apply Finset.sum_congr rfl
  intro t _
  congr 1; push_cast; omega

theorem isum_range (n : Int) (f : Int → K) : isum 0 n f = ∑ c ∈ Finset.range n.toNat, f (c : Int) := by
  simp [isum]

theorem isum_ite_eq (lo hi a : Int) (A : K) : isum lo hi (fun c => if c = a then A else 0) = if lo ≤ a ∧ a < hi then A else 0 := by
  by_cases h : lo ≤ a ∧ a < hi
  · rw [if_pos h, isum_split _ a h.1 (by omega), isum_succ_left _ h.2, if_pos rfl,
      isum_zero (fun c h1 h2 => if_neg (by omega)), isum_zero (fun c h1 h2 => if_neg (by omega))]
    ring
  · rw [if_neg h]
    exact isum_zero (fun c h1 h2 => if_neg (by omega))

theorem isum_add (lo hi : Int) (f g : Int → K) : isum lo hi (fun c => f c + g c) = isum lo hi f + isum lo hi g := by
  simp [isum, Finset.sum_add_distrib]

/-! ### `kind` along the tiling -/
theorem kind_zero (pf : Int → Int) : kind pf 0 = if pf 0 < 0 then 1 else 0 := by
  simp [kind, kindN]

theorem kind_succ (pf : Int → Int) (c : Int) (hc : 0 ≤ c) :
    kind pf (c + 1) = if pf (c + 1) < 0 then (if kind pf c = 1 then 2 else 1) else 0 := by
  obtain ⟨m, rfl⟩ := Int.eq_ofNat_of_zero_le hc
  have e : ((m : Int) + 1).toNat = m + 1 := by omega
  simp only [kind, e, kindN, Int.toNat_natCast]
  rfl

theorem kind_of_nonneg (pf : Int → Int) (c : Int) (hc : 0 ≤ c) (h : 0 ≤ pf c) : kind pf c = 0 := by
  by_cases h0 : c = 0
  · subst h0; rw [kind_zero, if_neg (by omega)]
  · have e : c = (c - 1) + 1 := by ring
    rw [e, kind_succ pf (c - 1) (by omega), if_neg (by rw [← e]; omega)]

theorem kind_lt3 (pf : Int → Int) (c : Int) (hc : 0 ≤ c) : kind pf c = 0 ∨ kind pf c = 1 ∨ kind pf c = 2 := by
  by_cases h0 : c = 0
  · subst h0; rw [kind_zero]; split <;> simp
  · have e : c = (c - 1) + 1 := by ring
    rw [e, kind_succ pf (c - 1) (by omega)]; split_ifs <;> simp

/-- `i` is a block boundary -/
def Bd (pf : Int → Int) (i : Int) : Prop := i = 0 ∨ kind pf (i - 1) ≠ 1

theorem kind_first (pf : Int → Int) (i : Int) (hi : 0 ≤ i) (hb : Bd pf i) (h : pf i < 0) : kind pf i = 1 := by
  rcases hb with h0 | hb
  · subst h0; rw [kind_zero, if_pos h]
  · by_cases h0 : i = 0
    · subst h0; rw [kind_zero, if_pos h]
    · have e : i = (i - 1) + 1 := by ring
      rw [e, kind_succ pf (i - 1) (by omega), if_pos (by rw [← e]; exact h), if_neg hb]

theorem kind_second (pf : Int → Int) (i : Int) (hi : 0 ≤ i) (h1 : kind pf i = 1) (h : pf (i + 1) < 0) : kind pf (i + 1) = 2 := by
  rw [kind_succ pf i hi, if_pos h, if_pos h1]

theorem kind2_inv (pf : Int → Int) (c : Int) (hc : 0 ≤ c) (h : kind pf c = 2) : 1 ≤ c ∧ kind pf (c - 1) = 1 := by
  by_cases h0 : c = 0
  · subst h0; rw [kind_zero] at h; split at h <;> omega
  · have e : c = (c - 1) + 1 := by ring
    rw [e, kind_succ pf (c - 1) (by omega)] at h
    refine ⟨by omega, ?_⟩
    split_ifs at h with a b
    · exact b
    · omega

theorem Bd.step1 {pf : Int → Int} {i : Int} (hi : 0 ≤ i) (h : kind pf i ≠ 1) : Bd pf (i + 1) := by
  right; rw [show i + 1 - 1 = i by ring]; exact h

theorem pre_bd {pf : Int → Int} {k : Int} (h : Pre pf k) : Bd pf k := by
  induction h with
  | zero => left; rfl
  | @one k hp h1 ih =>
    have := hp.nonneg
    exact Bd.step1 this (by rw [kind_of_nonneg pf k this h1]; omega)
  | @two k hp h1 h2 ih =>
    have := hp.nonneg
    have a := kind_first pf k this ih h1
    have b := kind_second pf k this a h2
    have := Bd.step1 (pf := pf) (i := k + 1) (by omega) (by rw [b]; omega)
    rwa [show k + 1 + 1 = k + 2 by ring] at this

/-- a first row of a 2x2 block is followed, inside the matrix, by its second row -/
theorem tl_kind1 {pf : Int → Int} {i n : Int} (ht : Tl pf i n) (hp : Pre pf i) :
    ∀ c, i ≤ c → c < n → kind pf c = 1 → c + 1 < n ∧ kind pf (c + 1) = 2 := by
  induction ht with
  | nil i => intro c h1 h2; omega
  | @one i k h1 ht ih =>
    intro c hc hcn hk
    have hi := hp.nonneg
    by_cases e : c = i
    · subst e; rw [kind_of_nonneg pf c hi h1] at hk; omega
    · exact ih (Pre.one hp h1) c (by omega) hcn hk
  | @two i k h1 h2 ht ih =>
    intro c hc hcn hk
    have hi := hp.nonneg
    have a := kind_first pf i hi (pre_bd hp) h1
    have b := kind_second pf i hi a h2
    have := ht.le
    by_cases e : c = i
    · subst e; exact ⟨by omega, b⟩
    · by_cases e' : c = i + 1
      · subst e'; omega
      · exact ih (Pre.two hp h1 h2) c (by omega) hcn hk

end

section
variable {K : Type} [Field K] [Sc K]

/-! ### the right-hand side as a function, frame of the solve state -/
def xf (x : Array K) (i : Int) : K := x.getD i.toNat zero

theorem xf_set (x : Array K) (k j : Int) (a : K) (hk : 0 ≤ k) (hks : k.toNat < x.size) (hj : 0 ≤ j) :
    xf (x.setIfInBounds k.toNat a) j = if j = k then a else xf x j := by
  simp only [xf, Array.getD_eq_getD_getElem?, Array.getElem?_setIfInBounds]
  by_cases h : j = k
  · subst h; simp [hks]
  · have : k.toNat ≠ j.toNat := by omega
    simp [h, this]

/-- `solve_inplace` never writes the factorization: only the access flag of `v.s` changes -/
structure Fr (s0 : St K) (v : Sv K) : Prop where
  n : v.s.n = s0.n
  data : v.s.data = s0.data
  perm : v.s.perm = s0.perm

theorem Fr.rd {s0 : St K} {v : Sv K} (h : Fr s0 v) (i j : Int) : v.s.rd i j = s0.rd i j := by
  unfold St.rd; rw [h.n, h.data]
theorem Fr.pf {s0 : St K} {v : Sv K} (h : Fr s0 v) (i : Int) : pfn v.s i = pfn s0 i := by
  unfold pfn; rw [h.perm]

theorem fr_xget {s0 : St K} {v : Sv K} (h : Fr s0 v) (i : Int) : Fr s0 (v.xget i).2 := ⟨h.n, h.data, h.perm⟩
theorem fr_xset {s0 : St K} {v : Sv K} (h : Fr s0 v) (i : Int) (a : K) : Fr s0 (v.xset i a) := ⟨h.n, h.data, h.perm⟩
theorem fr_cget {s0 : St K} {v : Sv K} (h : Fr s0 v) (i j : Int) : Fr s0 (v.cget i j).2 := ⟨h.n, h.data, h.perm⟩
theorem fr_pget {s0 : St K} {v : Sv K} (h : Fr s0 v) (i : Int) : Fr s0 (v.pget i).2 := ⟨h.n, h.data, h.perm⟩
theorem fr_xswap {s0 : St K} {v : Sv K} (h : Fr s0 v) (a b : Int) : Fr s0 (v.xswap a b) := ⟨h.n, h.data, h.perm⟩

@[simp] theorem xget_fst (v : Sv K) (i : Int) : (v.xget i).1 = xf v.x i := rfl
@[simp] theorem xget_x (v : Sv K) (i : Int) : (v.xget i).2.x = v.x := rfl
@[simp] theorem xset_x (v : Sv K) (i : Int) (a : K) : (v.xset i a).x = v.x.setIfInBounds i.toNat a := rfl
@[simp] theorem cget_fst (v : Sv K) (i j : Int) : (v.cget i j).1 = v.s.rd i j := rfl
@[simp] theorem cget_x (v : Sv K) (i j : Int) : (v.cget i j).2.x = v.x := rfl
@[simp] theorem pget_fst (v : Sv K) (i : Int) : (v.pget i).1 = pfn v.s i := rfl
@[simp] theorem pget_x (v : Sv K) (i : Int) : (v.pget i).2.x = v.x := rfl

/-! ### the permutation -/
theorem tr_invol (k r x : Int) : tr k r (tr k r x) = x := by
  unfold tr; split_ifs <;> omega

theorem tr_range {n k r x : Int} (hk : 0 ≤ k ∧ k < n) (hr : 0 ≤ r ∧ r < n) (hx : 0 ≤ x ∧ x < n) : 0 ≤ tr k r x ∧ tr k r x < n := by
  unfold tr; split_ifs <;> omega

theorem permFn_nil (i : Int) : permFn [] i = i := rfl
theorem permFn_cons (ab : Int × Int) (pc : List (Int × Int)) (i : Int) : permFn (ab :: pc) i = tr ab.1 ab.2 (permFn pc i) := rfl
theorem permFn_append (l1 l2 : List (Int × Int)) (i : Int) : permFn (l1 ++ l2) i = permFn l1 (permFn l2 i) := by
  simp [permFn, List.foldr_append]

theorem permFn_cancel (pc : List (Int × Int)) (i : Int) : permFn pc.reverse (permFn pc i) = i := by
  induction pc generalizing i with
  | nil => rfl
  | cons ab pc ih =>
    rw [List.reverse_cons, permFn_append, permFn_cons, permFn_cons, permFn_nil, tr_invol, ih]

theorem permFn_cancel' (pc : List (Int × Int)) (i : Int) : permFn pc (permFn pc.reverse i) = i := by
  have := permFn_cancel pc.reverse i
  rwa [List.reverse_reverse] at this

theorem permFn_range {n : Int} (pc : List (Int × Int)) (hpc : ∀ ab ∈ pc, 0 ≤ ab.1 ∧ ab.1 < n ∧ 0 ≤ ab.2 ∧ ab.2 < n)
    (i : Int) (hi : 0 ≤ i ∧ i < n) : 0 ≤ permFn pc i ∧ permFn pc i < n := by
  induction pc with
  | nil => exact hi
  | cons ab pc ih =>
    have h := hpc ab List.mem_cons_self
    rw [permFn_cons]
    exact tr_range ⟨h.1, h.2.1⟩ ⟨h.2.2.1, h.2.2.2⟩ (ih (fun cd hcd => hpc cd (List.mem_cons_of_mem _ hcd)))

/-- the compressed permutation is a bijection of `[0, n)` (inverse: the reversed list) -/
theorem permFn_bij {n : Int} (pc : List (Int × Int)) (hpc : ∀ ab ∈ pc, 0 ≤ ab.1 ∧ ab.1 < n ∧ 0 ≤ ab.2 ∧ ab.2 < n) :
    (∀ i, 0 ≤ i → i < n → 0 ≤ permFn pc i ∧ permFn pc i < n) ∧
    (∀ i j, permFn pc i = permFn pc j → i = j) ∧
    (∀ i', 0 ≤ i' → i' < n → ∃ i, 0 ≤ i ∧ i < n ∧ permFn pc i = i') := by
  refine ⟨fun i h1 h2 => permFn_range pc hpc i ⟨h1, h2⟩, fun i j h => ?_, fun i' h1 h2 => ?_⟩
  · rw [← permFn_cancel pc i, h, permFn_cancel]
  · have := permFn_range pc.reverse (fun ab h => hpc ab (List.mem_reverse.1 h)) i' ⟨h1, h2⟩
    exact ⟨permFn pc.reverse i', this.1, this.2, permFn_cancel' pc i'⟩

theorem xf_swapArr (x : Array K) (a b i : Int) (ha : 0 ≤ a) (has : a.toNat < x.size) (hb : 0 ≤ b) (hbs : b.toNat < x.size) (hi : 0 ≤ i) :
    xf (swapArr x a b) i = xf x (tr a b i) := by
  unfold swapArr
  rw [xf_set _ _ _ _ hb (by simpa using hbs) hi, xf_set _ _ _ _ ha has hi]
  unfold tr xf
  split_ifs <;> simp_all

theorem applyPermc_spec {s0 : St K} {n : Int} (pc : List (Int × Int)) (hpc : ∀ ab ∈ pc, 0 ≤ ab.1 ∧ ab.1 < n ∧ 0 ≤ ab.2 ∧ ab.2 < n)
    (v : Sv K) (hfr : Fr s0 v) (hsz : v.x.size = n.toNat) :
    Fr s0 (applyPermc v pc) ∧ (applyPermc v pc).x.size = n.toNat ∧
    ∀ i, 0 ≤ i → i < n → xf (applyPermc v pc).x i = xf v.x (permFn pc i) := by
  induction pc generalizing v with
  | nil => exact ⟨hfr, hsz, fun i _ _ => rfl⟩
  | cons ab pc ih =>
    have h := hpc ab List.mem_cons_self
    have hsz' : (v.xswap ab.1 ab.2).x.size = n.toNat := by rw [xswap_x, swapArr_size, hsz]
    obtain ⟨a1, a2, a3⟩ := ih (fun cd hcd => hpc cd (List.mem_cons_of_mem _ hcd)) (v.xswap ab.1 ab.2) (fr_xswap hfr _ _) hsz'
    have e : applyPermc v (ab :: pc) = applyPermc (v.xswap ab.1 ab.2) pc := rfl
    rw [e]
    refine ⟨a1, a2, fun i hi hin => ?_⟩
    have hr := permFn_range pc (fun cd hcd => hpc cd (List.mem_cons_of_mem _ hcd)) i ⟨hi, hin⟩
    rw [a3 i hi hin, xswap_x, xf_swapArr _ _ _ _ h.1 (by omega) h.2.2.1 (by omega) hr.1, permFn_cons]

/-! ### the three substitutions as pure recurrences -/
theorem Lent_diag (s : St K) (i : Int) : Lent s i i = 1 := by simp [Lent]
theorem Lent_upper (s : St K) {i j : Int} (h : i < j) : Lent s i j = 0 := by
  unfold Lent; rw [if_neg (by omega), if_pos h]
theorem Lent_lower (s : St K) {i j : Int} (h : j < i) (hk : ¬ (kind (pfn s) j = 1 ∧ i = j + 1)) : Lent s i j = s.rd i j := by
  unfold Lent; rw [if_neg (by omega), if_neg (by omega), if_neg hk]
theorem Lent_sub (s : St K) {j : Int} (hk : kind (pfn s) j = 1) : Lent s (j + 1) j = 0 := by
  unfold Lent; rw [if_neg (by omega), if_neg (by omega), if_pos ⟨hk, rfl⟩]

/-- forward substitution, columns `< i` done: rows `< i` are solved, rows `≥ i` hold the updated right-hand side -/
def FInv (s : St K) (n : Int) (y : Int → K) (i : Int) (x : Int → K) : Prop :=
  ∀ r, 0 ≤ r → r < n → isum 0 i (fun c => Lent s r c * x c) + (if i ≤ r then x r else 0) = y r

theorem FInv_init (s : St K) (n : Int) (y : Int → K) : FInv s n y 0 y := by
  intro r hr _
  rw [isum_empty _ (le_refl _), if_pos hr, zero_add]

theorem fwd_step {s : St K} {n : Int} {y x x' : Int → K} {i : Int} (hi : 0 ≤ i) (hin : i < n) (h : FInv s n y i x)
    (hx : ∀ r, 0 ≤ r → r < n → x' r = if i < r then x r - Lent s r i * x i else x r) : FInv s n y (i + 1) x' := by
  intro r hr0 hrn
  have h0 := h r hr0 hrn
  rw [isum_succ_right _ hi, isum_congr (g := fun c => Lent s r c * x c) (fun c h1 h2 => by rw [hx c h1 (by omega), if_neg (by omega)]),
    hx i hi hin, if_neg (lt_irrefl _)]
  rcases lt_trichotomy r i with hlt | heq | hgt
  · rw [if_neg (by omega)] at h0 ⊢
    rw [Lent_upper s hlt]; rw [← h0]; ring
  · subst heq
    rw [if_pos (le_refl _)] at h0
    rw [if_neg (by omega), Lent_diag, ← h0]; ring
  · rw [if_pos (by omega)] at h0
    rw [if_pos (by omega), hx r hr0 hrn, if_pos hgt, ← h0]; ring

/-- backward substitution, rows `> i` done -/
def BInv (s : St K) (n : Int) (w : Int → K) (i : Int) (x : Int → K) : Prop :=
  ∀ r, 0 ≤ r → r < n → (r ≤ i → x r = w r) ∧ (i < r → isum 0 n (fun c => Lent s c r * x c) = w r)

theorem BInv_init (s : St K) (n : Int) (w : Int → K) : BInv s n w (n - 1) w := by
  intro r hr hrn
  exact ⟨fun _ => rfl, fun h => by omega⟩

theorem bwd_step {s : St K} {n : Int} {w x x' : Int → K} {i : Int} (hi : 0 ≤ i) (hin : i < n) (h : BInv s n w i x)
    (hx : ∀ r, 0 ≤ r → r < n → x' r = if r = i then x i - isum (i + 1) n (fun c => Lent s c i * x c) else x r) : BInv s n w (i - 1) x' := by
  intro r hr0 hrn
  constructor
  · intro hle
    rw [hx r hr0 hrn, if_neg (by omega)]
    exact (h r hr0 hrn).1 (by omega)
  · intro hlt
    by_cases e : r = i
    · subst e
      have e1 : isum (r + 1) n (fun c => Lent s c r * x' c) = isum (r + 1) n (fun c => Lent s c r * x c) :=
        isum_congr (fun c h1 h2 => by rw [hx c (by omega) h2, if_neg (by omega)])
      rw [isum_split _ r hr0 (by omega), isum_succ_left _ hrn,
        isum_zero (fun c h1 h2 => by rw [Lent_upper s h2, zero_mul]), Lent_diag, hx r hr0 hrn, if_pos rfl, e1,
        ← (h r hr0 hrn).1 (le_refl _)]
      ring
    · rw [← (h r hr0 hrn).2 (by omega)]
      apply isum_congr
      intro c h1 h2
      by_cases e' : c = i
      · subst e'; rw [Lent_upper s (by omega : c < r), zero_mul, zero_mul]
      · rw [hx c h1 h2, if_neg e']

/-- `D w = z` block by block -/
def DSpec (s : St K) (z w : Int → K) (c : Int) : Prop :=
  (kind (pfn s) c = 0 → s.rd c c * w c = z c) ∧
  (kind (pfn s) c = 1 → s.rd c c * w c + s.rd (c + 1) c * w (c + 1) = z c) ∧
  (kind (pfn s) c = 2 → s.rd c (c - 1) * w (c - 1) + s.rd c c * w c = z c)

theorem DSpec.congr_z {s : St K} {z z' w : Int → K} {c : Int} (h : DSpec s z w c) (e : z' c = z c) : DSpec s z' w c := by
  unfold DSpec at *; rw [e]; exact h

theorem Dent_split (s : St K) (c c' : Int) (x : K) :
    Dent s c c' * x = (if c' = c then s.rd c c * x else 0)
      + ((if c' = c - 1 then (if kind (pfn s) c' = 1 then s.rd c c' * x else 0) else 0)
      + (if c' = c + 1 then (if kind (pfn s) c = 1 then s.rd c' c * x else 0) else 0)) := by
  unfold Dent
  split_ifs <;> first | (exfalso; omega) | (subst_vars; ring)

theorem dsum {s : St K} {n : Int} {z w : Int → K} (ht : Tl (pfn s) 0 n) (h : ∀ c, 0 ≤ c → c < n → DSpec s z w c)
    (c : Int) (hc : 0 ≤ c) (hcn : c < n) : isum 0 n (fun c' => Dent s c c' * w c') = z c := by
  have hk1 := tl_kind1 ht Pre.zero
  have e : ∀ c', 0 ≤ c' → c' < n → Dent s c c' * w c' =
      (if c' = c then s.rd c c * w c else 0)
      + ((if c' = c - 1 then (if kind (pfn s) (c - 1) = 1 then s.rd c (c - 1) * w (c - 1) else 0) else 0)
      + (if c' = c + 1 then (if kind (pfn s) c = 1 then s.rd (c + 1) c * w (c + 1) else 0) else 0)) := by
    intro c' _ _
    rw [Dent_split]
    congr 1
    · split
      · rename_i h; rw [h]
      · rfl
    · congr 1
      · split
        · rename_i h; rw [h]
        · rfl
      · split
        · rename_i h; rw [h]
        · rfl
  rw [isum_congr e, isum_add, isum_add, isum_ite_eq, isum_ite_eq, isum_ite_eq, if_pos ⟨hc, hcn⟩]
  obtain ⟨d0, d1, d2⟩ := h c hc hcn
  rcases kind_lt3 (pfn s) c hc with k | k | k
  · rw [← d0 k]
    have a : (if kind (pfn s) c = 1 then s.rd (c + 1) c * w (c + 1) else 0) = 0 := by rw [if_neg (by omega)]
    have b : (if 0 ≤ c - 1 ∧ c - 1 < n then (if kind (pfn s) (c - 1) = 1 then s.rd c (c - 1) * w (c - 1) else 0) else 0) = 0 := by
      split
      · rename_i hh
        rw [if_neg]
        intro hk
        have := (hk1 (c - 1) hh.1 hh.2 hk).2
        rw [show c - 1 + 1 = c by ring] at this; omega
      · rfl
    rw [a, b]; simp
  · rw [← d1 k]
    obtain ⟨hcn1, _⟩ := hk1 c hc hcn k
    have b : (if 0 ≤ c - 1 ∧ c - 1 < n then (if kind (pfn s) (c - 1) = 1 then s.rd c (c - 1) * w (c - 1) else 0) else 0) = 0 := by
      split
      · rename_i hh
        rw [if_neg]
        intro hk
        have := (hk1 (c - 1) hh.1 hh.2 hk).2
        rw [show c - 1 + 1 = c by ring] at this; omega
      · rfl
    rw [b, if_pos ⟨by omega, hcn1⟩, if_pos k]; ring
  · rw [← d2 k]
    obtain ⟨hc1, hkm⟩ := kind2_inv (pfn s) c hc k
    rw [if_pos ⟨by omega, by omega⟩, if_pos hkm]
    have a : (if kind (pfn s) c = 1 then s.rd (c + 1) c * w (c + 1) else 0) = 0 := by rw [if_neg (by omega)]
    rw [a]; simp; ring

/-! ### forward substitution: the loop -/
/-- a fold that rewrites the entries `base ≤ j < base + m` one by one, each from its own old value -/
theorem fold_upd {s0 : St K} {n : Int} (step : Sv K → Int → Sv K) (base m : Int) (g : Int → K → K) (hb : 0 ≤ base) (hm : base + m ≤ n)
    (hstep : ∀ w t, 0 ≤ t → t < m → Fr s0 w → Fr s0 (step w t) ∧
      (step w t).x = w.x.setIfInBounds (base + t).toNat (g (base + t) (xf w.x (base + t))))
    (v : Sv K) (hv : Fr s0 v) (hsz : v.x.size = n.toNat) :
    Fr s0 ((intRange 0 m).foldl step v) ∧ ((intRange 0 m).foldl step v).x.size = n.toNat ∧
    ∀ j, 0 ≤ j → j < n → xf ((intRange 0 m).foldl step v).x j = if base ≤ j ∧ j < base + m then g j (xf v.x j) else xf v.x j := by
  by_cases hm0 : m ≤ 0
  · rw [intRange_empty 0 m hm0]
    exact ⟨hv, hsz, fun j _ _ => by rw [if_neg (by omega)]; rfl⟩
  · have := foldl_range_inv' (fun (t : Int) (w : Sv K) => Fr s0 w ∧ w.x.size = n.toNat ∧
        ∀ j, 0 ≤ j → j < n → xf w.x j = if base ≤ j ∧ j < base + t then g j (xf v.x j) else xf v.x j)
      step 0 m v (by omega) ⟨hv, hsz, fun j _ _ => by rw [if_neg (by omega)]⟩
      (fun t w ht0 htm hP => by
        obtain ⟨p1, p2, p3⟩ := hP
        obtain ⟨q1, q2⟩ := hstep w t ht0 htm p1
        refine ⟨q1, by rw [q2, Array.size_setIfInBounds, p2], fun j hj hjn => ?_⟩
        rw [q2, xf_set _ _ _ _ (by omega) (by omega) hj]
        by_cases e : j = base + t
        · rw [if_pos e, if_pos (by omega), p3 (base + t) (by omega) (by omega), if_neg (by omega), e]
        · rw [if_neg e, p3 j hj hjn]
          by_cases e2 : base ≤ j ∧ j < base + t
          · rw [if_pos e2, if_pos (by omega)]
          · rw [if_neg e2, if_neg (by omega)])
    exact this

/-- 1x1 block column `i` of the forward substitution -/
def fwdCol1 (v : Sv K) (i : Int) : Sv K :=
  let (xi, v) := v.xget i
  (intRange 0 (v.s.n - i - 1)).foldl (fun v t =>
    let (l, v) := v.cget (i + 1 + t) i
    let (r, v) := v.xget (i + 1 + t)
    v.xset (i + 1 + t) (r - l * xi)) v

/-- 2x2 block column `i, i+1` of the forward substitution -/
def fwdCol2 (v : Sv K) (i : Int) : Sv K :=
  let (xi, v) := v.xget i
  let (xi1, v) := v.xget (i + 1)
  (intRange 0 (v.s.n - i - 1 - 1)).foldl (fun v t =>
    let (l1, v) := v.cget (i + 2 + t) i
    let (l2, v) := v.cget (i + 2 + t) (i + 1)
    let (r, v) := v.xget (i + 2 + t)
    v.xset (i + 2 + t) (r - (l1 * xi + l2 * xi1))) v

theorem fwdLoop_succ (fuel : Nat) (i e : Int) (v : Sv K) :
    fwdLoop (fuel + 1) i e v =
      if i ≤ e then
        (if pfn v.s i ≥ 0 then fwdLoop fuel (i + 1) e (fwdCol1 (v.pget i).2 i) else fwdLoop fuel (i + 2) e (fwdCol2 (v.pget i).2 i))
      else v := rfl

theorem fwdCol1_spec {s0 : St K} {n : Int} (hn0 : s0.n = n) (v : Sv K) (i : Int) (hfr : Fr s0 v) (hsz : v.x.size = n.toNat) (hi : 0 ≤ i) (hin : i < n) :
    Fr s0 (fwdCol1 v i) ∧ (fwdCol1 v i).x.size = n.toNat ∧
    ∀ r, 0 ≤ r → r < n → xf (fwdCol1 v i).x r = if i < r then xf v.x r - s0.rd r i * xf v.x i else xf v.x r := by
  have hvn : v.s.n = n := by rw [hfr.n, hn0]
  have := fold_upd (s0 := s0) (n := n) (fun (v' : Sv K) t =>
      let (l, v') := v'.cget (i + 1 + t) i
      let (r, v') := v'.xget (i + 1 + t)
      v'.xset (i + 1 + t) (r - l * xf v.x i)) (i + 1) (n - i - 1) (fun r xr => xr - s0.rd r i * xf v.x i) (by omega) (by omega)
    (fun w t ht0 htm hw => ⟨⟨hw.n, hw.data, hw.perm⟩, by
      show w.x.setIfInBounds (i + 1 + t).toNat (xf w.x (i + 1 + t) - w.s.rd (i + 1 + t) i * xf v.x i) = _
      rw [hw.rd]⟩) (v.xget i).2 (fr_xget hfr i) hsz
  have e : fwdCol1 v i = (intRange 0 (n - i - 1)).foldl (fun (v' : Sv K) t =>
      let (l, v') := v'.cget (i + 1 + t) i
      let (r, v') := v'.xget (i + 1 + t)
      v'.xset (i + 1 + t) (r - l * xf v.x i)) (v.xget i).2 := by
    rw [← hvn]; rfl
  rw [e]
  refine ⟨this.1, this.2.1, fun r hr hrn => ?_⟩
  rw [this.2.2 r hr hrn]
  by_cases c : i < r
  · rw [if_pos c, if_pos (by omega)]; rfl
  · rw [if_neg c, if_neg (by omega)]; rfl

theorem fwdCol2_spec {s0 : St K} {n : Int} (hn0 : s0.n = n) (v : Sv K) (i : Int) (hfr : Fr s0 v) (hsz : v.x.size = n.toNat) (hi : 0 ≤ i) (hin : i + 1 < n) :
    Fr s0 (fwdCol2 v i) ∧ (fwdCol2 v i).x.size = n.toNat ∧
    ∀ r, 0 ≤ r → r < n → xf (fwdCol2 v i).x r =
      if i + 1 < r then xf v.x r - (s0.rd r i * xf v.x i + s0.rd r (i + 1) * xf v.x (i + 1)) else xf v.x r := by
  have hvn : v.s.n = n := by rw [hfr.n, hn0]
  have := fold_upd (s0 := s0) (n := n) (fun (v' : Sv K) t =>
      let (l1, v') := v'.cget (i + 2 + t) i
      let (l2, v') := v'.cget (i + 2 + t) (i + 1)
      let (r, v') := v'.xget (i + 2 + t)
      v'.xset (i + 2 + t) (r - (l1 * xf v.x i + l2 * xf v.x (i + 1)))) (i + 2) (n - i - 1 - 1)
    (fun r xr => xr - (s0.rd r i * xf v.x i + s0.rd r (i + 1) * xf v.x (i + 1))) (by omega) (by omega)
    (fun w t ht0 htm hw => ⟨⟨hw.n, hw.data, hw.perm⟩, by
      show w.x.setIfInBounds (i + 2 + t).toNat (xf w.x (i + 2 + t) - (w.s.rd (i + 2 + t) i * xf v.x i + w.s.rd (i + 2 + t) (i + 1) * xf v.x (i + 1))) = _
      rw [hw.rd, hw.rd]⟩) ((v.xget i).2.xget (i + 1)).2 (fr_xget (fr_xget hfr i) (i + 1)) hsz
  have e : fwdCol2 v i = (intRange 0 (n - i - 1 - 1)).foldl (fun (v' : Sv K) t =>
      let (l1, v') := v'.cget (i + 2 + t) i
      let (l2, v') := v'.cget (i + 2 + t) (i + 1)
      let (r, v') := v'.xget (i + 2 + t)
      v'.xset (i + 2 + t) (r - (l1 * xf v.x i + l2 * xf v.x (i + 1)))) ((v.xget i).2.xget (i + 1)).2 := by
    rw [← hvn]; rfl
  rw [e]
  refine ⟨this.1, this.2.1, fun r hr hrn => ?_⟩
  rw [this.2.2 r hr hrn]
  by_cases c : i + 1 < r
  · rw [if_pos c, if_pos (by omega)]; rfl
  · rw [if_neg c, if_neg (by omega)]; rfl

/-- the last block has no column below it: the loop may stop at `e` -/
theorem fwd_finish {s : St K} {n : Int} {y x : Int → K} {i e : Int} (hi : 0 ≤ i) (ht : Tl (pfn s) i n) (hp : Pre (pfn s) i)
    (he : e = if pfn s (n - 1) < 0 then n - 3 else n - 2) (hie : e < i) (h : FInv s n y i x) : FInv s n y n x := by
  have hle := ht.le
  cases ht with
  | nil => exact h
  | one h1 ht1 =>
    have hle1 := ht1.le
    have hin : i = n - 1 := by
      by_contra hne
      have hi2 : i = n - 2 := by split at he <;> omega
      have hcase : 0 ≤ pfn s (n - 1) ∨ n + 1 ≤ n := by
        cases ht1 with
        | nil => omega
        | one g1 _ =>
          left
          have e1 : i + 1 = n - 1 := by omega
          rw [e1] at g1; exact g1
        | two _ _ g3 => right; have := g3.le; omega
      rcases hcase with g1 | g1
      · rw [if_neg (by omega)] at he; omega
      · omega
    have := fwd_step (x' := x) hi (by omega) h (fun r hr hrn => by rw [if_neg (by omega)])
    rwa [show i + 1 = n by omega] at this
  | two h1 h2 ht2 =>
    have hle2 := ht2.le
    have hin : i = n - 2 := by split at he <;> omega
    have k1 := kind_first (pfn s) i hi (pre_bd hp) h1
    have s1 := fwd_step (x' := x) hi (by omega) h (fun r hr hrn => by
      by_cases c : i < r
      · have : r = i + 1 := by omega
        subst this; rw [if_pos c, Lent_sub s k1]; ring
      · rw [if_neg c])
    have s2 := fwd_step (x' := x) (i := i + 1) (by omega) (by omega) s1 (fun r hr hrn => by rw [if_neg (by omega)])
    rwa [show i + 1 + 1 = n by omega] at s2

theorem fwdLoop_spec {s0 : St K} {n : Int} (hn0 : s0.n = n) (y : Int → K) (fuel : Nat) (i e : Int) (v : Sv K)
    (hfr : Fr s0 v) (hsz : v.x.size = n.toNat) (hi : 0 ≤ i) (hfuel : (n - i).toNat ≤ fuel)
    (ht : Tl (pfn s0) i n) (hp : Pre (pfn s0) i) (he : e = if pfn s0 (n - 1) < 0 then n - 3 else n - 2)
    (hinv : FInv s0 n y i (xf v.x)) :
    Fr s0 (fwdLoop fuel i e v) ∧ (fwdLoop fuel i e v).x.size = n.toNat ∧ FInv s0 n y n (xf (fwdLoop fuel i e v).x) := by
  induction fuel generalizing i v with
  | zero =>
    have hle := ht.le
    exact ⟨hfr, hsz, fwd_finish hi ht hp he (by split at he <;> omega) hinv⟩
  | succ fuel ih =>
    rw [fwdLoop_succ]
    split
    · rename_i hie
      have hen : e ≤ n - 2 := by split at he <;> omega
      rw [hfr.pf i]
      have hfr1 : Fr s0 (v.pget i).2 := fr_pget hfr i
      have hsz1 : (v.pget i).2.x.size = n.toNat := hsz
      split
      · rename_i hpos
        obtain ⟨c1, c2, c3⟩ := fwdCol1_spec hn0 (v.pget i).2 i hfr1 hsz1 hi (by omega)
        have ht' : Tl (pfn s0) (i + 1) n := by
          cases ht with
          | nil => omega
          | one _ g2 => exact g2
          | two g1 _ _ => omega
        have k0 := kind_of_nonneg (pfn s0) i hi hpos
        apply ih _ _ c1 c2 (by omega) (by omega) ht' (Pre.one hp hpos)
        apply fwd_step hi (by omega) hinv
        intro r hr hrn
        rw [c3 r hr hrn]
        by_cases c : i < r
        · rw [if_pos c, if_pos c, Lent_lower s0 c (by omega)]; rfl
        · rw [if_neg c, if_neg c]; rfl
      · rename_i hneg
        have hneg' : pfn s0 i < 0 := by omega
        cases ht with
        | nil => omega
        | one g1 _ => omega
        | two h1 h2 ht2 =>
          have hle2 := ht2.le
          have k1 := kind_first (pfn s0) i hi (pre_bd hp) h1
          have k2 := kind_second (pfn s0) i hi k1 h2
          obtain ⟨c1, c2, c3⟩ := fwdCol2_spec hn0 (v.pget i).2 i hfr1 hsz1 hi (by omega)
          apply ih _ _ c1 c2 (by omega) (by omega) ht2 (Pre.two hp h1 h2)
          have s1 : FInv s0 n y (i + 1) (fun r => if i < r then xf v.x r - Lent s0 r i * xf v.x i else xf v.x r) :=
            fwd_step hi (by omega) hinv (fun r _ _ => rfl)
          have s2 := fwd_step (x' := xf (fwdCol2 (v.pget i).2 i).x) (i := i + 1) (by omega) (by omega) s1 (fun r hr hrn => by
            rw [c3 r hr hrn]
            show _ = if i + 1 < r then (if i < r then xf v.x r - Lent s0 r i * xf v.x i else xf v.x r)
                - Lent s0 r (i + 1) * (if i < i + 1 then xf v.x (i + 1) - Lent s0 (i + 1) i * xf v.x i else xf v.x (i + 1))
              else (if i < r then xf v.x r - Lent s0 r i * xf v.x i else xf v.x r)
            rw [if_pos (by omega : i < i + 1), Lent_sub s0 k1]
            by_cases c : i + 1 < r
            · rw [if_pos c, if_pos c, if_pos (by omega), Lent_lower s0 (by omega : i < r) (by omega),
                Lent_lower s0 c (by omega)]
              show xf v.x r - (s0.rd r i * xf v.x i + s0.rd r (i + 1) * xf v.x (i + 1)) = _
              ring
            · rw [if_neg c, if_neg c]
              by_cases c' : i < r
              · have : r = i + 1 := by omega
                subst this
                rw [if_pos c', Lent_sub s0 k1]
                show xf v.x (i + 1) = _
                ring
              · rw [if_neg c']; rfl)
          rwa [show i + 1 + 1 = i + 2 by ring] at s2
    · rename_i hie
      exact ⟨hfr, hsz, fwd_finish hi ht hp he (by omega) hinv⟩

/-! ### the block diagonal solve: the loop -/
/-- what the proofs need from the scalar instance: `Scalar(0)` is 0 and the translated 2x2 solve is exact (true for `scOfField`) -/
structure Exact (K : Type) [Field K] [Sc K] : Prop where
  zero : (zero : K) = 0
  solve2 : ∀ e11 e21 e22 b1 b2 : K, e11 * e22 - e21 * e21 ≠ 0 →
    e11 * (solve_inplace_2x2 e11 e21 e22 b1 b2).1 + e21 * (solve_inplace_2x2 e11 e21 e22 b1 b2).2 = b1 ∧
    e21 * (solve_inplace_2x2 e11 e21 e22 b1 b2).1 + e22 * (solve_inplace_2x2 e11 e21 e22 b1 b2).2 = b2

def diag1 (v : Sv K) (i : Int) : Sv K :=
  let (e11, v) := v.cget i i
  let (pi, v) := v.pget i
  let (xi, v) := v.xget i
  v.xset i (xi / e11)

def diag2 (v : Sv K) (i : Int) : Sv K :=
  let (e11, v) := v.cget i i
  let (pi, v) := v.pget i
  let (e21, v) := v.cget (i + 1) i
  let (e22, v) := v.cget (i + 1) (i + 1)
  let (xi, v) := v.xget i
  let (xi1, v) := v.xget (i + 1)
  let (y1, y2) := solve_inplace_2x2 e11 e21 e22 xi xi1
  (v.xset i y1).xset (i + 1) y2

theorem diagLoop_succ (fuel : Nat) (i : Int) (v : Sv K) :
    diagLoop (fuel + 1) i v =
      if i < v.s.n then (if pfn v.s i ≥ 0 then diagLoop fuel (i + 1) (diag1 v i) else diagLoop fuel (i + 2) (diag2 v i)) else v := rfl

theorem diag1_spec {s0 : St K} {n : Int} (v : Sv K) (i : Int) (hfr : Fr s0 v) (hsz : v.x.size = n.toNat) (hi : 0 ≤ i) (hin : i < n) :
    Fr s0 (diag1 v i) ∧ (diag1 v i).x.size = n.toNat ∧
    ∀ r, 0 ≤ r → r < n → xf (diag1 v i).x r = if r = i then xf v.x i / s0.rd i i else xf v.x r := by
  have e : (diag1 v i).x = v.x.setIfInBounds i.toNat (xf v.x i / v.s.rd i i) := rfl
  refine ⟨⟨hfr.n, hfr.data, hfr.perm⟩, by rw [e, Array.size_setIfInBounds, hsz], fun r hr hrn => ?_⟩
  rw [e, xf_set _ _ _ _ hi (by omega) hr, hfr.rd]

theorem diag2_spec {s0 : St K} {n : Int} (v : Sv K) (i : Int) (hfr : Fr s0 v) (hsz : v.x.size = n.toNat) (hi : 0 ≤ i) (hin : i + 1 < n) :
    Fr s0 (diag2 v i) ∧ (diag2 v i).x.size = n.toNat ∧
    ∀ r, 0 ≤ r → r < n → xf (diag2 v i).x r =
      if r = i + 1 then (solve_inplace_2x2 (s0.rd i i) (s0.rd (i + 1) i) (s0.rd (i + 1) (i + 1)) (xf v.x i) (xf v.x (i + 1))).2
      else if r = i then (solve_inplace_2x2 (s0.rd i i) (s0.rd (i + 1) i) (s0.rd (i + 1) (i + 1)) (xf v.x i) (xf v.x (i + 1))).1
      else xf v.x r := by
  have e : (diag2 v i).x = (v.x.setIfInBounds i.toNat
        (solve_inplace_2x2 (v.s.rd i i) (v.s.rd (i + 1) i) (v.s.rd (i + 1) (i + 1)) (xf v.x i) (xf v.x (i + 1))).1).setIfInBounds (i + 1).toNat
        (solve_inplace_2x2 (v.s.rd i i) (v.s.rd (i + 1) i) (v.s.rd (i + 1) (i + 1)) (xf v.x i) (xf v.x (i + 1))).2 := rfl
  have f : Fr s0 (diag2 v i) := ⟨hfr.n, hfr.data, hfr.perm⟩
  refine ⟨f, by rw [e, Array.size_setIfInBounds, Array.size_setIfInBounds, hsz], fun r hr hrn => ?_⟩
  rw [e, xf_set _ _ _ _ (by omega) (by rw [Array.size_setIfInBounds]; omega) hr, xf_set _ _ _ _ hi (by omega) hr,
    hfr.rd, hfr.rd, hfr.rd]

theorem diagLoop_spec {s0 : St K} {n : Int} (hn0 : s0.n = n) (hE : Exact K)
    (hD : ∀ c, 0 ≤ c → c < n → (kind (pfn s0) c = 0 → s0.rd c c ≠ 0) ∧
      (kind (pfn s0) c = 1 → s0.rd c c * s0.rd (c + 1) (c + 1) - s0.rd (c + 1) c * s0.rd (c + 1) c ≠ 0))
    (fuel : Nat) (i : Int) (v : Sv K)
    (hfr : Fr s0 v) (hsz : v.x.size = n.toNat) (hi : 0 ≤ i) (hfuel : (n - i).toNat ≤ fuel)
    (ht : Tl (pfn s0) i n) (hp : Pre (pfn s0) i) :
    Fr s0 (diagLoop fuel i v) ∧ (diagLoop fuel i v).x.size = n.toNat ∧
    (∀ c, 0 ≤ c → c < i → xf (diagLoop fuel i v).x c = xf v.x c) ∧
    (∀ c, i ≤ c → c < n → DSpec s0 (xf v.x) (xf (diagLoop fuel i v).x) c) := by
  induction fuel generalizing i v with
  | zero =>
    have hle := ht.le
    exact ⟨hfr, hsz, fun _ _ _ => rfl, fun c h1 h2 => by omega⟩
  | succ fuel ih =>
    rw [diagLoop_succ, hfr.n, hn0]
    split
    · rename_i hin
      rw [hfr.pf i]
      split
      · rename_i hpos
        obtain ⟨c1, c2, c3⟩ := diag1_spec (n := n) v i hfr hsz hi hin
        have ht' : Tl (pfn s0) (i + 1) n := by
          cases ht with
          | nil => omega
          | one _ g2 => exact g2
          | two g1 _ _ => omega
        have k0 := kind_of_nonneg (pfn s0) i hi hpos
        obtain ⟨r1, r2, r3, r4⟩ := ih (i + 1) (diag1 v i) c1 c2 (by omega) (by omega) ht' (Pre.one hp hpos)
        refine ⟨r1, r2, fun c hc hci => ?_, fun c hc hcn => ?_⟩
        · rw [r3 c hc (by omega), c3 c hc (by omega), if_neg (by omega)]
        · by_cases e : c = i
          · subst e
            refine ⟨fun _ => ?_, fun h => by omega, fun h => by omega⟩
            rw [r3 c hi (by omega), c3 c hi hin, if_pos rfl]
            exact mul_div_cancel₀ _ ((hD c hi hin).1 k0)
          · exact (r4 c (by omega) hcn).congr_z (by rw [c3 c (by omega) hcn, if_neg e])
      · rename_i hneg
        have hneg' : pfn s0 i < 0 := by omega
        cases ht with
        | nil => omega
        | one g1 _ => omega
        | two h1 h2 ht2 =>
          have hle2 := ht2.le
          have k1 := kind_first (pfn s0) i hi (pre_bd hp) h1
          have k2 := kind_second (pfn s0) i hi k1 h2
          obtain ⟨c1, c2, c3⟩ := diag2_spec (n := n) v i hfr hsz hi (by omega)
          obtain ⟨r1, r2, r3, r4⟩ := ih (i + 2) (diag2 v i) c1 c2 (by omega) (by omega) ht2 (Pre.two hp h1 h2)
          have hs := hE.solve2 (s0.rd i i) (s0.rd (i + 1) i) (s0.rd (i + 1) (i + 1)) (xf v.x i) (xf v.x (i + 1)) ((hD i hi hin).2 k1)
          obtain ⟨Y, hY⟩ : ∃ Y, Y = solve_inplace_2x2 (s0.rd i i) (s0.rd (i + 1) i) (s0.rd (i + 1) (i + 1)) (xf v.x i) (xf v.x (i + 1)) := ⟨_, rfl⟩
          rw [← hY] at c3 hs
          have ei : xf (diagLoop fuel (i + 2) (diag2 v i)).x i = Y.1 := by
            rw [r3 i hi (by omega), c3 i hi hin, if_neg (by omega), if_pos rfl]
          have ei1 : xf (diagLoop fuel (i + 2) (diag2 v i)).x (i + 1) = Y.2 := by
            rw [r3 (i + 1) (by omega) (by omega), c3 (i + 1) (by omega) (by omega), if_pos rfl]
          refine ⟨r1, r2, fun c hc hci => ?_, fun c hc hcn => ?_⟩
          · rw [r3 c hc (by omega), c3 c hc (by omega), if_neg (by omega), if_neg (by omega)]
          · by_cases e : c = i
            · subst e
              refine ⟨fun h => by omega, fun _ => ?_, fun h => by omega⟩
              rw [ei, ei1]; exact hs.1
            · by_cases e' : c = i + 1
              · subst e'
                refine ⟨fun h => by omega, fun h => by omega, fun _ => ?_⟩
                rw [show i + 1 - 1 = i by ring, ei, ei1]; exact hs.2
              · exact (r4 c (by omega) hcn).congr_z (by rw [c3 c (by omega) hcn, if_neg e', if_neg e])
    · rename_i hin
      have hle := ht.le
      exact ⟨hfr, hsz, fun _ _ _ => rfl, fun c h1 h2 => by omega⟩

/-! ### backward substitution: the loop -/
theorem colDot_spec {s0 : St K} (hE : Exact K) (v : Sv K) (i j ldim : Int) (hfr : Fr s0 v) :
    (colDot v i j ldim).1 = isum (i + 1) (i + 1 + ldim) (fun c => s0.rd c j * xf v.x c) ∧
    Fr s0 (colDot v i j ldim).2 ∧ (colDot v i j ldim).2.x = v.x := by
  unfold colDot
  split
  · rename_i h
    exact ⟨by rw [isum_empty _ (by omega)]; exact hE.zero, hfr, rfl⟩
  · rename_i h
    have := foldl_range_inv' (fun (t : Int) (acc : K × Sv K) =>
        acc.1 = isum (i + 1) (i + 1 + t) (fun c => s0.rd c j * xf v.x c) ∧ Fr s0 acc.2 ∧ acc.2.x = v.x)
      (fun (acc : K × Sv K) t =>
        let (sum, v) := acc
        let (l, v) := v.cget (i + 1 + t) j
        let (r, v) := v.xget (i + 1 + t)
        (sum + scalarop_conj l * r, v)) 1 ldim
      (scalarop_conj (v.cget (i + 1) j).1 * ((v.cget (i + 1) j).2.xget (i + 1)).1, ((v.cget (i + 1) j).2.xget (i + 1)).2) (by omega)
      (by
        refine ⟨?_, ⟨hfr.n, hfr.data, hfr.perm⟩, rfl⟩
        rw [isum_succ_left _ (by omega), isum_empty _ (by omega), add_zero, ← hfr.rd]
        rfl)
      (by
        rintro t ⟨sm, w⟩ ht1 htl ⟨p1, p2, p3⟩
        refine ⟨?_, ⟨p2.n, p2.data, p2.perm⟩, p3⟩
        rw [show i + 1 + (t + 1) = i + 1 + t + 1 by ring, isum_succ_right _ (by omega)]
        show sm + w.s.rd (i + 1 + t) j * xf w.x (i + 1 + t) = _
        have p1' : sm = isum (i + 1) (i + 1 + t) (fun c => s0.rd c j * xf v.x c) := p1
        have p3' : w.x = v.x := p3
        rw [p2.rd, p3', p1'])
    exact this

/-- one row of the backward substitution: `x[j] -= coeff(i+1.., j) · x[i+1..]` -/
def bwdRow (v : Sv K) (i j ldim : Int) : Sv K :=
  let (d, v) := colDot v i j ldim
  let (xj, v) := v.xget j
  v.xset j (xj - d)

theorem bwdLoop_succ (fuel : Nat) (i : Int) (v : Sv K) :
    bwdLoop (fuel + 1) i v =
      if i ≥ 0 then
        (if pfn (bwdRow v i i (v.s.n - i - 1)).s i < 0 then
          bwdLoop fuel (i - 2) (bwdRow ((bwdRow v i i (v.s.n - i - 1)).pget i).2 i (i - 1) (v.s.n - i - 1))
        else bwdLoop fuel (i - 1) ((bwdRow v i i (v.s.n - i - 1)).pget i).2)
      else v := rfl

theorem bwdRow_spec {s0 : St K} {n : Int} (hE : Exact K) (v : Sv K) (i j ldim : Int) (hfr : Fr s0 v) (hsz : v.x.size = n.toNat)
    (hj : 0 ≤ j) (hjn : j < n) :
    Fr s0 (bwdRow v i j ldim) ∧ (bwdRow v i j ldim).x.size = n.toNat ∧
    ∀ r, 0 ≤ r → r < n → xf (bwdRow v i j ldim).x r =
      if r = j then xf v.x j - isum (i + 1) (i + 1 + ldim) (fun c => s0.rd c j * xf v.x c) else xf v.x r := by
  obtain ⟨a1, a2, a3⟩ := colDot_spec hE v i j ldim hfr
  have e : (bwdRow v i j ldim).x = (colDot v i j ldim).2.x.setIfInBounds j.toNat (xf (colDot v i j ldim).2.x j - (colDot v i j ldim).1) := rfl
  refine ⟨⟨a2.n, a2.data, a2.perm⟩, by rw [e, Array.size_setIfInBounds, a3, hsz], fun r hr hrn => ?_⟩
  rw [e, a3, a1, xf_set _ _ _ _ hj (by omega) hr]

theorem bwdLoop_spec {s0 : St K} {n : Int} (hn0 : s0.n = n) (hE : Exact K) (w : Int → K) (fuel : Nat) (i : Int) (v : Sv K)
    (hfr : Fr s0 v) (hsz : v.x.size = n.toNat) (hin : i < n) (hfuel : (i + 1).toNat ≤ fuel)
    (hpre : Pre (pfn s0) (i + 1)) (hinv : BInv s0 n w i (xf v.x)) :
    Fr s0 (bwdLoop fuel i v) ∧ (bwdLoop fuel i v).x.size = n.toNat ∧ BInv s0 n w (-1) (xf (bwdLoop fuel i v).x) := by
  induction fuel generalizing i v with
  | zero =>
    have := hpre.nonneg
    have e : i = -1 := by omega
    subst e
    exact ⟨hfr, hsz, hinv⟩
  | succ fuel ih =>
    rw [bwdLoop_succ, hfr.n, hn0]
    split
    · rename_i hi0
      obtain ⟨a1, a2, a3⟩ := bwdRow_spec (n := n) hE v i i (n - i - 1) hfr hsz hi0 hin
      rw [a1.pf i]
      have e1 : i + 1 + (n - i - 1) = n := by ring
      rw [e1] at a3
      have hfr1 : Fr s0 ((bwdRow v i i (n - i - 1)).pget i).2 := fr_pget a1 i
      have step1 : kind (pfn s0) i ≠ 1 → BInv s0 n w (i - 1) (xf (bwdRow v i i (n - i - 1)).x) := by
        intro hk
        apply bwd_step hi0 hin hinv
        intro r hr hrn
        rw [a3 r hr hrn, isum_congr (f := fun c => s0.rd c i * xf v.x c) (g := fun c => Lent s0 c i * xf v.x c)
          (fun c h1 h2 => by rw [Lent_lower s0 (by omega) (fun h => hk h.1)])]
      rcases hpre.inv (by omega) with ⟨h1, h2⟩ | ⟨h0, h1, h2, h3⟩
      · rw [show i + 1 - 1 = i by ring] at h1 h2
        rw [if_neg (by omega)]
        have k0 := kind_of_nonneg (pfn s0) i hi0 h1
        exact ih _ _ hfr1 a2 (by omega) (by omega) (by rw [show i - 1 + 1 = i by ring]; exact h2) (step1 (by omega))
      · rw [show i + 1 - 1 = i by ring] at h1
        rw [show i + 1 - 2 = i - 1 by ring] at h2 h3
        rw [if_pos h1]
        have k1 := kind_first (pfn s0) (i - 1) (by omega) (pre_bd h3) h2
        have k2 : kind (pfn s0) i = 2 := by
          have := kind_second (pfn s0) (i - 1) (by omega) k1 (by rw [show i - 1 + 1 = i by ring]; exact h1)
          rwa [show i - 1 + 1 = i by ring] at this
        have hl : Lent s0 i (i - 1) = 0 := by
          have := Lent_sub s0 k1
          rwa [show i - 1 + 1 = i by ring] at this
        have s1 := step1 (by omega)
        obtain ⟨b1, b2, b3⟩ := bwdRow_spec (n := n) hE ((bwdRow v i i (n - i - 1)).pget i).2 i (i - 1) (n - i - 1) hfr1 a2 (by omega) (by omega)
        rw [e1] at b3
        apply ih _ _ b1 b2 (by omega) (by omega) (by rw [show i - 2 + 1 = i - 1 by ring]; exact h3)
        have s2 := bwd_step (i := i - 1) (x' := xf (bwdRow ((bwdRow v i i (n - i - 1)).pget i).2 i (i - 1) (n - i - 1)).x)
          (by omega) (by omega) s1 (fun r hr hrn => by
            rw [b3 r hr hrn, show i - 1 + 1 = i by ring, isum_succ_left (lo := i) _ hin, hl, zero_mul, zero_add,
              isum_congr (f := fun c => s0.rd c (i - 1) * xf ((bwdRow v i i (n - i - 1)).pget i).2.x c)
                (g := fun c => Lent s0 c (i - 1) * xf (bwdRow v i i (n - i - 1)).x c)
                (fun c h1 h2 => by rw [Lent_lower s0 (by omega) (fun h => by omega)]; rfl)]
            rfl)
        rwa [show i - 1 - 1 = i - 2 by ring] at s2
    · rename_i hi0
      have := hpre.nonneg
      have e : i = -1 := by omega
      subst e
      exact ⟨hfr, hsz, hinv⟩

/-- the last block has no row below it: the loop may start above it -/
theorem bwd_start {s : St K} {n : Int} (hn : 1 ≤ n) (hpre : Pre (pfn s) n) (x : Int → K) :
    BInv s n x (if pfn s (n - 1) < 0 then n - 3 else n - 2) x ∧ Pre (pfn s) ((if pfn s (n - 1) < 0 then n - 3 else n - 2) + 1) := by
  have s1 : BInv s n x (n - 1 - 1) x := bwd_step (i := n - 1) (by omega) (by omega) (BInv_init s n x) (fun r hr hrn => by
    split
    · rename_i h; rw [isum_empty _ (by omega), sub_zero, h]
    · rfl)
  rcases hpre.inv hn with ⟨h1, h2⟩ | ⟨h0, h1, h2, h3⟩
  · rw [if_neg (by omega)]
    refine ⟨by rwa [show n - 1 - 1 = n - 2 by ring] at s1, by rwa [show n - 2 + 1 = n - 1 by ring]⟩
  · rw [if_pos h1]
    have k1 := kind_first (pfn s) (n - 2) (by omega) (pre_bd h3) h2
    have hl : Lent s (n - 1) (n - 2) = 0 := by
      have := Lent_sub s k1
      rwa [show n - 2 + 1 = n - 1 by ring] at this
    rw [show n - 1 - 1 = n - 2 by ring] at s1
    have s2 := bwd_step (i := n - 2) (x' := x) (by omega) (by omega) s1 (fun r hr hrn => by
      split
      · rename_i h
        rw [show n - 2 + 1 = n - 1 by ring, isum_succ_left _ (by omega), hl, isum_empty _ (by omega), h]; ring
      · rfl)
    refine ⟨by rwa [show n - 2 - 1 = n - 3 by ring] at s2, by rwa [show n - 3 + 1 = n - 2 by ring]⟩

/-! ### composition -/
theorem sum_perm {n : Int} (π π' : Int → Int) (hr : ∀ i, 0 ≤ i → i < n → 0 ≤ π i ∧ π i < n)
    (hr' : ∀ i, 0 ≤ i → i < n → 0 ≤ π' i ∧ π' i < n) (h1 : ∀ i, π' (π i) = i) (h2 : ∀ i, π (π' i) = i) (G : Int → K) :
    ∑ j ∈ Finset.range n.toNat, G (j : Int) = ∑ j ∈ Finset.range n.toNat, G (π (j : Int)) := by
  symm
  apply Finset.sum_nbij' (fun (j : Nat) => (π (j : Int)).toNat) (fun (j : Nat) => (π' (j : Int)).toNat)
  · intro a ha
    have := Finset.mem_range.1 ha
    have := hr a (by omega) (by omega)
    exact Finset.mem_range.2 (by omega)
  · intro a ha
    have := Finset.mem_range.1 ha
    have := hr' a (by omega) (by omega)
    exact Finset.mem_range.2 (by omega)
  · intro a ha
    have := Finset.mem_range.1 ha
    have := hr a (by omega) (by omega)
    show (π' ((π (a : Int)).toNat : Int)).toNat = a
    rw [Int.toNat_of_nonneg this.1, h1]; simp
  · intro a ha
    have := Finset.mem_range.1 ha
    have := hr' a (by omega) (by omega)
    show (π ((π' (a : Int)).toNat : Int)).toNat = a
    rw [Int.toNat_of_nonneg this.1, h2]; simp
  · intro a ha
    have := Finset.mem_range.1 ha
    have := hr a (by omega) (by omega)
    show G (π a) = G ((π (a : Int)).toNat : Int)
    rw [Int.toNat_of_nonneg this.1]

theorem ldl_apply (s : St K) (n i : Int) (x1 : K) (x2 x3 x4 : Int → K)
    (h2 : ∑ c ∈ Finset.range n.toNat, Lent s i (c : Int) * x2 c = x1)
    (h3 : ∀ c : Nat, c < n.toNat → ∑ c' ∈ Finset.range n.toNat, Dent s c (c' : Int) * x3 c' = x2 c)
    (h4 : ∀ c' : Nat, c' < n.toNat → ∑ j ∈ Finset.range n.toNat, Lent s (j : Int) c' * x4 j = x3 c') :
    ∑ j ∈ Finset.range n.toNat, LDLt s n i (j : Int) * x4 j = x1 := by
  rw [← h2]
  have e : ∀ c ∈ Finset.range n.toNat, Lent s i (c : Int) * x2 c =
      ∑ c' ∈ Finset.range n.toNat, ∑ j ∈ Finset.range n.toNat, Lent s i (c : Int) * Dent s c (c' : Int) * Lent s (j : Int) c' * x4 j := by
    intro c hc
    rw [← h3 c (Finset.mem_range.1 hc), Finset.mul_sum]
    apply Finset.sum_congr rfl
    intro c' hc'
    rw [← h4 c' (Finset.mem_range.1 hc'), Finset.mul_sum, Finset.mul_sum]
    apply Finset.sum_congr rfl
    intro j _
    ring
  rw [Finset.sum_congr rfl e]
  unfold LDLt
  simp only [Finset.sum_mul]
  rw [Finset.sum_comm]
  apply Finset.sum_congr rfl
  intro c _
  rw [Finset.sum_comm]

theorem solve_inplace_eq (f : Fact K) (b : Array K) :
    solve_inplace f b =
      applyPermc (bwdLoop f.s.n.toNat
        (if pfn (diagLoop f.s.n.toNat 0 (fwdLoop f.s.n.toNat 0
            (if pfn (applyPermc ⟨b, f.s⟩ f.permc).s (f.s.n - 1) < 0 then f.s.n - 3 else f.s.n - 2)
            ((applyPermc ⟨b, f.s⟩ f.permc).pget (f.s.n - 1)).2)).s (f.s.n - 1) < 0 then f.s.n - 3 else f.s.n - 2)
        ((diagLoop f.s.n.toNat 0 (fwdLoop f.s.n.toNat 0
            (if pfn (applyPermc ⟨b, f.s⟩ f.permc).s (f.s.n - 1) < 0 then f.s.n - 3 else f.s.n - 2)
            ((applyPermc ⟨b, f.s⟩ f.permc).pget (f.s.n - 1)).2)).pget (f.s.n - 1)).2) f.permc.reverse := rfl

/-- the five phases of `solve_inplace` compose to a solution of `A x = b`, for any factorization state with a tiled `m_perm`,
    given `P A Pᵀ = L D Lᵀ` and non-singular diagonal blocks -/
theorem solve_correct_gen (hE : Exact K) (f : Fact K) (n : Int) (hn : 1 ≤ n) (hfn : f.s.n = n) (hp : PInv n n f.s)
    (hpc : f.permc = compress_permutation (pfn f.s) n) (b : Array K) (hb : b.size = n.toNat) (A : Int → Int → K)
    (hid : ∀ i j, 0 ≤ i → i < n → 0 ≤ j → j < n → A (permFn f.permc i) (permFn f.permc j) = LDLt f.s n i j)
    (hD : ∀ c, 0 ≤ c → c < n → (kind (pfn f.s) c = 0 → f.s.rd c c ≠ 0) ∧
      (kind (pfn f.s) c = 1 → f.s.rd c c * f.s.rd (c + 1) (c + 1) - f.s.rd (c + 1) c * f.s.rd (c + 1) c ≠ 0)) :
    ∀ i, 0 ≤ i → i < n → ∑ j ∈ Finset.range n.toNat, A i (j : Int) * xf (solve f b) (j : Int) = xf b i := by
  have hpcr : ∀ ab ∈ f.permc, 0 ≤ ab.1 ∧ ab.1 < n ∧ 0 ≤ ab.2 ∧ ab.2 < n := by
    rw [hpc]
    apply permc_in_range
    intro i hi hin
    have := hp.2.2.2.2 i hi hin
    by_cases h0 : 0 ≤ pfn f.s i
    · left; omega
    · right; omega
  have hpcr' : ∀ ab ∈ f.permc.reverse, 0 ≤ ab.1 ∧ ab.1 < n ∧ 0 ≤ ab.2 ∧ ab.2 < n := fun ab h => hpcr ab (List.mem_reverse.1 h)
  have htl : Tl (pfn f.s) 0 n := hp.2.1
  have hpre : Pre (pfn f.s) n := hp.2.2.1
  unfold solve
  rw [solve_inplace_eq, hfn]
  -- phase 1
  obtain ⟨p1, p2, p3⟩ := applyPermc_spec f.permc hpcr (⟨b, f.s⟩ : Sv K) ⟨rfl, rfl, rfl⟩ hb
  generalize applyPermc (⟨b, f.s⟩ : Sv K) f.permc = v1 at p1 p2 p3 ⊢
  -- phase 2
  rw [p1.pf]
  obtain ⟨q1, q2, q3⟩ := fwdLoop_spec hfn (xf v1.x) n.toNat 0 (if pfn f.s (n - 1) < 0 then n - 3 else n - 2) (v1.pget (n - 1)).2
    (fr_pget p1 _) p2 (le_refl _) (by omega) htl Pre.zero rfl (FInv_init _ _ _)
  generalize fwdLoop n.toNat 0 (if pfn f.s (n - 1) < 0 then n - 3 else n - 2) (v1.pget (n - 1)).2 = v2 at q1 q2 q3 ⊢
  -- phase 3
  obtain ⟨d1, d2, _, d4⟩ := diagLoop_spec hfn hE hD n.toNat 0 v2 q1 q2 (le_refl _) (by omega) htl Pre.zero
  generalize diagLoop n.toNat 0 v2 = v3 at d1 d2 d4 ⊢
  -- phase 4
  rw [d1.pf]
  obtain ⟨b0, bp⟩ := bwd_start (s := f.s) hn hpre (xf v3.x)
  obtain ⟨g1, g2, g3⟩ := bwdLoop_spec hfn hE (xf v3.x) n.toNat (if pfn f.s (n - 1) < 0 then n - 3 else n - 2) (v3.pget (n - 1)).2
    (fr_pget d1 _) d2 (by split <;> omega) (by split <;> omega) bp b0
  generalize bwdLoop n.toNat (if pfn f.s (n - 1) < 0 then n - 3 else n - 2) (v3.pget (n - 1)).2 = v4 at g1 g2 g3 ⊢
  -- phase 5
  obtain ⟨_, _, t3⟩ := applyPermc_spec f.permc.reverse hpcr' v4 g1 g2
  generalize applyPermc v4 f.permc.reverse = v5 at t3 ⊢
  intro i' hi' hin'
  have hri := permFn_range f.permc.reverse hpcr' i' ⟨hi', hin'⟩
  obtain ⟨i, hi⟩ : ∃ i, i = permFn f.permc.reverse i' := ⟨_, rfl⟩
  rw [← hi] at hri
  have hπi : permFn f.permc i = i' := by rw [hi, permFn_cancel']
  rw [sum_perm (permFn f.permc) (permFn f.permc.reverse) (fun j h1 h2 => permFn_range f.permc hpcr j ⟨h1, h2⟩)
    (fun j h1 h2 => permFn_range f.permc.reverse hpcr' j ⟨h1, h2⟩) (permFn_cancel f.permc) (permFn_cancel' f.permc)
    (fun j => A i' j * xf v5.x j)]
  have e : ∀ j ∈ Finset.range n.toNat, A i' (permFn f.permc (j : Int)) * xf v5.x (permFn f.permc (j : Int)) =
      LDLt f.s n i (j : Int) * xf v4.x (j : Int) := by
    intro j hj
    have hj' := Finset.mem_range.1 hj
    have hrj := permFn_range f.permc hpcr (j : Int) ⟨by omega, by omega⟩
    rw [t3 _ hrj.1 hrj.2, permFn_cancel, ← hπi, hid i j hri.1 hri.2 (by omega) (by omega)]
  rw [Finset.sum_congr rfl e, ← hπi, ← p3 i hri.1 hri.2]
  apply ldl_apply f.s n i (xf v1.x i) (xf v2.x) (xf v3.x) (xf v4.x)
  · have := q3 i hri.1 hri.2
    rw [if_neg (by omega), add_zero, isum_range] at this
    exact this
  · intro c hc
    have := dsum htl d4 (c : Int) (by omega) (by omega)
    rw [isum_range] at this
    exact this
  · intro c' hc'
    have := (g3 (c' : Int) (by omega) (by omega)).2 (by omega)
    rw [isum_range] at this
    exact this

end

/-! ### exact arithmetic over an ordered field, the state produced by `compute` -/
section
variable {K : Type} [Field K] [LinearOrder K] [IsStrictOrderedRing K] (F : FieldFns K)

theorem exact_scOfField : @Exact K _ (scOfField F) :=
  @Exact.mk K _ (scOfField F) (by show ((0 : Int) : K) = 0; simp) (fun e11 e21 e22 b1 b2 h => C10S.solve2_ordered F e11 e21 e22 b1 b2 h)

/-- `solve` after `compute` returns a solution of `A x = b`, provided `P A Pᵀ = L D Lᵀ` (the factorization identity, `A` standing for the
    shifted input matrix) and the diagonal blocks of `D` are non-singular (what `info() = Successful` certifies) -/
theorem solve_correct (src : Array K) (rm : Bool) (n uplo : Int) (shift alpha : K) (hn : 1 ≤ n) (b : Array K) (hb : b.size = n.toNat)
    (A : Int → Int → K) :
    letI : Sc K := scOfField F
    (∀ i j, 0 ≤ i → i < n → 0 ≤ j → j < n →
      A (permFn (compute src rm n uplo shift alpha).permc i) (permFn (compute src rm n uplo shift alpha).permc j)
        = LDLt (compute src rm n uplo shift alpha).s n i j) →
    (∀ c, 0 ≤ c → c < n →
      (kind (pfn (compute src rm n uplo shift alpha).s) c = 0 → (compute src rm n uplo shift alpha).s.rd c c ≠ 0) ∧
      (kind (pfn (compute src rm n uplo shift alpha).s) c = 1 →
        (compute src rm n uplo shift alpha).s.rd c c * (compute src rm n uplo shift alpha).s.rd (c + 1) (c + 1)
          - (compute src rm n uplo shift alpha).s.rd (c + 1) c * (compute src rm n uplo shift alpha).s.rd (c + 1) c ≠ 0)) →
    ∀ i, 0 ≤ i → i < n →
      ∑ j ∈ Finset.range n.toNat, A i (j : Int) * (solve (compute src rm n uplo shift alpha) b).getD j 0 = b.getD i.toNat 0 := by
  let _ : Sc K := scOfField F
  intro hid hD i hi hin
  have hE := exact_scOfField F
  have hg := compute_good src rm n uplo shift alpha
  have hp := compute_pinv src rm n uplo shift alpha (by omega)
  have hpc : (compute src rm n uplo shift alpha).permc = compress_permutation (pfn (compute src rm n uplo shift alpha).s) n := by
    unfold compute; rfl
  have := solve_correct_gen hE (compute src rm n uplo shift alpha) n hn hg.1 hp hpc b hb A hid hD i hi hin
  simp only [xf, Int.toNat_natCast, hE.zero] at this
  exact this

/-- the same with only 1x1 pivots (every `m_perm` entry ≥ 0): then `kind = 0` everywhere and only the diagonal entries must be non-zero -/
theorem solve_correct_1x1 (src : Array K) (rm : Bool) (n uplo : Int) (shift alpha : K) (hn : 1 ≤ n) (b : Array K) (hb : b.size = n.toNat)
    (A : Int → Int → K) :
    letI : Sc K := scOfField F
    (∀ c, 0 ≤ c → c < n → 0 ≤ pfn (compute src rm n uplo shift alpha).s c) →
    (∀ i j, 0 ≤ i → i < n → 0 ≤ j → j < n →
      A (permFn (compute src rm n uplo shift alpha).permc i) (permFn (compute src rm n uplo shift alpha).permc j)
        = LDLt (compute src rm n uplo shift alpha).s n i j) →
    (∀ c, 0 ≤ c → c < n → (compute src rm n uplo shift alpha).s.rd c c ≠ 0) →
    ∀ i, 0 ≤ i → i < n →
      ∑ j ∈ Finset.range n.toNat, A i (j : Int) * (solve (compute src rm n uplo shift alpha) b).getD j 0 = b.getD i.toNat 0 := by
  let _ : Sc K := scOfField F
  intro hpos hid hd
  refine solve_correct F src rm n uplo shift alpha hn b hb A hid (fun c hc hcn => ⟨fun _ => hd c hc hcn, fun hk => ?_⟩)
  rw [kind_of_nonneg _ c hc (hpos c hc hcn)] at hk
  omega

end
end SolveC
end BKLDLT
