/-
  C06 — read/write footprint of the factorization kernels (`Model/Arnoldi.lean`, `Model/Lanczos.lean`) and of the numeric kernel
  record of the symmetric family (`HermSolver.hermKern`).

  * `erase` forgets the two trace counters `nexpand`, `nreorth` (model-side bookkeeping for the correspondence check).  Every model
    function commutes with `erase`: the trace counters flow only into themselves, never into `V, H, f, beta, k, ops` or into a result
    (`*_erase` lemmas; for the re-orthogonalisation loops this needs an induction on the loop: `lanczos_reorth_np`, `arnoldi_reorth_np`).
  * `consts` (n, m, near0, eps: the `const` members of the C++ class) are never written (`consts_*` lemmas).
  * `Arnoldi.init` rebuilds `V, H, f, beta, k` from `(op, v0)` and the constants alone, from ANY old object (`init_any`): in the model
    `m_fac_V`/`m_fac_H` are rebuilt from zero matrices.  (The C++ `resize()` of an already allocated `m_fac_V` keeps the stale columns
    >= 1; `Proofs/C06StaleV.lean` proves that this is invisible: `Lanczos::factorize_from` writes column i before any read of it,
    `init_stale_columns_harmless`.)
  * `herm_respects`: the kernel record of the symmetric family respects `Live` ("same constants, equal up to trace counters"), i.e.
    the hypothesis `Orch.Respects` of the orchestration-level noninterference theorems is DISCHARGED for the numeric model.
    `hermKernC` is `hermKern` with the constants pinned in `facInit` (identical to `hermKern` on every object whose constants are
    the constructor's — `hermKernC_facInit_eq` — and `Orch.compute` does not use `facInit` at all: `compute_wfi` in Proofs/C06Orch.lean).
-/
import SpectraVerif.Model.HermSolver
import SpectraVerif.Proofs.C06Orch

namespace C06Footprint
open Lin Arnoldi

section
variable {α : Type} [Add α] [Sub α] [Mul α] [Div α] [Neg α] [Sc α]
set_option linter.unusedSectionVars false

/-! ### generic fold lemmas -/

theorem foldl_proj {σ ι γ : Type} (π : σ → γ) (F : σ → ι → σ) (hF : ∀ x y i, π x = π y → π (F x i) = π (F y i)) :
    ∀ (l : List ι) (x y : σ), π x = π y → π (l.foldl F x) = π (l.foldl F y) := by
  intro l
  induction l with
  | nil => intro x y h; exact h
  | cons i l ih => intro x y h; exact ih _ _ (hF x y i h)

theorem foldl_inv {σ ι γ : Type} (π : σ → γ) (F : σ → ι → σ) (hF : ∀ x i, π (F x i) = π x) :
    ∀ (l : List ι) (x : σ), π (l.foldl F x) = π x := by
  intro l
  induction l with
  | nil => intro x; rfl
  | cons i l ih => intro x; exact (ih _).trans (hF x i)

/-! ### the trace counters and the constants -/

/-- forget the trace counters -/
def erase (s : State α) : State α := { s with nexpand := 0, nreorth := 0 }

/-- the `const` data members of `Arnoldi` -/
def consts (s : State α) : Nat × Nat × α × α := (s.n, s.m, s.near0, s.eps)

theorem erase_with (s : State α) : s = { erase s with nexpand := s.nexpand, nreorth := s.nreorth } := by
  cases s; rfl

/-- a function of the state that ignores explicit updates of the trace counters depends on `erase` only -/
theorem of_upd {γ : Type} {G : State α → γ} (h : ∀ (s : State α) (a b : Nat), G { s with nexpand := a, nreorth := b } = G s)
    {s t : State α} (hst : erase s = erase t) : G s = G t := by
  have e1 : G s = G (erase s) := by
    have := h (erase s) s.nexpand s.nreorth
    rw [← erase_with s] at this
    exact this
  have e2 : G t = G (erase t) := by
    have := h (erase t) t.nexpand t.nreorth
    rw [← erase_with t] at this
    exact this
  rw [e1, e2, hst]

theorem erase_k {s t : State α} (h : erase s = erase t) : s.k = t.k := by
  have e := congrArg State.k h; exact e
theorem erase_ops {s t : State α} (h : erase s = erase t) : s.ops = t.ops := by
  have e := congrArg State.ops h; exact e
theorem erase_H {s t : State α} (h : erase s = erase t) : s.H = t.H := by
  have e := congrArg State.H h; exact e
theorem erase_V {s t : State α} (h : erase s = erase t) : s.V = t.V := by
  have e := congrArg State.V h; exact e
theorem erase_beta {s t : State α} (h : erase s = erase t) : s.beta = t.beta := by
  have e := congrArg State.beta h; exact e
theorem erase_f {s t : State α} (h : erase s = erase t) : s.f = t.f := by
  have e := congrArg State.f h; exact e

/-! ### Lanczos::factorize_from -/

/-- the numeric results of the Lanczos re-orthogonalisation loop do not depend on the pass counter -/
theorem lanczos_reorth_np (op : Op α) (eps bt : α) (V : Mat α) (i n : Nat) :
    ∀ (fuel count : Nat) (f : Vec α) (H : Mat α) (beta : α) (Vf : Vec α) (oerr : α) (np np' : Nat),
      (Lanczos.reorth op eps bt V i n fuel count f H beta Vf oerr np).1 = (Lanczos.reorth op eps bt V i n fuel count f H beta Vf oerr np').1 ∧
      (Lanczos.reorth op eps bt V i n fuel count f H beta Vf oerr np).2.1 = (Lanczos.reorth op eps bt V i n fuel count f H beta Vf oerr np').2.1 ∧
      (Lanczos.reorth op eps bt V i n fuel count f H beta Vf oerr np).2.2.1 = (Lanczos.reorth op eps bt V i n fuel count f H beta Vf oerr np').2.2.1 := by
  intro fuel
  induction fuel with
  | zero => intros; exact ⟨rfl, rfl, rfl⟩
  | succ fuel ih =>
    intro count f H beta Vf oerr np np'
    unfold Lanczos.reorth
    split
    · split
      · exact ⟨rfl, rfl, rfl⟩
      · exact ih _ _ _ _ _ _ _ _
    · exact ⟨rfl, rfl, rfl⟩

/-- the loop with the pass counter started at 0 (normal form for `simp`) -/
def lreorthCore (op : Op α) (eps bt : α) (V : Mat α) (i n fuel count : Nat) (f : Vec α) (H : Mat α) (beta : α) (Vf : Vec α)
    (oerr : α) : Vec α × Mat α × α :=
  let r := Lanczos.reorth op eps bt V i n fuel count f H beta Vf oerr 0
  (r.1, r.2.1, r.2.2.1)

theorem lreorth_1 (op : Op α) (eps bt : α) (V : Mat α) (i n fuel count : Nat) (f : Vec α) (H : Mat α) (beta : α) (Vf : Vec α)
    (oerr : α) (np : Nat) :
    (Lanczos.reorth op eps bt V i n fuel count f H beta Vf oerr np).1 = (lreorthCore op eps bt V i n fuel count f H beta Vf oerr).1 :=
  (lanczos_reorth_np op eps bt V i n fuel count f H beta Vf oerr np 0).1
theorem lreorth_2 (op : Op α) (eps bt : α) (V : Mat α) (i n fuel count : Nat) (f : Vec α) (H : Mat α) (beta : α) (Vf : Vec α)
    (oerr : α) (np : Nat) :
    (Lanczos.reorth op eps bt V i n fuel count f H beta Vf oerr np).2.1 = (lreorthCore op eps bt V i n fuel count f H beta Vf oerr).2.1 :=
  (lanczos_reorth_np op eps bt V i n fuel count f H beta Vf oerr np 0).2.1
theorem lreorth_3 (op : Op α) (eps bt : α) (V : Mat α) (i n fuel count : Nat) (f : Vec α) (H : Mat α) (beta : α) (Vf : Vec α)
    (oerr : α) (np : Nat) :
    (Lanczos.reorth op eps bt V i n fuel count f H beta Vf oerr np).2.2.1 = (lreorthCore op eps bt V i n fuel count f H beta Vf oerr).2.2 :=
  (lanczos_reorth_np op eps bt V i n fuel count f H beta Vf oerr np 0).2.2

/-- one Lanczos step: `V, H, f, beta, ops` of the result are functions of `V, H, f, beta, ops` (and the constants) of the input -/
theorem lanczos_factorStep_upd (op : Op α) (bt es : α) (i : Nat) (s : State α) (a b : Nat) :
    erase (Lanczos.factorStep op bt es { s with nexpand := a, nreorth := b } i) = erase (Lanczos.factorStep op bt es s i) := by
  unfold Lanczos.factorStep
  simp only [erase, apply_ite Prod.fst, apply_ite Prod.snd, lreorth_1, lreorth_2, lreorth_3]

theorem lanczos_factorStep_erase (op : Op α) (bt es : α) (i : Nat) {s t : State α} (h : erase s = erase t) :
    erase (Lanczos.factorStep op bt es s i) = erase (Lanczos.factorStep op bt es t i) :=
  of_upd (G := fun s => erase (Lanczos.factorStep op bt es s i)) (lanczos_factorStep_upd op bt es i) h

theorem lanczos_factorStep_consts (op : Op α) (bt es : α) (s : State α) (i : Nat) :
    consts (Lanczos.factorStep op bt es s i) = consts s := by
  unfold Lanczos.factorStep; rfl

theorem lanczos_factorize_upd (op : Op α) (k m : Nat) (s : State α) (a b : Nat) :
    (Lanczos.factorize_from op { s with nexpand := a, nreorth := b } k m).map erase = (Lanczos.factorize_from op s k m).map erase := by
  unfold Lanczos.factorize_from
  dsimp only
  split
  · rfl
  · split
    · rfl
    · simp only [Option.map_some, Option.some.injEq]
      have h := foldl_proj (σ := State α) erase
        (fun st d => Lanczos.factorStep op (s.eps * Sc.sqrt (Sc.ofInt (s.n : Int))) (Sc.sqrt s.eps) st (k + d))
        (fun x y i hxy => lanczos_factorStep_erase op _ _ _ hxy) (List.range (m - k))
        { s with H := keepTopLeft s.H k, nexpand := a, nreorth := b } { s with H := keepTopLeft s.H k } rfl
      exact congrArg (fun x : State α => { x with k := m }) h

/-- `Lanczos::factorize_from` reads and writes only the live part -/
theorem lanczos_factorize_erase (op : Op α) (k m : Nat) {s t : State α} (h : erase s = erase t) :
    (Lanczos.factorize_from op s k m).map erase = (Lanczos.factorize_from op t k m).map erase :=
  of_upd (G := fun s => (Lanczos.factorize_from op s k m).map erase) (lanczos_factorize_upd op k m) h

theorem lanczos_factorize_consts (op : Op α) (k m : Nat) (s s' : State α) (h : Lanczos.factorize_from op s k m = some s') :
    consts s' = consts s := by
  unfold Lanczos.factorize_from at h
  dsimp only at h
  split at h
  · cases h; rfl
  · split at h
    · cases h
    · cases h
      exact foldl_inv (σ := State α) consts _ (fun x i => lanczos_factorStep_consts op _ _ x _) _ _

/-! ### Arnoldi::factorize_from (general family) -/

theorem arnoldi_reorth_np (op : Op α) (eps bt : α) (V : Mat α) (i1 n : Nat) :
    ∀ (fuel count : Nat) (f h : Vec α) (beta : α) (Vf : Vec α) (oerr : α) (np np' : Nat),
      (Arnoldi.reorth op eps bt V i1 n fuel count f h beta Vf oerr np).1 = (Arnoldi.reorth op eps bt V i1 n fuel count f h beta Vf oerr np').1 ∧
      (Arnoldi.reorth op eps bt V i1 n fuel count f h beta Vf oerr np).2.1 = (Arnoldi.reorth op eps bt V i1 n fuel count f h beta Vf oerr np').2.1 ∧
      (Arnoldi.reorth op eps bt V i1 n fuel count f h beta Vf oerr np).2.2.1 = (Arnoldi.reorth op eps bt V i1 n fuel count f h beta Vf oerr np').2.2.1 := by
  intro fuel
  induction fuel with
  | zero => intros; exact ⟨rfl, rfl, rfl⟩
  | succ fuel ih =>
    intro count f h beta Vf oerr np np'
    unfold Arnoldi.reorth
    split
    · split
      · exact ⟨rfl, rfl, rfl⟩
      · exact ih _ _ _ _ _ _ _ _
    · exact ⟨rfl, rfl, rfl⟩

def areorthCore (op : Op α) (eps bt : α) (V : Mat α) (i1 n fuel count : Nat) (f h : Vec α) (beta : α) (Vf : Vec α)
    (oerr : α) : Vec α × Vec α × α :=
  let r := Arnoldi.reorth op eps bt V i1 n fuel count f h beta Vf oerr 0
  (r.1, r.2.1, r.2.2.1)

theorem areorth_1 (op : Op α) (eps bt : α) (V : Mat α) (i1 n fuel count : Nat) (f h : Vec α) (beta : α) (Vf : Vec α)
    (oerr : α) (np : Nat) :
    (Arnoldi.reorth op eps bt V i1 n fuel count f h beta Vf oerr np).1 = (areorthCore op eps bt V i1 n fuel count f h beta Vf oerr).1 :=
  (arnoldi_reorth_np op eps bt V i1 n fuel count f h beta Vf oerr np 0).1
theorem areorth_2 (op : Op α) (eps bt : α) (V : Mat α) (i1 n fuel count : Nat) (f h : Vec α) (beta : α) (Vf : Vec α)
    (oerr : α) (np : Nat) :
    (Arnoldi.reorth op eps bt V i1 n fuel count f h beta Vf oerr np).2.1 = (areorthCore op eps bt V i1 n fuel count f h beta Vf oerr).2.1 :=
  (arnoldi_reorth_np op eps bt V i1 n fuel count f h beta Vf oerr np 0).2.1
theorem areorth_3 (op : Op α) (eps bt : α) (V : Mat α) (i1 n fuel count : Nat) (f h : Vec α) (beta : α) (Vf : Vec α)
    (oerr : α) (np : Nat) :
    (Arnoldi.reorth op eps bt V i1 n fuel count f h beta Vf oerr np).2.2.1 = (areorthCore op eps bt V i1 n fuel count f h beta Vf oerr).2.2 :=
  (arnoldi_reorth_np op eps bt V i1 n fuel count f h beta Vf oerr np 0).2.2

theorem arnoldi_stepCore_upd (op : Op α) (bt : α) (i : Nat) (f : Vec α) (beta : α) (restart : Bool) (ops nexp nexp' : Nat)
    (s : State α) (a b : Nat) :
    erase (Arnoldi.stepCore op bt { s with nexpand := a, nreorth := b } i f beta restart ops nexp) =
    erase (Arnoldi.stepCore op bt s i f beta restart ops nexp') := by
  unfold Arnoldi.stepCore
  simp only [erase, areorth_1, areorth_2, areorth_3]
  split <;> rfl

theorem arnoldi_factorStep_upd (op : Op α) (bt : α) (i : Nat) (s : State α) (a b : Nat) :
    erase (Arnoldi.factorStep op bt { s with nexpand := a, nreorth := b } i) = erase (Arnoldi.factorStep op bt s i) := by
  unfold Arnoldi.factorStep
  dsimp only
  split
  · exact arnoldi_stepCore_upd op bt i _ _ _ _ _ _ s a b
  · exact arnoldi_stepCore_upd op bt i _ _ _ _ _ _ s a b

theorem arnoldi_factorStep_erase (op : Op α) (bt : α) (i : Nat) {s t : State α} (h : erase s = erase t) :
    erase (Arnoldi.factorStep op bt s i) = erase (Arnoldi.factorStep op bt t i) :=
  of_upd (G := fun s => erase (Arnoldi.factorStep op bt s i)) (arnoldi_factorStep_upd op bt i) h

theorem arnoldi_stepCore_consts (op : Op α) (bt : α) (s : State α) (i : Nat) (f : Vec α) (beta : α) (restart : Bool) (ops nexp : Nat) :
    consts (Arnoldi.stepCore op bt s i f beta restart ops nexp) = consts s := by
  unfold Arnoldi.stepCore
  dsimp only
  split <;> rfl

theorem arnoldi_factorStep_consts (op : Op α) (bt : α) (s : State α) (i : Nat) :
    consts (Arnoldi.factorStep op bt s i) = consts s := by
  unfold Arnoldi.factorStep
  split <;> exact arnoldi_stepCore_consts op bt s i _ _ _ _ _

theorem arnoldi_factorize_upd (op : Op α) (k m : Nat) (s : State α) (a b : Nat) :
    (Arnoldi.factorize_from op { s with nexpand := a, nreorth := b } k m).map erase = (Arnoldi.factorize_from op s k m).map erase := by
  unfold Arnoldi.factorize_from
  dsimp only
  split
  · rfl
  · split
    · rfl
    · simp only [Option.map_some, Option.some.injEq]
      have h := foldl_proj (σ := State α) erase
        (fun st d => Arnoldi.factorStep op (s.eps * Sc.sqrt (Sc.ofInt (s.n : Int))) st (k + d))
        (fun x y i hxy => arnoldi_factorStep_erase op _ _ hxy) (List.range (m - k))
        { s with H := keepTopLeft s.H k, nexpand := a, nreorth := b } { s with H := keepTopLeft s.H k } rfl
      exact congrArg (fun x : State α => { x with k := m }) h

/-- `Arnoldi::factorize_from` reads and writes only the live part -/
theorem arnoldi_factorize_erase (op : Op α) (k m : Nat) {s t : State α} (h : erase s = erase t) :
    (Arnoldi.factorize_from op s k m).map erase = (Arnoldi.factorize_from op t k m).map erase :=
  of_upd (G := fun s => (Arnoldi.factorize_from op s k m).map erase) (arnoldi_factorize_upd op k m) h

theorem arnoldi_factorize_consts (op : Op α) (k m : Nat) (s s' : State α) (h : Arnoldi.factorize_from op s k m = some s') :
    consts s' = consts s := by
  unfold Arnoldi.factorize_from at h
  dsimp only at h
  split at h
  · cases h; rfl
  · split at h
    · cases h
    · cases h
      exact foldl_inv (σ := State α) consts _ (fun x i => arnoldi_factorStep_consts op _ x _) _ _

/-! ### Arnoldi::init, compress_H, compress_V -/

/-- `Arnoldi::init` on an object with pinned constants and op counter: the live part of the result does not depend on the old
    object AT ALL (every field `init` touches is rebuilt from `(op, v0)` and the constants) -/
theorem init_any (op : Op α) (n m : Nat) (near0 eps : α) (v0 : Vec α) (s t : State α) :
    (Arnoldi.init op { s with n := n, m := m, near0 := near0, eps := eps, ops := 0 } v0).map erase =
    (Arnoldi.init op { t with n := n, m := m, near0 := near0, eps := eps, ops := 0 } v0).map erase := by
  unfold Arnoldi.init
  dsimp only
  split <;> rfl

theorem init_consts (op : Op α) (v0 : Vec α) (s s' : State α) (h : Arnoldi.init op s v0 = some s') : consts s' = consts s := by
  unfold Arnoldi.init at h
  dsimp only at h
  split at h
  · cases h
  · cases h; rfl

/-- whether `init` rejects the start vector depends on the operator, the vector and `near0` only -/
theorem init_isSome (op : Op α) (v0 : Vec α) (s t : State α) (h : s.near0 = t.near0) :
    (Arnoldi.init op s v0).isSome = (Arnoldi.init op t v0).isSome := by
  unfold Arnoldi.init
  dsimp only
  rw [h]
  split <;> rfl

theorem compress_H_upd (QtHQ : Mat α) (sh : Nat) (s : State α) (a b : Nat) :
    erase (compress_H { s with nexpand := a, nreorth := b } QtHQ sh) = erase (compress_H s QtHQ sh) := rfl

theorem compress_V_upd (op : Op α) (Q : Mat α) (s : State α) (a b : Nat) :
    erase (compress_V op { s with nexpand := a, nreorth := b } Q) = erase (compress_V op s Q) := rfl

theorem compress_V_erase (op : Op α) (Q : Mat α) {s t : State α} (h : erase s = erase t) :
    erase (compress_V op s Q) = erase (compress_V op t Q) :=
  of_upd (G := fun s => erase (compress_V op s Q)) (compress_V_upd op Q) h

theorem compress_H_consts (QtHQ : Mat α) (sh : Nat) (s : State α) : consts (compress_H s QtHQ sh) = consts s := rfl
theorem compress_V_consts (op : Op α) (Q : Mat α) (s : State α) : consts (compress_V op s Q) = consts s := rfl

/-! ### the kernel record of the symmetric family -/

/-- projection used for the shift loop of `restart`: live part of the factorization and the accumulated `Q` -/
def eraseP (p : State α × Mat α) : State α × Mat α := (erase p.1, p.2)

/-- the shift loop of `HermEigsBase::restart` (QR sweeps + `compress_H`) -/
def shiftLoop (shifts : List α) (s : State α) (Q0 : Mat α) : State α × Mat α :=
  shifts.foldl (fun (acc : State α × Mat α) mu =>
      let decomp := QRModel.TridiagQR.compute acc.1.H mu
      let Q := decomp.apply_YQ acc.2
      (Arnoldi.compress_H acc.1 decomp.matrix_QtHQ 1, Q)) (s, Q0)

theorem shiftLoop_erase (shifts : List α) (Q0 : Mat α) {s t : State α} (h : erase s = erase t) :
    eraseP (shiftLoop shifts s Q0) = eraseP (shiftLoop shifts t Q0) := by
  unfold shiftLoop
  apply foldl_proj (σ := State α × Mat α) eraseP
  · intro x y mu hxy
    obtain ⟨x1, x2⟩ := x
    obtain ⟨y1, y2⟩ := y
    simp only [eraseP, Prod.mk.injEq] at hxy
    obtain ⟨h1, h2⟩ := hxy
    subst h2
    have hH : x1.H = y1.H := erase_H h1
    simp only [eraseP, hH, Prod.mk.injEq, and_true]
    exact of_upd (G := fun s => erase (compress_H s _ 1)) (fun s a b => rfl) h1
  · simp only [eraseP, h]

theorem shiftLoop_consts (shifts : List α) (Q0 : Mat α) (s : State α) : consts (shiftLoop shifts s Q0).1 = consts s := by
  unfold shiftLoop
  exact foldl_inv (σ := State α × Mat α) (fun p => consts p.1)
    (fun (acc : State α × Mat α) mu =>
      let decomp := QRModel.TridiagQR.compute acc.1.H mu
      let Q := decomp.apply_YQ acc.2
      (Arnoldi.compress_H acc.1 decomp.matrix_QtHQ 1, Q)) (fun x mu => rfl) shifts (s, Q0)

theorem restartFac_eq (op : Arnoldi.Op α) (ncv k : Nat) (ritzVal : List α) (s : State α) :
    HermSolver.restartFac op ncv k ritzVal s =
      (match Lanczos.factorize_from op (compress_V op (shiftLoop (HermSolver.restartShifts ncv k ritzVal) s (Mat.identity ncv)).1
          (shiftLoop (HermSolver.restartShifts ncv k ritzVal) s (Mat.identity ncv)).2) k ncv with
       | some s3 => ⟨s3, s3.ops - s.ops, none⟩
       | none => ⟨compress_V op (shiftLoop (HermSolver.restartShifts ncv k ritzVal) s (Mat.identity ncv)).1
          (shiftLoop (HermSolver.restartShifts ncv k ritzVal) s (Mat.identity ncv)).2, 0,
          some (.invalidArgument "Arnoldi: from_k is larger than the current subspace dimension")⟩) := rfl

/-- same constants, and equal up to the trace counters -/
def Live (n m : Nat) (near0 eps : α) (a b : State α) : Prop :=
  consts a = (n, m, near0, eps) ∧ consts b = (n, m, near0, eps) ∧ erase a = erase b

theorem Live.refl {n m : Nat} {near0 eps : α} {a : State α} (h : consts a = (n, m, near0, eps)) : Live n m near0 eps a a :=
  ⟨h, h, rfl⟩

/-- `hermKern` with the constants of the factorization object pinned in `facInit` (what the C++ gets from `const` members), and a
    canonical object in the rejected-start-vector case -/
def hermKernC (op : Arnoldi.Op α) (c : Orch.Cfg) (eps23 : α) (back : α → α) (near0 eps : α) :
    Orch.Kern (Arnoldi.State α) α α (Vec α) (Vec α) α (Vec α) :=
  withFacInit (HermSolver.hermKern op c eps23 back) (fun v0 s =>
      match Arnoldi.init op { s with n := c.n, m := c.ncv, near0 := near0, eps := eps, ops := 0 } v0 with
      | some s' => ⟨s', s'.ops, none⟩
      | none => ⟨State.mk0 c.n c.ncv near0 eps, 0, some (.invalidArgument "initial residual vector cannot be zero")⟩)

/-- on an object with the constructor's constants the pinned `facInit` is `hermKern`'s (same exception; same object and count
    whenever the start vector is accepted) -/
theorem hermKernC_facInit_eq (op : Arnoldi.Op α) (c : Orch.Cfg) (eps23 : α) (back : α → α) (near0 eps : α) (v0 : Vec α)
    (s : State α) (hs : consts s = (c.n, c.ncv, near0, eps)) :
    ((hermKernC op c eps23 back near0 eps).facInit v0 s).exn = ((HermSolver.hermKern op c eps23 back).facInit v0 s).exn ∧
    ((hermKernC op c eps23 back near0 eps).facInit v0 s).ops = ((HermSolver.hermKern op c eps23 back).facInit v0 s).ops ∧
    (((HermSolver.hermKern op c eps23 back).facInit v0 s).exn = none →
      ((hermKernC op c eps23 back near0 eps).facInit v0 s).fac = ((HermSolver.hermKern op c eps23 back).facInit v0 s).fac) := by
  have e : ({ s with n := c.n, m := c.ncv, near0 := near0, eps := eps, ops := 0 } : State α) = { s with ops := 0 } := by
    obtain ⟨n, m, k, V, H, f, beta, nr0, ep, ops, ne, nr⟩ := s
    simp only [consts, Prod.mk.injEq] at hs
    obtain ⟨h1, h2, h3, h4⟩ := hs
    subst h1 h2 h3 h4
    rfl
  simp only [hermKernC, withFacInit, HermSolver.hermKern, e]
  cases Arnoldi.init op { s with ops := 0 } v0 with
  | none => exact ⟨rfl, rfl, fun h => by cases h⟩
  | some s' => exact ⟨rfl, rfl, fun _ => rfl⟩

/-- **the obligation**: every numeric kernel of the symmetric family reads only the live part of the factorization object, and
    `facInit` rebuilds the live part from ANY old object -/
theorem herm_respects (op : Arnoldi.Op α) (c : Orch.Cfg) (eps23 : α) (back : α → α) (near0 eps : α) :
    Orch.Respects (hermKernC op c eps23 back near0 eps) (Live c.n c.ncv near0 eps) where
  facInit := by
    intro v a b
    have h := init_any op c.n c.ncv near0 eps v a b
    simp only [hermKernC, withFacInit]
    cases ha : Arnoldi.init op { a with n := c.n, m := c.ncv, near0 := near0, eps := eps, ops := 0 } v with
    | none =>
      cases hb : Arnoldi.init op { b with n := c.n, m := c.ncv, near0 := near0, eps := eps, ops := 0 } v with
      | none => exact ⟨⟨rfl, rfl, rfl⟩, rfl, rfl⟩
      | some b' => rw [ha, hb] at h; cases h
    | some a' =>
      cases hb : Arnoldi.init op { b with n := c.n, m := c.ncv, near0 := near0, eps := eps, ops := 0 } v with
      | none => rw [ha, hb] at h; cases h
      | some b' =>
        rw [ha, hb] at h
        simp only [Option.map_some, Option.some.injEq] at h
        exact ⟨⟨(init_consts op v _ a' ha).trans rfl, (init_consts op v _ b' hb).trans rfl, h⟩, erase_ops h, rfl⟩
  factorize := by
    intro k m a b hab
    obtain ⟨ca, cb, hab'⟩ := hab
    have h := lanczos_factorize_erase op k m hab'
    simp only [hermKernC, withFacInit, HermSolver.hermKern]
    cases ha : Lanczos.factorize_from op a k m with
    | none =>
      cases hb : Lanczos.factorize_from op b k m with
      | none => exact ⟨⟨ca, cb, hab'⟩, rfl, rfl⟩
      | some b' => rw [ha, hb] at h; cases h
    | some a' =>
      cases hb : Lanczos.factorize_from op b k m with
      | none => rw [ha, hb] at h; cases h
      | some b' =>
        rw [ha, hb] at h
        simp only [Option.map_some, Option.some.injEq] at h
        refine ⟨⟨(lanczos_factorize_consts op k m a a' ha).trans ca, (lanczos_factorize_consts op k m b b' hb).trans cb, h⟩, ?_, rfl⟩
        show a'.ops - a.ops = b'.ops - b.ops
        rw [erase_ops h, erase_ops hab']
  facDim := by
    intro a b hab
    exact erase_k hab.2.2
  eig := by
    intro a b hab
    simp only [hermKernC, withFacInit, HermSolver.hermKern, HermSolver.eigH, erase_H hab.2.2]
  convTest := by
    intro t a b x y hab
    simp only [hermKernC, withFacInit, HermSolver.hermKern, HermSolver.convTest, erase_beta hab.2.2]
  restartFac := by
    intro k vals a b hab
    obtain ⟨ca, cb, hab'⟩ := hab
    simp only [hermKernC, withFacInit, HermSolver.hermKern]
    rw [restartFac_eq, restartFac_eq]
    have hL := shiftLoop_erase (HermSolver.restartShifts c.ncv k vals) (Mat.identity c.ncv) hab'
    simp only [eraseP, Prod.mk.injEq] at hL
    obtain ⟨hL1, hL2⟩ := hL
    rw [← hL2]
    generalize hQ : (shiftLoop (HermSolver.restartShifts c.ncv k vals) a (Mat.identity c.ncv)).2 = Q
    have cA : consts (shiftLoop (HermSolver.restartShifts c.ncv k vals) a (Mat.identity c.ncv)).1 = _ := (shiftLoop_consts _ _ a).trans ca
    have cB : consts (shiftLoop (HermSolver.restartShifts c.ncv k vals) b (Mat.identity c.ncv)).1 = _ := (shiftLoop_consts _ _ b).trans cb
    revert hL1 cA cB
    generalize (shiftLoop (HermSolver.restartShifts c.ncv k vals) a (Mat.identity c.ncv)).1 = a1
    generalize (shiftLoop (HermSolver.restartShifts c.ncv k vals) b (Mat.identity c.ncv)).1 = b1
    intro hL1 cA cB
    have hV := compress_V_erase op Q hL1
    have cA2 : consts (compress_V op a1 Q) = _ := (compress_V_consts op Q a1).trans cA
    have cB2 : consts (compress_V op b1 Q) = _ := (compress_V_consts op Q b1).trans cB
    revert hV cA2 cB2
    generalize compress_V op a1 Q = a2
    generalize compress_V op b1 Q = b2
    intro hV cA2 cB2
    have h := lanczos_factorize_erase op k c.ncv hV
    cases ha : Lanczos.factorize_from op a2 k c.ncv with
    | none =>
      cases hb : Lanczos.factorize_from op b2 k c.ncv with
      | none => exact ⟨⟨cA2, cB2, hV⟩, rfl, rfl⟩
      | some b' => rw [ha, hb] at h; cases h
    | some a' =>
      cases hb : Lanczos.factorize_from op b2 k c.ncv with
      | none => rw [ha, hb] at h; cases h
      | some b' =>
        rw [ha, hb] at h
        simp only [Option.map_some, Option.some.injEq] at h
        refine ⟨⟨(lanczos_factorize_consts op k c.ncv a2 a' ha).trans cA2, (lanczos_factorize_consts op k c.ncv b2 b' hb).trans cB2, h⟩, ?_, rfl⟩
        show a'.ops - a.ops = b'.ops - b.ops
        rw [erase_ops h, erase_ops hab']
  assemble := by
    intro a b x hab
    simp only [hermKernC, withFacInit, HermSolver.hermKern, HermSolver.assemble, erase_V hab.2.2]

end
end C06Footprint
