/-
  Lemmas about the std::sort model (`Prelude/Sort.lean`) and about index-array folds produced by the translator.
-/
import Mathlib.Order.Defs.LinearOrder
import Mathlib.Order.Basic
import SpectraVerif.Prelude.Sort

namespace SortLemmas

theorem insertSorted_perm (lt : Int → Int → Bool) (x : Int) (l : List Int) :
    (insertSorted lt x l).Perm (x :: l) := by
  induction l with
  | nil => simp [insertSorted]
  | cons y ys ih =>
    simp only [insertSorted]
    split
    · exact List.Perm.refl _
    · exact (List.Perm.cons y ih).trans (List.Perm.swap x y ys)

theorem foldl_insert_perm (lt : Int → Int → Bool) (xs acc : List Int) :
    (xs.foldl (fun acc i => insertSorted lt i acc) acc).Perm (xs ++ acc) := by
  induction xs generalizing acc with
  | nil => simp
  | cons x xs ih =>
    simp only [List.foldl_cons, List.cons_append]
    refine (ih _).trans ?_
    refine (List.Perm.append_left xs (insertSorted_perm lt x acc)).trans ?_
    exact List.perm_middle

/-- the sorted index list is a permutation of `0..len-1` -/
theorem sortIdxList_perm (lt : Int → Int → Bool) (len : Int) :
    (sortIdxList lt len).Perm (intRange 0 len) := by
  simpa [sortIdxList] using foldl_insert_perm lt (intRange 0 len) []

theorem sortIdxList_length (lt : Int → Int → Bool) (len : Int) :
    (sortIdxList lt len).length = len.toNat := by
  rw [(sortIdxList_perm lt len).length_eq, intRange_length]; simp

section keyed
variable {κ : Type} [LinearOrder κ] (key : Int → κ)

theorem insertSorted_sorted (x : Int) (l : List Int)
    (h : l.Pairwise (fun a b => key a ≤ key b)) :
    (insertSorted (fun i j => decide (key i < key j)) x l).Pairwise (fun a b => key a ≤ key b) := by
  induction l with
  | nil => simp [insertSorted]
  | cons y ys ih =>
    simp only [insertSorted]
    rw [List.pairwise_cons] at h
    split
    · rename_i hlt
      have hxy : key x < key y := of_decide_eq_true hlt
      refine List.pairwise_cons.mpr ⟨?_, List.pairwise_cons.mpr h⟩
      intro a ha
      rcases List.mem_cons.mp ha with rfl | ha
      · exact le_of_lt hxy
      · exact le_trans (le_of_lt hxy) (h.1 a ha)
    · rename_i hlt
      have hyx : key y ≤ key x := not_lt.mp (fun hh => hlt (decide_eq_true hh))
      refine List.pairwise_cons.mpr ⟨?_, ih h.2⟩
      intro a ha
      have := (insertSorted_perm (fun i j => decide (key i < key j)) x ys).mem_iff.mp ha
      rcases List.mem_cons.mp this with rfl | ha'
      · exact hyx
      · exact h.1 a ha'

theorem foldl_insert_sorted (xs acc : List Int) (h : acc.Pairwise (fun a b => key a ≤ key b)) :
    (xs.foldl (fun acc i => insertSorted (fun i j => decide (key i < key j)) i acc) acc).Pairwise
      (fun a b => key a ≤ key b) := by
  induction xs generalizing acc with
  | nil => simpa
  | cons x xs ih => exact ih _ (insertSorted_sorted key x acc h)

/-- keys along the sorted index list are non-decreasing -/
theorem sortIdxList_sorted (len : Int) :
    (sortIdxList (fun i j => decide (key i < key j)) len).Pairwise (fun a b => key a ≤ key b) := by
  simpa [sortIdxList] using foldl_insert_sorted key (intRange 0 len) [] List.Pairwise.nil

end keyed

/-- pointwise value of a translator-shaped write loop `for i in [lo,hi): f[i] = g i` -/
theorem foldl_upd_pointwise {β : Type} (g : Int → β) (l : List Int) (f : Int → β) (j : Int) :
    (l.foldl (fun f i => upd f i (g i)) f) j = if j ∈ l then g j else f j := by
  induction l generalizing f with
  | nil => simp
  | cons x xs ih =>
    simp only [List.foldl_cons, ih, List.mem_cons]
    by_cases hx : j ∈ xs
    · simp [hx]
    · by_cases hj : j = x
      · subst hj; simp [hx]
      · simp [hx, hj, upd]

end SortLemmas
