/-
  C04 — lemmas that connect the ordering theorems of C18 (about the source-translated `argsort`, keys and the std::sort model)
  with the solver model: what `Orch.retrieve` stores when its `select` kernel is the translated `argsort`
  (`HermSolver.argsortIdx`) resp. the general family's `SortEigenvalue` switch (`C04M.genSelectIdx`), and which Ritz values
  `HermSolver.restartShifts` / the translated shift loop of `GenEigsBase::restart` consume.
  Exact arithmetic = any linearly ordered field `K` (`scOfField F`).
-/
import SpectraVerif.Model.C04Select
import SpectraVerif.Proofs.ScField
import SpectraVerif.Proofs.SortLemmas
import SpectraVerif.Proofs.OrchLemmas
import SpectraVerif.Proofs.C13Lemmas
import SpectraVerif.Properties.C18
import SpectraVerif.Proofs.Spectral

namespace C04L
open SortLemmas Gen.Sort

/-! ### lists -/
section lists
variable {β : Type}

theorem map_range_getD_map (l : List Int) (f : Int → β) (n : Nat) (h : l.length = n) :
    (List.range n).map (fun i => f (l.getD i 0)) = l.map f := by
  have := Orch.map_range_getD' l 0 n h
  conv => rhs; rw [← this]
  simp [List.map_map, Function.comp_def]

theorem map_intRange (f : Int → β) (n : Nat) :
    (intRange 0 (n : Int)).map f = (List.range n).map (fun (i : Nat) => f (i : Int)) := by
  simp [intRange, List.map_map, Function.comp_def]

/-- a sorted list splits at EVERY position `k` into a better and a worse part -/
theorem pairwise_split {R : β → β → Prop} (l : List β) (h : l.Pairwise R) (k : Nat) :
    ∀ a ∈ l.take k, ∀ b ∈ l.drop k, R a b := by
  have h2 : (l.take k ++ l.drop k).Pairwise R := by rw [List.take_append_drop]; exact h
  exact (List.pairwise_append.mp h2).2.2

theorem getD_map_lt (l : List Int) (f : Int → β) (d : β) (i : Nat) (h : i < l.length) :
    (l.map f).getD i d = f (l.getD i 0) := by
  simp [List.getD_eq_getElem?_getD, h]

theorem getD_range_map (f : Nat → β) (d : β) (n i : Nat) (h : i < n) : ((List.range n).map f).getD i d = f i := by
  simp [List.getD_eq_getElem?_getD, h]

end lists

section field
variable {K : Type} [Field K] [LinearOrder K] [IsStrictOrderedRing K] (F : FieldFns K)

/-- `HermSolver.listFn` at the field instance -/
def lf (l : List K) : Int → K := @HermSolver.listFn K (scOfField F) l

theorem lf_nonneg (l : List K) (i : Int) (h : 0 ≤ i) : lf F l i = l.getD i.toNat 0 := by
  have : ¬ i < 0 := by omega
  simp [lf, HermSolver.listFn, this, Lin.zero]

theorem lf_nat (l : List K) (i : Nat) : lf F l (i : Int) = l.getD i 0 := by
  rw [lf_nonneg F l _ (by omega)]; simp

theorem map_lf (l : List K) (n : Nat) (h : l.length = n) : (intRange 0 (n : Int)).map (lf F l) = l := by
  rw [map_intRange]
  have : (fun (i : Nat) => lf F l (i : Int)) = fun i => l.getD i 0 := by funext i; exact lf_nat F l i
  rw [this]; exact Orch.map_range_getD' l 0 n h

/-- entries of `baseOrder` are valid non-negative indices -/
theorem base_mem (sel : Int) (v : Int → K) (n : Nat) (j : Int) (h : j ∈ C18.baseOrder F sel v n) : 0 ≤ j ∧ j < n := by
  have := (C18.c18_perm_base F sel v n).mem_iff.mp h
  exact mem_intRange.mp this

theorem base_length (sel : Int) (v : Int → K) (n : Nat) : (C18.baseOrder F sel v n).length = n := by
  rw [(C18.c18_perm_base F sel v n).length_eq, intRange_length]; simp

theorem base_getD (sel : Int) (v : Int → K) (n i : Nat) (h : i < n) :
    0 ≤ (C18.baseOrder F sel v n).getD i 0 ∧ (C18.baseOrder F sel v n).getD i 0 < n := by
  have hl := base_length F sel v n
  have : (C18.baseOrder F sel v n).getD i 0 ∈ C18.baseOrder F sel v n := by
    rw [List.getD_eq_getElem?_getD, List.getElem?_eq_getElem (by omega)]; simp
  exact base_mem F sel v n _ this

/-- position `i` of the index vector `argsort` returns (as used by `retrieve_ritzpair`) -/
def order (sel : Int) (vals : List K) (n : Nat) (i : Nat) : Int :=
  if sel = 8 then C18.interleave (fun j => (C18.baseOrder F sel (lf F vals) n).getD j.toNat 0) n i
  else (C18.baseOrder F sel (lf F vals) n).getD i 0

/-- `HermSolver.argsortIdx` for an accepted rule, in terms of C18's `baseOrder` -/
theorem argsortIdx_ok (sel : Int) (vals : List K) (n : Nat) (h : argsort_rule sel ≠ -1) :
    ∃ idx : List Nat, @HermSolver.argsortIdx K _ _ _ _ _ (scOfField F) sel vals n = .ok idx ∧ idx.length = n ∧
      ∀ i, i < n → ((idx.getD i 0 : Nat) : Int) = order F sel vals n i ∧ 0 ≤ order F sel vals n i ∧ order F sel vals n i < n := by
  obtain ⟨ind, hi, hv⟩ := C18.c18_argsort_value F sel (lf F vals) n h
  have hi' : @argsort K _ _ _ _ _ (scOfField F) sel (@HermSolver.listFn K (scOfField F) vals) (n : Int) = Res.ok ind := hi
  refine ⟨(List.range n).map (fun (i : Nat) => (ind (i : Int)).toNat), ?_, by simp, ?_⟩
  · simp only [HermSolver.argsortIdx, hi']
  · intro i hin
    have hv' := hv (i : Int) (by omega) (by omega)
    have hord : ind (i : Int) = order F sel vals n i := by
      rw [hv']; unfold order C18.interleave
      by_cases h8 : sel = 8
      · simp only [h8, if_true]
      · simp only [h8, if_false]; simp
    have hrange : 0 ≤ order F sel vals n i ∧ order F sel vals n i < n := by
      unfold order C18.interleave
      by_cases h8 : sel = 8
      · simp only [h8, if_true]
        by_cases hp : ((i : Nat) : Int) % 2 = 0
        · simp only [hp, if_true]
          have hb := base_getD F 8 (lf F vals) n (((i : Nat) : Int) / 2).toNat (by omega)
          exact hb
        · simp only [hp, if_false]
          have hb := base_getD F 8 (lf F vals) n (((n : Nat) : Int) - 1 - ((i : Nat) : Int) / 2).toNat (by omega)
          exact hb
      · simp only [h8, if_false]; exact base_getD F sel (lf F vals) n i hin
    refine ⟨?_, hrange⟩
    rw [getD_range_map _ _ _ _ hin, hord]
    omega


/-- the values `retrieve_ritzpair` / `sort_ritzpair` store, position by position, when the index list comes from `argsort` -/
theorem vals_of_order (sel : Int) (vals : List K) (n : Nat) (idx : List Nat)
    (hidx : ∀ i, i < n → ((idx.getD i 0 : Nat) : Int) = order F sel vals n i ∧ 0 ≤ order F sel vals n i ∧ order F sel vals n i < n)
    (m : Nat) (hm : m ≤ n) :
    (List.range m).map (fun i => vals.getD (idx.getD i 0) 0) = (List.range m).map (fun i => lf F vals (order F sel vals n i)) := by
  apply List.map_congr_left
  intro i hi
  have hin : i < n := by have := List.mem_range.mp hi; omega
  obtain ⟨h1, h2, _⟩ := hidx i hin
  rw [lf_nonneg F vals _ h2, ← h1]; simp

/-- for the four one-sided rules the stored values are C18's base order mapped through the values -/
theorem order_map (sel : Int) (vals : List K) (n : Nat) (h8 : sel ≠ 8) :
    (List.range n).map (fun i => lf F vals (order F sel vals n i)) = (C18.baseOrder F sel (lf F vals) n).map (lf F vals) := by
  rw [← map_range_getD_map _ (lf F vals) n (base_length F sel (lf F vals) n)]
  apply List.map_congr_left
  intro i _
  simp [order, h8]

theorem map_lf_take (l : List K) (n : Nat) (h : n ≤ l.length) : (intRange 0 (n : Int)).map (lf F l) = l.take n := by
  rw [map_intRange]
  have : (fun (i : Nat) => lf F l (i : Int)) = fun i => l.getD i 0 := by funext i; exact lf_nat F l i
  rw [this]
  apply List.ext_getElem
  · simp [h]
  · intro i h1 h2
    simp at h1
    simp [List.getD_eq_getElem?_getD]
    rw [List.getElem?_eq_getElem (by omega)]; simp

/-! #### general family -/

/-- `C04M.clistFn` at the field instance -/
def clf (l : List (K × K)) : Int → K × K := @C04M.clistFn K (scOfField F) l

theorem clf_nonneg (l : List (K × K)) (i : Int) (h : 0 ≤ i) : clf F l i = l.getD i.toNat (0, 0) := by
  have : ¬ i < 0 := by omega
  simp [clf, C04M.clistFn, this, Lin.zero]

theorem clf_nat (l : List (K × K)) (i : Nat) : clf F l (i : Int) = l.getD i (0, 0) := by
  rw [clf_nonneg F l _ (by omega)]; simp

theorem map_clf (l : List (K × K)) (n : Nat) (h : l.length = n) : (intRange 0 (n : Int)).map (clf F l) = l := by
  rw [map_intRange]
  have : (fun (i : Nat) => clf F l (i : Int)) = fun i => l.getD i (0, 0) := by funext i; exact clf_nat F l i
  rw [this]; exact Orch.map_range_getD' l (0, 0) n h

theorem baseC_mem (r : Int) (v : Int → K × K) (n : Nat) (j : Int) (h : j ∈ C18.baseOrderC F r v n) : 0 ≤ j ∧ j < n :=
  mem_intRange.mp ((C18.c18_perm_complex F r v n).mem_iff.mp h)

theorem baseC_length (r : Int) (v : Int → K × K) (n : Nat) : (C18.baseOrderC F r v n).length = n := by
  rw [(C18.c18_perm_complex F r v n).length_eq, intRange_length]; simp

/-- the general family's selection switch for an accepted rule, in terms of C18's `baseOrderC` -/
theorem genSelectIdx_ok (r : Int) (vals : List (K × K)) (n : Nat) (h : r = 0 ∨ r = 1 ∨ r = 2 ∨ r = 4 ∨ r = 5 ∨ r = 6) :
    @C04M.genSelectIdx K _ _ _ _ _ (scOfField F) r vals n = .ok ((C18.baseOrderC F r (clf F vals) n).map Int.toNat) := by
  have hr := (C18.c18_dispatch_complex_rule r h).1
  have hne : gen_select_rule r ≠ -1 := by rw [hr]; rcases h with h | h | h | h | h | h <;> subst h <;> decide
  have hne' : r ≠ -1 := by rw [hr] at hne; exact hne
  simp only [C04M.genSelectIdx, hr, hne', if_false]
  rfl

/-- values stored by `retrieve` when the index list is `base.map toNat` -/
theorem vals_of_base (base : List Int) (n : Nat) (hl : base.length = n) (hm : ∀ j ∈ base, 0 ≤ j ∧ j < (n : Int))
    (evals : List (K × K)) :
    (List.range n).map (fun i => evals.getD ((base.map Int.toNat).getD i 0) (0, 0)) = base.map (clf F evals) := by
  rw [← map_range_getD_map base (clf F evals) n hl]
  apply List.map_congr_left
  intro i hi
  have hin : i < n := List.mem_range.mp hi
  have hmem : base.getD i 0 ∈ base := by
    rw [List.getD_eq_getElem?_getD, List.getElem?_eq_getElem (by omega)]; simp
  have h0 := (hm _ hmem).1
  rw [clf_nonneg F evals _ h0]
  congr 1
  simp [List.getD_eq_getElem?_getD, List.getElem?_map]
  rw [List.getElem?_eq_getElem (by omega)]; simp

/-! #### the symmetric restart's shift list -/

theorem restartShifts_eq (ncv k : Nat) (rv : List K) :
    @HermSolver.restartShifts K (scOfField F) ncv k rv =
      (sortIdxList (fun i j => decide (-|lf F (rv.drop k) i| < -|lf F (rv.drop k) j|)) ((ncv - k : Nat) : Int)).map (lf F (rv.drop k)) := by
  simp only [HermSolver.restartShifts, lf]
  congr 2
  funext i j
  simp [Sc.gt]

theorem restartShifts_perm (ncv k : Nat) (rv : List K) (h : rv.length = ncv) :
    (@HermSolver.restartShifts K (scOfField F) ncv k rv).Perm (rv.drop k) := by
  rw [restartShifts_eq]
  have hp := (sortIdxList_perm (fun i j => decide (-|lf F (rv.drop k) i| < -|lf F (rv.drop k) j|)) ((ncv - k : Nat) : Int)).map (lf F (rv.drop k))
  rw [map_lf F (rv.drop k) (ncv - k) (by simp [h])] at hp
  exact hp

theorem restartShifts_sorted (ncv k : Nat) (rv : List K) :
    (@HermSolver.restartShifts K (scOfField F) ncv k rv).Pairwise (fun a b => |b| ≤ |a|) := by
  rw [restartShifts_eq, List.pairwise_map]
  have hs := sortIdxList_sorted (fun i => -|lf F (rv.drop k) i|) ((ncv - k : Nat) : Int)
  exact hs.imp (fun h => neg_le_neg_iff.mp h)

end field

/-! ### the shift schedule of `GenEigsBase::restart` (translated loop body, any scalar, comparisons are oracles) -/
section genshift
open RestartIdx Gen.Restart
variable {α : Type} [Add α] [Sub α] [Mul α] [Div α] [Neg α] [Sc α]

theorem intRange_cons (lo hi : Int) (h : lo < hi) : intRange lo hi = lo :: intRange (lo + 1) hi := by
  have e : (hi - lo).toNat = (hi - (lo + 1)).toNat + 1 := by omega
  simp only [intRange, e, List.range_succ_eq_map, List.map_cons, List.map_map]
  congr 1
  · simp
  · apply List.map_congr_left; intro a _; simp only [Function.comp]; omega

/-- positions of `m_ritz_val` a pass consumes as shifts: one for a real shift, two for a double shift -/
def consumed (p : Pass) : List Int := if p.double then [p.i, p.i + 1] else [p.i]

theorem genPasses_cover_aux (ritz : Int → α × α) (ncv : Int) (n : Nat) :
    ∀ i : Int, (ncv - i).toNat = n → AdjacentConj ritz ncv i →
      (genPasses ritz ncv i).flatMap consumed = intRange i ncv ∧
      ∀ p ∈ genPasses ritz ncv i, p.double = is_complex (ritz p.i) ∧
        (p.double = true → is_conj (ritz p.i) (ritz (p.i + 1)) = true ∧ p.i + 1 < ncv) := by
  induction n using Nat.strongRecOn with
  | ind n ih =>
    intro i hn hadj
    by_cases hlt : i < ncv
    · rw [adj_lt ritz ncv i hlt] at hadj
      rw [genPasses_lt ritz ncv i hlt]
      cases h : is_complex (ritz i)
      · rw [h] at hadj
        simp only [Bool.false_eq_true, if_false] at hadj
        rw [step_real ncv ritz i h]
        have := ih (ncv - (i + 1)).toNat (by omega) (i + 1) rfl hadj
        refine ⟨?_, ?_⟩
        · rw [List.flatMap_cons, this.1, intRange_cons i ncv hlt]; simp [consumed]
        · intro p hp
          rcases List.mem_cons.mp hp with rfl | hp
          · simp [h]
          · exact this.2 p hp
      · rw [h] at hadj
        simp only [if_true] at hadj
        obtain ⟨hb, hc, hrest⟩ := hadj
        rw [step_pair ncv ritz i h hb hc]
        have := ih (ncv - (i + 2)).toNat (by omega) (i + 2) rfl hrest
        refine ⟨?_, ?_⟩
        · rw [List.flatMap_cons, this.1, intRange_cons i ncv hlt, intRange_cons (i + 1) ncv hb]
          simp only [consumed, if_true, List.cons_append, List.nil_append]
          congr 3; omega
        · intro p hp
          rcases List.mem_cons.mp hp with rfl | hp
          · simp [h, hc, hb]
          · exact this.2 p hp
    · rw [genPasses_ge ritz ncv i (by omega), intRange_empty i ncv (by omega)]
      simp

theorem genPasses_cover (ritz : Int → α × α) (ncv i : Int) (hadj : AdjacentConj ritz ncv i) :
    (genPasses ritz ncv i).flatMap consumed = intRange i ncv ∧
    ∀ p ∈ genPasses ritz ncv i, p.double = is_complex (ritz p.i) ∧
      (p.double = true → is_conj (ritz p.i) (ritz (p.i + 1)) = true ∧ p.i + 1 < ncv) :=
  genPasses_cover_aux ritz ncv _ i rfl hadj

end genshift

/-! ### what `Orch.retrieve` stores -/
section retrieve
open Orch
variable {φ ρ ε κ β τ ω : Type} (Kn : Kern φ ρ ε κ β τ ω) (c : Cfg)

theorem retrieve_ok (sel : Int) (s : St φ ρ ε κ) (evals : List ρ) (lastRow : List ε) (cols : List κ) (ind : List Nat)
    (he : Kn.eig s.fac = .ok (evals, lastRow, cols)) (hs : Kn.select sel evals c.ncv = .ok ind) :
    (retrieve Kn c sel s).2 = none ∧
    (retrieve Kn c sel s).1.ritzVal = (List.range c.ncv).map (fun i => evals.getD (ind.getD i 0) Kn.zeroρ) ∧
    (retrieve Kn c sel s).1.ritzEst = (List.range c.ncv).map (fun i => lastRow.getD (ind.getD i 0) Kn.zeroε) ∧
    (retrieve Kn c sel s).1.ritzVec = (List.range c.nev).map (fun i => cols.getD (ind.getD i 0) Kn.zeroκ) := by
  simp [retrieve, he, hs]

/-- a restart that completes ends with `retrieve` on the new factorization: the same ordering statement holds again -/
theorem restart_is_retrieve (k : Nat) (sel : Int) (s : St φ ρ ε κ) (hk : k < c.ncv)
    (hex : (Kn.restartFac k s.ritzVal s.fac).exn = none) :
    restart Kn c k sel s =
      retrieve Kn c sel { s with fac := (Kn.restartFac k s.ritzVal s.fac).fac, nmatop := s.nmatop + (Kn.restartFac k s.ritzVal s.fac).ops } := by
  have : ¬ k ≥ c.ncv := by omega
  simp [restart, this, hex]

end retrieve
/-! ### order of ν = 1 + c/(λ-σ) (buckling: c = σ; Cayley: c = 2σ) -/
section nu
variable {K : Type} [Field K] [LinearOrder K] [IsStrictOrderedRing K]

omit [LinearOrder K] [IsStrictOrderedRing K] in
/-- the difference of two transformed values, for ν = c/(λ-σ) + 1 (buckling: c = σ; Cayley: c = 2σ) -/
theorem nu_diff (c σ l1 l2 : K) (h1 : l1 - σ ≠ 0) (h2 : l2 - σ ≠ 0) :
    c / (l1 - σ) - c / (l2 - σ) = c * (l2 - l1) / ((l1 - σ) * (l2 - σ)) := by
  field_simp; ring

theorem nu_order (c σ l1 l2 : K) (h1 : l1 - σ ≠ 0) (h2 : l2 - σ ≠ 0) (hside : 0 < (l1 - σ) * (l2 - σ)) :
    (0 < c → (c / (l2 - σ) < c / (l1 - σ) ↔ l1 < l2)) ∧ (c < 0 → (c / (l2 - σ) < c / (l1 - σ) ↔ l2 < l1)) := by
  have hd := nu_diff c σ l1 l2 h1 h2
  constructor
  · intro hc
    rw [← sub_pos, hd, div_pos_iff_of_pos_right hside]
    constructor
    · intro h; by_contra hh; push Not at hh
      have : c * (l2 - l1) ≤ 0 := mul_nonpos_of_nonneg_of_nonpos hc.le (by linarith)
      linarith
    · intro h; exact mul_pos hc (by linarith)
  · intro hc
    rw [← sub_pos, hd, div_pos_iff_of_pos_right hside]
    constructor
    · intro h; by_contra hh; push Not at hh
      have : c * (l2 - l1) ≤ 0 := mul_nonpos_of_nonpos_of_nonneg hc.le (by linarith)
      linarith
    · intro h; exact mul_pos_of_neg_of_neg hc (by linarith)

end nu

end C04L
