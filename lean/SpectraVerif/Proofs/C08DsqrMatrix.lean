/-
  C08 — refinement of the array model `QRModel.DoubleShiftQR` (Model/DoubleShiftQR.lean, the statement-by-statement model of
  `Spectra::DoubleShiftQR`) to Mathlib `Matrix` algebra: how the class applies its orthogonal factor
  `Q = P₀ P₁ ⋯ P_{n-2}`, `Pₖ = I − 2 uₖ uₖᵀ` on rows/columns `k … k + nr[k] − 1` (identity when `nr[k] = 1`).

  * `Rm w = I − 2 w wᵀ`; `wv n u nr k` the stored column `k` of `m_ref_u` embedded at rows `k … k + nr[k] − 1`;
    `Pm n u nr k = Rm (wv n u nr k)`; `Qd n u nr m = P₀ ⋯ P_{m-1}`; `Qdof q = Qd q.n q.u q.nr (q.n − 1)`.
  * DM1 `Pm_symm`, `Pm_orth`.
  * DM2 `apply_YQ_toM`: `apply_YQ(Y) = Y Q` for every reflector table satisfying the discrete safety facts `hsafe`.
  * DM3 `apply_QtY_vec`: `apply_QtY(y) = Qᵀ y`.
  * DM4 `Qd_orth`: unit columns give `QᵀQ = QQᵀ = 1`.
  * DM5 `Qd_first_col`, `first_col_parallel` (`first_col_parallel2` for a 2-row first reflector), `dsqr_first_col_parallel`:
    `Q e₁ = P₀ e₁`, and `κ · Q e₁` is the first column of `H² − sH + tI`.
  * DM6 `compute_first_reflector` (frame: later reflector computations never touch column 0 of `m_ref_u` / `m_ref_nr[0]`),
    `split_fold_spec`, `st0_H_spec`, `zeroInd_first_block` (the first pass of `compute`), and the instantiated result
    `compute_first_col_parallel` / `compute_first_col_parallel'` for `q = compute mat s t`.
-/
import Mathlib.Data.Matrix.Basic
import Mathlib.Data.Matrix.Mul
import Mathlib.Data.Fintype.BigOperators
import Mathlib.Algebra.BigOperators.Fin
import Mathlib.Tactic.Ring
import Mathlib.Tactic.LinearCombination
import SpectraVerif.Proofs.C08DsqrQ
import SpectraVerif.Proofs.C08HessMatrix
import SpectraVerif.Proofs.C08Local
import SpectraVerif.Proofs.C08Refl

set_option linter.unusedSectionVars false
set_option linter.unusedVariables false
set_option linter.unusedSimpArgs false

namespace C08DsqrMatrix
open Lin QRModel C08Mat C08DsqrQ
open QRModel.DoubleShiftQR
open Matrix
open C08HessMatrix (toM toM_apply)

/-! ### pure `Matrix` algebra of `I − 2 w wᵀ` -/

section Pure
variable {K : Type} [Field K]

/-- `I − 2 w wᵀ` -/
def Rm {n : Nat} (w : Fin n → K) : Matrix (Fin n) (Fin n) K :=
  fun i j => (if i = j then 1 else 0) - 2 * w i * w j

theorem Rm_apply {n : Nat} (w : Fin n → K) (i j : Fin n) : Rm w i j = (if i = j then 1 else 0) - 2 * w i * w j := rfl

theorem Rm_transpose {n : Nat} (w : Fin n → K) : (Rm w)ᵀ = Rm w := by
  ext i j
  simp only [Matrix.transpose_apply, Rm]
  have e : (j = i) = (i = j) := propext eq_comm
  simp only [e]; ring

theorem Rm_zero {n : Nat} (w : Fin n → K) (h : ∀ i, w i = 0) : Rm w = 1 := by
  ext i j
  rw [Rm_apply, Matrix.one_apply, h i]; ring

/-- `A (I − 2wwᵀ) = A − 2 (A w) wᵀ` -/
theorem mul_Rm_apply {m n : Nat} (A : Matrix (Fin m) (Fin n) K) (w : Fin n → K) (i : Fin m) (j : Fin n) :
    (A * Rm w) i j = A i j - 2 * (∑ l, A i l * w l) * w j := by
  rw [Matrix.mul_apply]
  simp only [Rm, mul_sub, Finset.sum_sub_distrib]
  congr 1
  · simp
  · rw [Finset.mul_sum, Finset.sum_mul]
    apply Finset.sum_congr rfl
    intro l _; ring

/-- `(I − 2wwᵀ) x = x − 2 (wᵀx) w` -/
theorem Rm_mulVec_apply {n : Nat} (w x : Fin n → K) (i : Fin n) :
    (Rm w).mulVec x i = x i - 2 * (∑ l, x l * w l) * w i := by
  unfold Matrix.mulVec dotProduct
  simp only [Rm, sub_mul, Finset.sum_sub_distrib]
  congr 1
  · simp
  · rw [Finset.mul_sum, Finset.sum_mul]
    apply Finset.sum_congr rfl
    intro l _; ring

/-- a unit `w` gives an involution -/
theorem Rm_mul_self {n : Nat} (w : Fin n → K) (hw : ∑ l, w l * w l = 1) : Rm w * Rm w = 1 := by
  ext i j
  rw [mul_Rm_apply]
  have e : ∑ l, Rm w i l * w l = w i - 2 * w i * ∑ l, w l * w l := by
    simp only [Rm, sub_mul, Finset.sum_sub_distrib]
    congr 1
    · simp
    · rw [Finset.mul_sum]
      apply Finset.sum_congr rfl
      intro l _; ring
  rw [e, hw, Rm_apply, Matrix.one_apply]; ring

/-- a sum against a function supported at one index -/
theorem sum_at {n : Nat} (g : Fin n → K) (k : Nat) (hk : k < n) (a : K) :
    ∑ l : Fin n, g l * (if l.val = k then a else 0) = g ⟨k, hk⟩ * a := by
  rw [Fintype.sum_eq_single (⟨k, hk⟩ : Fin n)]
  · simp
  · intro x hx
    have : ¬ x.val = k := fun e => hx (Fin.ext e)
    simp [this]

theorem sum_if2 {n : Nat} (g : Fin n → K) (k : Nat) (hk : k + 1 < n) (a b : K) :
    ∑ l : Fin n, g l * (if l.val = k then a else if l.val = k + 1 then b else 0) =
      g ⟨k, by omega⟩ * a + g ⟨k + 1, hk⟩ * b := by
  have e : ∀ l : Fin n, g l * (if l.val = k then a else if l.val = k + 1 then b else 0) =
      g l * (if l.val = k then a else 0) + g l * (if l.val = k + 1 then b else 0) := by
    intro l
    by_cases h0 : l.val = k
    · have : ¬ l.val = k + 1 := by omega
      simp [h0]
    · simp [h0]
  rw [Finset.sum_congr rfl (fun l _ => e l), Finset.sum_add_distrib, sum_at g k (by omega), sum_at g (k + 1) hk]

theorem sum_if3 {n : Nat} (g : Fin n → K) (k : Nat) (hk : k + 2 < n) (a b c : K) :
    ∑ l : Fin n, g l * (if l.val = k then a else if l.val = k + 1 then b else if l.val = k + 2 then c else 0) =
      g ⟨k, by omega⟩ * a + g ⟨k + 1, by omega⟩ * b + g ⟨k + 2, hk⟩ * c := by
  have e : ∀ l : Fin n, g l * (if l.val = k then a else if l.val = k + 1 then b else if l.val = k + 2 then c else 0) =
      g l * (if l.val = k then a else 0) + g l * (if l.val = k + 1 then b else 0) +
        g l * (if l.val = k + 2 then c else 0) := by
    intro l
    by_cases h0 : l.val = k
    · have : ¬ l.val = k + 1 := by omega
      have : ¬ l.val = k + 2 := by omega
      simp [h0]
    · by_cases h1 : l.val = k + 1
      · have : ¬ l.val = k + 2 := by omega
        simp [h1]
      · simp [h0, h1]
  rw [Finset.sum_congr rfl (fun l _ => e l), Finset.sum_add_distrib, Finset.sum_add_distrib, sum_at g k (by omega),
    sum_at g (k + 1) (by omega), sum_at g (k + 2) hk]

end Pure

/-! ### the reflectors and their product at the exact-arithmetic scalar instance `scOfField F` -/

section AtField
variable {K : Type} [Field K] [LinearOrder K] [IsStrictOrderedRing K] (F : FieldFns K)

/-- column `k` of `m_ref_u` embedded at rows `k … k + nr[k] − 1` of an `n`-vector (zero when `nr[k] = 1`) -/
def wv (n : Nat) (u : Mat K) (nr : Array Nat) (k : Nat) : Fin n → K := fun i =>
  if nr.getD k 0 ≠ 1 ∧ k ≤ i.val ∧ i.val < k + nr.getD k 0 then mget F u (i.val - k) k else 0

/-- `Pₖ = I − 2 uₖ uₖᵀ` on rows/columns `k … k + nr[k] − 1`; the identity when `nr[k] = 1` -/
def Pm (n : Nat) (u : Mat K) (nr : Array Nat) (k : Nat) : Matrix (Fin n) (Fin n) K := Rm (wv F n u nr k)

/-- `P₀ P₁ ⋯ P_{m-1}` -/
def Qd (n : Nat) (u : Mat K) (nr : Array Nat) : Nat → Matrix (Fin n) (Fin n) K
  | 0 => 1
  | m + 1 => Qd n u nr m * Pm F n u nr m

/-- the orthogonal factor of `q`: all `q.n − 1` stored reflectors -/
def Qdof (q : DoubleShiftQR K) : Matrix (Fin q.n) (Fin q.n) K := Qd F q.n q.u q.nr (q.n - 1)

theorem Pm_apply (n : Nat) (u : Mat K) (nr : Array Nat) (k : Nat) (i j : Fin n) :
    Pm F n u nr k i j = (if i = j then 1 else 0) - 2 * wv F n u nr k i * wv F n u nr k j := rfl

theorem wv_apply (n : Nat) (u : Mat K) (nr : Array Nat) (k : Nat) (i : Fin n) :
    wv F n u nr k i =
      if nr.getD k 0 ≠ 1 ∧ k ≤ i.val ∧ i.val < k + nr.getD k 0 then mget F u (i.val - k) k else 0 := rfl

theorem Qd_zero (n : Nat) (u : Mat K) (nr : Array Nat) : Qd F n u nr 0 = 1 := rfl
theorem Qd_succ (n : Nat) (u : Mat K) (nr : Array Nat) (m : Nat) :
    Qd F n u nr (m + 1) = Qd F n u nr m * Pm F n u nr m := rfl
theorem Qdof_eq (q : DoubleShiftQR K) : Qdof F q = Qd F q.n q.u q.nr (q.n - 1) := rfl

/-! #### the embedded column, case by case -/

theorem wv_one (n : Nat) (u : Mat K) (nr : Array Nat) (k : Nat) (h : nr.getD k 0 = 1) (i : Fin n) :
    wv F n u nr k i = 0 := by
  rw [wv_apply, if_neg (fun hh => hh.1 h)]

theorem wv_two (n : Nat) (u : Mat K) (nr : Array Nat) (k : Nat) (h : nr.getD k 0 = 2) (i : Fin n) :
    wv F n u nr k i = if i.val = k then mget F u 0 k else if i.val = k + 1 then mget F u 1 k else 0 := by
  rw [wv_apply, h]
  by_cases h0 : i.val = k
  · rw [if_pos ⟨by omega, by omega, by omega⟩, if_pos h0, h0, Nat.sub_self]
  · rw [if_neg h0]
    by_cases h1 : i.val = k + 1
    · rw [if_pos ⟨by omega, by omega, by omega⟩, if_pos h1, h1, Nat.add_sub_cancel_left]
    · rw [if_neg h1, if_neg (by omega)]

theorem wv_three (n : Nat) (u : Mat K) (nr : Array Nat) (k : Nat) (h : nr.getD k 0 = 3) (i : Fin n) :
    wv F n u nr k i =
      if i.val = k then mget F u 0 k else if i.val = k + 1 then mget F u 1 k
      else if i.val = k + 2 then mget F u 2 k else 0 := by
  rw [wv_apply, h]
  by_cases h0 : i.val = k
  · rw [if_pos ⟨by omega, by omega, by omega⟩, if_pos h0, h0, Nat.sub_self]
  · rw [if_neg h0]
    by_cases h1 : i.val = k + 1
    · rw [if_pos ⟨by omega, by omega, by omega⟩, if_pos h1, h1, Nat.add_sub_cancel_left]
    · rw [if_neg h1]
      by_cases h2 : i.val = k + 2
      · rw [if_pos ⟨by omega, by omega, by omega⟩, if_pos h2, h2, Nat.add_sub_cancel_left]
      · rw [if_neg h2, if_neg (by omega)]

/-- a reflector at `k ≥ 1` has no component along `e₁` -/
theorem wv_head (n : Nat) (u : Mat K) (nr : Array Nat) (k : Nat) (hk : 1 ≤ k) (i : Fin n) (hi : i.val = 0) :
    wv F n u nr k i = 0 := by
  rw [wv_apply, if_neg (by omega)]

theorem Pm_one (n : Nat) (u : Mat K) (nr : Array Nat) (k : Nat) (h : nr.getD k 0 = 1) : Pm F n u nr k = 1 :=
  Rm_zero _ (wv_one F n u nr k h)

/-! ### DM1: `Pₖ` is symmetric, and orthogonal when the stored column is a unit vector -/

theorem Pm_symm (n : Nat) (u : Mat K) (nr : Array Nat) (k : Nat) : (Pm F n u nr k)ᵀ = Pm F n u nr k :=
  Rm_transpose _

/-- `∑ wᵢ²` of the embedded column -/
theorem wv_sq_sum (n : Nat) (u : Mat K) (nr : Array Nat) (k : Nat) (hr : k + nr.getD k 0 ≤ n)
    (h2 : nr.getD k 0 = 2 → mget F u 0 k * mget F u 0 k + mget F u 1 k * mget F u 1 k = 1)
    (h3 : nr.getD k 0 = 3 →
      mget F u 0 k * mget F u 0 k + mget F u 1 k * mget F u 1 k + mget F u 2 k * mget F u 2 k = 1)
    (hcase : nr.getD k 0 = 2 ∨ nr.getD k 0 = 3) :
    ∑ l, wv F n u nr k l * wv F n u nr k l = 1 := by
  rcases hcase with c | c
  · have e : ∀ l : Fin n, wv F n u nr k l * wv F n u nr k l =
        wv F n u nr k l * (if l.val = k then mget F u 0 k else if l.val = k + 1 then mget F u 1 k else 0) := by
      intro l; rw [← wv_two F n u nr k c l]
    rw [Finset.sum_congr rfl (fun l _ => e l), sum_if2 _ k (by omega), wv_two F n u nr k c, wv_two F n u nr k c]
    simp only [if_true, Nat.succ_ne_self, if_false]
    exact h2 c
  · have e : ∀ l : Fin n, wv F n u nr k l * wv F n u nr k l =
        wv F n u nr k l * (if l.val = k then mget F u 0 k else if l.val = k + 1 then mget F u 1 k
          else if l.val = k + 2 then mget F u 2 k else 0) := by
      intro l; rw [← wv_three F n u nr k c l]
    rw [Finset.sum_congr rfl (fun l _ => e l), sum_if3 _ k (by omega), wv_three F n u nr k c, wv_three F n u nr k c,
      wv_three F n u nr k c]
    have a1 : ¬ k + 1 = k := by omega
    have a2 : ¬ k + 2 = k := by omega
    have a3 : ¬ k + 2 = k + 1 := by omega
    simp only [if_true, a1, a2, a3, if_false]
    exact h3 c

/-- DM1: `Pₖ Pₖ = 1` when the live rows are in range and the stored column is a unit vector on them
    (for `nr[k] ∉ {2, 3}` the hypotheses `h2`, `h3` are vacuous and `hid` asks for the identity case) -/
theorem Pm_orth (n : Nat) (u : Mat K) (nr : Array Nat) (k : Nat)
    (hcase : nr.getD k 0 = 1 ∨ nr.getD k 0 = 2 ∨ nr.getD k 0 = 3) (hr : k + nr.getD k 0 ≤ n)
    (h2 : nr.getD k 0 = 2 → mget F u 0 k * mget F u 0 k + mget F u 1 k * mget F u 1 k = 1)
    (h3 : nr.getD k 0 = 3 →
      mget F u 0 k * mget F u 0 k + mget F u 1 k * mget F u 1 k + mget F u 2 k * mget F u 2 k = 1) :
    Pm F n u nr k * Pm F n u nr k = 1 := by
  rcases hcase with c | c
  · rw [Pm_one F n u nr k c, Matrix.mul_one]
  · exact Rm_mul_self _ (wv_sq_sum F n u nr k hr h2 h3 c)

theorem Pm_orth' (n : Nat) (u : Mat K) (nr : Array Nat) (k : Nat)
    (hcase : nr.getD k 0 = 1 ∨ nr.getD k 0 = 2 ∨ nr.getD k 0 = 3) (hr : k + nr.getD k 0 ≤ n)
    (h2 : nr.getD k 0 = 2 → mget F u 0 k * mget F u 0 k + mget F u 1 k * mget F u 1 k = 1)
    (h3 : nr.getD k 0 = 3 →
      mget F u 0 k * mget F u 0 k + mget F u 1 k * mget F u 1 k + mget F u 2 k * mget F u 2 k = 1) :
    (Pm F n u nr k)ᵀ * Pm F n u nr k = 1 ∧ Pm F n u nr k * (Pm F n u nr k)ᵀ = 1 := by
  rw [Pm_symm]
  exact ⟨Pm_orth F n u nr k hcase hr h2 h3, Pm_orth F n u nr k hcase hr h2 h3⟩

/-! ### DM2: `apply_YQ(Y) = Y Q` -/

/-- `toM` in terms of this development's `mget` (both are `Mat.get` at `scOfField F`) -/
theorem toM_get (r c : Nat) (A : Mat K) (i : Fin r) (j : Fin c) : toM F r c A i j = mget F A i.val j.val := rfl

theorem XPdims {Y : Mat K} (hw : WF Y) (u : Mat K) (nr : Array Nat) (r0 c0 nrow ncol ind : Nat) :
    WF (aXP F Y u nr r0 c0 nrow ncol ind) ∧ (aXP F Y u nr r0 c0 nrow ncol ind).rows = Y.rows ∧
    (aXP F Y u nr r0 c0 nrow ncol ind).cols = Y.cols :=
  @apply_XP_dims K _ (scOfField F) Y hw u nr r0 c0 nrow ncol ind

/-- one call `apply_XP(Y.block(0, k, m, ncol), k)` is a right multiplication by `Pₖ`, provided the branch the code takes
    (two columns iff `nr[k] = 2 ∨ ncol = 2`) is the one that matches `nr[k]` -/
theorem XP_step_toM {n m : Nat} (u : Mat K) (nr : Array Nat) {Y : Mat K} (hw : WF Y) (hr : Y.rows = m) (hc : Y.cols = n)
    (k ncol : Nat) (hk : k + 1 < n)
    (hcase : nr.getD k 0 = 1 ∨ nr.getD k 0 = 2 ∨ (nr.getD k 0 = 3 ∧ ncol ≠ 2 ∧ k + 2 < n)) :
    toM F m n (aXP F Y u nr 0 k m ncol k) = toM F m n Y * Pm F n u nr k := by
  obtain ⟨s1, s2, s3⟩ := apply_XP_spec F hw u nr 0 k m ncol k (by omega)
  rcases hcase with c | c | ⟨c, hn2, hk2⟩
  · rw [s1 c, Pm_one F n u nr k c, Matrix.mul_one]
  · obtain ⟨_, _, _, g⟩ := s2 (by omega) (Or.inl c) (by omega)
    ext i j
    have hi := i.isLt
    have hj := j.isLt
    unfold Pm
    rw [mul_Rm_apply, toM_get, g i.val j.val (by omega) (by omega), if_pos (by omega)]
    have e : ∀ l : Fin n, toM F m n Y i l * wv F n u nr k l =
        toM F m n Y i l * (if l.val = k then mget F u 0 k else if l.val = k + 1 then mget F u 1 k else 0) := by
      intro l; rw [wv_two F n u nr k c l]
    rw [Finset.sum_congr rfl (fun l _ => e l), sum_if2 _ k hk, wv_two F n u nr k c j]
    simp only [toM_get]
    by_cases b0 : j.val = k
    · rw [if_pos b0, if_pos b0, b0]; ring
    · rw [if_neg b0, if_neg b0]
      by_cases b1 : j.val = k + 1
      · rw [if_pos b1, if_pos b1, b1]; ring
      · rw [if_neg b1, if_neg b1]; ring
  · obtain ⟨_, _, _, g⟩ := s3 (by omega) (by omega) (by omega)
    ext i j
    have hi := i.isLt
    have hj := j.isLt
    unfold Pm
    rw [mul_Rm_apply, toM_get, g i.val j.val (by omega) (by omega), if_pos (by omega)]
    have e : ∀ l : Fin n, toM F m n Y i l * wv F n u nr k l =
        toM F m n Y i l * (if l.val = k then mget F u 0 k else if l.val = k + 1 then mget F u 1 k
          else if l.val = k + 2 then mget F u 2 k else 0) := by
      intro l; rw [wv_three F n u nr k c l]
    rw [Finset.sum_congr rfl (fun l _ => e l), sum_if3 _ k hk2, wv_three F n u nr k c j]
    simp only [toM_get]
    by_cases b0 : j.val = k
    · rw [if_pos b0, if_pos b0, b0]; ring
    · rw [if_neg b0, if_neg b0]
      by_cases b1 : j.val = k + 1
      · rw [if_pos b1, if_pos b1, b1]; ring
      · rw [if_neg b1, if_neg b1]
        by_cases b2 : j.val = k + 2
        · rw [if_pos b2, if_pos b2, b2]; ring
        · rw [if_neg b2, if_neg b2]; ring

/-- the loop of `apply_YQ`: after `c` calls the matrix is `Y P₀ ⋯ P_{c-1}` -/
theorem XP_fold_toM {n m : Nat} (u : Mat K) (nr : Array Nat) (ncol : Nat) {Y : Mat K} (hw : WF Y) (hr : Y.rows = m)
    (hc : Y.cols = n) (c : Nat)
    (hall : ∀ k, k < c → k + 1 < n ∧
      (nr.getD k 0 = 1 ∨ nr.getD k 0 = 2 ∨ (nr.getD k 0 = 3 ∧ ncol ≠ 2 ∧ k + 2 < n))) :
    WF ((List.range c).foldl (fun Z i => aXP F Z u nr 0 i m ncol i) Y) ∧
    ((List.range c).foldl (fun Z i => aXP F Z u nr 0 i m ncol i) Y).rows = m ∧
    ((List.range c).foldl (fun Z i => aXP F Z u nr 0 i m ncol i) Y).cols = n ∧
    toM F m n ((List.range c).foldl (fun Z i => aXP F Z u nr 0 i m ncol i) Y) = toM F m n Y * Qd F n u nr c := by
  induction c with
  | zero => exact ⟨hw, hr, hc, by rw [Qd_zero, Matrix.mul_one]; rfl⟩
  | succ c ih =>
    obtain ⟨w, r, cc, e⟩ := ih (fun k hk => hall k (by omega))
    rw [List.range_succ, List.foldl_append, List.foldl_cons, List.foldl_nil]
    generalize (List.range c).foldl (fun Z i => aXP F Z u nr 0 i m ncol i) Y = Z at w r cc e ⊢
    obtain ⟨w1, r1, c1⟩ := XPdims F w u nr 0 c m ncol c
    refine ⟨w1, by rw [r1, r], by rw [c1, cc], ?_⟩
    rw [XP_step_toM F u nr w r cc c ncol (hall c (by omega)).1 (hall c (by omega)).2, e, Qd_succ, Matrix.mul_assoc]

/-- DM2: `apply_YQ(Y) = Y Q`, for every stored reflector table with the discrete safety facts of `C08Nr.compute_nr_safe`
    (no hypothesis on the entries of `m_ref_u`) -/
theorem apply_YQ_toM (q : DoubleShiftQR K) (hn : 2 ≤ q.n)
    (hsafe : ∀ k, k < q.n - 1 → (q.nr.getD k 0 = 1 ∨ q.nr.getD k 0 = 2 ∨ q.nr.getD k 0 = 3) ∧
      (q.nr.getD k 0 = 3 → k + 2 ≤ q.n - 1))
    {m : Nat} {Y : Mat K} (hw : WF Y) (hr : Y.rows = m) (hc : Y.cols = q.n) :
    toM F m q.n (aYQ F q Y) = toM F m q.n Y * Qdof F q := by
  have e0 : aYQ F q Y = aXP F ((List.range (q.n - 2)).foldl (fun Z i => aXP F Z q.u q.nr 0 i m 3 i) Y)
      q.u q.nr 0 (q.n - 2) m 2 (q.n - 2) := by
    rw [← hr]; rfl
  obtain ⟨w, r, cc, e⟩ := XP_fold_toM F q.u q.nr 3 hw hr hc (q.n - 2)
    (by
      intro k hk
      obtain ⟨s1, s2⟩ := hsafe k (by omega)
      refine ⟨by omega, ?_⟩
      rcases s1 with s | s | s
      · exact Or.inl s
      · exact Or.inr (Or.inl s)
      · exact Or.inr (Or.inr ⟨s, by omega, by have := s2 s; omega⟩))
  obtain ⟨s1, s2⟩ := hsafe (q.n - 2) (by omega)
  have e1 : q.n - 1 = q.n - 2 + 1 := by omega
  rw [e0, XP_step_toM F q.u q.nr w r cc (q.n - 2) 2 (by omega)
      (by
        rcases s1 with s | s | s
        · exact Or.inl s
        · exact Or.inr (Or.inl s)
        · have := s2 s; omega), e, Qdof_eq, e1, Qd_succ, Matrix.mul_assoc]

/-! ### DM3: `apply_QtY(y) = Qᵀ y` -/

/-- one call `apply_PX(y.data() + k, k)` is a multiplication by `Pₖ` -/
theorem PXv_step {n : Nat} (u : Mat K) (nr : Array Nat) {y : Vec K} (hy : y.size = n) (k : Nat) (hk : k + 1 < n)
    (hcase : nr.getD k 0 = 1 ∨ nr.getD k 0 = 2 ∨ (nr.getD k 0 = 3 ∧ k + 2 < n)) :
    (aPXv F u nr y k k).size = n ∧
    (fun i : Fin n => vgt F (aPXv F u nr y k k) i.val) = (Pm F n u nr k).mulVec (fun i : Fin n => vgt F y i.val) := by
  obtain ⟨s1, s2, s3⟩ := apply_PX_vec_spec F u nr y k k
  rcases hcase with c | c | ⟨c, hk2⟩
  · rw [s1 c, Pm_one F n u nr k c, Matrix.one_mulVec]
    exact ⟨hy, rfl⟩
  · obtain ⟨sz, g⟩ := s2 c (by omega)
    refine ⟨by rw [sz, hy], ?_⟩
    funext i
    unfold Pm
    rw [Rm_mulVec_apply, g i.val]
    have e : ∀ l : Fin n, vgt F y l.val * wv F n u nr k l =
        vgt F y l.val * (if l.val = k then mget F u 0 k else if l.val = k + 1 then mget F u 1 k else 0) := by
      intro l; rw [wv_two F n u nr k c l]
    rw [Finset.sum_congr rfl (fun l _ => e l), sum_if2 (fun l : Fin n => vgt F y l.val) k hk, wv_two F n u nr k c i]
    simp only [Fin.val_mk]
    by_cases b0 : i.val = k
    · rw [if_pos b0, if_pos b0, b0]
    · rw [if_neg b0, if_neg b0]
      by_cases b1 : i.val = k + 1
      · rw [if_pos b1, if_pos b1, b1]
      · rw [if_neg b1, if_neg b1]; ring
  · obtain ⟨sz, g⟩ := s3 (by omega) (by omega) (by omega)
    refine ⟨by rw [sz, hy], ?_⟩
    funext i
    unfold Pm
    rw [Rm_mulVec_apply, g i.val]
    have e : ∀ l : Fin n, vgt F y l.val * wv F n u nr k l =
        vgt F y l.val * (if l.val = k then mget F u 0 k else if l.val = k + 1 then mget F u 1 k
          else if l.val = k + 2 then mget F u 2 k else 0) := by
      intro l; rw [wv_three F n u nr k c l]
    rw [Finset.sum_congr rfl (fun l _ => e l), sum_if3 (fun l : Fin n => vgt F y l.val) k hk2, wv_three F n u nr k c i]
    simp only [Fin.val_mk]
    by_cases b0 : i.val = k
    · rw [if_pos b0, if_pos b0, b0]
    · rw [if_neg b0, if_neg b0]
      by_cases b1 : i.val = k + 1
      · rw [if_pos b1, if_pos b1, b1]
      · rw [if_neg b1, if_neg b1]
        by_cases b2 : i.val = k + 2
        · rw [if_pos b2, if_pos b2, b2]
        · rw [if_neg b2, if_neg b2]; ring

/-- the loop of `apply_QtY`: after `c` calls the vector is `P_{c-1} ⋯ P₀ y = (P₀ ⋯ P_{c-1})ᵀ y` -/
theorem PXv_fold {n : Nat} (u : Mat K) (nr : Array Nat) {y : Vec K} (hy : y.size = n) (c : Nat)
    (hall : ∀ k, k < c → k + 1 < n ∧ (nr.getD k 0 = 1 ∨ nr.getD k 0 = 2 ∨ (nr.getD k 0 = 3 ∧ k + 2 < n))) :
    ((List.range c).foldl (fun y i => aPXv F u nr y i i) y).size = n ∧
    (fun i : Fin n => vgt F ((List.range c).foldl (fun y i => aPXv F u nr y i i) y) i.val) =
      (Qd F n u nr c)ᵀ.mulVec (fun i : Fin n => vgt F y i.val) := by
  induction c with
  | zero => exact ⟨hy, by rw [Qd_zero, Matrix.transpose_one, Matrix.one_mulVec]; rfl⟩
  | succ c ih =>
    obtain ⟨sz, e⟩ := ih (fun k hk => hall k (by omega))
    rw [List.range_succ, List.foldl_append, List.foldl_cons, List.foldl_nil]
    generalize (List.range c).foldl (fun y i => aPXv F u nr y i i) y = z at sz e ⊢
    obtain ⟨sz1, e1⟩ := PXv_step F u nr sz c (hall c (by omega)).1 (hall c (by omega)).2
    refine ⟨sz1, ?_⟩
    rw [e1, e, Matrix.mulVec_mulVec, Qd_succ, Matrix.transpose_mul, Pm_symm]

/-- DM3: `apply_QtY(y) = Qᵀ y` -/
theorem apply_QtY_vec (q : DoubleShiftQR K) (hn : 2 ≤ q.n)
    (hsafe : ∀ k, k < q.n - 1 → (q.nr.getD k 0 = 1 ∨ q.nr.getD k 0 = 2 ∨ q.nr.getD k 0 = 3) ∧
      (q.nr.getD k 0 = 3 → k + 2 ≤ q.n - 1))
    (y : Vec K) (hy : y.size = q.n) :
    (fun i : Fin q.n => vgt F (aQtY F q y) i.val) = (Qdof F q)ᵀ.mulVec (fun i : Fin q.n => vgt F y i.val) := by
  have e0 : aQtY F q y = (List.range (q.n - 1)).foldl (fun y i => aPXv F q.u q.nr y i i) y := rfl
  rw [e0, Qdof_eq]
  exact (PXv_fold F q.u q.nr hy (q.n - 1)
    (by
      intro k hk
      obtain ⟨s1, s2⟩ := hsafe k hk
      refine ⟨by omega, ?_⟩
      rcases s1 with s | s | s
      · exact Or.inl s
      · exact Or.inr (Or.inl s)
      · exact Or.inr (Or.inr ⟨s, by have := s2 s; omega⟩))).2

/-! ### DM4: unit columns give an orthogonal `Q` -/

theorem Qd_orth_gen (n : Nat) (u : Mat K) (nr : Array Nat) (m : Nat)
    (hall : ∀ k, k < m → (nr.getD k 0 = 1 ∨ nr.getD k 0 = 2 ∨ nr.getD k 0 = 3) ∧ k + nr.getD k 0 ≤ n ∧
      (nr.getD k 0 = 2 → mget F u 0 k * mget F u 0 k + mget F u 1 k * mget F u 1 k = 1) ∧
      (nr.getD k 0 = 3 →
        mget F u 0 k * mget F u 0 k + mget F u 1 k * mget F u 1 k + mget F u 2 k * mget F u 2 k = 1)) :
    (Qd F n u nr m)ᵀ * Qd F n u nr m = 1 ∧ Qd F n u nr m * (Qd F n u nr m)ᵀ = 1 := by
  induction m with
  | zero => rw [Qd_zero, Matrix.transpose_one, Matrix.mul_one]; exact ⟨rfl, rfl⟩
  | succ m ih =>
    obtain ⟨h1, h2⟩ := ih (fun k hk => hall k (by omega))
    obtain ⟨c, r, v2, v3⟩ := hall m (by omega)
    obtain ⟨g1, g2⟩ := Pm_orth' F n u nr m c r v2 v3
    rw [Qd_succ, Matrix.transpose_mul]
    constructor
    · rw [Matrix.mul_assoc, ← Matrix.mul_assoc _ (Qd F n u nr m), h1, Matrix.one_mul, g1]
    · rw [Matrix.mul_assoc, ← Matrix.mul_assoc _ (Pm F n u nr m)ᵀ, g2, Matrix.one_mul, h2]

/-- DM4 -/
theorem Qd_orth (q : DoubleShiftQR K) (hn : 2 ≤ q.n)
    (hsafe : ∀ k, k < q.n - 1 → (q.nr.getD k 0 = 1 ∨ q.nr.getD k 0 = 2 ∨ q.nr.getD k 0 = 3) ∧
      (q.nr.getD k 0 = 3 → k + 2 ≤ q.n - 1))
    (hunit : ∀ k, k < q.n - 1 →
      (q.nr.getD k 0 = 2 → mget F q.u 0 k * mget F q.u 0 k + mget F q.u 1 k * mget F q.u 1 k = 1) ∧
      (q.nr.getD k 0 = 3 →
        mget F q.u 0 k * mget F q.u 0 k + mget F q.u 1 k * mget F q.u 1 k + mget F q.u 2 k * mget F q.u 2 k = 1)) :
    (Qdof F q)ᵀ * Qdof F q = 1 ∧ Qdof F q * (Qdof F q)ᵀ = 1 := by
  rw [Qdof_eq]
  apply Qd_orth_gen
  intro k hk
  obtain ⟨s1, s2⟩ := hsafe k hk
  refine ⟨s1, ?_, (hunit k hk).1, (hunit k hk).2⟩
  rcases s1 with s | s | s
  · omega
  · omega
  · have := s2 s; omega

/-! ### DM5: the first column of `Q` -/

/-- later reflectors fix `e₁`: `Q e₁ = P₀ e₁` (no hypothesis on the table) -/
theorem Qd_first_col_gen (n : Nat) (hn : 0 < n) (u : Mat K) (nr : Array Nat) (m : Nat) (i : Fin n) :
    Qd F n u nr (m + 1) i ⟨0, hn⟩ = Pm F n u nr 0 i ⟨0, hn⟩ := by
  induction m with
  | zero => rw [Qd_succ, Qd_zero, Matrix.one_mul]
  | succ m ih =>
    rw [Qd_succ]
    unfold Pm
    rw [mul_Rm_apply, wv_head F n u nr (m + 1) (by omega) ⟨0, hn⟩ rfl, ih]
    unfold Pm
    ring

/-- DM5: `Q e₁ = P₀ e₁` -/
theorem Qd_first_col (q : DoubleShiftQR K) (hn : 2 ≤ q.n) (i : Fin q.n) :
    Qdof F q i ⟨0, by omega⟩ = Pm F q.n q.u q.nr 0 i ⟨0, by omega⟩ := by
  have e1 : q.n - 1 = q.n - 2 + 1 := by omega
  rw [Qdof_eq, e1]
  exact Qd_first_col_gen F q.n (by omega) q.u q.nr (q.n - 2) i

/-- the first column of `P₀` for a 3-row first reflector -/
theorem Pm0_col3 (n : Nat) (hn : 0 < n) (u : Mat K) (nr : Array Nat) (h3 : nr.getD 0 0 = 3) (i : Fin n) :
    Pm F n u nr 0 i ⟨0, hn⟩ =
      (if i.val = 0 then 1 else 0) -
        2 * (if i.val = 0 then mget F u 0 0 else if i.val = 1 then mget F u 1 0
          else if i.val = 2 then mget F u 2 0 else 0) * mget F u 0 0 := by
  rw [Pm_apply, wv_three F n u nr 0 h3 i, wv_three F n u nr 0 h3 ⟨0, hn⟩]
  have e : (i = (⟨0, hn⟩ : Fin n)) = (i.val = 0) := propext Fin.ext_iff
  simp only [e, Nat.zero_add, if_true]

/-- the first column of `P₀` for a 2-row first reflector -/
theorem Pm0_col2 (n : Nat) (hn : 0 < n) (u : Mat K) (nr : Array Nat) (h2 : nr.getD 0 0 = 2) (i : Fin n) :
    Pm F n u nr 0 i ⟨0, hn⟩ =
      (if i.val = 0 then 1 else 0) -
        2 * (if i.val = 0 then mget F u 0 0 else if i.val = 1 then mget F u 1 0 else 0) * mget F u 0 0 := by
  rw [Pm_apply, wv_two F n u nr 0 h2 i, wv_two F n u nr 0 h2 ⟨0, hn⟩]
  have e : (i = (⟨0, hn⟩ : Fin n)) = (i.val = 0) := propext Fin.ext_iff
  simp only [e, Nat.zero_add, if_true]

/-- if the first reflector has three rows, is a unit vector and maps `(x₁, x₂, x₃)` to `κ e₁`, then `κ · Q e₁ = (x₁, x₂, x₃, 0, …)` -/
theorem first_col_parallel_gen (n : Nat) (hn : 0 < n) (u : Mat K) (nr : Array Nat) (m : Nat)
    (hnr : nr.getD 0 0 = 3) (u0 u1 u2 x1 x2 x3 κ : K)
    (h0 : u0 = mget F u 0 0) (h1 : u1 = mget F u 1 0) (h2 : u2 = mget F u 2 0)
    (hu : u0 * u0 + u1 * u1 + u2 * u2 = 1)
    (hP1 : x1 - 2 * (u0 * x1 + u1 * x2 + u2 * x3) * u0 = κ)
    (hP2 : x2 - 2 * (u0 * x1 + u1 * x2 + u2 * x3) * u1 = 0)
    (hP3 : x3 - 2 * (u0 * x1 + u1 * x2 + u2 * x3) * u2 = 0) (i : Fin n) :
    κ * Qd F n u nr (m + 1) i ⟨0, hn⟩ =
      if i.val = 0 then x1 else if i.val = 1 then x2 else if i.val = 2 then x3 else 0 := by
  obtain ⟨e1, e2, e3⟩ := C08Local.refl_first_col u0 u1 u2 x1 x2 x3 κ hu hP1 hP2 hP3
  rw [Qd_first_col_gen, Pm0_col3 F n hn u nr hnr i, ← h0, ← h1, ← h2]
  by_cases b0 : i.val = 0
  · rw [if_pos b0, if_pos b0, if_pos b0]; linear_combination e1
  · rw [if_neg b0, if_neg b0, if_neg b0]
    by_cases b1 : i.val = 1
    · rw [if_pos b1, if_pos b1]; linear_combination e2
    · rw [if_neg b1, if_neg b1]
      by_cases b2 : i.val = 2
      · rw [if_pos b2, if_pos b2]; linear_combination e3
      · rw [if_neg b2, if_neg b2]; ring

/-- the same for a 2-row first reflector (`x₃ = 0`) -/
theorem first_col_parallel2_gen (n : Nat) (hn : 0 < n) (u : Mat K) (nr : Array Nat) (m : Nat)
    (hnr : nr.getD 0 0 = 2) (u0 u1 x1 x2 κ : K)
    (h0 : u0 = mget F u 0 0) (h1 : u1 = mget F u 1 0)
    (hu : u0 * u0 + u1 * u1 = 1)
    (hP1 : x1 - 2 * (u0 * x1 + u1 * x2) * u0 = κ)
    (hP2 : x2 - 2 * (u0 * x1 + u1 * x2) * u1 = 0) (i : Fin n) :
    κ * Qd F n u nr (m + 1) i ⟨0, hn⟩ = if i.val = 0 then x1 else if i.val = 1 then x2 else 0 := by
  obtain ⟨e1, e2, _⟩ := C08Local.refl_first_col u0 u1 0 x1 x2 0 κ (by linear_combination hu)
    (by linear_combination hP1) (by linear_combination hP2) (by ring)
  rw [Qd_first_col_gen, Pm0_col2 F n hn u nr hnr i, ← h0, ← h1]
  by_cases b0 : i.val = 0
  · rw [if_pos b0, if_pos b0, if_pos b0]; linear_combination e1
  · rw [if_neg b0, if_neg b0, if_neg b0]
    by_cases b1 : i.val = 1
    · rw [if_pos b1, if_pos b1]; linear_combination e2
    · rw [if_neg b1, if_neg b1]; ring

/-- DM5 at `Qdof q`, 3-row first reflector -/
theorem first_col_parallel (q : DoubleShiftQR K) (hn : 3 ≤ q.n)
    (hnr : q.nr.getD 0 0 = 3) (u0 u1 u2 x1 x2 x3 κ : K)
    (h0 : u0 = mget F q.u 0 0) (h1 : u1 = mget F q.u 1 0) (h2 : u2 = mget F q.u 2 0)
    (hu : u0 * u0 + u1 * u1 + u2 * u2 = 1)
    (hP1 : x1 - 2 * (u0 * x1 + u1 * x2 + u2 * x3) * u0 = κ)
    (hP2 : x2 - 2 * (u0 * x1 + u1 * x2 + u2 * x3) * u1 = 0)
    (hP3 : x3 - 2 * (u0 * x1 + u1 * x2 + u2 * x3) * u2 = 0) (i : Fin q.n) :
    κ * Qdof F q i ⟨0, by omega⟩ =
      if i.val = 0 then x1 else if i.val = 1 then x2 else if i.val = 2 then x3 else 0 := by
  have e1 : q.n - 1 = q.n - 2 + 1 := by omega
  rw [Qdof_eq, e1]
  exact first_col_parallel_gen F q.n (by omega) q.u q.nr (q.n - 2) hnr u0 u1 u2 x1 x2 x3 κ h0 h1 h2 hu hP1 hP2 hP3 i

/-- DM5 at `Qdof q`, 2-row first reflector -/
theorem first_col_parallel2 (q : DoubleShiftQR K) (hn : 2 ≤ q.n)
    (hnr : q.nr.getD 0 0 = 2) (u0 u1 x1 x2 κ : K)
    (h0 : u0 = mget F q.u 0 0) (h1 : u1 = mget F q.u 1 0)
    (hu : u0 * u0 + u1 * u1 = 1)
    (hP1 : x1 - 2 * (u0 * x1 + u1 * x2) * u0 = κ)
    (hP2 : x2 - 2 * (u0 * x1 + u1 * x2) * u1 = 0) (i : Fin q.n) :
    κ * Qdof F q i ⟨0, by omega⟩ = if i.val = 0 then x1 else if i.val = 1 then x2 else 0 := by
  have e1 : q.n - 1 = q.n - 2 + 1 := by omega
  rw [Qdof_eq, e1]
  exact first_col_parallel2_gen F q.n (by omega) q.u q.nr (q.n - 2) hnr u0 u1 x1 x2 κ h0 h1 hu hP1 hP2 i

/-- `κ = ρ N` with `N > 0`, `ρ = ±1` (the form `C08Refl.reflector_unit` delivers) is not zero -/
theorem kappa_ne_zero (x1 N : K) (hN : 0 < N) : (if x1 ≤ 0 then (1 : K) else -1) * N ≠ 0 := by
  split
  · rw [one_mul]; exact hN.ne'
  · intro h; rw [neg_one_mul, neg_eq_zero] at h; exact hN.ne' h

/-- DM5, final form: if `Hm` is upper Hessenberg, the first reflector has three rows, is a unit vector and maps the first
    column `(x₁, x₂, x₃)` of `Hm² − s Hm + t I` (as `update_block` computes it from the leading entries) to `κ e₁`, then
    `κ · Q e₁` is the first column of `Hm² − s Hm + t I` -/
theorem dsqr_first_col_parallel_gen {n' : Nat} (u : Mat K) (nr : Array Nat) (m : Nat)
    (Hm : Matrix (Fin (n' + 3)) (Fin (n' + 3)) K)
    (hH : ∀ i j : Fin (n' + 3), j.val + 1 < i.val → Hm i j = 0) (s t κ x1 x2 x3 u0 u1 u2 : K)
    (hx1 : x1 = C08Local.fc0 F (Hm 0 0) (Hm 0 1) (Hm 1 0) s t)
    (hx2 : x2 = C08Local.fc1 F (Hm 0 0) (Hm 1 0) (Hm 1 1) s)
    (hx3 : x3 = C08Local.fc2 F (Hm 2 1) (Hm 1 0))
    (hnr : nr.getD 0 0 = 3)
    (h0 : u0 = mget F u 0 0) (h1 : u1 = mget F u 1 0) (h2 : u2 = mget F u 2 0)
    (hu : u0 * u0 + u1 * u1 + u2 * u2 = 1)
    (hP1 : x1 - 2 * (u0 * x1 + u1 * x2 + u2 * x3) * u0 = κ)
    (hP2 : x2 - 2 * (u0 * x1 + u1 * x2 + u2 * x3) * u1 = 0)
    (hP3 : x3 - 2 * (u0 * x1 + u1 * x2 + u2 * x3) * u2 = 0) (i : Fin (n' + 3)) :
    κ * Qd F (n' + 3) u nr (m + 1) i 0 =
      (Hm * Hm - s • Hm + t • (1 : Matrix (Fin (n' + 3)) (Fin (n' + 3)) K)) i 0 := by
  rw [C08Local.first_col_hessenberg F Hm hH s t i, ← hx1, ← hx2, ← hx3]
  exact first_col_parallel_gen F (n' + 3) (by omega) u nr m hnr u0 u1 u2 x1 x2 x3 κ h0 h1 h2 hu hP1 hP2 hP3 i

/-- DM5 at `Qdof q` (`q.n = n' + 3`; row `i : Fin q.n` of `Q` against row `Fin.cast _ i` of `Hm`) -/
theorem dsqr_first_col_parallel (q : DoubleShiftQR K) {n' : Nat} (hqn : q.n = n' + 3)
    (Hm : Matrix (Fin (n' + 3)) (Fin (n' + 3)) K)
    (hH : ∀ i j : Fin (n' + 3), j.val + 1 < i.val → Hm i j = 0) (s t κ x1 x2 x3 u0 u1 u2 : K)
    (hx1 : x1 = C08Local.fc0 F (Hm 0 0) (Hm 0 1) (Hm 1 0) s t)
    (hx2 : x2 = C08Local.fc1 F (Hm 0 0) (Hm 1 0) (Hm 1 1) s)
    (hx3 : x3 = C08Local.fc2 F (Hm 2 1) (Hm 1 0))
    (hnr : q.nr.getD 0 0 = 3)
    (h0 : u0 = mget F q.u 0 0) (h1 : u1 = mget F q.u 1 0) (h2 : u2 = mget F q.u 2 0)
    (hu : u0 * u0 + u1 * u1 + u2 * u2 = 1)
    (hP1 : x1 - 2 * (u0 * x1 + u1 * x2 + u2 * x3) * u0 = κ)
    (hP2 : x2 - 2 * (u0 * x1 + u1 * x2 + u2 * x3) * u1 = 0)
    (hP3 : x3 - 2 * (u0 * x1 + u1 * x2 + u2 * x3) * u2 = 0) (i : Fin q.n) :
    κ * Qdof F q i ⟨0, by omega⟩ =
      (Hm * Hm - s • Hm + t • (1 : Matrix (Fin (n' + 3)) (Fin (n' + 3)) K)) (Fin.cast hqn i) 0 := by
  obtain ⟨n, H, s', t', u, nr⟩ := q
  simp only at hqn
  subst hqn
  exact dsqr_first_col_parallel_gen F u nr (n' + 1) Hm hH s t κ x1 x2 x3 u0 u1 u2 hx1 hx2 hx3 hnr h0 h1 h2 hu hP1 hP2 hP3 i

/-! ### DM6: the first stored reflector of `compute` is the one computed from the first column of `H² − sH + tI`

Frame facts: every later `compute_reflector(…, ind)`, `ind ≠ 0`, writes only column `ind` of `m_ref_u` and entry `ind` of
`m_ref_nr`, so column 0 and `m_ref_nr[0]` survive the rest of the first block and all later blocks. -/

section Frame

/-- column 0 of `m_ref_u` is `(a, b, c)` and `m_ref_nr[0] = v` (with the shapes that make the reads meaningful) -/
def Inv0 (n : Nat) (a b c : K) (v : Nat) (u : Mat K) (nr : Array Nat) : Prop :=
  WF u ∧ u.rows = 3 ∧ u.cols = n ∧ nr.size = n ∧ mget F u 0 0 = a ∧ mget F u 1 0 = b ∧ mget F u 2 0 = c ∧
    nr.getD 0 0 = v

theorem get_set_ne {u : Mat K} (hw : WF u) (i j a b : Nat) (x : K) (ha : a < u.rows) (hb : b < u.cols)
    (hne : ¬ (a = i ∧ b = j)) : mget F (u.set i j x) a b = mget F u a b := by
  by_cases hin : i < u.rows ∧ j < u.cols
  · have h := @get_set K (scOfField F) u hw i j a b x hin.1 hin.2 ha hb
    rw [if_neg hne] at h
    exact h
  · rw [set_oob u i j x hin]

theorem set3_frame {u : Mat K} (hw : WF u) (ind : Nat) (hind : ind ≠ 0) (p q r : K) (a : Nat) (ha : a < u.rows)
    (hc : 0 < u.cols) :
    mget F (((u.set 0 ind p).set 1 ind q).set 2 ind r) a 0 = mget F u a 0 := by
  have w1 : WF (u.set 0 ind p) := set_WF hw _ _ _
  have w2 : WF ((u.set 0 ind p).set 1 ind q) := set_WF w1 _ _ _
  rw [get_set_ne F w2 2 ind a 0 r (by simpa using ha) (by simpa using hc) (by omega),
    get_set_ne F w1 1 ind a 0 q (by simpa using ha) (by simpa using hc) (by omega),
    get_set_ne F hw 0 ind a 0 p ha hc (by omega)]

theorem cRef_dims {u : Mat K} (hw : WF u) (nr : Array Nat) (x1 x2 x3 : K) (ind : Nat) :
    WF (C08Refl.cRef F u nr x1 x2 x3 ind).1 ∧ (C08Refl.cRef F u nr x1 x2 x3 ind).1.rows = u.rows ∧
    (C08Refl.cRef F u nr x1 x2 x3 ind).1.cols = u.cols ∧ (C08Refl.cRef F u nr x1 x2 x3 ind).2.size = nr.size := by
  rw [C08Refl.cRef_eq]
  split
  · exact ⟨hw, rfl, rfl, Array.size_setIfInBounds⟩
  · exact ⟨set_WF (set_WF (set_WF hw _ _ _) _ _ _) _ _ _, by simp, by simp, Array.size_setIfInBounds⟩

theorem cRef_frame (n : Nat) (hn : 0 < n) (a b c : K) (v : Nat) (u : Mat K) (nr : Array Nat)
    (h : Inv0 F n a b c v u nr) (x1 x2 x3 : K) (ind : Nat) (hind : ind ≠ 0) :
    Inv0 F n a b c v (C08Refl.cRef F u nr x1 x2 x3 ind).1 (C08Refl.cRef F u nr x1 x2 x3 ind).2 := by
  obtain ⟨w, r, cc, sz, g0, g1, g2, gv⟩ := h
  obtain ⟨d1, d2, d3, d4⟩ := cRef_dims F w nr x1 x2 x3 ind
  refine ⟨d1, by rw [d2, r], by rw [d3, cc], by rw [d4, sz], ?_, ?_, ?_, ?_⟩
  · rw [C08Refl.cRef_eq]
    split
    · exact g0
    · show mget F (((u.set 0 ind _).set 1 ind _).set 2 ind _) 0 0 = a
      rw [set3_frame F w ind hind _ _ _ 0 (by omega) (by omega)]; exact g0
  · rw [C08Refl.cRef_eq]
    split
    · exact g1
    · show mget F (((u.set 0 ind _).set 1 ind _).set 2 ind _) 1 0 = b
      rw [set3_frame F w ind hind _ _ _ 1 (by omega) (by omega)]; exact g1
  · rw [C08Refl.cRef_eq]
    split
    · exact g2
    · show mget F (((u.set 0 ind _).set 1 ind _).set 2 ind _) 2 0 = c
      rw [set3_frame F w ind hind _ _ _ 2 (by omega) (by omega)]; exact g2
  · rw [C08Refl.cRef_nr, C08Nr.getD_set, if_neg (by omega)]; exact gv

theorem setnr_frame (n : Nat) (a b c : K) (v : Nat) (u : Mat K) (nr : Array Nat)
    (h : Inv0 F n a b c v u nr) (ind w : Nat) (hind : ind ≠ 0) :
    Inv0 F n a b c v u (nr.setIfInBounds ind w) := by
  obtain ⟨w0, r, cc, sz, g0, g1, g2, gv⟩ := h
  exact ⟨w0, r, cc, by rw [Array.size_setIfInBounds]; exact sz, g0, g1, g2,
    by rw [C08Nr.getD_set, if_neg (by omega)]; exact gv⟩

theorem chase_frame (n : Nat) (hn : 0 < n) (a b c : K) (v : Nat) (N il bsize : Nat) (st : St K)
    (h : Inv0 F n a b c v st.2.1 st.2.2) (i : Nat) (hi : il + i ≠ 0) :
    Inv0 F n a b c v (C08Nr.cs F N il bsize st i).2.1 (C08Nr.cs F N il bsize st i).2.2 :=
  cRef_frame F n hn a b c v st.2.1 st.2.2 h _ _ _ (il + i) hi

theorem chase_fold_frame (n : Nat) (hn : 0 < n) (a b c : K) (v : Nat) (N il bsize : Nat) (m : Nat) (st : St K)
    (h : Inv0 F n a b c v st.2.1 st.2.2) :
    Inv0 F n a b c v ((List.range m).foldl (fun st k => C08Nr.cs F N il bsize st (k + 1)) st).2.1
      ((List.range m).foldl (fun st k => C08Nr.cs F N il bsize st (k + 1)) st).2.2 := by
  induction m with
  | zero => exact h
  | succ m ih =>
    rw [List.range_succ, List.foldl_append, List.foldl_cons, List.foldl_nil]
    exact chase_frame F n hn a b c v N il bsize _ ih (m + 1) (by omega)

/-! the shape of `update_block`'s `(m_ref_u, m_ref_nr)` output, by block size -/

/-- the first `compute_reflector` call of `update_block(il, iu)` for a block of size ≥ 3 on the state `st`: its arguments are
    `(m00, m10, m20)`, the first column of `H² − sH + tI` on the block, computed from the leading entries of `H = st.1` -/
def firstRef (s t : K) (st : St K) (il : Nat) : Mat K × Array Nat :=
  C08Refl.cRef F st.2.1 st.2.2
    (C08Local.fc0 F (mget F st.1 il il) (mget F st.1 il (il + 1)) (mget F st.1 (il + 1) il) s t)
    (C08Local.fc1 F (mget F st.1 il il) (mget F st.1 (il + 1) il) (mget F st.1 (il + 1) (il + 1)) s)
    (C08Local.fc2 F (mget F st.1 (il + 2) (il + 1)) (mget F st.1 (il + 1) il)) il

theorem firstRef_eq (s t : K) (st : St K) (il : Nat) :
    firstRef F s t st il = C08Refl.cRef F st.2.1 st.2.2
      (C08Local.fc0 F (mget F st.1 il il) (mget F st.1 il (il + 1)) (mget F st.1 (il + 1) il) s t)
      (C08Local.fc1 F (mget F st.1 il il) (mget F st.1 (il + 1) il) (mget F st.1 (il + 1) (il + 1)) s)
      (C08Local.fc2 F (mget F st.1 (il + 2) (il + 1)) (mget F st.1 (il + 1) il)) il := rfl

theorem ub_shape_1 (n : Nat) (s t : K) (st : St K) (il iu : Nat) (h : iu - il + 1 = 1) :
    (C08Nr.ub F n s t st il iu).2.1 = st.2.1 ∧ (C08Nr.ub F n s t st il iu).2.2 = st.2.2.setIfInBounds il 1 := by
  have h1 : (iu - il + 1 == 1) = true := by simp [h]
  refine ⟨?_, ?_⟩ <;> · unfold C08Nr.ub update_block; simp only [h1, ↓reduceIte]

theorem ub_shape_2 (n : Nat) (s t : K) (st : St K) (il iu : Nat) (h : iu - il + 1 = 2) :
    ∃ x1 x2 x3 : K,
      (C08Nr.ub F n s t st il iu).2.1 = (C08Refl.cRef F st.2.1 st.2.2 x1 x2 x3 il).1 ∧
      (C08Nr.ub F n s t st il iu).2.2 = (C08Refl.cRef F st.2.1 st.2.2 x1 x2 x3 il).2.setIfInBounds (il + 1) 1 := by
  unfold C08Nr.ub update_block
  have h1 : (iu - il + 1 == 1) = false := by simp [h]
  have h2 : (iu - il + 1 == 2) = true := by simp [h]
  simp only [h1, h2, ↓reduceIte, Bool.false_eq_true]
  exact ⟨_, _, _, rfl, rfl⟩

/-- block size ≥ 3: the first reflector is computed from `(m00, m10, m20)`, the first column of `H² − sH + tI` on the block -/
theorem ub_shape_3 (n : Nat) (s t : K) (st : St K) (il iu : Nat) (h : 3 ≤ iu - il + 1) :
    ∃ (H0 : Mat K) (y1 y2 y3 : K) (stc : St K),
      stc = (List.range (iu - il + 1 - 3)).foldl (fun st k => C08Nr.cs F n il (iu - il + 1) st (k + 1))
        (H0,
         (firstRef F s t st il).1,
         (firstRef F s t st il).2) ∧
      (C08Nr.ub F n s t st il iu).2.1 = (C08Refl.cRef F stc.2.1 stc.2.2 y1 y2 y3 (iu - 1)).1 ∧
      (C08Nr.ub F n s t st il iu).2.2 = (C08Refl.cRef F stc.2.1 stc.2.2 y1 y2 y3 (iu - 1)).2.setIfInBounds iu 1 := by
  unfold C08Nr.ub update_block
  have h1 : (iu - il + 1 == 1) = false := by simp; omega
  have h2 : (iu - il + 1 == 2) = false := by simp; omega
  simp only [h1, h2, ↓reduceIte, Bool.false_eq_true]
  exact ⟨_, _, _, _, _, rfl, rfl, rfl⟩

/-- a block that does not start at 0 leaves column 0 of `m_ref_u` and `m_ref_nr[0]` alone -/
theorem ub_frame (n : Nat) (hn : 0 < n) (a b c : K) (v : Nat) (N : Nat) (s t : K) (st : St K) (il iu : Nat)
    (hil : 1 ≤ il) (hle : il ≤ iu) (h : Inv0 F n a b c v st.2.1 st.2.2) :
    Inv0 F n a b c v (C08Nr.ub F N s t st il iu).2.1 (C08Nr.ub F N s t st il iu).2.2 := by
  rcases Nat.lt_or_ge (iu - il + 1) 3 with hlt | hge
  · rcases Nat.lt_or_ge (iu - il + 1) 2 with hlt2 | hge2
    · obtain ⟨e1, e2⟩ := ub_shape_1 F N s t st il iu (by omega)
      rw [e1, e2]
      exact setnr_frame F n a b c v _ _ h il 1 (by omega)
    · obtain ⟨x1, x2, x3, e1, e2⟩ := ub_shape_2 F N s t st il iu (by omega)
      rw [e1, e2]
      exact setnr_frame F n a b c v _ _ (cRef_frame F n hn a b c v _ _ h x1 x2 x3 il (by omega)) (il + 1) 1 (by omega)
  · obtain ⟨H0, y1, y2, y3, stc, hstc, e1, e2⟩ := ub_shape_3 F N s t st il iu hge
    rw [e1, e2]
    have hc : Inv0 F n a b c v stc.2.1 stc.2.2 := by
      rw [hstc]
      exact chase_fold_frame F n hn a b c v N il (iu - il + 1) _ _
        (by unfold firstRef; exact cRef_frame F n hn a b c v _ _ h _ _ _ il (by omega))
    exact setnr_frame F n a b c v _ _ (cRef_frame F n hn a b c v _ _ hc y1 y2 y3 (iu - 1) (by omega)) iu 1 (by omega)

/-- the block starting at 0, of size ≥ 3: column 0 and `m_ref_nr[0]` are those of the first `compute_reflector` call -/
theorem ub_first (n : Nat) (hn : 0 < n) (N : Nat) (s t : K) (st : St K) (iu : Nat) (h3 : 3 ≤ iu + 1)
    (hw : WF st.2.1) (hr : st.2.1.rows = 3) (hc : st.2.1.cols = n) (hsz : st.2.2.size = n) :
    Inv0 F n
      (mget F (firstRef F s t st 0).1 0 0)
      (mget F (firstRef F s t st 0).1 1 0)
      (mget F (firstRef F s t st 0).1 2 0)
      ((firstRef F s t st 0).2.getD 0 0)
      (C08Nr.ub F N s t st 0 iu).2.1 (C08Nr.ub F N s t st 0 iu).2.2 := by
  obtain ⟨H0, y1, y2, y3, stc, hstc, e1, e2⟩ := ub_shape_3 F N s t st 0 iu (by omega)
  rw [e1, e2]
  obtain ⟨d1, d2, d3, d4⟩ : WF (firstRef F s t st 0).1 ∧ (firstRef F s t st 0).1.rows = st.2.1.rows ∧
      (firstRef F s t st 0).1.cols = st.2.1.cols ∧ (firstRef F s t st 0).2.size = st.2.2.size := by
    unfold firstRef; exact cRef_dims F hw st.2.2 _ _ _ 0
  have hc0 : Inv0 F n (mget F (firstRef F s t st 0).1 0 0) (mget F (firstRef F s t st 0).1 1 0)
      (mget F (firstRef F s t st 0).1 2 0) ((firstRef F s t st 0).2.getD 0 0) stc.2.1 stc.2.2 := by
    rw [hstc]
    exact chase_fold_frame F n hn _ _ _ _ N 0 (iu - 0 + 1) _ _
      ⟨d1, by rw [d2, hr], by rw [d3, hc], by rw [d4, hsz], rfl, rfl, rfl, rfl⟩
  exact setnr_frame F n _ _ _ _ _ _ (cRef_frame F n hn _ _ _ _ _ _ hc0 y1 y2 y3 (iu - 1) (by omega)) iu 1 (by omega)

/-- the block loop of `compute`: once the first block (of size ≥ 3) is done, column 0 never changes again -/
theorem blocks_frame (n : Nat) (hn : 0 < n) (s t : K) (zi : Array Nat) (h0 : zi.getD 0 0 = 0) (h1 : 3 ≤ zi.getD 1 0)
    (hadj : ∀ a, a + 1 < zi.size → zi.getD a 0 < zi.getD (a + 1) 0)
    (st : St K) (hw : WF st.2.1) (hr : st.2.1.rows = 3) (hc : st.2.1.cols = n) (hsz : st.2.2.size = n)
    (j : Nat) (hj : j + 2 ≤ zi.size) :
    Inv0 F n
      (mget F (firstRef F s t st 0).1 0 0)
      (mget F (firstRef F s t st 0).1 1 0)
      (mget F (firstRef F s t st 0).1 2 0)
      ((firstRef F s t st 0).2.getD 0 0)
      ((List.range (j + 1)).foldl (fun st i => C08Nr.ub F n s t st (zi.getD i 0) (zi.getD (i + 1) 0 - 1)) st).2.1
      ((List.range (j + 1)).foldl (fun st i => C08Nr.ub F n s t st (zi.getD i 0) (zi.getD (i + 1) 0 - 1)) st).2.2 := by
  induction j with
  | zero =>
    show Inv0 F n _ _ _ _ (C08Nr.ub F n s t st (zi.getD 0 0) (zi.getD (0 + 1) 0 - 1)).2.1
      (C08Nr.ub F n s t st (zi.getD 0 0) (zi.getD (0 + 1) 0 - 1)).2.2
    rw [h0]
    exact ub_first F n hn n s t st _ (by simp only [Nat.zero_add]; omega) hw hr hc hsz
  | succ j ih =>
    rw [List.range_succ, List.foldl_append, List.foldl_cons, List.foldl_nil]
    have hm := C08Nr.zi_mono zi hadj 1 (j + 1) (by omega) (by omega)
    have hlt := hadj (j + 1) (by omega)
    exact ub_frame F n hn _ _ _ _ n s t _ _ _ (by omega) (by omega) (ih (by omega))

/-! #### at `compute` -/

/-- `m_ref_u` after `compute` is the result of the block loop over `zero_ind` (companion of `C08Nr.compute_nr_eq`) -/
theorem compute_u_eq (mat : Mat K) (s t : K) :
    (comp F mat s t).u =
      ((List.range ((C08Nr.zeroInd F mat).size - 1)).foldl
        (fun st i => C08Nr.ub F mat.rows s t st ((C08Nr.zeroInd F mat).getD i 0) ((C08Nr.zeroInd F mat).getD (i + 1) 0 - 1))
        (C08Nr.st0 F mat)).2.1 := rfl

/-- DM6: if the first block of the deflation pattern has size ≥ 3 (`zero_ind[1] ≥ 3`: neither of the first two subdiagonal
    entries is deflated by the first pass of `compute`), then after `compute` column 0 of `m_ref_u` and `m_ref_nr[0]` are
    exactly what the first `compute_reflector(m00, m10, m20, 0)` call stored, `(m00, m10, m20)` being computed from the
    first-pass matrix `(C08Nr.st0 F mat).1` -/
theorem compute_first_reflector (mat : Mat K) (s t : K) (hn : 1 ≤ mat.rows)
    (hblk : 3 ≤ (C08Nr.zeroInd F mat).getD 1 0) :
    (comp F mat s t).nr.getD 0 0 = (firstRef F s t (C08Nr.st0 F mat) 0).2.getD 0 0 ∧
    mget F (comp F mat s t).u 0 0 = mget F (firstRef F s t (C08Nr.st0 F mat) 0).1 0 0 ∧
    mget F (comp F mat s t).u 1 0 = mget F (firstRef F s t (C08Nr.st0 F mat) 0).1 1 0 ∧
    mget F (comp F mat s t).u 2 0 = mget F (firstRef F s t (C08Nr.st0 F mat) 0).1 2 0 := by
  obtain ⟨z1, z2, z3, z4, z5⟩ := C08Nr.zeroInd_spec F mat hn
  have e : (C08Nr.zeroInd F mat).size - 1 = ((C08Nr.zeroInd F mat).size - 2) + 1 := by omega
  have h := blocks_frame F mat.rows (by omega) s t (C08Nr.zeroInd F mat) z2 hblk z4 (C08Nr.st0 F mat)
    (@zeros_WF K (scOfField F) 3 mat.rows) rfl rfl (by show (Array.replicate _ _).size = _; simp)
    ((C08Nr.zeroInd F mat).size - 2) (by omega)
  rw [← e] at h
  obtain ⟨_, _, _, _, g0, g1, g2, gv⟩ := h
  exact ⟨gv, g0, g1, g2⟩

/-- DM5 + DM6 at `compute`: let `Hm` be an upper Hessenberg matrix whose leading entries are those of the first-pass matrix of
    `compute` (the entries `update_block` reads).  If the first block has size ≥ 3 and `|m20| ≥ near0` (`m20 = Hm₂₁ Hm₁₀`), then
    the first column of the accumulated `Q` is parallel to the first column of `Hm² − s Hm + t I`:
    `κ · Q e₁ = (Hm² − s Hm + t I) e₁` with `κ = ±‖(Hm² − s Hm + t I) e₁‖ ≠ 0` -/
theorem compute_first_col_parallel (hsq : ∀ x : K, 0 ≤ x → F.sqrt x * F.sqrt x = x ∧ 0 ≤ F.sqrt x)
    (hcut : C08Refl.cutoff F ≤ 0) (hmin : 0 < F.minPos) (mat : Mat K) (s t : K) {n' : Nat} (hrows : mat.rows = n' + 3)
    (hblk : 3 ≤ (C08Nr.zeroInd F mat).getD 1 0)
    (Hm : Matrix (Fin (n' + 3)) (Fin (n' + 3)) K)
    (hH : ∀ i j : Fin (n' + 3), j.val + 1 < i.val → Hm i j = 0)
    (e00 : Hm 0 0 = mget F (C08Nr.st0 F mat).1 0 0) (e01 : Hm 0 1 = mget F (C08Nr.st0 F mat).1 0 1)
    (e10 : Hm 1 0 = mget F (C08Nr.st0 F mat).1 1 0) (e11 : Hm 1 1 = mget F (C08Nr.st0 F mat).1 1 1)
    (e21 : Hm 2 1 = mget F (C08Nr.st0 F mat).1 2 1)
    (hbig : ¬ |C08Local.fc2 F (Hm 2 1) (Hm 1 0)| < C08Refl.nz F) :
    (comp F mat s t).nr.getD 0 0 = 3 ∧
    ∃ κ : K, κ ≠ 0 ∧
      κ * κ = C08Local.fc0 F (Hm 0 0) (Hm 0 1) (Hm 1 0) s t * C08Local.fc0 F (Hm 0 0) (Hm 0 1) (Hm 1 0) s t +
        C08Local.fc1 F (Hm 0 0) (Hm 1 0) (Hm 1 1) s * C08Local.fc1 F (Hm 0 0) (Hm 1 0) (Hm 1 1) s +
        C08Local.fc2 F (Hm 2 1) (Hm 1 0) * C08Local.fc2 F (Hm 2 1) (Hm 1 0) ∧
      ∀ i : Fin (comp F mat s t).n,
        κ * Qdof F (comp F mat s t) i ⟨0, by show 0 < mat.rows; omega⟩ =
          (Hm * Hm - s • Hm + t • (1 : Matrix (Fin (n' + 3)) (Fin (n' + 3)) K)) (Fin.cast hrows i) 0 := by
  obtain ⟨gv, g0, g1, g2⟩ := compute_first_reflector F mat s t (by omega) hblk
  have hfr : firstRef F s t (C08Nr.st0 F mat) 0 =
      C08Refl.cRef F (C08Nr.st0 F mat).2.1 (C08Nr.st0 F mat).2.2 (C08Local.fc0 F (Hm 0 0) (Hm 0 1) (Hm 1 0) s t)
        (C08Local.fc1 F (Hm 0 0) (Hm 1 0) (Hm 1 1) s) (C08Local.fc2 F (Hm 2 1) (Hm 1 0)) 0 := by
    rw [firstRef_eq, e00, e01, e10, e11, e21]
  rw [hfr] at gv g0 g1 g2
  have hd : (C08Nr.st0 F mat).2.1.d.size = 3 * (C08Nr.st0 F mat).2.1.cols := @zeros_WF K (scOfField F) 3 mat.rows
  obtain ⟨r1, ru, rP2, rP3, _, N, hN0, hNN, rP1⟩ := C08Refl.reflector_unit F hsq hcut hmin
    (C08Nr.st0 F mat).2.1 (C08Nr.st0 F mat).2.2 (C08Local.fc0 F (Hm 0 0) (Hm 0 1) (Hm 1 0) s t)
    (C08Local.fc1 F (Hm 0 0) (Hm 1 0) (Hm 1 1) s) (C08Local.fc2 F (Hm 2 1) (Hm 1 0)) 0
    (by show 0 < (Array.replicate _ _).size; simp; omega) rfl (by show 0 < mat.rows; omega) hd hbig
    (mget F (comp F mat s t).u 0 0) (mget F (comp F mat s t).u 1 0) (mget F (comp F mat s t).u 2 0) g0 g1 g2
  refine ⟨by rw [gv]; exact r1, _, kappa_ne_zero (C08Local.fc0 F (Hm 0 0) (Hm 0 1) (Hm 1 0) s t) N hN0, ?_, ?_⟩
  · rw [← hNN]; split <;> ring
  · intro i
    exact dsqr_first_col_parallel F (comp F mat s t) hrows Hm hH s t _ _ _ _ _ _ _ rfl rfl rfl (by rw [gv]; exact r1)
      rfl rfl rfl ru rP1 rP2 rP3 i

/-! #### the first pass of `compute` (deflation + zeroing below the subdiagonal) -/

/-- the deflation test of `compute` at subdiagonal position `i` of `H` -/
abbrev dfl (e : K) (H : Mat K) (i : Nat) : Bool :=
  @negligible K _ _ (scOfField F) e (mget F H (i + 1) i) (mget F H i i) (mget F H (i + 1) (i + 1))

abbrev sStep (n : Nat) (e : K) (st : Mat K × Array Nat) (i : Nat) : Mat K × Array Nat :=
  @splitStep K _ _ (scOfField F) n e st i

theorem sStep_eq (n : Nat) (e : K) (H : Mat K) (zi : Array Nat) (i : Nat) :
    sStep F n e (H, zi) i =
      (@zeroCol K (scOfField F) (if dfl F e H i = true then H.set (i + 1) i (@Lin.zero K (scOfField F)) else H) i (n - i - 2),
       if dfl F e H i = true then zi.push (i + 1) else zi) := rfl

/-- one step of the first pass: column `i` is zeroed from row `i + 2` down, `(i+1, i)` is zeroed iff it is deflated, nothing
    else changes; `zero_ind` receives `i + 1` iff the entry is deflated -/
theorem sStep_spec (n : Nat) (e : K) {H : Mat K} (hw : WF H) (hr : H.rows = n) (hc : H.cols = n) (zi : Array Nat)
    (i : Nat) (hi : i + 1 < n) :
    WF (sStep F n e (H, zi) i).1 ∧ (sStep F n e (H, zi) i).1.rows = n ∧ (sStep F n e (H, zi) i).1.cols = n ∧
    (∀ a b, a < n → b < n → mget F (sStep F n e (H, zi) i).1 a b =
      if b = i ∧ (i + 2 ≤ a ∨ (a = i + 1 ∧ dfl F e H i = true)) then 0 else mget F H a b) ∧
    (sStep F n e (H, zi) i).2 = if dfl F e H i = true then zi.push (i + 1) else zi := by
  rw [sStep_eq]
  refine ⟨?_, ?_, ?_, ?_, rfl⟩
  all_goals by_cases hd : dfl F e H i = true
  all_goals simp only [hd, if_true, if_false, Bool.false_eq_true]
  · exact (@zeroCol_spec K (scOfField F) _ (set_WF hw _ _ _) i (n - i - 2) (by simp; omega) (by simp; omega)).1
  · exact (@zeroCol_spec K (scOfField F) _ hw i (n - i - 2) (by omega) (by omega)).1
  · rw [(@zeroCol_spec K (scOfField F) _ (set_WF hw _ _ _) i (n - i - 2) (by simp; omega) (by simp; omega)).2.1]; simp [hr]
  · rw [(@zeroCol_spec K (scOfField F) _ hw i (n - i - 2) (by omega) (by omega)).2.1]; exact hr
  · rw [(@zeroCol_spec K (scOfField F) _ (set_WF hw _ _ _) i (n - i - 2) (by simp; omega) (by simp; omega)).2.2.1]; simp [hc]
  · rw [(@zeroCol_spec K (scOfField F) _ hw i (n - i - 2) (by omega) (by omega)).2.2.1]; exact hc
  · intro a b ha hb
    have h := (@zeroCol_spec K (scOfField F) _ (set_WF hw (i + 1) i (@Lin.zero K (scOfField F))) i (n - i - 2)
      (by simp; omega) (by simp; omega)).2.2.2 a b (by simp; omega) (by simp; omega)
    have g := @get_set K (scOfField F) H hw (i + 1) i a b (@Lin.zero K (scOfField F)) (by omega) (by omega) (by omega)
      (by omega)
    show @Mat.get K (scOfField F) _ a b = _
    rw [h, g, zero_eq]
    by_cases c1 : b = i ∧ i + 2 ≤ a ∧ a < i + 2 + (n - i - 2)
    · rw [if_pos c1, if_pos ⟨c1.1, Or.inl c1.2.1⟩]
    · rw [if_neg c1]
      by_cases c2 : a = i + 1 ∧ b = i
      · rw [if_pos c2, if_pos ⟨c2.2, Or.inr ⟨c2.1, trivial⟩⟩]
      · rw [if_neg c2, if_neg (by intro hh; rcases hh with ⟨h1, h2 | h2⟩ <;> omega)]
  · intro a b ha hb
    have h := (@zeroCol_spec K (scOfField F) _ hw i (n - i - 2) (by omega) (by omega)).2.2.2 a b (by omega) (by omega)
    show @Mat.get K (scOfField F) _ a b = _
    rw [h, zero_eq]
    by_cases c1 : b = i ∧ i + 2 ≤ a ∧ a < i + 2 + (n - i - 2)
    · rw [if_pos c1, if_pos ⟨c1.1, Or.inl c1.2.1⟩]
    · rw [if_neg c1, if_neg (by intro hh; rcases hh with ⟨h1, h2 | h2⟩ <;> [omega; exact absurd h2.2 (by simp)])]

theorem dfl_congr (e : K) (H H0 : Mat K) (i : Nat) (e1 : mget F H (i + 1) i = mget F H0 (i + 1) i)
    (e2 : mget F H i i = mget F H0 i i) (e3 : mget F H (i + 1) (i + 1) = mget F H0 (i + 1) (i + 1)) :
    dfl F e H i = dfl F e H0 i := by
  show @negligible K _ _ (scOfField F) e (mget F H (i + 1) i) (mget F H i i) (mget F H (i + 1) (i + 1)) = _
  rw [e1, e2, e3]

/-- the first pass after `m` steps: columns `≥ m` and the upper triangle are untouched, columns `< m` are zero below the
    subdiagonal, and a subdiagonal entry `(b+1, b)`, `b < m`, is zeroed iff the deflation test holds for the ORIGINAL entries;
    `zero_ind` receives `m + 1` at step `m` iff that test holds -/
theorem split_fold_spec (n : Nat) (e : K) {H0 : Mat K} (hw : WF H0) (hr : H0.rows = n) (hc : H0.cols = n)
    (zi0 : Array Nat) (m : Nat) (hm : m + 1 ≤ n) :
    WF ((List.range m).foldl (sStep F n e) (H0, zi0)).1 ∧
    ((List.range m).foldl (sStep F n e) (H0, zi0)).1.rows = n ∧
    ((List.range m).foldl (sStep F n e) (H0, zi0)).1.cols = n ∧
    (∀ a b, a < n → b < n → (m ≤ b ∨ a ≤ b) →
      mget F ((List.range m).foldl (sStep F n e) (H0, zi0)).1 a b = mget F H0 a b) ∧
    (∀ a b, a < n → b < n → b + 2 ≤ a → b < m →
      mget F ((List.range m).foldl (sStep F n e) (H0, zi0)).1 a b = 0) ∧
    (∀ b, b + 1 < n → b < m →
      mget F ((List.range m).foldl (sStep F n e) (H0, zi0)).1 (b + 1) b =
        if dfl F e H0 b = true then 0 else mget F H0 (b + 1) b) ∧
    (m + 2 ≤ n → ((List.range (m + 1)).foldl (sStep F n e) (H0, zi0)).2 =
      if dfl F e H0 m = true then ((List.range m).foldl (sStep F n e) (H0, zi0)).2.push (m + 1)
      else ((List.range m).foldl (sStep F n e) (H0, zi0)).2) := by
  induction m with
  | zero =>
    refine ⟨hw, hr, hc, fun _ _ _ _ _ => rfl, ?_, ?_, ?_⟩
    · intro a b _ _ _ hb; omega
    · intro b _ hb; omega
    · intro h2
      exact (sStep_spec F n e hw hr hc zi0 0 (by omega)).2.2.2.2
  | succ m ih =>
    obtain ⟨w, r, c, i1, i2, i3, i4⟩ := ih (by omega)
    have i4' := i4 (by omega)
    have hstep : (List.range (m + 1)).foldl (sStep F n e) (H0, zi0) =
        sStep F n e ((List.range m).foldl (sStep F n e) (H0, zi0)) m := by
      rw [List.range_succ, List.foldl_append, List.foldl_cons, List.foldl_nil]
    have hstep2 : (List.range (m + 1 + 1)).foldl (sStep F n e) (H0, zi0) =
        sStep F n e ((List.range (m + 1)).foldl (sStep F n e) (H0, zi0)) (m + 1) := by
      rw [List.range_succ, List.foldl_append, List.foldl_cons, List.foldl_nil]
    rw [hstep2]
    rw [hstep] at i4' ⊢
    generalize (List.range m).foldl (sStep F n e) (H0, zi0) = S at w r c i1 i2 i3 i4' ⊢
    obtain ⟨H, zi⟩ := S
    simp only at w r c i1 i2 i3
    obtain ⟨w1, r1, c1, g, gz⟩ := sStep_spec F n e w r c zi m (by omega)
    have hd : dfl F e H m = dfl F e H0 m :=
      dfl_congr F e H H0 m (i1 _ _ (by omega) (by omega) (Or.inl (Nat.le_refl _)))
        (i1 _ _ (by omega) (by omega) (Or.inl (Nat.le_refl _))) (i1 _ _ (by omega) (by omega) (Or.inl (by omega)))
    have k1 : ∀ a b, a < n → b < n → (m + 1 ≤ b ∨ a ≤ b) → mget F (sStep F n e (H, zi) m).1 a b = mget F H0 a b := by
      intro a b ha hb hab
      rw [g a b ha hb, if_neg (by intro hh; rcases hh with ⟨h1, h2 | h2⟩ <;> omega)]
      exact i1 a b ha hb (by omega)
    refine ⟨w1, r1, c1, k1, ?_, ?_, ?_⟩
    · intro a b ha hb hab hbm
      rw [g a b ha hb]
      by_cases e0 : b = m
      · rw [if_pos ⟨e0, Or.inl (by omega)⟩]
      · rw [if_neg (fun hh => e0 hh.1)]
        exact i2 a b ha hb hab (by omega)
    · intro b hb hbm
      rw [g (b + 1) b hb (by omega)]
      by_cases e0 : b = m
      · subst e0
        rw [hd]
        by_cases dd : dfl F e H0 b = true
        · rw [if_pos ⟨rfl, Or.inr ⟨rfl, dd⟩⟩, if_pos dd]
        · rw [if_neg (by intro hh; rcases hh with ⟨_, h2 | h2⟩ <;> [omega; exact dd h2.2]), if_neg dd]
          exact i1 _ _ hb (by omega) (Or.inl (Nat.le_refl _))
      · rw [if_neg (fun hh => e0 hh.1)]
        exact i3 b hb (by omega)
    · intro h2
      generalize sStep F n e (H, zi) m = S' at w1 r1 c1 k1 ⊢
      obtain ⟨H', zi'⟩ := S'
      simp only at w1 r1 c1 k1
      have gz' := (sStep_spec F n e w1 r1 c1 zi' (m + 1) (by omega)).2.2.2.2
      rw [gz']
      have hd' : dfl F e H' (m + 1) = dfl F e H0 (m + 1) :=
        dfl_congr F e H' H0 (m + 1) (k1 _ _ (by omega) (by omega) (Or.inl (Nat.le_refl _)))
          (k1 _ _ (by omega) (by omega) (Or.inl (Nat.le_refl _))) (k1 _ _ (by omega) (by omega) (Or.inl (by omega)))
      rw [hd']

/-- `eps_abs` of `compute` -/
abbrev epsA (mat : Mat K) : K := C08Nr.nz F * (@Sc.ofInt K (scOfField F) (mat.rows : Int) / F.eps)

/-- the copy `m_mat_H` of the input that `compute` starts from -/
abbrev H0of (mat : Mat K) : Mat K := @Mat.ofFn K mat.rows mat.rows (fun i j => @Mat.get K (scOfField F) mat i j)

theorem H0of_get (mat : Mat K) {a b : Nat} (ha : a < mat.rows) (hb : b < mat.rows) :
    mget F (H0of F mat) a b = mget F mat a b :=
  @get_ofFn K (scOfField F) mat.rows mat.rows _ a b ha hb

theorem dfl_H0of (mat : Mat K) (i : Nat) (hi : i + 1 < mat.rows) :
    dfl F (epsA F mat) (H0of F mat) i = dfl F (epsA F mat) mat i :=
  dfl_congr F _ _ _ i (H0of_get F mat (by omega) (by omega)) (H0of_get F mat (by omega) (by omega))
    (H0of_get F mat (by omega) (by omega))

/-- `zero_ind` without its trailing `n`: first entry 0 and, if there is a second entry, it is `≥ 3` -/
def Pz (zi : Array Nat) : Prop := 1 ≤ zi.size ∧ (zi.size = 1 ∨ 3 ≤ zi.getD 1 0)

theorem Pz_push {zi : Array Nat} (h : Pz zi) (v : Nat) (hv : 3 ≤ v) : Pz (zi.push v) := by
  obtain ⟨h1, h2⟩ := h
  refine ⟨by rw [Array.size_push]; omega, Or.inr ?_⟩
  rw [C08Nr.getD_push]
  rcases h2 with h2 | h2
  · rw [if_neg (by omega), if_pos (by omega)]; exact hv
  · by_cases c : 1 < zi.size
    · rw [if_pos c]; exact h2
    · rw [if_neg c, if_pos (by omega)]; exact hv

/-- if neither of the first two subdiagonal entries of the input is deflated, the first block has size ≥ 3 -/
theorem zeroInd_first_block (mat : Mat K) (hn : 3 ≤ mat.rows)
    (hd0 : dfl F (epsA F mat) mat 0 = false) (hd1 : dfl F (epsA F mat) mat 1 = false) :
    3 ≤ (C08Nr.zeroInd F mat).getD 1 0 := by
  have key : ∀ m, m + 1 ≤ mat.rows →
      Pz ((List.range m).foldl (sStep F mat.rows (epsA F mat)) (H0of F mat, (#[0] : Array Nat))).2 := by
    intro m
    induction m with
    | zero => intro _; exact ⟨by simp, Or.inl (by simp)⟩
    | succ m ih =>
      intro hm
      have h := (split_fold_spec F mat.rows (epsA F mat) (H0 := H0of F mat) (ofFn_WF _ _ _) rfl rfl (#[0] : Array Nat) m
        (by omega)).2.2.2.2.2.2 (by omega)
      rw [h, dfl_H0of F mat m (by omega)]
      by_cases dd : dfl F (epsA F mat) mat m = true
      · rw [if_pos dd]
        have : 2 ≤ m := by
          rcases Nat.lt_or_ge m 2 with hlt | hge
          · have : m = 0 ∨ m = 1 := by omega
            rcases this with rfl | rfl
            · rw [hd0] at dd; exact absurd dd (by simp)
            · rw [hd1] at dd; exact absurd dd (by simp)
          · exact hge
        exact Pz_push (ih (by omega)) (m + 1) (by omega)
      · rw [if_neg dd]; exact ih (by omega)
  have h := Pz_push (key (mat.rows - 1) (by omega)) mat.rows hn
  have hs := (C08Nr.zeroInd_spec F mat (by omega)).1
  rcases h.2 with h2 | h2
  · exact absurd h2 (by show ¬ (C08Nr.zeroInd F mat).size = 1; omega)
  · exact h2

/-- the first-pass matrix `(C08Nr.st0 F mat).1` that the block loop of `compute` starts from: it is upper Hessenberg, agrees with
    the input on and above the diagonal, and on a subdiagonal entry that is not deflated -/
theorem st0_H_spec (mat : Mat K) (hn : 1 ≤ mat.rows) :
    (∀ a b, a < mat.rows → b < mat.rows → b + 2 ≤ a → mget F (C08Nr.st0 F mat).1 a b = 0) ∧
    (∀ a b, a < mat.rows → b < mat.rows → a ≤ b → mget F (C08Nr.st0 F mat).1 a b = mget F mat a b) ∧
    (∀ b, b + 1 < mat.rows → dfl F (epsA F mat) mat b = false →
      mget F (C08Nr.st0 F mat).1 (b + 1) b = mget F mat (b + 1) b) := by
  obtain ⟨_, _, _, i1, i2, i3, _⟩ := split_fold_spec F mat.rows (epsA F mat) (H0 := H0of F mat) (ofFn_WF _ _ _) rfl rfl (#[0] : Array Nat)
    (mat.rows - 1) (by omega)
  refine ⟨?_, ?_, ?_⟩
  · intro a b ha hb hab
    exact i2 a b ha hb hab (by omega)
  · intro a b ha hb hab
    exact (i1 a b ha hb (Or.inr hab)).trans (H0of_get F mat ha hb)
  · intro b hb hd
    have h := i3 b hb (by omega)
    rw [dfl_H0of F mat b hb, hd] at h
    exact h.trans (H0of_get F mat hb (by omega))

/-- DM5 + DM6 with everything instantiated: `Hm` is the first-pass matrix of `compute(mat, s, t)` read as a Mathlib matrix.  If the
    first two subdiagonal entries of the input are not deflated and `|m20| ≥ near0` (`m20 = mat₂₁ mat₁₀`), then `Hm` is upper
    Hessenberg, the first stored reflector has three rows, and the first column of `Q` is parallel to the first column of
    `Hm² − s Hm + t I`: `κ · Q e₁ = (Hm² − s Hm + t I) e₁`, `κ ≠ 0`, `κ² = ‖(Hm² − s Hm + t I) e₁‖²` -/
theorem compute_first_col_parallel' (hsq : ∀ x : K, 0 ≤ x → F.sqrt x * F.sqrt x = x ∧ 0 ≤ F.sqrt x)
    (hcut : C08Refl.cutoff F ≤ 0) (hmin : 0 < F.minPos) (mat : Mat K) (s t : K) {n' : Nat} (hrows : mat.rows = n' + 3)
    (hd0 : dfl F (epsA F mat) mat 0 = false) (hd1 : dfl F (epsA F mat) mat 1 = false)
    (hbig : ¬ |C08Local.fc2 F (mget F mat 2 1) (mget F mat 1 0)| < C08Refl.nz F) :
    (∀ i j : Fin (n' + 3), j.val + 1 < i.val → toM F (n' + 3) (n' + 3) (C08Nr.st0 F mat).1 i j = 0) ∧
    (comp F mat s t).nr.getD 0 0 = 3 ∧
    ∃ κ : K, κ ≠ 0 ∧
      κ * κ =
        C08Local.fc0 F (mget F mat 0 0) (mget F mat 0 1) (mget F mat 1 0) s t *
          C08Local.fc0 F (mget F mat 0 0) (mget F mat 0 1) (mget F mat 1 0) s t +
        C08Local.fc1 F (mget F mat 0 0) (mget F mat 1 0) (mget F mat 1 1) s *
          C08Local.fc1 F (mget F mat 0 0) (mget F mat 1 0) (mget F mat 1 1) s +
        C08Local.fc2 F (mget F mat 2 1) (mget F mat 1 0) * C08Local.fc2 F (mget F mat 2 1) (mget F mat 1 0) ∧
      ∀ i : Fin (comp F mat s t).n,
        κ * Qdof F (comp F mat s t) i ⟨0, by show 0 < mat.rows; omega⟩ =
          (toM F (n' + 3) (n' + 3) (C08Nr.st0 F mat).1 * toM F (n' + 3) (n' + 3) (C08Nr.st0 F mat).1 -
            s • toM F (n' + 3) (n' + 3) (C08Nr.st0 F mat).1 +
            t • (1 : Matrix (Fin (n' + 3)) (Fin (n' + 3)) K)) (Fin.cast hrows i) 0 := by
  obtain ⟨q1, q2, q3⟩ := st0_H_spec F mat (by omega)
  have v0 : ((0 : Fin (n' + 3)) : Nat) = 0 := rfl
  have v1 : ((1 : Fin (n' + 3)) : Nat) = 1 := by simp
  have v2 : ((2 : Fin (n' + 3)) : Nat) = 2 := Fin.val_two
  have tg : ∀ i j : Fin (n' + 3), toM F (n' + 3) (n' + 3) (C08Nr.st0 F mat).1 i j =
      mget F (C08Nr.st0 F mat).1 i.val j.val := fun _ _ => rfl
  have hH : ∀ i j : Fin (n' + 3), j.val + 1 < i.val → toM F (n' + 3) (n' + 3) (C08Nr.st0 F mat).1 i j = 0 := by
    intro i j hij
    rw [tg]
    exact q1 i.val j.val (by rw [hrows]; exact i.isLt) (by rw [hrows]; exact j.isLt) (by omega)
  have m00 : mget F (C08Nr.st0 F mat).1 0 0 = mget F mat 0 0 := q2 0 0 (by omega) (by omega) (by omega)
  have m01 : mget F (C08Nr.st0 F mat).1 0 1 = mget F mat 0 1 := q2 0 1 (by omega) (by omega) (by omega)
  have m11 : mget F (C08Nr.st0 F mat).1 1 1 = mget F mat 1 1 := q2 1 1 (by omega) (by omega) (by omega)
  have m10 : mget F (C08Nr.st0 F mat).1 1 0 = mget F mat 1 0 := q3 0 (by omega) hd0
  have m21 : mget F (C08Nr.st0 F mat).1 2 1 = mget F mat 2 1 := q3 1 (by omega) hd1
  have e00 : toM F (n' + 3) (n' + 3) (C08Nr.st0 F mat).1 0 0 = mget F (C08Nr.st0 F mat).1 0 0 := by rw [tg, v0]
  have e01 : toM F (n' + 3) (n' + 3) (C08Nr.st0 F mat).1 0 1 = mget F (C08Nr.st0 F mat).1 0 1 := by rw [tg, v0, v1]
  have e10 : toM F (n' + 3) (n' + 3) (C08Nr.st0 F mat).1 1 0 = mget F (C08Nr.st0 F mat).1 1 0 := by rw [tg, v0, v1]
  have e11 : toM F (n' + 3) (n' + 3) (C08Nr.st0 F mat).1 1 1 = mget F (C08Nr.st0 F mat).1 1 1 := by rw [tg, v1]
  have e21 : toM F (n' + 3) (n' + 3) (C08Nr.st0 F mat).1 2 1 = mget F (C08Nr.st0 F mat).1 2 1 := by rw [tg, v1, v2]
  have hblk := zeroInd_first_block F mat (by omega) hd0 hd1
  obtain ⟨r1, κ, k0, kk, kq⟩ := compute_first_col_parallel F hsq hcut hmin mat s t hrows hblk
    (toM F (n' + 3) (n' + 3) (C08Nr.st0 F mat).1) hH e00 e01 e10 e11 e21
    (by rw [e21, e10, m21, m10]; exact hbig)
  refine ⟨hH, r1, κ, k0, ?_, kq⟩
  rw [kk, e00, e01, e10, e11, e21, m00, m01, m10, m11, m21]

end Frame

end AtField

end C08DsqrMatrix
