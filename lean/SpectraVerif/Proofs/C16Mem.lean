/-
  C16 helper: decidable predicates over the regenerated object model `Gen.SVDMem` of PartialSVDSolver / SVDMatOp / SVDTallMatOp /
  SVDWideMatOp (xlate/tgt_c16.py, clang AST of the working tree on every run): data members, parameters, and every occurrence of a
  data member in a constructor / destructor / method.  The property theorems `c16_members_nonowning`, `c16_accessor_writes`,
  `c16_compute_resets_cache`, `c16_copy_operations` are closed facts about these finite tables, decided by the kernel.
-/
import SpectraVerif.Gen.SVDMem

namespace C16Mem
open Gen.SVDMem

/-- one data member -/
structure Member where
  cls : String
  name : String
  type : String      -- declared type, the class's own aliases resolved
  kind : String      -- value | reference | pointer | handle
  isConst : Bool
  isMutable : Bool
  deriving DecidableEq

def members : List Member := dataMembers.map (fun t => ⟨t.1, t.2.1, t.2.2.1, t.2.2.2.1, t.2.2.2.2.1, t.2.2.2.2.2⟩)

/-- one occurrence of a data member in a method -/
structure Use where
  cls : String
  sig : String       -- method with its parameter types (` const` appended for a const method)
  member : String
  use : String       -- init | = | noalias= | .f | ->f | delete | * | read | …
  args : String      -- arguments / right-hand side / enclosing expression as written
  guards : String    -- conditions of the enclosing if-branches and catch handlers, "" = unconditional
  inLoop : Bool
  deriving DecidableEq

def uses : List Use := memberUses.map (fun t => ⟨t.1, t.2.1, t.2.2.1, t.2.2.2.1, t.2.2.2.2.1, t.2.2.2.2.2.1, t.2.2.2.2.2.2⟩)

def usesOf (cls sig : String) : List Use := uses.filter (fun u => u.cls == cls && u.sig == sig)

/-- uses that cannot change the member (or the object it points to): plain reads, Eigen's const accessors, and the const accessors
    `eigenvalues()` / `eigenvectors()` of the inner solver.  EVERYTHING else counts as a write — an assignment, a resize, a
    `noalias() =`, a `delete`, a non-const call through the pointer (`->init`, `->compute`), and any call this list does not know. -/
def readOnly (u : String) : Bool :=
  ["read", ".cols", ".rows", ".leftCols", ".transpose", "->eigenvalues", "->eigenvectors"].contains u

/-- the writes of one method: (member, use, arguments, guards, inside a loop), in source order -/
def writesOf (cls sig : String) : List (String × String × String × String × Bool) :=
  ((usesOf cls sig).filter (fun u => !readOnly u.use)).map (fun u => (u.member, u.use, u.args, u.guards, u.inLoop))

/-- every write of one member of one class, with the method it happens in -/
def writesTo (cls member : String) : List (String × String × String × String × Bool) :=
  ((uses.filter (fun u => u.cls == cls && u.member == member && !readOnly u.use))).map (fun u => (u.sig, u.use, u.args, u.guards, u.inLoop))

/-- the constructors / destructor / methods of a class that exist (deleted ones are listed in `specialMembers`): (signature, const, body | pure | …) -/
def methodsOf (cls : String) : List (String × Bool × String) := (svdMethods.filter (fun m => m.1 == cls && m.2.2.2 != "deleted")).map (·.2)

/-- parameters not taken by value: (class, method, parameter, kind) -/
def nonValueParams : List (String × String × String × String) :=
  (methodParams.filter (fun p => p.2.2.2.2 != "value")).map (fun p => (p.1, p.2.1, p.2.2.1, p.2.2.2.2))

/-- the copy operations a class declares -/
def copyOps (cls : String) : List (String × String) :=
  (specialMembers.filter (fun s => s.1 == cls && (s.2.1 == "copy-constructor" || s.2.1 == "copy-assignment"))).map (·.2)

end C16Mem
