/-
  The polynomial filter of implicit restarting, and the elementary Rayleigh-quotient bounds for Ritz values
  (helper lemmas for Properties/C04; exact arithmetic, matrices over finite index types).

  Setting: a Krylov (Arnoldi / Lanczos) relation  `A V = V H + f gᵀ`  (`vecMulVec f g`; initially `g = e_lastᵀ`, written
  `Pi.single last 1`), and one implicitly shifted QR step with shift `μ`:  `H - μ I = Q R`, `H⁺ = Q⁻¹ H Q`, `V⁺ = V Q`.

  * `filter_step`     – ONE exact shift multiplies the start vector by `(A - μ I)`:
                        `(A - μ I) v₁ = R₁₁ • v₁⁺`  where `v₁ = V e₁`, `v₁⁺ = V Q e₁`.  So if `μ` is an eigenvalue of `A`
                        (or, approximately, a converged Ritz value) the component of the start vector along that eigenvector is
                        annihilated (damped): shifting with the unwanted Ritz values filters them out of the restart vector.
                        Only needs: `g first = 0` (the residual term does not touch column `first`) and `R` has zero
                        sub-diagonal entries in column `first`.
  * `filter_relation` – the relation is handed on to the rotated basis:  `A V⁺ = V⁺ (Q⁻¹ H Q) + f (gᵀ Q)`,
                        so that steps compose (the new residual row is `gᵀ Q`; for Hessenberg `H` and `p` shifts its first
                        `m - p - 1` entries remain zero, which is what `hg` asks of it in the next step).
  * `filter_two`      – two successive shifts:  `(A - μ₂ I)(A - μ₁ I) v₁ = (R₁)₁₁ (R₂)₁₁ • (V Q₁ Q₂) e₁`.
  * `filter_list`     – `p` successive shifts (a list of shift records `ShiftRec`, validity `ShiftChain`): the new start
                        vector is parallel to `∏ (A - μ_j I) v₁` with factor `∏ (R_j)₁₁`; `filter_list_relation` is the
                        Krylov relation after all `p` steps.
  * `rayleigh_bounds` – if `A = U diag(d) Uᵀ` with `U Uᵀ = I` and `lo ≤ d_i ≤ hi` then `lo·xᵀx ≤ xᵀAx ≤ hi·xᵀx`
                        (`rayleigh_bounds_sq`: square `U` with `Uᵀ U = I` instead).
  * `ritz_is_rayleigh`, `ritz_norm` – with `H = Vᵀ A V`:  `yᵀ H y = (V y)ᵀ A (V y)`; with `Vᵀ V = I`: `(V y)ᵀ(V y) = yᵀ y`.
  * `ritz_value_bounds` – hence every Ritz value `θ` (`H y = θ y`, `yᵀy > 0`) lies in `[lo, hi]`: Ritz values (the shifts used
                        by the restart) never leave the spectral interval of `A`.
  * `rayleigh_bounds_real`, `ritz_value_bounds_real` – the instance over `ℝ`: for every real symmetric `A` Mathlib's
                        spectral theorem provides `U`, `d` (`spectral_real`), so the bounds hold with `hA.eigenvalues`.
-/
import Mathlib.Data.Matrix.Mul
import Mathlib.LinearAlgebra.Matrix.NonsingularInverse
import Mathlib.Analysis.Matrix.Spectrum
import Mathlib.LinearAlgebra.Matrix.Notation
import Mathlib.Algebra.Module.BigOperators
import Mathlib.Algebra.Order.Field.Basic
import Mathlib.Algebra.Order.BigOperators.Ring.Finset
import Mathlib.Tactic.Ring
import Mathlib.Tactic.Linarith
import Mathlib.Tactic.Abel
import Mathlib.Tactic.NormNum
import Mathlib.Tactic.FinCases

set_option linter.unusedSectionVars false
set_option linter.unusedVariables false
open Matrix

namespace C04Filter

section Filter
variable {n m : Type} [Fintype n] [Fintype m] [DecidableEq n] [DecidableEq m] {K : Type} [CommRing K]

/-- a column with zeros off the index `first`, applied to `e_first`, is a multiple of `e_first` -/
theorem mulVec_single_of_col (R : Matrix m m K) (first : m) (hR : ∀ i, i ≠ first → R i first = 0) :
    R *ᵥ Pi.single first 1 = R first first • Pi.single first 1 := by
  ext i
  rw [mulVec_single_one]
  by_cases h : i = first
  · subst h; simp
  · simp [hR i h, h]

/-- the rank-one residual term applied to a vector: `(f gᵀ) y = (g·y) f`; at `e_first` it is `g first • f` -/
theorem vecMulVec_mulVec_single (f : n → K) (g : m → K) (first : m) :
    vecMulVec f g *ᵥ Pi.single first 1 = g first • f := by
  ext i
  simp [mulVec, vecMulVec, dotProduct, Pi.single_apply, mul_comm]

/-- shifted Krylov relation: `(A - μ I) V = V (H - μ I) + f gᵀ` -/
theorem shifted_relation (A : Matrix n n K) (V : Matrix n m K) (H : Matrix m m K) (f : n → K) (g : m → K) (μ : K)
    (hfac : A * V = V * H + vecMulVec f g) :
    (A - μ • (1 : Matrix n n K)) * V = V * (H - μ • (1 : Matrix m m K)) + vecMulVec f g := by
  rw [Matrix.sub_mul, Matrix.mul_sub, hfac]
  simp only [Matrix.smul_mul, Matrix.mul_smul, Matrix.one_mul, Matrix.mul_one]
  abel

/-- **polynomial filter of one exact shift**: the first column of `V⁺ = V Q` is parallel to `(A - μ I) v₁`, with
    scalar `R₁₁`. -/
theorem filter_step (A : Matrix n n K) (V : Matrix n m K) (H Q R : Matrix m m K) (f : n → K) (g : m → K)
    (first : m) (μ : K)
    (hfac : A * V = V * H + vecMulVec f g)
    (hg : g first = 0)
    (hqr : H - μ • (1 : Matrix m m K) = Q * R)
    (hR : ∀ i, i ≠ first → R i first = 0) :
    (A - μ • (1 : Matrix n n K)) *ᵥ (V *ᵥ Pi.single first 1)
      = R first first • ((V * Q) *ᵥ Pi.single first 1) := by
  rw [mulVec_mulVec, shifted_relation A V H f g μ hfac, hqr, add_mulVec, vecMulVec_mulVec_single, hg, zero_smul,
    add_zero, ← Matrix.mul_assoc, ← mulVec_mulVec, mulVec_single_of_col R first hR, mulVec_smul]

/-- **the relation is handed on** to the rotated basis `V Q` with `H⁺ = Q⁻¹ H Q` and residual row `gᵀ Q`. -/
theorem filter_relation (A : Matrix n n K) (V : Matrix n m K) (H Q Qinv : Matrix m m K) (f : n → K) (g : m → K)
    (hfac : A * V = V * H + vecMulVec f g)
    (hQ : Q * Qinv = 1) :
    A * (V * Q) = (V * Q) * (Qinv * H * Q) + vecMulVec f (g ᵥ* Q) := by
  have h1 : (V * Q) * (Qinv * H * Q) = V * H * Q := by
    calc (V * Q) * (Qinv * H * Q) = V * (Q * Qinv) * H * Q := by simp only [Matrix.mul_assoc]
      _ = V * H * Q := by rw [hQ, Matrix.mul_one]
  rw [h1, ← Matrix.mul_assoc, hfac, Matrix.add_mul, vecMulVec_mul]

/-- **two successive exact shifts**: `(A - μ₂ I)(A - μ₁ I) v₁ = (R₁)₁₁ (R₂)₁₁ • (V Q₁ Q₂) e₁`. -/
theorem filter_two (A : Matrix n n K) (V : Matrix n m K) (H Q₁ Qinv₁ R₁ Q₂ R₂ : Matrix m m K) (f : n → K) (g : m → K)
    (first : m) (μ₁ μ₂ : K)
    (hfac : A * V = V * H + vecMulVec f g)
    (hg : g first = 0)
    (hqr₁ : H - μ₁ • (1 : Matrix m m K) = Q₁ * R₁)
    (hR₁ : ∀ i, i ≠ first → R₁ i first = 0)
    (hQ₁ : Q₁ * Qinv₁ = 1)
    (hg₂ : (g ᵥ* Q₁) first = 0)
    (hqr₂ : Qinv₁ * H * Q₁ - μ₂ • (1 : Matrix m m K) = Q₂ * R₂)
    (hR₂ : ∀ i, i ≠ first → R₂ i first = 0) :
    (A - μ₂ • (1 : Matrix n n K)) *ᵥ ((A - μ₁ • (1 : Matrix n n K)) *ᵥ (V *ᵥ Pi.single first 1))
      = (R₁ first first * R₂ first first) • ((V * Q₁ * Q₂) *ᵥ Pi.single first 1) := by
  rw [filter_step A V H Q₁ R₁ f g first μ₁ hfac hg hqr₁ hR₁, mulVec_smul,
    filter_step A (V * Q₁) (Qinv₁ * H * Q₁) Q₂ R₂ f (g ᵥ* Q₁) first μ₂
      (filter_relation A V H Q₁ Qinv₁ f g hfac hQ₁) hg₂ hqr₂ hR₂, smul_smul]

/-- the hypotheses of `filter_step` / `filter_relation` are satisfiable: a concrete 2×2 instance over ℚ with a genuine
    (non-diagonal) shifted factorization `H - 1·I = Q R`, a non-zero residual `f e_lastᵀ`, and an invertible `Q`. -/
example :
    let A : Matrix (Fin 2) (Fin 2) ℚ := !![2, 1; 1, 7]
    let V : Matrix (Fin 2) (Fin 2) ℚ := 1
    let H : Matrix (Fin 2) (Fin 2) ℚ := !![2, 1; 1, 2]
    let Q : Matrix (Fin 2) (Fin 2) ℚ := !![1, 0; 1, 1]
    let Qinv : Matrix (Fin 2) (Fin 2) ℚ := !![1, 0; -1, 1]
    let R : Matrix (Fin 2) (Fin 2) ℚ := !![1, 1; 0, 0]
    let f : Fin 2 → ℚ := ![0, 5]
    let g : Fin 2 → ℚ := Pi.single 1 1
    A * V = V * H + vecMulVec f g ∧ g 0 = 0 ∧ H - (1 : ℚ) • (1 : Matrix (Fin 2) (Fin 2) ℚ) = Q * R
      ∧ (∀ i, i ≠ 0 → R i 0 = 0) ∧ Q * Qinv = 1 := by
  intro A V H Q Qinv R f g
  refine ⟨?_, ?_, ?_, ?_, ?_⟩
  · ext i j; fin_cases i <;> fin_cases j <;> simp [A, V, H, f, g, vecMulVec]; norm_num
  · simp [g]
  · ext i j; fin_cases i <;> fin_cases j <;> simp [H, Q, R] <;> norm_num
  · intro i hi; fin_cases i <;> simp_all [R]
  · ext i j; fin_cases i <;> fin_cases j <;> simp [Q, Qinv]

/-! ### `p` successive shifts -/

/-- the data of one implicitly shifted QR step: shift, the factors of `H - μ I = Q R`, and an inverse of `Q` -/
structure ShiftRec (m K : Type) where
  μ : K
  Q : Matrix m m K
  Qinv : Matrix m m K
  R : Matrix m m K

/-- the list of shift records is a valid sequence of shifted QR steps starting from `(H, g)`:
    at each step `g first = 0`, `H - μ I = Q R`, `R` has zeros below the diagonal in column `first`, `Q Qinv = 1`,
    and the next step starts from `(Qinv H Q, gᵀ Q)`. -/
def ShiftChain (first : m) : Matrix m m K → (m → K) → List (ShiftRec m K) → Prop
  | _, _, [] => True
  | H, g, s :: L =>
      g first = 0 ∧ H - s.μ • (1 : Matrix m m K) = s.Q * s.R ∧ (∀ i, i ≠ first → s.R i first = 0) ∧ s.Q * s.Qinv = 1 ∧
        ShiftChain first (s.Qinv * H * s.Q) (g ᵥ* s.Q) L

/-- applying the filter factors to a scaled vector -/
theorem foldl_filter_smul (A : Matrix n n K) (shifts : List K) (c : K) (w : n → K) :
    List.foldl (fun w μ => (A - μ • (1 : Matrix n n K)) *ᵥ w) (c • w) shifts
      = c • List.foldl (fun w μ => (A - μ • (1 : Matrix n n K)) *ᵥ w) w shifts := by
  induction shifts generalizing w with
  | nil => rfl
  | cons μ L ih => simp only [List.foldl_cons, mulVec_smul, ih]

/-- **polynomial filter of `p` exact shifts**: `∏ⱼ (A - μⱼ I) v₁ = (∏ⱼ (Rⱼ)₁₁) • (V Q₁ ⋯ Q_p) e₁`
    (the factors are applied in list order; they commute, being polynomials in `A`). -/
theorem filter_list (A : Matrix n n K) (f : n → K) (first : m) (L : List (ShiftRec m K)) :
    ∀ (V : Matrix n m K) (H : Matrix m m K) (g : m → K),
      A * V = V * H + vecMulVec f g → ShiftChain first H g L →
      List.foldl (fun w μ => (A - μ • (1 : Matrix n n K)) *ᵥ w) (V *ᵥ Pi.single first 1) (L.map (·.μ))
        = (L.map (fun s => s.R first first)).prod • ((V * (L.map (·.Q)).prod) *ᵥ Pi.single first 1) := by
  induction L with
  | nil => intro V H g _ _; simp
  | cons s L ih =>
    intro V H g hfac hch
    obtain ⟨hg, hqr, hR, hQ, hrest⟩ := hch
    simp only [List.map_cons, List.foldl_cons, List.prod_cons]
    rw [filter_step A V H s.Q s.R f g first s.μ hfac hg hqr hR, foldl_filter_smul,
      ih (V * s.Q) (s.Qinv * H * s.Q) (g ᵥ* s.Q) (filter_relation A V H s.Q s.Qinv f g hfac hQ) hrest,
      smul_smul, Matrix.mul_assoc]

/-- the relation after the whole list of shifts (what the compression step of the restart starts from) -/
theorem filter_list_relation (A : Matrix n n K) (f : n → K) (first : m) (L : List (ShiftRec m K)) :
    ∀ (V : Matrix n m K) (H : Matrix m m K) (g : m → K),
      A * V = V * H + vecMulVec f g → ShiftChain first H g L →
      A * (V * (L.map (·.Q)).prod)
        = (V * (L.map (·.Q)).prod) * (L.foldl (fun H s => s.Qinv * H * s.Q) H)
          + vecMulVec f (g ᵥ* (L.map (·.Q)).prod) := by
  induction L with
  | nil => intro V H g hfac _; simpa using hfac
  | cons s L ih =>
    intro V H g hfac hch
    obtain ⟨hg, hqr, hR, hQ, hrest⟩ := hch
    have := ih (V * s.Q) (s.Qinv * H * s.Q) (g ᵥ* s.Q) (filter_relation A V H s.Q s.Qinv f g hfac hQ) hrest
    simp only [List.map_cons, List.foldl_cons, List.prod_cons]
    rw [← Matrix.mul_assoc V s.Q, this, vecMul_vecMul]

/-- consistency of the list formulation: a two-element list gives back `filter_two` -/
example (A : Matrix n n K) (V : Matrix n m K) (H Q₁ Qinv₁ R₁ Q₂ Qinv₂ R₂ : Matrix m m K) (f : n → K) (g : m → K)
    (first : m) (μ₁ μ₂ : K)
    (hfac : A * V = V * H + vecMulVec f g) (hg : g first = 0)
    (hqr₁ : H - μ₁ • (1 : Matrix m m K) = Q₁ * R₁) (hR₁ : ∀ i, i ≠ first → R₁ i first = 0) (hQ₁ : Q₁ * Qinv₁ = 1)
    (hg₂ : (g ᵥ* Q₁) first = 0)
    (hqr₂ : Qinv₁ * H * Q₁ - μ₂ • (1 : Matrix m m K) = Q₂ * R₂) (hR₂ : ∀ i, i ≠ first → R₂ i first = 0)
    (hQ₂ : Q₂ * Qinv₂ = 1) :
    (A - μ₂ • (1 : Matrix n n K)) *ᵥ ((A - μ₁ • (1 : Matrix n n K)) *ᵥ (V *ᵥ Pi.single first 1))
      = (R₁ first first * R₂ first first) • ((V * Q₁ * Q₂) *ᵥ Pi.single first 1) := by
  have h := filter_list A f first [⟨μ₁, Q₁, Qinv₁, R₁⟩, ⟨μ₂, Q₂, Qinv₂, R₂⟩] V H g hfac
    ⟨hg, hqr₁, hR₁, hQ₁, hg₂, hqr₂, hR₂, hQ₂, trivial⟩
  simpa [Matrix.mul_assoc] using h

end Filter

/-! ### Rayleigh quotient bounds; Ritz values are Rayleigh quotients -/

section Rayleigh
variable {n m k : Type} [Fintype n] [Fintype m] [Fintype k] [DecidableEq n] [DecidableEq m] [DecidableEq k]

section Ring
variable {K : Type} [CommRing K]

/-- `xᵀ (U D Uᵀ) x = Σ dᵢ yᵢ²` with `y = Uᵀ x` -/
theorem quad_form_diag (U : Matrix n k K) (d : k → K) (x : n → K) :
    x ⬝ᵥ ((U * diagonal d * Uᵀ) *ᵥ x) = ∑ i, d i * ((Uᵀ *ᵥ x) i * (Uᵀ *ᵥ x) i) := by
  rw [← mulVec_mulVec, ← mulVec_mulVec, dotProduct_mulVec, ← mulVec_transpose]
  simp only [dotProduct, mulVec_diagonal]
  exact Finset.sum_congr rfl (fun i _ => by ring)

/-- `xᵀ x = yᵀ y` with `y = Uᵀ x` when `U Uᵀ = I` -/
theorem norm_sq_orth (U : Matrix n k K) (hU : U * Uᵀ = 1) (x : n → K) :
    (Uᵀ *ᵥ x) ⬝ᵥ (Uᵀ *ᵥ x) = x ⬝ᵥ x := by
  calc (Uᵀ *ᵥ x) ⬝ᵥ (Uᵀ *ᵥ x) = (x ᵥ* U) ⬝ᵥ (Uᵀ *ᵥ x) := by rw [← mulVec_transpose]
    _ = x ⬝ᵥ x := by rw [← dotProduct_mulVec, mulVec_mulVec, hU, one_mulVec]

/-- **Ritz values are Rayleigh quotients** (numerator): `yᵀ (Vᵀ A V) y = (V y)ᵀ A (V y)`. -/
theorem ritz_is_rayleigh (A : Matrix n n K) (V : Matrix n m K) (H : Matrix m m K) (hH : H = Vᵀ * A * V) (y : m → K) :
    y ⬝ᵥ (H *ᵥ y) = (V *ᵥ y) ⬝ᵥ (A *ᵥ (V *ᵥ y)) := by
  rw [hH, ← mulVec_mulVec, ← mulVec_mulVec, dotProduct_mulVec, vecMul_transpose]

/-- (denominator): `(V y)ᵀ (V y) = yᵀ y` for orthonormal columns. -/
theorem ritz_norm (V : Matrix n m K) (hV : Vᵀ * V = 1) (y : m → K) :
    (V *ᵥ y) ⬝ᵥ (V *ᵥ y) = y ⬝ᵥ y := by
  calc (V *ᵥ y) ⬝ᵥ (V *ᵥ y) = (y ᵥ* Vᵀ) ⬝ᵥ (V *ᵥ y) := by rw [vecMul_transpose]
    _ = y ⬝ᵥ y := by rw [← dotProduct_mulVec, mulVec_mulVec, hV, one_mulVec]

end Ring

variable {K : Type} [Field K] [LinearOrder K] [IsStrictOrderedRing K]

/-- **Rayleigh quotient bounds**: if `A = U diag(d) Uᵀ`, `U Uᵀ = I` and `lo ≤ dᵢ ≤ hi` then
    `lo · xᵀx ≤ xᵀ A x ≤ hi · xᵀx`.  (`U` may be rectangular `n × k`; for square `U` the hypothesis is equivalent to
    `Uᵀ U = I`.) -/
theorem rayleigh_bounds (A : Matrix n n K) (U : Matrix n k K) (d : k → K) (hA : A = U * diagonal d * Uᵀ)
    (hU : U * Uᵀ = 1) (x : n → K) (lo hi : K) (hlo : ∀ i, lo ≤ d i) (hhi : ∀ i, d i ≤ hi) :
    lo * (x ⬝ᵥ x) ≤ x ⬝ᵥ (A *ᵥ x) ∧ x ⬝ᵥ (A *ᵥ x) ≤ hi * (x ⬝ᵥ x) := by
  rw [hA, quad_form_diag, ← norm_sq_orth U hU x]
  simp only [dotProduct, Finset.mul_sum]
  constructor
  · exact Finset.sum_le_sum (fun i _ => mul_le_mul_of_nonneg_right (hlo i) (mul_self_nonneg _))
  · exact Finset.sum_le_sum (fun i _ => mul_le_mul_of_nonneg_right (hhi i) (mul_self_nonneg _))

/-- square `U`: the hypothesis may equally be given as `Uᵀ U = I` -/
theorem rayleigh_bounds_sq (A : Matrix n n K) (U : Matrix n n K) (d : n → K) (hA : A = U * diagonal d * Uᵀ)
    (hU : Uᵀ * U = 1) (x : n → K) (lo hi : K) (hlo : ∀ i, lo ≤ d i) (hhi : ∀ i, d i ≤ hi) :
    lo * (x ⬝ᵥ x) ≤ x ⬝ᵥ (A *ᵥ x) ∧ x ⬝ᵥ (A *ᵥ x) ≤ hi * (x ⬝ᵥ x) :=
  rayleigh_bounds A U d hA (mul_eq_one_comm.mp hU) x lo hi hlo hhi

/-- the hypotheses of `rayleigh_bounds` are satisfiable: a concrete 2×2 instance over ℚ (rotation by the 3-4-5 angle,
    eigenvalues 1 and 2). -/
example :
    let U : Matrix (Fin 2) (Fin 2) ℚ := !![3/5, 4/5; -4/5, 3/5]
    let d : Fin 2 → ℚ := ![1, 2]
    let A : Matrix (Fin 2) (Fin 2) ℚ := !![41/25, 12/25; 12/25, 34/25]
    A = U * diagonal d * Uᵀ ∧ U * Uᵀ = 1 ∧ Uᵀ * U = 1 ∧ (∀ i, 1 ≤ d i) ∧ (∀ i, d i ≤ 2) := by
  intro U d A
  refine ⟨?_, ?_, ?_, ?_, ?_⟩
  · ext i j; fin_cases i <;> fin_cases j <;> simp [A, U, d, Matrix.mul_apply, Fin.sum_univ_two, vecMul_diagonal] <;> norm_num
  · ext i j; fin_cases i <;> fin_cases j <;> simp [U, Matrix.mul_apply, Fin.sum_univ_two] <;> norm_num
  · ext i j; fin_cases i <;> fin_cases j <;> simp [U, Matrix.mul_apply, Fin.sum_univ_two] <;> norm_num
  · intro i; fin_cases i <;> simp [d]
  · intro i; fin_cases i <;> simp [d]

/-- **Ritz values lie in the spectral interval**: with `H = Vᵀ A V`, `Vᵀ V = I`, `H y = θ y`, `yᵀ y > 0`
    and `A = U diag(d) Uᵀ`, `U Uᵀ = I`, `lo ≤ dᵢ ≤ hi`:  `lo ≤ θ ≤ hi`. -/
theorem ritz_value_bounds (A : Matrix n n K) (U : Matrix n k K) (d : k → K) (hA : A = U * diagonal d * Uᵀ)
    (hU : U * Uᵀ = 1) (lo hi : K) (hlo : ∀ i, lo ≤ d i) (hhi : ∀ i, d i ≤ hi)
    (V : Matrix n m K) (H : Matrix m m K) (hH : H = Vᵀ * A * V) (hV : Vᵀ * V = 1)
    (y : m → K) (θ : K) (hy : H *ᵥ y = θ • y) (hpos : 0 < y ⬝ᵥ y) :
    lo ≤ θ ∧ θ ≤ hi := by
  have hb := rayleigh_bounds A U d hA hU (V *ᵥ y) lo hi hlo hhi
  rw [← ritz_is_rayleigh A V H hH y, ritz_norm V hV y, hy, dotProduct_smul, smul_eq_mul] at hb
  exact ⟨le_of_mul_le_mul_right hb.1 hpos, le_of_mul_le_mul_right hb.2 hpos⟩

/-! ### the instance over `ℝ`: Mathlib's spectral theorem supplies `U`, `d` for every real symmetric matrix -/

/-- Mathlib's spectral theorem in the shape used above: `A = U diag(λ) Uᵀ` with `U` the matrix of eigenvectors -/
theorem spectral_real (A : Matrix n n ℝ) (hA : A.IsHermitian) :
    A = (hA.eigenvectorUnitary : Matrix n n ℝ) * diagonal hA.eigenvalues * (hA.eigenvectorUnitary : Matrix n n ℝ)ᵀ := by
  conv_lhs => rw [hA.spectral_theorem]
  rw [Unitary.conjStarAlgAut_apply]
  rfl

theorem eigenvectorUnitary_mul_transpose (A : Matrix n n ℝ) (hA : A.IsHermitian) :
    (hA.eigenvectorUnitary : Matrix n n ℝ) * (hA.eigenvectorUnitary : Matrix n n ℝ)ᵀ = 1 := by
  have := mem_unitaryGroup_iff.mp hA.eigenvectorUnitary.2
  rwa [star_eq_conjTranspose, conjTranspose_eq_transpose_of_trivial] at this

/-- **Rayleigh quotient bounds for a real symmetric matrix**, by its (Mathlib) eigenvalues. -/
theorem rayleigh_bounds_real (A : Matrix n n ℝ) (hA : A.IsHermitian) (x : n → ℝ) (lo hi : ℝ)
    (hlo : ∀ i, lo ≤ hA.eigenvalues i) (hhi : ∀ i, hA.eigenvalues i ≤ hi) :
    lo * (x ⬝ᵥ x) ≤ x ⬝ᵥ (A *ᵥ x) ∧ x ⬝ᵥ (A *ᵥ x) ≤ hi * (x ⬝ᵥ x) :=
  rayleigh_bounds A _ hA.eigenvalues (spectral_real A hA) (eigenvectorUnitary_mul_transpose A hA) x lo hi hlo hhi

/-- **Ritz values of a real symmetric matrix lie between its extreme eigenvalues.** -/
theorem ritz_value_bounds_real (A : Matrix n n ℝ) (hA : A.IsHermitian) (lo hi : ℝ)
    (hlo : ∀ i, lo ≤ hA.eigenvalues i) (hhi : ∀ i, hA.eigenvalues i ≤ hi)
    (V : Matrix n m ℝ) (H : Matrix m m ℝ) (hH : H = Vᵀ * A * V) (hV : Vᵀ * V = 1)
    (y : m → ℝ) (θ : ℝ) (hy : H *ᵥ y = θ • y) (hpos : 0 < y ⬝ᵥ y) :
    lo ≤ θ ∧ θ ≤ hi :=
  ritz_value_bounds A _ hA.eigenvalues (spectral_real A hA) (eigenvectorUnitary_mul_transpose A hA) lo hi hlo hhi
    V H hH hV y θ hy hpos

end Rayleigh

end C04Filter
