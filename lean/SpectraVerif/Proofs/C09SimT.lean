/-
  C09 (proof deepening): whole-run similarity of `TridiagEigen::compute` (model `TridiagEigen.compute`, field instance, ideal
  rotations, every outcome of every comparison): `(T₀ − P) Z = Z diag(evals)` with `P` symmetric and bounded entrywise by twice the
  magnitudes of the sub-diagonal entries the deflation passes overwrote.
-/
import SpectraVerif.Proofs.C09SimLoop

set_option linter.unusedSectionVars false
set_option linter.unusedSimpArgs false
set_option linter.unusedVariables false
set_option linter.unusedTactic false
set_option linter.unreachableTactic false
set_option linter.style.haveILetI false

namespace C09Sim
open Lin EigenPrims TridiagEigen C09Loop C09Step C09Mat C09Orth Finset
open scoped Matrix

section field
variable {K : Type} [Field K] [LinearOrder K] [IsStrictOrderedRing K] (F : FieldFns K)

theorem vget_map (f : K → K) (hf : f 0 = 0) (v : Vec K) (i : Nat) :
    @vget K (scOfField F) (v.map f) i = f (@vget K (scOfField F) v i) := by
  simp only [vget, zero, ScF.ofInt, Int.cast_zero, Array.getD_eq_getD_getElem?, Array.getElem?_map]
  cases h : v[i]? <;> simp [hf]

theorem vget_vdivs (v : Vec K) (c : K) (i : Nat) :
    @vget K (scOfField F) (vdivs v c) i = @vget K (scOfField F) v i / c :=
  vget_map F (fun a => a / c) (zero_div c) v i

theorem vget_vscale (v : Vec K) (c : K) (i : Nat) :
    @vget K (scOfField F) (vscale c v) i = @vget K (scOfField F) v i * c :=
  vget_map F (fun a => a * c) (zero_mul c) v i

theorem vget_oob (v : Vec K) (i : Nat) (h : v.size ≤ i) : @vget K (scOfField F) v i = 0 := by
  simp [vget, zero, Array.getD_eq_getD_getElem?, Array.getElem?_eq_none h]

theorem mat_identity (n : Nat) : mat n (fun i j => @Mat.get K (scOfField F) (@Mat.identity K (scOfField F) n) i j) = 1 := by
  letI : Sc K := scOfField F
  ext i j
  simp only [mat, Matrix.of_apply, Mat.identity]
  rw [ofFn_get F n n _ i.val j.val i.isLt j.isLt]
  simp [Matrix.one_apply, Fin.ext_iff, one, zero]

theorem band_smul (c : K) (d e : ℕ → K) (i j : ℕ) :
    band (fun k => c * d k) (fun k => c * e k) 0 0 i j = c * band d e 0 0 i j := by
  simp only [band]; split_ifs <;> simp

theorem mat_band_diag (n : Nat) (d e : ℕ → K) (he : ∀ k, e k = 0) :
    mat n (band d e 0 0) = Matrix.diagonal (fun i : Fin n => d i.val) := by
  ext i j
  simp only [mat, Matrix.of_apply, band, he, Matrix.diagonal_apply, Fin.ext_iff]
  split_ifs <;> simp_all

/-- the perturbation budget of a run of the scaled main loop as `compute` starts it (in units of `scale`) -/
def coreDrop (n : Nat) (d e : Vec K) : K :=
  letI : Sc K := scOfField F
  mainLoopDrop F n (Sc.minPos : K) (one / Sc.eps) (30 * n + 1) (n - 1) 0 0 (vdivs d (scaleOf d e)) (vdivs e (scaleOf d e))
    (Mat.identity n)

/-- **the perturbation budget of `compute`**: in the tiny-matrix early exit (`scale < 10·min`: the input is treated as `0`) the
    whole input, otherwise `scale ·` the sum over all deflation passes of the magnitudes of the overwritten sub-diagonal entries -/
def totalDrop (n : Nat) (d e : Vec K) : K :=
  letI : Sc K := scOfField F
  if Sc.lt (scaleOf d e) (Sc.minPos * Sc.ofInt 10 : K) then
    ∑ k ∈ range n, |vget d k| + ∑ k ∈ range (n - 1), |vget e k|
  else scaleOf d e * coreDrop F n d e

theorem core_sim (hu : UnitRot F) (n : Nat) (hn : 0 < n) (d e : Vec K) (hd : d.size = n) (he : e.size = n - 1) :
    ∃ P : Matrix (Fin n) (Fin n) K, Pᵀ = P ∧
      TInv F n (mat n (band (fun k => @vget K (scOfField F) d k / @scaleOf K (scOfField F) d e)
          (fun k => @vget K (scOfField F) e k / @scaleOf K (scOfField F) d e) 0 0) - P)
        (@core K _ _ _ _ _ (scOfField F) n d e).diag (@core K _ _ _ _ _ (scOfField F) n d e).sub
        (@core K _ _ _ _ _ (scOfField F) n d e).q ∧
      ∀ i j, |P i j| ≤ 2 * coreDrop F n d e := by
  letI : Sc K := scOfField F
  have h0 : TInv F n (mat n (band (fun k => vget d k / scaleOf d e) (fun k => vget e k / scaleOf d e) 0 0) - 0)
      (vdivs d (scaleOf d e)) (vdivs e (scaleOf d e)) (Mat.identity n) := by
    refine ⟨by simp [vdivs, hd], by simp [vdivs, he], colsOrth_identity F n, ?_⟩
    rw [mat_identity, Matrix.transpose_one, Matrix.one_mul, Matrix.mul_one, sub_zero]
    apply mat_congr; intro i j _ _
    simp only [band, vget_vdivs]
  obtain ⟨P, hP, hT, hb⟩ := mainLoop_sim F hu n _ (Sc.minPos : K) (one / Sc.eps) (30 * n + 1) (n - 1) 0 0 _ _ _ 0
    (Matrix.transpose_zero) h0 (by omega) (fun j hj => vget_oob F _ j (by simp [vdivs, he]; omega))
  refine ⟨P, hP, hT, fun i j => ?_⟩
  have := hb i j
  simpa [coreDrop] using this

/-- **Whole-run decomposition, matrix form.**  `(T₀ − P) Z = Z D`, `ZᵀZ = ZZᵀ = 1`, `P` symmetric, `|Pᵢⱼ| ≤ 2·totalDrop`. -/
theorem compute_sim (hu : UnitRot F) (hmin : 0 < F.minPos) (n : Nat) (hn : 0 < n) (d e : Vec K) (hd : d.size = n)
    (he : e.size = n - 1) (r : Decomp K) (hok : @compute K _ _ _ _ _ (scOfField F) n d e = Res.ok r) :
    ∃ P : Matrix (Fin n) (Fin n) K, Pᵀ = P ∧ (∀ i j, |P i j| ≤ 2 * totalDrop F n d e) ∧
      (mat n (band (@vget K (scOfField F) d) (@vget K (scOfField F) e) 0 0) - P) * mat n (fun i j => @Mat.get K (scOfField F) r.evecs i j) =
        mat n (fun i j => @Mat.get K (scOfField F) r.evecs i j) * Matrix.diagonal (fun i : Fin n => @vget K (scOfField F) r.evals i.val) ∧
      (mat n (fun i j => @Mat.get K (scOfField F) r.evecs i j))ᵀ * mat n (fun i j => @Mat.get K (scOfField F) r.evecs i j) = 1 ∧
      mat n (fun i j => @Mat.get K (scOfField F) r.evecs i j) * (mat n (fun i j => @Mat.get K (scOfField F) r.evecs i j))ᵀ = 1 := by
  letI : Sc K := scOfField F
  have horth := colsOrth_mat F n r.evecs (compute_orth F hu n hn d e r hok)
  have horth' := mul_eq_one_comm.mp horth
  simp only [compute] at hok
  split at hok
  · -- tiny-matrix early exit: everything is dropped
    rename_i hs
    cases hok
    refine ⟨mat n (band (vget d) (vget e) 0 0), ?_, ?_, ?_, horth, horth'⟩
    · ext i j; simp only [Matrix.transpose_apply, mat, Matrix.of_apply]; exact band_symm _ _ _ _ _ _
    · intro i j
      simp only [totalDrop, if_pos hs, mat, Matrix.of_apply]
      have h1 : ∀ k, k < n → |vget d k| ≤ ∑ k ∈ range n, |vget d k| := fun k hk =>
        Finset.single_le_sum (f := fun k => |vget d k|) (fun _ _ => abs_nonneg _) (Finset.mem_range.mpr hk)
      have h2 : ∀ k, k < n - 1 → |vget e k| ≤ ∑ k ∈ range (n - 1), |vget e k| := fun k hk =>
        Finset.single_le_sum (f := fun k => |vget e k|) (fun _ _ => abs_nonneg _) (Finset.mem_range.mpr hk)
      have p1 : 0 ≤ ∑ k ∈ range n, |vget d k| := Finset.sum_nonneg (fun _ _ => abs_nonneg _)
      have p2 : 0 ≤ ∑ k ∈ range (n - 1), |vget e k| := Finset.sum_nonneg (fun _ _ => abs_nonneg _)
      have hi := i.isLt
      have hj := j.isLt
      simp only [band]
      split_ifs with c1 c2 c3 c4
      · have := h1 i.val hi; linarith
      · have := h2 j.val (by omega); linarith
      · have := h2 i.val (by omega); linarith
      · simp only [abs_zero]; linarith
      · simp only [abs_zero]; linarith
    · rw [sub_self, Matrix.zero_mul]
      ext i j
      simp only [Matrix.mul_apply, Matrix.diagonal_apply, vzero, vget, zero, ScF.ofInt, Int.cast_zero, Matrix.zero_apply]
      symm; apply Finset.sum_eq_zero; intro a _
      split_ifs <;> simp
  · rename_i hs
    split at hok
    · rename_i hdone
      cases hok
      -- scale > 0
      have hsc : 0 < scaleOf d e := by
        simp only [ScF.lt, ScF.minPos, ScF.ofInt, decide_eq_true_eq, not_lt] at hs
        have : (0 : K) < F.minPos * ((10 : ℤ) : K) := mul_pos hmin (by norm_num)
        linarith
      have hsc0 : scaleOf d e ≠ 0 := ne_of_gt hsc
      obtain ⟨P, hP, ⟨hd', hs', orth, sim⟩, hb⟩ := core_sim F hu n hn d e hd he
      -- all sub-diagonal entries of the final state are zero
      have hzero : ∀ k, vget (core n d e).sub k = 0 := by
        intro k
        by_cases hk : k < n - 1
        · have := mainLoop_done n (n - 1) (Sc.minPos : K) (one / Sc.eps) (30 * n + 1) (n - 1) 0 0 (vdivs d (scaleOf d e))
            (vdivs e (scaleOf d e)) (Mat.identity n) (fun j hj hb => by omega) (by simpa [core] using hdone) k hk
          simpa [eqz, zero, core] using this
        · exact vget_oob F _ k (by rw [hs']; omega)
      rw [mat_band_diag n _ _ hzero] at sim
      generalize hQdef : mat n (fun i j => (core n d e).q.get i j) = Q at sim horth horth'
      generalize hAdef : mat n (band (fun k => vget d k / scaleOf d e) (fun k => vget e k / scaleOf d e) 0 0) = A at sim
      have hT0 : mat n (band (vget d) (vget e) 0 0) = scaleOf d e • A := by
        rw [← hAdef]; ext i j
        simp only [mat, Matrix.of_apply, Matrix.smul_apply, smul_eq_mul]
        rw [← band_smul]
        congr 1 <;> funext k <;> field_simp
      have hAQ : (A - P) * Q = Q * Matrix.diagonal (fun i : Fin n => vget (core n d e).diag i.val) := by
        rw [← sim, ← Matrix.mul_assoc, ← Matrix.mul_assoc, horth', Matrix.one_mul]
      refine ⟨scaleOf d e • P, ?_, ?_, ?_, horth, horth'⟩
      · rw [Matrix.transpose_smul, hP]
      · intro i j
        rw [Matrix.smul_apply, smul_eq_mul, abs_mul, abs_of_pos hsc]
        simp only [totalDrop, if_neg hs]
        have := mul_le_mul_of_nonneg_left (hb i j) (le_of_lt hsc)
        linarith
      · rw [hT0, ← smul_sub, Matrix.smul_mul, hAQ, ← Matrix.mul_smul]
        congr 1
        ext i j
        simp only [Matrix.smul_apply, Matrix.diagonal_apply, smul_eq_mul, vget_vscale]
        split_ifs with hij
        · rw [hij]; ring
        · simp
    · cases hok

end field
end C09Sim
