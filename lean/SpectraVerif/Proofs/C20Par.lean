/-
  Non-interference lemmas for `Model/Par.lean` (C20): every interleaving of independent threads ends in the states of
  the threads' solo runs.  General in the number of threads (any index type), the actions, the schedule and its length.
-/
import SpectraVerif.Model.Par

namespace Par

section typed
variable {ι : Type} [DecidableEq ι] {S : Type} {σ : ι → Type}

@[simp] theorem upd_same (c : (j : ι) → σ j) (i : ι) (v : σ i) : upd c i v i = v := by
  simp [upd]

@[simp] theorem upd_other (c : (j : ι) → σ j) (i j : ι) (v : σ i) (h : j ≠ i) : upd c i v j = c j := by
  simp [upd, h]

theorem exec_cons (sh : S) (a : Act ι S σ) (tr : List (Act ι S σ)) (c : (j : ι) → σ j) :
    exec sh (a :: tr) c = exec sh tr (stepG sh a c) := rfl

theorem runSeq_cons {τ : Type} (sh : S) (f : S → τ → τ) (p : List (S → τ → τ)) (s : τ) :
    runSeq sh (f :: p) s = runSeq sh p (f sh s) := rfl

theorem proj_cons_same (i : ι) (f : S → σ i → σ i) (tr : List (Act ι S σ)) :
    proj i ((⟨i, f⟩ : Act ι S σ) :: tr) = f :: proj i tr := by
  simp [proj]

theorem proj_cons_other (i : ι) (a : Act ι S σ) (tr : List (Act ι S σ)) (h : a.tid ≠ i) :
    proj i (a :: tr) = proj i tr := by
  simp [proj, h]

/-- component `i` of the result of ANY global trace = thread `i`'s own actions run alone on its own initial state -/
theorem exec_proj (sh : S) (tr : List (Act ι S σ)) (c : (j : ι) → σ j) (i : ι) :
    exec sh tr c i = runSeq sh (proj i tr) (c i) := by
  induction tr generalizing c with
  | nil => rfl
  | cons a tr ih =>
    rw [exec_cons, ih]
    obtain ⟨t, f⟩ := a
    by_cases h : t = i
    · subst h
      rw [proj_cons_same, runSeq_cons]; simp [stepG]
    · rw [proj_cons_other _ _ _ h]; simp [stepG, upd_other _ _ _ _ (Ne.symm h)]

/-- an interleaving (inductive merge) of per-thread programs projects back onto those programs -/
theorem merge_proj {progs : (i : ι) → List (S → σ i → σ i)} {tr : List (Act ι S σ)} (h : Merge progs tr) (j : ι) :
    proj j tr = progs j := by
  induction h with
  | nil => rfl
  | cons i f progs tr _ ih =>
    by_cases hj : i = j
    · subst hj; rw [proj_cons_same, ih]; simp
    · rw [proj_cons_other _ _ _ hj, ih, upd_other _ _ _ _ (Ne.symm hj)]

/-- conversely every trace is an interleaving of its own projections (so `Merge` describes exactly all schedules) -/
theorem merge_of_trace (tr : List (Act ι S σ)) : Merge (fun i => proj i tr) tr := by
  induction tr with
  | nil => exact Merge.nil
  | cons a tr ih =>
    obtain ⟨t, f⟩ := a
    have := Merge.cons t f _ tr ih
    have e : (upd (σ := fun i => List (S → σ i → σ i)) (fun i => proj i tr) t (f :: proj t tr)) = fun i => proj i (⟨t, f⟩ :: tr) := by
      funext j
      by_cases hj : t = j
      · subst hj; rw [proj_cons_same]; simp
      · rw [proj_cons_other _ _ _ hj, upd_other _ _ _ _ (Ne.symm hj)]
    rw [← e]; exact this

theorem proj_append (i : ι) (l₁ l₂ : List (Act ι S σ)) : proj i (l₁ ++ l₂) = proj i l₁ ++ proj i l₂ := by
  induction l₁ with
  | nil => rfl
  | cons a l ih =>
    obtain ⟨t, f⟩ := a
    by_cases h : t = i
    · subst h; rw [List.cons_append, proj_cons_same, proj_cons_same, ih]; rfl
    · rw [List.cons_append, proj_cons_other _ _ _ h, proj_cons_other _ _ _ h, ih]

theorem proj_block_same (i : ι) (p : List (S → σ i → σ i)) :
    proj i (p.map (fun f => (⟨i, f⟩ : Act ι S σ))) = p := by
  induction p with
  | nil => rfl
  | cons f p ih => rw [List.map_cons, proj_cons_same, ih]

theorem proj_block_other (i j : ι) (p : List (S → σ j → σ j)) (h : j ≠ i) :
    proj i (p.map (fun f => (⟨j, f⟩ : Act ι S σ))) = [] := by
  induction p with
  | nil => rfl
  | cons f p ih => rw [List.map_cons, proj_cons_other _ _ _ h, ih]

omit [DecidableEq ι] in
theorem seqTrace_cons (progs : (i : ι) → List (S → σ i → σ i)) (j : ι) (order : List ι) :
    seqTrace progs (j :: order) = (progs j).map (fun f => (⟨j, f⟩ : Act ι S σ)) ++ seqTrace progs order := by
  simp [seqTrace]

theorem proj_seqTrace_notin (progs : (i : ι) → List (S → σ i → σ i)) (order : List ι) (i : ι) (h : i ∉ order) :
    proj i (seqTrace progs order) = [] := by
  induction order with
  | nil => rfl
  | cons j order ih =>
    have hj : j ≠ i := fun e => h (by simp [e])
    rw [seqTrace_cons, proj_append, proj_block_other _ _ _ hj, ih (fun m => h (List.mem_cons_of_mem _ m))]; rfl

/-- the sequential schedule (threads one after another, in any duplicate-free order) is itself an interleaving of the programs -/
theorem proj_seqTrace (progs : (i : ι) → List (S → σ i → σ i)) (order : List ι) (hnd : order.Nodup) (i : ι) (hi : i ∈ order) :
    proj i (seqTrace progs order) = progs i := by
  induction order with
  | nil => cases hi
  | cons j order ih =>
    rw [List.nodup_cons] at hnd
    rw [seqTrace_cons, proj_append]
    by_cases hj : j = i
    · subst hj
      rw [proj_block_same, proj_seqTrace_notin _ _ _ hnd.1, List.append_nil]
    · rw [proj_block_other _ _ _ hj, List.nil_append]
      exact ih hnd.2 (by cases hi with | head => exact absurd rfl hj | tail _ m => exact m)

end typed

section memory
variable {ι : Type} [DecidableEq ι] {Loc Val : Type}

/-- two stores agree on what thread `i` may read -/
def Agree (L : Layout ι Loc) (i : ι) (m m' : Mem Loc Val) : Prop := ∀ l, L.priv i l ∨ L.shared l → m l = m' l

omit [DecidableEq ι] in
theorem mexec_cons (a : MAct ι Loc Val) (tr : List (MAct ι Loc Val)) (m : Mem Loc Val) :
    mexec (a :: tr) m = mexec tr (a.f m) := rfl

/-- simulation: the full interleaved run and thread `i`'s solo run stay in agreement on `priv i ∪ shared` -/
theorem agree_mexec (L : Layout ι Loc) (tr : List (MAct ι Loc Val)) (hloc : ∀ a ∈ tr, Local L a) (i : ι)
    (m m' : Mem Loc Val) (h : Agree L i m m') : Agree L i (mexec tr m) (mexec (mproj i tr) m') := by
  induction tr generalizing m m' with
  | nil => exact h
  | cons a tr ih =>
    have ha : Local L a := hloc a (by simp)
    have htr : ∀ b ∈ tr, Local L b := fun b hb => hloc b (List.mem_cons_of_mem _ hb)
    by_cases e : a.tid = i
    · have : mproj i (a :: tr) = a :: mproj i tr := by simp [mproj, e]
      rw [this, mexec_cons, mexec_cons]
      apply ih htr
      intro l hl
      cases hl with
      | inl hp => exact ha.locality m m' (by rw [e]; exact h) l (by rw [e]; exact hp)
      | inr hs =>
        have np : ¬ L.priv a.tid l := fun hp => L.disjS _ _ hp hs
        rw [ha.frame m l np, ha.frame m' l np]; exact h l (Or.inr hs)
    · have : mproj i (a :: tr) = mproj i tr := by simp [mproj, e]
      rw [this, mexec_cons]
      apply ih htr
      intro l hl
      have np : ¬ L.priv a.tid l := by
        intro hp
        cases hl with
        | inl hpi => exact L.disj _ _ _ e hp hpi
        | inr hs => exact L.disjS _ _ hp hs
      rw [ha.frame m l np]; exact h l hl

omit [DecidableEq ι] in
/-- a trace all of whose actions are local changes nothing outside the private sets of the threads that act in it -/
theorem mexec_frame (L : Layout ι Loc) (tr : List (MAct ι Loc Val)) (hloc : ∀ a ∈ tr, Local L a) (m : Mem Loc Val) (l : Loc)
    (hl : ∀ a ∈ tr, ¬ L.priv a.tid l) : mexec tr m l = m l := by
  induction tr generalizing m with
  | nil => rfl
  | cons a tr ih =>
    rw [mexec_cons, ih (fun b hb => hloc b (List.mem_cons_of_mem _ hb)) _ (fun b hb => hl b (List.mem_cons_of_mem _ hb))]
    exact (hloc a (by simp)).frame m l (hl a (by simp))

end memory

/-! ### the executable schedule runner agrees with solo runs -/

theorem runSchedule_size (step : Int → Int → Int) (sh : Int) (sched : List Nat) (st : Array Int) :
    (runSchedule step sh sched st).size = st.size := by
  induction sched generalizing st with
  | nil => rfl
  | cons i sched ih =>
    simp only [runSchedule, List.foldl_cons] at ih ⊢
    split
    · rw [ih]; simp
    · rw [ih]

theorem runAlone_succ (step : Int → Int → Int) (sh : Int) (k : Nat) (s : Int) :
    runAlone step sh (k + 1) s = runAlone step sh k (step sh s) := rfl

/-- component `i` after any schedule = `count i` solo steps from its initial value -/
theorem runSchedule_get (step : Int → Int → Int) (sh : Int) (sched : List Nat) (st : Array Int) (i : Nat) (hi : i < st.size) :
    (runSchedule step sh sched st)[i]'(by rw [runSchedule_size]; exact hi) = runAlone step sh (sched.count i) st[i] := by
  induction sched generalizing st with
  | nil => rfl
  | cons j sched ih =>
    simp only [runSchedule, List.foldl_cons] at ih ⊢
    by_cases hj : j < st.size
    · simp only [hj, dite_true]
      have hi' : i < (st.set j (step sh st[j])).size := by simp [hi]
      rw [ih _ hi']
      by_cases e : j = i
      · subst e; simp [runAlone_succ]
      · have : (List.count i (j :: sched)) = List.count i sched := by simp [e]
        rw [this]; simp [Array.getElem_set, e]
    · simp only [hj, dite_false]
      rw [ih _ hi]
      have e : j ≠ i := fun e => hj (e ▸ hi)
      simp [e]

end Par
