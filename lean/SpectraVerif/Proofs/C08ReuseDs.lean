/-
  C08 helper: `DoubleShiftQR::compute()` called on an object that already holds a factorization (`DoubleShiftQR.recompute` of
  Model/DoubleShiftQR.lean).  Unlike the Givens classes the reflector store is NOT rebuilt completely: `m_ref_u` / `m_ref_nr` keep
  their contents across `resize` of the same size, `update_block` writes `nr[il..iu]` for every block but column `i` of `m_ref_u`
  only when `nr[i] ≥ 2`, so columns with `nr = 1` hold stale reflectors of the earlier factorization.  Proved here, for every
  scalar type and `Sc` instance, every old object and every junk: the relation "same counts, same reflector wherever the count is
  not 1" (`Rel`) is established index by index by `compute_reflector` (`cRef_congr`), is all that `apply_PX / apply_XP /
  apply_PX_vec` read (`apply_*_congr`), hence `update_block` returns the same matrix (`update_block_congr`), the blocks cover
  `0 … n−1` (`blocks_congr` with the `zero_ind` invariant `ZI`), and every query answers as on a fresh object (`dsqr_recompute`).
  Core Lean only (no Mathlib).
-/
import SpectraVerif.Model.DoubleShiftQR
import SpectraVerif.Proofs.C08Mat

set_option linter.unusedSectionVars false
set_option linter.unusedSimpArgs false
set_option linter.unusedVariables false

namespace C08ReuseDs
open Lin QRModel QRModel.DoubleShiftQR C08Mat

variable {α : Type} [Add α] [Sub α] [Mul α] [Div α] [Neg α] [Sc α]

theorem getD_set (a : Array Nat) (i k v : Nat) :
    (a.setIfInBounds i v).getD k 0 = if k = i ∧ i < a.size then v else a.getD k 0 := by
  simp only [Array.getD_eq_getD_getElem?, Array.getElem?_setIfInBounds]
  by_cases h : i = k
  · subst h; by_cases h2 : i < a.size <;> simp [h2]
  · have : ¬ k = i := fun e => h e.symm
    simp [h, this]

/-- the three entries of column `j` of the reflector store agree -/
def colEq (u u' : Mat α) (j : Nat) : Prop := u.get 0 j = u'.get 0 j ∧ u.get 1 j = u'.get 1 j ∧ u.get 2 j = u'.get 2 j

theorem get_oob {u : Mat α} (hw : WF u) (hr : u.rows = 3) {i j : Nat} (hj : u.cols ≤ j) : u.get i j = zero := by
  unfold Mat.get
  have : u.d.size ≤ i + j * u.rows := by
    rw [hw, hr]
    have : 3 * u.cols ≤ 3 * j := Nat.mul_le_mul_left 3 hj
    omega
  simp [Array.getD_eq_getD_getElem?, Array.getElem?_eq_none this]

/-- the two `(m_ref_u, m_ref_nr)` stores agree on the index set `S`: same row counts there, and the same reflector wherever the
    count is not 1 (a column with `nr = 1` is never read) -/
structure Rel (S : Nat → Prop) (u u' : Mat α) (nr nr' : Array Nat) : Prop where
  wf : WF u
  wf' : WF u'
  rows : u.rows = 3
  rows' : u'.rows = 3
  cols : u.cols = nr.size
  cols' : u'.cols = nr'.size
  size : nr.size = nr'.size
  nrEq : ∀ j, S j → nr.getD j 0 = nr'.getD j 0
  uEq : ∀ j, S j → nr.getD j 0 ≠ 1 → colEq u u' j

theorem Rel.mono {S T : Nat → Prop} {u u' : Mat α} {nr nr' : Array Nat} (h : Rel S u u' nr nr') (hst : ∀ j, T j → S j) :
    Rel T u u' nr nr' :=
  ⟨h.wf, h.wf', h.rows, h.rows', h.cols, h.cols', h.size, fun j hj => h.nrEq j (hst j hj), fun j hj => h.uEq j (hst j hj)⟩

/-- `nr[ind] = 1` on both sides -/
theorem Rel.setOne {S : Nat → Prop} {u u' : Mat α} {nr nr' : Array Nat} (h : Rel S u u' nr nr') (ind : Nat) :
    Rel (fun j => S j ∨ j = ind) u u' (nr.setIfInBounds ind 1) (nr'.setIfInBounds ind 1) := by
  refine ⟨h.wf, h.wf', h.rows, h.rows', by simp [h.cols], by simp [h.cols'], by simp [h.size], ?_, ?_⟩
  · intro j hj
    rw [getD_set, getD_set, ← h.size]
    by_cases e : j = ind ∧ ind < nr.size
    · simp [e]
    · rw [if_neg e, if_neg e]
      rcases hj with hj | hj
      · exact h.nrEq j hj
      · subst hj
        have : nr.size ≤ j := by omega
        have h2 : nr'.size ≤ j := by rw [← h.size]; exact this
        simp [Array.getD_eq_getD_getElem?, Array.getElem?_eq_none this, Array.getElem?_eq_none h2]
  · intro j hj hne
    rw [getD_set] at hne
    by_cases e : j = ind ∧ ind < nr.size
    · rw [if_pos e] at hne; exact absurd rfl hne
    · rw [if_neg e] at hne
      rcases hj with hj | hj
      · exact h.uEq j hj hne
      · subst hj
        have hc : u.cols ≤ j := by rw [h.cols]; omega
        have hc' : u'.cols ≤ j := by rw [h.cols', ← h.size]; omega
        exact ⟨by rw [get_oob h.wf h.rows hc, get_oob h.wf' h.rows' hc'], by rw [get_oob h.wf h.rows hc, get_oob h.wf' h.rows' hc'],
               by rw [get_oob h.wf h.rows hc, get_oob h.wf' h.rows' hc']⟩

/-- writing the same column into both stores -/
theorem set3 {u : Mat α} (hw : WF u) (hr : u.rows = 3) (ind : Nat) (w1 w2 w3 : α) :
    WF (((u.set 0 ind w1).set 1 ind w2).set 2 ind w3) ∧ (((u.set 0 ind w1).set 1 ind w2).set 2 ind w3).rows = 3 ∧
    (((u.set 0 ind w1).set 1 ind w2).set 2 ind w3).cols = u.cols ∧
    (ind < u.cols → (((u.set 0 ind w1).set 1 ind w2).set 2 ind w3).get 0 ind = w1 ∧
                    (((u.set 0 ind w1).set 1 ind w2).set 2 ind w3).get 1 ind = w2 ∧
                    (((u.set 0 ind w1).set 1 ind w2).set 2 ind w3).get 2 ind = w3) ∧
    (∀ i j, i < 3 → j ≠ ind → (((u.set 0 ind w1).set 1 ind w2).set 2 ind w3).get i j = u.get i j) := by
  have w1' := set_WF hw 0 ind w1
  have w2' := set_WF w1' 1 ind w2
  have w3' := set_WF w2' 2 ind w3
  refine ⟨w3', by simp [hr], by simp, ?_, ?_⟩
  · intro hj
    refine ⟨?_, ?_, ?_⟩
    · rw [get_set w2' _ (by simp [hr]) (by simpa using hj) (by simp [hr]) (by simpa using hj), if_neg (by omega),
          get_set w1' _ (by simp [hr]) (by simpa using hj) (by simp [hr]) (by simpa using hj), if_neg (by omega),
          get_set hw _ (by simp [hr]) hj (by simp [hr]) hj, if_pos ⟨rfl, rfl⟩]
    · rw [get_set w2' _ (by simp [hr]) (by simpa using hj) (by simp [hr]) (by simpa using hj), if_neg (by omega),
          get_set w1' _ (by simp [hr]) (by simpa using hj) (by simp [hr]) (by simpa using hj), if_pos ⟨rfl, rfl⟩]
    · rw [get_set w2' _ (by simp [hr]) (by simpa using hj) (by simp [hr]) (by simpa using hj), if_pos ⟨rfl, rfl⟩]
  · intro i j hi hne
    by_cases hind : ind < u.cols
    · by_cases hj : j < u.cols
      · rw [get_set w2' _ (by simp [hr]) (by simpa using hind) (by simp [hr]; omega) (by simpa using hj), if_neg (by omega),
            get_set w1' _ (by simp [hr]) (by simpa using hind) (by simp [hr]; omega) (by simpa using hj), if_neg (by omega),
            get_set hw _ (by simp [hr]) hind (by simp [hr]; omega) hj, if_neg (by omega)]
      · rw [get_oob w3' (by simp [hr]) (by simpa using Nat.le_of_not_lt hj), get_oob hw hr (Nat.le_of_not_lt hj)]
    · rw [set_oob _ 2 ind w3 (by simp; omega), set_oob _ 1 ind w2 (by simp; omega), set_oob _ 0 ind w1 (by omega)]

/-! ### `compute_reflector`: what it stores depends on `(x1, x2, x3)` only -/

def refC (x2 x3 : α) : Bool := Sc.lt (Sc.abs x2) (near0 : α) && Sc.lt (Sc.abs x3) (near0 : α)
def refK (x3 : α) : Nat := if Sc.lt (Sc.abs x3) (near0 : α) then 2 else 3
def refW (x1 x2 x3 : α) : α × α × α :=
  let x2m := Sc.abs x2; let x3m := Sc.abs x3
  let x_norm := if Sc.lt x3m near0 then eigenHypot x1 x2 else Gen.Refl.stable_norm3 x1 x2 x3
  let rho : α := if Sc.le x1 zero then one else Sc.ofInt (-1)
  let x1_new := x1 - rho * x_norm
  let x1m := Sc.abs x1_new
  if Sc.ge x1m x2m && Sc.ge x1m x3m then Gen.Refl.stable_scaling x1_new x2 x3
  else if Sc.ge x2m x1m && Sc.ge x2m x3m then
    let r := Gen.Refl.stable_scaling x2 x1_new x3; (r.2.1, r.1, r.2.2)
  else
    let r := Gen.Refl.stable_scaling x3 x1_new x2; (r.2.1, r.2.2, r.1)

theorem computeReflector_eq (u : Mat α) (nr : Array Nat) (x1 x2 x3 : α) (ind : Nat) :
    computeReflector u nr x1 x2 x3 ind =
      if refC x2 x3 then (u, nr.setIfInBounds ind 1)
      else (((u.set 0 ind (refW x1 x2 x3).1).set 1 ind (refW x1 x2 x3).2.1).set 2 ind (refW x1 x2 x3).2.2, nr.setIfInBounds ind (refK x3)) := by
  rfl

theorem refK_ne_one (x3 : α) : refK x3 ≠ 1 := by unfold refK; split <;> omega

theorem cRef_congr {S : Nat → Prop} {u u' : Mat α} {nr nr' : Array Nat} (h : Rel S u u' nr nr') (x1 x2 x3 : α) (ind : Nat) :
    Rel (fun j => S j ∨ j = ind) (computeReflector u nr x1 x2 x3 ind).1 (computeReflector u' nr' x1 x2 x3 ind).1
      (computeReflector u nr x1 x2 x3 ind).2 (computeReflector u' nr' x1 x2 x3 ind).2 := by
  rw [computeReflector_eq, computeReflector_eq]
  by_cases hc : refC x2 x3 = true
  · rw [if_pos hc, if_pos hc]; exact h.setOne ind
  · rw [if_neg hc, if_neg hc]
    generalize (refW x1 x2 x3).1 = w1
    generalize (refW x1 x2 x3).2.1 = w2
    generalize (refW x1 x2 x3).2.2 = w3
    obtain ⟨a1, a2, a3, a4, a5⟩ := set3 h.wf h.rows ind w1 w2 w3
    obtain ⟨b1, b2, b3, b4, b5⟩ := set3 h.wf' h.rows' ind w1 w2 w3
    refine ⟨a1, b1, a2, b2, by simp [h.cols], by simp [h.cols'], by simp [h.size], ?_, ?_⟩
    · intro j hj
      show (nr.setIfInBounds ind _).getD j 0 = (nr'.setIfInBounds ind _).getD j 0
      rw [getD_set, getD_set, ← h.size]
      by_cases e : j = ind ∧ ind < nr.size
      · simp [e]
      · rw [if_neg e, if_neg e]
        rcases hj with hj | hj
        · exact h.nrEq j hj
        · subst hj
          have : nr.size ≤ j := by omega
          have h2 : nr'.size ≤ j := by rw [← h.size]; exact this
          simp [Array.getD_eq_getD_getElem?, Array.getElem?_eq_none this, Array.getElem?_eq_none h2]
    · intro j hj hne
      by_cases e : j = ind
      · subst e
        by_cases hin : j < u.cols
        · have hin' : j < u'.cols := by rw [h.cols', ← h.size, ← h.cols]; exact hin
          obtain ⟨p1, p2, p3⟩ := a4 hin
          obtain ⟨q1, q2, q3⟩ := b4 hin'
          exact ⟨by rw [p1, q1], by rw [p2, q2], by rw [p3, q3]⟩
        · have hc1 : u.cols ≤ j := Nat.le_of_not_lt hin
          have hc2 : u'.cols ≤ j := by rw [h.cols', ← h.size, ← h.cols]; exact hc1
          exact ⟨by rw [get_oob a1 a2 (by rw [a3]; exact hc1), get_oob b1 b2 (by rw [b3]; exact hc2)],
                 by rw [get_oob a1 a2 (by rw [a3]; exact hc1), get_oob b1 b2 (by rw [b3]; exact hc2)],
                 by rw [get_oob a1 a2 (by rw [a3]; exact hc1), get_oob b1 b2 (by rw [b3]; exact hc2)]⟩
      · have hS : S j := by rcases hj with hj | hj; exact hj; exact absurd hj e
        have hne' : nr.getD j 0 ≠ 1 := by
          have : (nr.setIfInBounds ind (refK x3)).getD j 0 = nr.getD j 0 := by rw [getD_set, if_neg (fun c => e c.1)]
          rw [← this]; exact hne
        obtain ⟨c1, c2, c3⟩ := h.uEq j hS hne'
        exact ⟨by rw [a5 0 j (by omega) e, b5 0 j (by omega) e]; exact c1, by rw [a5 1 j (by omega) e, b5 1 j (by omega) e]; exact c2,
               by rw [a5 2 j (by omega) e, b5 2 j (by omega) e]; exact c3⟩

/-! ### the three appliers read `nr[ind]` and, unless it is 1, column `ind` of the store — nothing else -/

theorem apply_PX_congr (H u u' : Mat α) (nr nr' : Array Nat) (r0 c0 nrow ncol ind : Nat)
    (h1 : nr.getD ind 0 = nr'.getD ind 0) (h2 : nr.getD ind 0 ≠ 1 → colEq u u' ind) :
    apply_PX H u nr r0 c0 nrow ncol ind = apply_PX H u' nr' r0 c0 nrow ncol ind := by
  unfold apply_PX
  rw [← h1]
  by_cases hk : nr.getD ind 0 = 1
  · simp [hk]
  · obtain ⟨e0, e1, e2⟩ := h2 hk
    rw [e0, e1, e2]

theorem apply_XP_congr (H u u' : Mat α) (nr nr' : Array Nat) (r0 c0 nrow ncol ind : Nat)
    (h1 : nr.getD ind 0 = nr'.getD ind 0) (h2 : nr.getD ind 0 ≠ 1 → colEq u u' ind) :
    apply_XP H u nr r0 c0 nrow ncol ind = apply_XP H u' nr' r0 c0 nrow ncol ind := by
  unfold apply_XP
  rw [← h1]
  by_cases hk : nr.getD ind 0 = 1
  · simp [hk]
  · obtain ⟨e0, e1, e2⟩ := h2 hk
    rw [e0, e1, e2]

theorem apply_PX_vec_congr (u u' : Mat α) (nr nr' : Array Nat) (y : Vec α) (off ind : Nat)
    (h1 : nr.getD ind 0 = nr'.getD ind 0) (h2 : nr.getD ind 0 ≠ 1 → colEq u u' ind) :
    apply_PX_vec u nr y off ind = apply_PX_vec u' nr' y off ind := by
  unfold apply_PX_vec
  rw [← h1]
  by_cases hk : nr.getD ind 0 = 1
  · simp [hk]
  · obtain ⟨e0, e1, e2⟩ := h2 hk
    rw [e0, e1, e2]

/-! ### `update_block`: the matrix it returns does not depend on the stores it starts from; the stores agree on every index written -/

def RelSt (S : Nat → Prop) (st st' : St α) : Prop := st.1 = st'.1 ∧ Rel S st.2.1 st'.2.1 st.2.2 st'.2.2

theorem step_congr {S : Nat → Prop} {u u' : Mat α} {nr nr' : Array Nat} (hR : Rel S u u' nr nr') (H : Mat α) (x1 x2 x3 : α)
    (ind a1 a2 a3 a4 b1 b2 b3 b4 : Nat) :
    apply_XP (apply_PX H (computeReflector u nr x1 x2 x3 ind).1 (computeReflector u nr x1 x2 x3 ind).2 a1 a2 a3 a4 ind)
      (computeReflector u nr x1 x2 x3 ind).1 (computeReflector u nr x1 x2 x3 ind).2 b1 b2 b3 b4 ind =
    apply_XP (apply_PX H (computeReflector u' nr' x1 x2 x3 ind).1 (computeReflector u' nr' x1 x2 x3 ind).2 a1 a2 a3 a4 ind)
      (computeReflector u' nr' x1 x2 x3 ind).1 (computeReflector u' nr' x1 x2 x3 ind).2 b1 b2 b3 b4 ind := by
  have hc := cRef_congr hR x1 x2 x3 ind
  rw [apply_PX_congr _ _ _ _ _ _ _ _ _ _ (hc.nrEq ind (Or.inr rfl)) (hc.uEq ind (Or.inr rfl)),
      apply_XP_congr _ _ _ _ _ _ _ _ _ _ (hc.nrEq ind (Or.inr rfl)) (hc.uEq ind (Or.inr rfl))]

theorem chaseStep_congr {S : Nat → Prop} {st st' : St α} (h : RelSt S st st') (n il bsize i : Nat) :
    RelSt (fun j => S j ∨ j = il + i) (chaseStep n il bsize st i) (chaseStep n il bsize st' i) := by
  obtain ⟨H, u, nr⟩ := st
  obtain ⟨H', u', nr'⟩ := st'
  obtain ⟨hH, hR⟩ := h
  simp only at hH hR
  subst hH
  exact ⟨step_congr hR H _ _ _ _ _ _ _ _ _ _ _ _, cRef_congr hR _ _ _ _⟩

theorem chase_fold_congr (n il bsize : Nat) (m : Nat) {S : Nat → Prop} {st st' : St α} (h : RelSt S st st') :
    RelSt (fun j => S j ∨ (il + 1 ≤ j ∧ j ≤ il + m))
      ((List.range m).foldl (fun st k => chaseStep n il bsize st (k + 1)) st)
      ((List.range m).foldl (fun st k => chaseStep n il bsize st (k + 1)) st') := by
  induction m with
  | zero => exact ⟨h.1, h.2.mono (fun j hj => by rcases hj with hj | hj; exact hj; omega)⟩
  | succ m ih =>
    rw [List.range_succ, List.foldl_append, List.foldl_append]
    have := chaseStep_congr ih n il bsize (m + 1)
    exact ⟨this.1, this.2.mono (fun j hj => by
      rcases hj with hj | hj
      · exact Or.inl (Or.inl hj)
      · by_cases e : j = il + (m + 1)
        · exact Or.inr e
        · exact Or.inl (Or.inr (by omega)))⟩

/-- "store a reflector at `ind`, apply it from the left to one block and from the right to another": the unit `update_block` is
    made of -/
def refStep (st : St α) (x1 x2 x3 : α) (ind a1 a2 a3 a4 b1 b2 b3 b4 : Nat) : St α :=
  (apply_XP (apply_PX st.1 (computeReflector st.2.1 st.2.2 x1 x2 x3 ind).1 (computeReflector st.2.1 st.2.2 x1 x2 x3 ind).2 a1 a2 a3 a4 ind)
      (computeReflector st.2.1 st.2.2 x1 x2 x3 ind).1 (computeReflector st.2.1 st.2.2 x1 x2 x3 ind).2 b1 b2 b3 b4 ind,
   (computeReflector st.2.1 st.2.2 x1 x2 x3 ind).1, (computeReflector st.2.1 st.2.2 x1 x2 x3 ind).2)

theorem refStep_congr {S : Nat → Prop} {st st' : St α} (h : RelSt S st st') (x1 x2 x3 : α) (ind a1 a2 a3 a4 b1 b2 b3 b4 : Nat) :
    RelSt (fun j => S j ∨ j = ind) (refStep st x1 x2 x3 ind a1 a2 a3 a4 b1 b2 b3 b4) (refStep st' x1 x2 x3 ind a1 a2 a3 a4 b1 b2 b3 b4) := by
  obtain ⟨H, u, nr⟩ := st
  obtain ⟨H', u', nr'⟩ := st'
  obtain ⟨hH, hR⟩ := h
  simp only at hH hR
  subst hH
  exact ⟨step_congr hR H _ _ _ _ _ _ _ _ _ _ _ _, cRef_congr hR _ _ _ _⟩

/-- `nr[ind] = 1` at the end of a block -/
def endStep (st : St α) (ind : Nat) : St α := (st.1, st.2.1, st.2.2.setIfInBounds ind 1)

theorem endStep_congr {S : Nat → Prop} {st st' : St α} (h : RelSt S st st') (ind : Nat) :
    RelSt (fun j => S j ∨ j = ind) (endStep st ind) (endStep st' ind) := ⟨h.1, h.2.setOne ind⟩

theorem RelSt.mono {S T : Nat → Prop} {st st' : St α} (h : RelSt S st st') (hst : ∀ j, T j → S j) : RelSt T st st' :=
  ⟨h.1, h.2.mono hst⟩

/-- `update_block` in terms of those units -/
theorem update_block_eq (n : Nat) (s t : α) (st : St α) (il iu : Nat) :
    update_block n s t st il iu =
      if iu - il + 1 == 1 then endStep st il
      else if iu - il + 1 == 2 then
        endStep (refStep st (firstCol0 (st.1.get il il) (st.1.get il (il + 1)) (st.1.get (il + 1) il) s t)
          (firstCol1 (st.1.get il il) (st.1.get (il + 1) il) (st.1.get (il + 1) (il + 1)) s) zero il il il 2 (n - il) 0 il (il + 2) 2) (il + 1)
      else
        endStep
          (refStep
            ((List.range (iu - il + 1 - 3)).foldl (fun st k => chaseStep n il (iu - il + 1) st (k + 1))
              (refStep st (firstCol0 (st.1.get il il) (st.1.get il (il + 1)) (st.1.get (il + 1) il) s t)
                (firstCol1 (st.1.get il il) (st.1.get (il + 1) il) (st.1.get (il + 1) (il + 1)) s)
                (firstCol2 (st.1.get (il + 2) (il + 1)) (st.1.get (il + 1) il)) il il il 3 (n - il) 0 il (il + min (iu - il + 1) 4) 3))
            (((List.range (iu - il + 1 - 3)).foldl (fun st k => chaseStep n il (iu - il + 1) st (k + 1))
              (refStep st (firstCol0 (st.1.get il il) (st.1.get il (il + 1)) (st.1.get (il + 1) il) s t)
                (firstCol1 (st.1.get il il) (st.1.get (il + 1) il) (st.1.get (il + 1) (il + 1)) s)
                (firstCol2 (st.1.get (il + 2) (il + 1)) (st.1.get (il + 1) il)) il il il 3 (n - il) 0 il (il + min (iu - il + 1) 4) 3)).1.get (iu - 1) (iu - 2))
            (((List.range (iu - il + 1 - 3)).foldl (fun st k => chaseStep n il (iu - il + 1) st (k + 1))
              (refStep st (firstCol0 (st.1.get il il) (st.1.get il (il + 1)) (st.1.get (il + 1) il) s t)
                (firstCol1 (st.1.get il il) (st.1.get (il + 1) il) (st.1.get (il + 1) (il + 1)) s)
                (firstCol2 (st.1.get (il + 2) (il + 1)) (st.1.get (il + 1) il)) il il il 3 (n - il) 0 il (il + min (iu - il + 1) 4) 3)).1.get iu (iu - 2))
            zero (iu - 1) (iu - 1) (iu - 2) 2 (n - iu + 2) 0 (iu - 1) (il + (iu - il + 1)) 2) iu := by
  unfold update_block
  simp only []
  split
  · rfl
  · split <;> rfl

theorem update_block_congr {S : Nat → Prop} {st st' : St α} (h : RelSt S st st') (n : Nat) (s t : α) (il iu : Nat) (hle : il ≤ iu) :
    RelSt (fun j => S j ∨ (il ≤ j ∧ j ≤ iu)) (update_block n s t st il iu) (update_block n s t st' il iu) := by
  rw [update_block_eq, update_block_eq, ← h.1]
  by_cases h1 : (iu - il + 1 == 1) = true
  · rw [if_pos h1, if_pos h1]
    have e : iu = il := by have := (beq_iff_eq).mp h1; omega
    exact (endStep_congr h il).mono (fun j hj => by rcases hj with hj | hj; exact Or.inl hj; exact Or.inr (by omega))
  · rw [if_neg h1, if_neg h1]
    have h1' : iu - il + 1 ≠ 1 := fun c => h1 ((beq_iff_eq).mpr c)
    by_cases h2 : (iu - il + 1 == 2) = true
    · rw [if_pos h2, if_pos h2]
      have e : iu = il + 1 := by have := (beq_iff_eq).mp h2; omega
      exact (endStep_congr (refStep_congr h _ _ _ il _ _ _ _ _ _ _ _) (il + 1)).mono (fun j hj => by
        rcases hj with hj | hj
        · exact Or.inl (Or.inl hj)
        · by_cases c : j = il
          · exact Or.inl (Or.inr c)
          · exact Or.inr (by omega))
    · rw [if_neg h2, if_neg h2]
      have h2' : iu - il + 1 ≠ 2 := fun c => h2 ((beq_iff_eq).mpr c)
      have c0 := refStep_congr h (firstCol0 (st.1.get il il) (st.1.get il (il + 1)) (st.1.get (il + 1) il) s t)
        (firstCol1 (st.1.get il il) (st.1.get (il + 1) il) (st.1.get (il + 1) (il + 1)) s)
        (firstCol2 (st.1.get (il + 2) (il + 1)) (st.1.get (il + 1) il)) il il il 3 (n - il) 0 il (il + min (iu - il + 1) 4) 3
      have c1 := chase_fold_congr n il (iu - il + 1) (iu - il + 1 - 3) c0
      generalize (List.range (iu - il + 1 - 3)).foldl (fun st k => chaseStep n il (iu - il + 1) st (k + 1))
        (refStep st (firstCol0 (st.1.get il il) (st.1.get il (il + 1)) (st.1.get (il + 1) il) s t)
          (firstCol1 (st.1.get il il) (st.1.get (il + 1) il) (st.1.get (il + 1) (il + 1)) s)
          (firstCol2 (st.1.get (il + 2) (il + 1)) (st.1.get (il + 1) il)) il il il 3 (n - il) 0 il (il + min (iu - il + 1) 4) 3) = A at c1 ⊢
      generalize (List.range (iu - il + 1 - 3)).foldl (fun st k => chaseStep n il (iu - il + 1) st (k + 1))
        (refStep st' (firstCol0 (st.1.get il il) (st.1.get il (il + 1)) (st.1.get (il + 1) il) s t)
          (firstCol1 (st.1.get il il) (st.1.get (il + 1) il) (st.1.get (il + 1) (il + 1)) s)
          (firstCol2 (st.1.get (il + 2) (il + 1)) (st.1.get (il + 1) il)) il il il 3 (n - il) 0 il (il + min (iu - il + 1) 4) 3) = B at c1 ⊢
      rw [← c1.1]
      exact (endStep_congr (refStep_congr c1 _ _ _ (iu - 1) _ _ _ _ _ _ _ _) iu).mono (fun j hj => by
        rcases hj with hj | hj
        · exact Or.inl (Or.inl (Or.inl (Or.inl hj)))
        · by_cases c : j = iu
          · exact Or.inr c
          · by_cases c2 : j = iu - 1
            · exact Or.inl (Or.inr c2)
            · by_cases c3 : j = il
              · exact Or.inl (Or.inl (Or.inl (Or.inr c3)))
              · exact Or.inl (Or.inl (Or.inr (by omega))))

/-! ### sizes -/

theorem cRef_size (u : Mat α) (nr : Array Nat) (x1 x2 x3 : α) (ind : Nat) : (computeReflector u nr x1 x2 x3 ind).2.size = nr.size := by
  rw [computeReflector_eq]; split <;> simp

theorem chaseStep_size (n il bsize : Nat) (st : St α) (i : Nat) : (chaseStep n il bsize st i).2.2.size = st.2.2.size := by
  unfold chaseStep; exact cRef_size _ _ _ _ _ _

theorem chase_fold_size (n il bsize m : Nat) (st : St α) :
    ((List.range m).foldl (fun st k => chaseStep n il bsize st (k + 1)) st).2.2.size = st.2.2.size := by
  induction m with
  | zero => rfl
  | succ m ih => rw [List.range_succ, List.foldl_append, List.foldl_cons, List.foldl_nil, chaseStep_size, ih]

theorem update_block_size (n : Nat) (s t : α) (st : St α) (il iu : Nat) : (update_block n s t st il iu).2.2.size = st.2.2.size := by
  rw [update_block_eq]
  split
  · simp [endStep]
  · split
    · simp [endStep, refStep, cRef_size]
    · simp [endStep, refStep, cRef_size, chase_fold_size]

/-! ### the boundary array `zero_ind` (copied from C08Nr, generic in the scalar) -/

theorem getD_push (a : Array Nat) (k v : Nat) :
    (a.push v).getD k 0 = if k < a.size then a.getD k 0 else if k = a.size then v else 0 := by
  simp only [Array.getD_eq_getD_getElem?, Array.getElem?_push]
  by_cases h : k = a.size
  · subst h; simp
  · by_cases h2 : k < a.size
    · simp [h, h2]
    · simp [h, h2]

theorem splitStep_zi (n : Nat) (e : α) (st : Mat α × Array Nat) (i : Nat) :
    (splitStep n e st i).2 = st.2 ∨ (splitStep n e st i).2 = st.2.push (i + 1) := by
  unfold splitStep
  simp only []
  split
  · right; rfl
  · left; rfl

def ZI (zi : Array Nat) (b : Nat) : Prop :=
  0 < zi.size ∧ zi.getD 0 0 = 0 ∧ (∀ a, a + 1 < zi.size → zi.getD a 0 < zi.getD (a + 1) 0) ∧
  (∀ a, a < zi.size → zi.getD a 0 ≤ b)

theorem ZI.push {zi : Array Nat} {b v : Nat} (h : ZI zi b) (hv : b < v) : ZI (zi.push v) v := by
  obtain ⟨h1, h2, h3, h4⟩ := h
  refine ⟨by rw [Array.size_push]; omega, ?_, ?_, ?_⟩
  · rw [getD_push, if_pos h1]; exact h2
  · intro a ha
    rw [Array.size_push] at ha
    rw [getD_push, getD_push, if_pos (by omega)]
    by_cases hl : a + 1 < zi.size
    · rw [if_pos hl]; exact h3 a hl
    · rw [if_neg hl, if_pos (by omega)]
      have := h4 a (by omega); omega
  · intro a ha
    rw [Array.size_push] at ha
    rw [getD_push]
    by_cases hl : a < zi.size
    · rw [if_pos hl]; have := h4 a hl; omega
    · rw [if_neg hl, if_pos (by omega)]; exact Nat.le_refl _

theorem ZI.mono {zi : Array Nat} {b b' : Nat} (h : ZI zi b) (hb : b ≤ b') : ZI zi b' := by
  obtain ⟨h1, h2, h3, h4⟩ := h
  exact ⟨h1, h2, h3, fun a ha => Nat.le_trans (h4 a ha) hb⟩

theorem split_fold_ZI (n : Nat) (e : α) (H0 : Mat α) (m : Nat) :
    ZI ((List.range m).foldl (splitStep n e) (H0, (#[0] : Array Nat))).2 m := by
  induction m with
  | zero =>
    refine ⟨by simp, by simp, ?_, ?_⟩
    · intro a ha; simp at ha
    · intro a ha
      have : a = 0 := by simpa using ha
      subst this; simp
  | succ m ih =>
    rw [List.range_succ, List.foldl_append, List.foldl_cons, List.foldl_nil]
    rcases splitStep_zi n e ((List.range m).foldl (splitStep n e) (H0, (#[0] : Array Nat))) m with h | h
    · rw [h]; exact ih.mono (Nat.le_succ m)
    · rw [h]; exact ih.push (Nat.lt_succ_self m)

/-! ### the block loop -/

theorem blocks_congr (n : Nat) (s t : α) (zi : Array Nat)
    (hadj : ∀ a, a + 1 < zi.size → zi.getD a 0 < zi.getD (a + 1) 0) (h0 : zi.getD 0 0 = 0)
    {st st' : St α} (h : RelSt (fun _ => False) st st') (j : Nat) (hj : j + 1 ≤ zi.size) :
    RelSt (fun k => k < zi.getD j 0)
      ((List.range j).foldl (fun st i => update_block n s t st (zi.getD i 0) (zi.getD (i + 1) 0 - 1)) st)
      ((List.range j).foldl (fun st i => update_block n s t st (zi.getD i 0) (zi.getD (i + 1) 0 - 1)) st') := by
  induction j with
  | zero => exact h.mono (fun k hk => by omega)
  | succ j ih =>
    rw [List.range_succ, List.foldl_append, List.foldl_append]
    have hlt := hadj j (by omega)
    exact (update_block_congr (ih (by omega)) n s t (zi.getD j 0) (zi.getD (j + 1) 0 - 1) (by omega)).mono
      (fun k hk => by
        by_cases c : k < zi.getD j 0
        · exact Or.inl c
        · exact Or.inr (by omega))

theorem blocks_size (n : Nat) (s t : α) (zi : Array Nat) (st : St α) (j : Nat) :
    ((List.range j).foldl (fun st i => update_block n s t st (zi.getD i 0) (zi.getD (i + 1) 0 - 1)) st).2.2.size = st.2.2.size := by
  induction j with
  | zero => rfl
  | succ j ih => rw [List.range_succ, List.foldl_append, List.foldl_cons, List.foldl_nil, update_block_size, ih]

/-- agreement on every index below the common size is agreement everywhere (beyond it both counts read 0 and both columns 0) -/
theorem Rel.all {u u' : Mat α} {nr nr' : Array Nat} (h : Rel (fun k => k < nr.size) u u' nr nr') :
    (∀ j, nr.getD j 0 = nr'.getD j 0) ∧ (∀ j, nr.getD j 0 ≠ 1 → colEq u u' j) := by
  constructor
  · intro j
    by_cases c : j < nr.size
    · exact h.nrEq j c
    · have h1 : nr.size ≤ j := Nat.le_of_not_lt c
      have h2 : nr'.size ≤ j := by rw [← h.size]; exact h1
      simp [Array.getD_eq_getD_getElem?, Array.getElem?_eq_none h1, Array.getElem?_eq_none h2]
  · intro j hne
    by_cases c : j < nr.size
    · exact h.uEq j c hne
    · have hc : u.cols ≤ j := by rw [h.cols]; omega
      have hc' : u'.cols ≤ j := by rw [h.cols', ← h.size]; omega
      exact ⟨by rw [get_oob h.wf h.rows hc, get_oob h.wf' h.rows' hc'], by rw [get_oob h.wf h.rows hc, get_oob h.wf' h.rows' hc'],
             by rw [get_oob h.wf h.rows hc, get_oob h.wf' h.rows' hc']⟩

theorem nr_ext {a b : Array Nat} (hs : a.size = b.size) (h : ∀ j, a.getD j 0 = b.getD j 0) : a = b := by
  apply Array.ext hs
  intro i h1 h2
  have := h i
  simpa [Array.getD_eq_getD_getElem?, Array.getElem?_eq_getElem h1, Array.getElem?_eq_getElem h2] using this

/-- MAIN: `compute` on an object that already holds a factorization (`recompute`) and a fresh `compute` give the same matrix, the
    same shifts, the same reflector row counts, the same reflectors wherever the count is not 1 — and therefore the same answer to
    every query.  Any scalar type, any `Sc` instance, any old object, any junk. -/
theorem dsqr_recompute (old : DoubleShiftQR α) (junk : α) (junkNr : Nat) (mat : Mat α) (s t : α) (hn : 1 ≤ mat.rows) :
    (old.recompute junk junkNr mat s t).n = (DoubleShiftQR.compute mat s t).n ∧
    (old.recompute junk junkNr mat s t).H = (DoubleShiftQR.compute mat s t).H ∧
    (old.recompute junk junkNr mat s t).s = (DoubleShiftQR.compute mat s t).s ∧
    (old.recompute junk junkNr mat s t).t = (DoubleShiftQR.compute mat s t).t ∧
    (old.recompute junk junkNr mat s t).nr = (DoubleShiftQR.compute mat s t).nr ∧
    (∀ j, (DoubleShiftQR.compute mat s t).nr.getD j 0 ≠ 1 → colEq (old.recompute junk junkNr mat s t).u (DoubleShiftQR.compute mat s t).u j) ∧
    (old.recompute junk junkNr mat s t).matrix_QtHQ = (DoubleShiftQR.compute mat s t).matrix_QtHQ ∧
    (∀ y, (old.recompute junk junkNr mat s t).apply_QtY y = (DoubleShiftQR.compute mat s t).apply_QtY y) ∧
    (∀ Y, (old.recompute junk junkNr mat s t).apply_YQ Y = (DoubleShiftQR.compute mat s t).apply_YQ Y) := by
  -- the two initial stores
  have hu0 : ∀ (n : Nat), Rel (fun _ => False)
      (if old.u.rows = 3 ∧ old.u.cols = n ∧ old.u.d.size = 3 * n then old.u else ⟨3, n, Array.replicate (3 * n) junk⟩)
      (Mat.zeros 3 n : Mat α)
      (if old.nr.size = n then old.nr else Array.replicate n junkNr) (Array.replicate n 0) := by
    intro n
    have hnr : (if old.nr.size = n then old.nr else Array.replicate n junkNr).size = n := by split <;> simp_all
    refine ⟨?_, zeros_WF 3 n, ?_, rfl, ?_, by simp [Mat.zeros], by simp [hnr], fun j hj => absurd hj id, fun j hj => absurd hj id⟩
    · split
      · rename_i c; unfold WF; rw [c.2.2, c.1, c.2.1]
      · unfold WF; simp
    · split
      · rename_i c; exact c.1
      · rfl
    · rw [hnr]; split
      · rename_i c; exact c.2.1
      · rfl
  unfold DoubleShiftQR.recompute DoubleShiftQR.compute
  simp only []
  generalize hsp : (List.range (mat.rows - 1)).foldl (splitStep mat.rows (near0 * (Sc.ofInt (mat.rows : Int) / Sc.eps)))
    (Mat.ofFn mat.rows mat.rows (fun i j => mat.get i j), (#[0] : Array Nat)) = sp
  have hZ : ZI (sp.2.push mat.rows) mat.rows := by
    rw [← hsp]; exact (split_fold_ZI mat.rows _ _ (mat.rows - 1)).push (by omega)
  obtain ⟨z1, z2, z3, z4⟩ := hZ
  have hrel := blocks_congr mat.rows s t (sp.2.push mat.rows) z3 z2
    (st := (sp.1, (if old.u.rows = 3 ∧ old.u.cols = mat.rows ∧ old.u.d.size = 3 * mat.rows then old.u else ⟨3, mat.rows, Array.replicate (3 * mat.rows) junk⟩),
            (if old.nr.size = mat.rows then old.nr else Array.replicate mat.rows junkNr)))
    (st' := (sp.1, (Mat.zeros 3 mat.rows : Mat α), Array.replicate mat.rows 0))
    ⟨rfl, hu0 mat.rows⟩ ((sp.2.push mat.rows).size - 1) (by omega)
  have hlast : (sp.2.push mat.rows).getD ((sp.2.push mat.rows).size - 1) 0 = mat.rows := by
    rw [Array.size_push, getD_push, if_neg (by omega), if_pos (by omega)]
  have hsz := blocks_size mat.rows s t (sp.2.push mat.rows)
    (sp.1, (if old.u.rows = 3 ∧ old.u.cols = mat.rows ∧ old.u.d.size = 3 * mat.rows then old.u else ⟨3, mat.rows, Array.replicate (3 * mat.rows) junk⟩),
      (if old.nr.size = mat.rows then old.nr else Array.replicate mat.rows junkNr)) ((sp.2.push mat.rows).size - 1)
  have hnr0 : (if old.nr.size = mat.rows then old.nr else Array.replicate mat.rows junkNr).size = mat.rows := by split <;> simp_all
  simp only [hnr0] at hsz
  rw [hlast] at hrel
  generalize (List.range ((sp.2.push mat.rows).size - 1)).foldl
    (fun st i => update_block mat.rows s t st ((sp.2.push mat.rows).getD i 0) ((sp.2.push mat.rows).getD (i + 1) 0 - 1))
    (sp.1, (if old.u.rows = 3 ∧ old.u.cols = mat.rows ∧ old.u.d.size = 3 * mat.rows then old.u else ⟨3, mat.rows, Array.replicate (3 * mat.rows) junk⟩),
      (if old.nr.size = mat.rows then old.nr else Array.replicate mat.rows junkNr)) = A at hrel hsz ⊢
  generalize (List.range ((sp.2.push mat.rows).size - 1)).foldl
    (fun st i => update_block mat.rows s t st ((sp.2.push mat.rows).getD i 0) ((sp.2.push mat.rows).getD (i + 1) 0 - 1))
    (sp.1, (Mat.zeros 3 mat.rows : Mat α), Array.replicate mat.rows 0) = B at hrel ⊢
  obtain ⟨AH, Au, An⟩ := A
  obtain ⟨BH, Bu, Bn⟩ := B
  obtain ⟨hH, hR⟩ := hrel
  simp only at hH hR hsz ⊢
  subst hH
  have hR' : Rel (fun k => k < An.size) Au Bu An Bn := by rw [hsz]; exact hR
  obtain ⟨e1, e2⟩ := hR'.all
  have hnr : An = Bn := nr_ext hR.size e1
  subst hnr
  refine ⟨by first | trivial | rfl, by first | trivial | rfl, by first | trivial | rfl, by first | trivial | rfl, by first | trivial | rfl, e2, ?_, ?_, ?_⟩
  · rfl
  · intro y
    unfold DoubleShiftQR.apply_QtY
    simp only []
    have : (fun (y : Vec α) i => apply_PX_vec Au An y i i) = (fun y i => apply_PX_vec Bu An y i i) := by
      funext y i; exact apply_PX_vec_congr _ _ _ _ _ _ _ rfl (e2 i)
    rw [this]
  · intro Y
    unfold DoubleShiftQR.apply_YQ
    simp only []
    have : (fun (Z : Mat α) i => apply_XP Z Au An 0 i Y.rows 3 i) = (fun Z i => apply_XP Z Bu An 0 i Y.rows 3 i) := by
      funext Z i; exact apply_XP_congr _ _ _ _ _ _ _ _ _ _ rfl (e2 i)
    rw [this]
    exact apply_XP_congr _ _ _ _ _ _ _ _ _ _ rfl (e2 _)

theorem uLive_congr (q q' : DoubleShiftQR α) (h1 : q'.n = q.n) (h5 : q'.nr = q.nr)
    (h6 : ∀ j, q.nr.getD j 0 ≠ 1 → colEq q'.u q.u j) : q'.uLive = q.uLive := by
  unfold DoubleShiftQR.uLive
  rw [h1, h5]
  refine ext_get (m1 := Mat.ofFn 3 q.n _) (m2 := Mat.ofFn 3 q.n _) (ofFn_WF _ _ _) (ofFn_WF _ _ _) rfl rfl ?_
  intro a b ha hb
  have ha3 : a < 3 := ha
  have hb' : b < q.n := hb
  rw [get_ofFn _ _ _ ha3 hb', get_ofFn _ _ _ ha3 hb']
  by_cases c : q.nr.getD b 0 = 1
  · simp [c]
  · have hne : (q.nr.getD b 0 == 1) = false := by simpa using c
    rw [hne]
    obtain ⟨c0, c1, c2⟩ := h6 b c
    rcases Nat.lt_succ_iff_lt_or_eq.mp ha3 with h | rfl
    · rcases Nat.lt_succ_iff_lt_or_eq.mp h with h | rfl
      · have : a = 0 := by omega
        subst this; simpa using c0
      · simpa using c1
    · simpa using c2

/-- the reflector store as the harness and the driver print it (columns with `nr = 1` cleared) is the same as well -/
theorem dsqr_recompute_uLive (old : DoubleShiftQR α) (junk : α) (junkNr : Nat) (mat : Mat α) (s t : α) (hn : 1 ≤ mat.rows) :
    (old.recompute junk junkNr mat s t).uLive = (DoubleShiftQR.compute mat s t).uLive := by
  obtain ⟨h1, _, _, _, h5, h6, _⟩ := dsqr_recompute old junk junkNr mat s t hn
  exact uLive_congr _ _ h1 h5 h6

end C08ReuseDs
