/-
  C08 — refinement of the array model `QRModel.UpperHessenbergQR` (Model/HessQR.lean, the statement-by-statement model of
  `Spectra::UpperHessenbergQR`) to Mathlib `Matrix` algebra.

  * `toM r c A` reads an `r × c` Mathlib matrix off the column-major array `A`; `Gm n c s k` is the plane rotation
    `[c s; -s c]` embedded at rows/columns `k, k+1`; `Qm n cs sn k = G₀ G₁ ⋯ G_{k-1}`; `Qof q = Qm q.n q.cos q.sin (q.n - 1)`.
  * M1: one `rowsPair` / `colsPair` sweep is a multiplication by `Gₖ` / `Gₖᵀ` from the left / right.
  * M2: `Gₖ` is orthogonal when `c² + s² = 1`.
  * M3: `apply_QtY`, `apply_QY`, `apply_YQ`, `apply_YQt` (matrix and vector overloads) multiply by exactly `Qᵀ` / `Q` from the
    stated side, for EVERY stored rotation sequence (no hypothesis on `cos`/`sin`).
  * M4 (`hqr_matrix`): for the computed decomposition with ideal rotations, `QᵀQ = QQᵀ = 1`, `Q R = H - σ I`, `R` upper
    triangular, `matrix_QtHQ = R Q + σ I = Qᵀ H Q`, `matrix_QtHQ` upper Hessenberg.

  The loops are analysed in section `Generic` (any field with any `Sc` instance) and instantiated at `scOfField F`.
-/
import Mathlib.Data.Matrix.Basic
import Mathlib.Data.Matrix.Mul
import Mathlib.Data.Fintype.BigOperators
import Mathlib.Algebra.BigOperators.Fin
import Mathlib.Tactic.Ring
import Mathlib.Tactic.LinearCombination
import SpectraVerif.Proofs.C08Hess

set_option linter.unusedSectionVars false
set_option linter.unusedVariables false
set_option linter.unusedSimpArgs false

namespace C08HessMatrix
open Lin QRModel C08Mat C08Hess
open QRModel.UpperHessenbergQR
open Matrix

section Generic
variable {α : Type} [Field α] [Sc α]

/-- the `r × c` Mathlib matrix read off the array `A` -/
def toMg (r c : Nat) (A : Mat α) : Matrix (Fin r) (Fin c) α := fun i j => A.get i.val j.val

/-- the plane rotation `[c s; -s c]` embedded at rows/columns `k`, `k+1` of the `n × n` identity -/
def Gm (n : Nat) (c s : α) (k : Nat) : Matrix (Fin n) (Fin n) α := fun i j =>
  if i.val = k ∧ j.val = k then c
  else if i.val = k ∧ j.val = k + 1 then s
  else if i.val = k + 1 ∧ j.val = k then -s
  else if i.val = k + 1 ∧ j.val = k + 1 then c
  else if i.val = j.val then 1 else 0

theorem Gm_transpose (n : Nat) (c s : α) (k : Nat) : (Gm n c s k)ᵀ = Gm n c (-s) k := by
  ext i j
  simp only [Matrix.transpose_apply, Gm, neg_neg]
  have e : (j.val = i.val) = (i.val = j.val) := propext eq_comm
  simp only [e]
  by_cases h1 : i.val = k <;> by_cases h2 : j.val = k <;> by_cases h3 : i.val = k + 1 <;> by_cases h4 : j.val = k + 1 <;>
    simp [h1, h2, h3, h4]

/-- the entries of `Gm` in row `k` -/
theorem Gm_row_k (n : Nat) (c s : α) (k : Nat) (i j : Fin n) (hi : i.val = k) :
    Gm n c s k i j = if j.val = k then c else if j.val = k + 1 then s else 0 := by
  unfold Gm
  by_cases h2 : j.val = k
  · simp [hi, h2]
  · by_cases h4 : j.val = k + 1
    · simp [hi, h2, h4]
    · simp [hi, h2, h4]; omega

theorem Gm_row_k1 (n : Nat) (c s : α) (k : Nat) (i j : Fin n) (hi : i.val = k + 1) :
    Gm n c s k i j = if j.val = k then -s else if j.val = k + 1 then c else 0 := by
  unfold Gm
  by_cases h2 : j.val = k
  · simp [hi, h2]
  · by_cases h4 : j.val = k + 1
    · simp [hi, h2, h4]
    · simp [hi, h2, h4]; omega

theorem Gm_row_other (n : Nat) (c s : α) (k : Nat) (i j : Fin n) (h1 : i.val ≠ k) (h2 : i.val ≠ k + 1) :
    Gm n c s k i j = if j = i then 1 else 0 := by
  unfold Gm
  by_cases h : j = i
  · subst h; simp [h1, h2]
  · have h' : ¬ i.val = j.val := fun e => h (Fin.ext e.symm)
    simp [h1, h2, h, h']

/-- `Gm * v`: only the entries `k`, `k+1` are mixed -/
theorem Gm_sum (n : Nat) (c s : α) (k : Nat) (hk : k + 1 < n) (g : Fin n → α) (i : Fin n) :
    (∑ l, Gm n c s k i l * g l) =
      if i.val = k then c * g ⟨k, by omega⟩ + s * g ⟨k + 1, hk⟩
      else if i.val = k + 1 then (-s) * g ⟨k, by omega⟩ + c * g ⟨k + 1, hk⟩ else g i := by
  have hne : (⟨k, by omega⟩ : Fin n) ≠ ⟨k + 1, hk⟩ := by
    intro e; have := congrArg Fin.val e; simp at this
  by_cases h1 : i.val = k
  · rw [if_pos h1, Fintype.sum_eq_add (⟨k, by omega⟩ : Fin n) ⟨k + 1, hk⟩ hne]
    · rw [Gm_row_k n c s k i _ h1, Gm_row_k n c s k i _ h1]
      simp
    · intro x hx
      rw [Gm_row_k n c s k i x h1]
      have a1 : ¬ x.val = k := fun e => hx.1 (Fin.ext e)
      have a2 : ¬ x.val = k + 1 := fun e => hx.2 (Fin.ext e)
      simp [a1, a2]
  · rw [if_neg h1]
    by_cases h2 : i.val = k + 1
    · rw [if_pos h2, Fintype.sum_eq_add (⟨k, by omega⟩ : Fin n) ⟨k + 1, hk⟩ hne]
      · rw [Gm_row_k1 n c s k i _ h2, Gm_row_k1 n c s k i _ h2]
        simp
      · intro x hx
        rw [Gm_row_k1 n c s k i x h2]
        have a1 : ¬ x.val = k := fun e => hx.1 (Fin.ext e)
        have a2 : ¬ x.val = k + 1 := fun e => hx.2 (Fin.ext e)
        simp [a1, a2]
    · rw [if_neg h2, Fintype.sum_eq_single i]
      · rw [Gm_row_other n c s k i i h1 h2]; simp
      · intro x hx
        rw [Gm_row_other n c s k i x h1 h2, if_neg hx, zero_mul]

/-! ### M1: one rotation step -/

/-- `rowsPair (rotT c s)` on rows `k`, `k+1` is left multiplication by `Gₖᵀ` -/
theorem toMg_rowsPair_rotT {n m : Nat} (c s : α) {Y : Mat α} (hw : WF Y) (hr : Y.rows = n) (hc : Y.cols = m)
    {k : Nat} (hk : k + 1 < n) :
    toMg n m (rowsPair (rotT c s) Y k 0 m) = (Gm n c s k)ᵀ * toMg n m Y := by
  obtain ⟨_, _, _, g⟩ := rowsPair_full (rotT c s) hw (i := k) (by omega)
  rw [hc] at g
  ext i j
  rw [Gm_transpose, Matrix.mul_apply, Gm_sum n c (-s) k hk (fun l => toMg n m Y l j) i]
  unfold toMg
  rw [g i.val j.val (by rw [hr]; exact i.isLt) j.isLt]
  simp only [rotT, neg_neg]
  by_cases h1 : i.val = k
  · rw [if_pos h1, if_pos h1]; ring
  · rw [if_neg h1, if_neg h1]

/-- `rowsPair (rotG c s)` on rows `k`, `k+1` is left multiplication by `Gₖ` -/
theorem toMg_rowsPair_rotG {n m : Nat} (c s : α) {Y : Mat α} (hw : WF Y) (hr : Y.rows = n) (hc : Y.cols = m)
    {k : Nat} (hk : k + 1 < n) :
    toMg n m (rowsPair (rotG c s) Y k 0 m) = Gm n c s k * toMg n m Y := by
  obtain ⟨_, _, _, g⟩ := rowsPair_full (rotG c s) hw (i := k) (by omega)
  rw [hc] at g
  ext i j
  rw [Matrix.mul_apply, Gm_sum n c s k hk (fun l => toMg n m Y l j) i]
  unfold toMg
  rw [g i.val j.val (by rw [hr]; exact i.isLt) j.isLt]
  simp only [rotG]

/-- `Y * M` entrywise as a sum against the rows of `Mᵀ` -/
theorem mul_apply_transpose {m n : Nat} (A : Matrix (Fin m) (Fin n) α) (M : Matrix (Fin n) (Fin n) α) (i : Fin m) (j : Fin n) :
    (A * M) i j = ∑ l, Mᵀ j l * A i l := by
  rw [Matrix.mul_apply]
  apply Finset.sum_congr rfl
  intro l _
  rw [Matrix.transpose_apply, mul_comm]

/-- `colsPair (rotT c s)` on columns `k`, `k+1` is right multiplication by `Gₖ` -/
theorem toMg_colsPair_rotT {n m : Nat} (c s : α) {Y : Mat α} (hw : WF Y) (hr : Y.rows = m) (hc : Y.cols = n)
    {k : Nat} (hk : k + 1 < n) :
    toMg m n (colsPair (rotT c s) Y k m) = toMg m n Y * Gm n c s k := by
  obtain ⟨_, _, _, g⟩ := colsPair_full (rotT c s) hw (i := k) (by omega)
  rw [hr] at g
  ext i j
  rw [mul_apply_transpose, Gm_transpose, Gm_sum n c (-s) k hk (fun l => toMg m n Y i l) j]
  unfold toMg
  rw [g i.val j.val i.isLt (by rw [hc]; exact j.isLt)]
  simp only [rotT, neg_neg]
  by_cases h1 : j.val = k
  · rw [if_pos h1, if_pos h1]; ring
  · rw [if_neg h1, if_neg h1]

/-- `colsPair (rotG c s)` on columns `k`, `k+1` is right multiplication by `Gₖᵀ` -/
theorem toMg_colsPair_rotG {n m : Nat} (c s : α) {Y : Mat α} (hw : WF Y) (hr : Y.rows = m) (hc : Y.cols = n)
    {k : Nat} (hk : k + 1 < n) :
    toMg m n (colsPair (rotG c s) Y k m) = toMg m n Y * (Gm n c s k)ᵀ := by
  obtain ⟨_, _, _, g⟩ := colsPair_full (rotG c s) hw (i := k) (by omega)
  rw [hr] at g
  ext i j
  rw [mul_apply_transpose, Matrix.transpose_transpose, Gm_sum n c s k hk (fun l => toMg m n Y i l) j]
  unfold toMg
  rw [g i.val j.val i.isLt (by rw [hc]; exact j.isLt)]
  simp only [rotG]

/-! ### M2: the embedded rotation is orthogonal -/

theorem Gm_mul_neg (n : Nat) (c s : α) (k : Nat) (hk : k + 1 < n) (hcs : c * c + s * s = 1) :
    Gm n c (-s) k * Gm n c s k = 1 := by
  ext i j
  rw [Matrix.mul_apply, Gm_sum n c (-s) k hk (fun l => Gm n c s k l j) i, Matrix.one_apply]
  by_cases h1 : i.val = k
  · rw [if_pos h1, Gm_row_k n c s k _ j rfl, Gm_row_k1 n c s k _ j rfl]
    by_cases h2 : j.val = k
    · have e : i = j := Fin.ext (by omega)
      rw [if_pos h2, if_pos h2, if_pos e]
      linear_combination hcs
    · rw [if_neg h2, if_neg h2]
      by_cases h3 : j.val = k + 1
      · have e : ¬ i = j := fun e => by rw [e] at h1; omega
        rw [if_pos h3, if_pos h3, if_neg e]; ring
      · have e : ¬ i = j := fun e => by rw [e] at h1; omega
        rw [if_neg h3, if_neg h3, if_neg e]; ring
  · rw [if_neg h1]
    by_cases h1' : i.val = k + 1
    · rw [if_pos h1', Gm_row_k n c s k _ j rfl, Gm_row_k1 n c s k _ j rfl]
      by_cases h2 : j.val = k
      · have e : ¬ i = j := fun e => by rw [e] at h1; omega
        rw [if_pos h2, if_pos h2, if_neg e]; ring
      · rw [if_neg h2, if_neg h2]
        by_cases h3 : j.val = k + 1
        · have e : i = j := Fin.ext (by omega)
          rw [if_pos h3, if_pos h3, if_pos e]
          linear_combination hcs
        · have e : ¬ i = j := fun e => by rw [e] at h1'; omega
          rw [if_neg h3, if_neg h3, if_neg e]; ring
    · rw [if_neg h1', Gm_row_other n c s k i j h1 h1']
      by_cases e : i = j
      · rw [if_pos e, if_pos e.symm]
      · rw [if_neg e, if_neg (fun h => e h.symm)]

/-- M2 -/
theorem Gm_orth (n : Nat) (c s : α) (k : Nat) (hk : k + 1 < n) (hcs : c * c + s * s = 1) :
    (Gm n c s k)ᵀ * Gm n c s k = 1 ∧ Gm n c s k * (Gm n c s k)ᵀ = 1 := by
  constructor
  · rw [Gm_transpose]; exact Gm_mul_neg n c s k hk hcs
  · have h := Gm_mul_neg n c (-s) k hk (by rw [neg_mul_neg]; exact hcs)
    rw [neg_neg] at h
    rw [Gm_transpose]; exact h

/-! ### M3: the accumulated `Q` and the four `apply_*` loops -/

/-- `G₀ G₁ ⋯ G_{k-1}` built from the stored `cos`/`sin` arrays -/
def Qmg (n : Nat) (cs sn : Vec α) : Nat → Matrix (Fin n) (Fin n) α
  | 0 => 1
  | k + 1 => Qmg n cs sn k * Gm n (vget cs k) (vget sn k) k

/-- the `Q` of the decomposition `q`: all `q.n - 1` stored rotations -/
def Qofg (q : UpperHessenbergQR α) : Matrix (Fin q.n) (Fin q.n) α := Qmg q.n q.cos q.sin (q.n - 1)

theorem Qmg_zero (n : Nat) (cs sn : Vec α) : Qmg n cs sn 0 = 1 := rfl
theorem Qmg_succ (n : Nat) (cs sn : Vec α) (k : Nat) :
    Qmg n cs sn (k + 1) = Qmg n cs sn k * Gm n (vget cs k) (vget sn k) k := rfl

/-- `apply_QtY_mat` after `k` steps is `(G₀ ⋯ G_{k-1})ᵀ Y` -/
theorem toMg_qtk {n m : Nat} (cs sn : Vec α) {Y : Mat α} (hw : WF Y) (hr : Y.rows = n) (hc : Y.cols = m)
    (k : Nat) (hk : k ≤ n - 1) :
    toMg n m (qtk cs sn k Y) = (Qmg n cs sn k)ᵀ * toMg n m Y := by
  induction k with
  | zero => rw [Qmg_zero, Matrix.transpose_one, Matrix.one_mul]; rfl
  | succ k ih =>
    obtain ⟨w, r, c⟩ := qtk_dims cs sn hw k (by omega)
    rw [qtk_succ, c, hc, toMg_rowsPair_rotT _ _ w (by rw [r, hr]) (by rw [c, hc]) (by omega), ih (by omega),
      Qmg_succ, Matrix.transpose_mul, Matrix.mul_assoc]

/-- `apply_QY_mat` restricted to the rotations `k-1 … 0` is `(G₀ ⋯ G_{k-1}) Y` -/
theorem toMg_qk {n m : Nat} (cs sn : Vec α) (k : Nat) :
    ∀ {Y : Mat α}, WF Y → Y.rows = n → Y.cols = m → k ≤ n - 1 →
      toMg n m (qk cs sn k Y) = Qmg n cs sn k * toMg n m Y := by
  induction k with
  | zero => intro Y _ _ _ _; rw [Qmg_zero, Matrix.one_mul]; rfl
  | succ k ih =>
    intro Y hw hr hc hk
    obtain ⟨w1, r1, c1, _⟩ := rowsPair_full (rotG (vget cs k) (vget sn k)) hw (i := k) (by omega)
    rw [qk_succ, ih w1 (by rw [r1, hr]) (by rw [c1, hc]) (by omega), hc,
      toMg_rowsPair_rotG _ _ hw hr hc (by omega), Qmg_succ, Matrix.mul_assoc]

/-- the `apply_YQ` loop with explicit rotation arrays -/
def yqkg (cs sn : Vec α) (k : Nat) (Y : Mat α) : Mat α :=
  (List.range k).foldl (fun Y i => colsPair (rotT (vget cs i) (vget sn i)) Y i Y.rows) Y

/-- the `apply_YQt` loop restricted to the rotations `k-1 … 0` (descending) -/
def yqtkg (cs sn : Vec α) (k : Nat) (Y : Mat α) : Mat α :=
  ((List.range k).reverse).foldl (fun Y i => colsPair (rotG (vget cs i) (vget sn i)) Y i Y.rows) Y

theorem yqkg_succ (cs sn : Vec α) (k : Nat) (Y : Mat α) :
    yqkg cs sn (k + 1) Y = colsPair (rotT (vget cs k) (vget sn k)) (yqkg cs sn k Y) k (yqkg cs sn k Y).rows := by
  unfold yqkg
  rw [List.range_succ, List.foldl_append]
  rfl

theorem yqtkg_succ (cs sn : Vec α) (k : Nat) (Y : Mat α) :
    yqtkg cs sn (k + 1) Y = yqtkg cs sn k (colsPair (rotG (vget cs k) (vget sn k)) Y k Y.rows) := by
  unfold yqtkg
  rw [List.range_succ, List.reverse_append]
  rfl

theorem apply_YQ_eqg (q : UpperHessenbergQR α) (Y : Mat α) : apply_YQ q Y = yqkg q.cos q.sin (q.n - 1) Y := rfl
theorem apply_YQt_eqg (q : UpperHessenbergQR α) (Y : Mat α) : apply_YQt q Y = yqtkg q.cos q.sin (q.n - 1) Y := rfl

theorem yqkg_dims (cs sn : Vec α) {Y : Mat α} (hw : WF Y) (k : Nat) (hk : k ≤ Y.cols - 1) :
    WF (yqkg cs sn k Y) ∧ (yqkg cs sn k Y).rows = Y.rows ∧ (yqkg cs sn k Y).cols = Y.cols := by
  induction k with
  | zero => exact ⟨hw, rfl, rfl⟩
  | succ k ih =>
    obtain ⟨w, r, c⟩ := ih (by omega)
    rw [yqkg_succ]
    obtain ⟨w1, r1, c1, _⟩ := colsPair_full (rotT (vget cs k) (vget sn k)) w (i := k) (by omega)
    exact ⟨w1, by rw [r1, r], by rw [c1, c]⟩

/-- `apply_YQ` after `k` steps is `Y (G₀ ⋯ G_{k-1})` -/
theorem toMg_yqkg {n m : Nat} (cs sn : Vec α) {Y : Mat α} (hw : WF Y) (hr : Y.rows = m) (hc : Y.cols = n)
    (k : Nat) (hk : k ≤ n - 1) :
    toMg m n (yqkg cs sn k Y) = toMg m n Y * Qmg n cs sn k := by
  induction k with
  | zero => rw [Qmg_zero, Matrix.mul_one]; rfl
  | succ k ih =>
    obtain ⟨w, r, c⟩ := yqkg_dims cs sn hw k (by omega)
    rw [yqkg_succ, r, hr, toMg_colsPair_rotT _ _ w (by rw [r, hr]) (by rw [c, hc]) (by omega), ih (by omega),
      Qmg_succ, Matrix.mul_assoc]

/-- `apply_YQt` restricted to the rotations `k-1 … 0` is `Y (G₀ ⋯ G_{k-1})ᵀ` -/
theorem toMg_yqtkg {n m : Nat} (cs sn : Vec α) (k : Nat) :
    ∀ {Y : Mat α}, WF Y → Y.rows = m → Y.cols = n → k ≤ n - 1 →
      toMg m n (yqtkg cs sn k Y) = toMg m n Y * (Qmg n cs sn k)ᵀ := by
  induction k with
  | zero => intro Y _ _ _ _; rw [Qmg_zero, Matrix.transpose_one, Matrix.mul_one]; rfl
  | succ k ih =>
    intro Y hw hr hc hk
    obtain ⟨w1, r1, c1, _⟩ := colsPair_full (rotG (vget cs k) (vget sn k)) hw (i := k) (by omega)
    rw [yqtkg_succ, ih w1 (by rw [r1, hr]) (by rw [c1, hc]) (by omega), hr,
      toMg_colsPair_rotG _ _ hw hr hc (by omega), Qmg_succ, Matrix.transpose_mul, Matrix.mul_assoc]

/-- M3: `apply_QtY(Y) = Qᵀ Y`, for every stored rotation sequence -/
theorem apply_QtY_mat_toMg (q : UpperHessenbergQR α) {m : Nat} {Y : Mat α} (hw : WF Y) (hr : Y.rows = q.n) (hc : Y.cols = m) :
    toMg q.n m (apply_QtY_mat q Y) = (Qofg q)ᵀ * toMg q.n m Y := by
  rw [apply_QtY_mat_eq]; exact toMg_qtk q.cos q.sin hw hr hc (q.n - 1) (Nat.le_refl _)

/-- M3: `apply_QY(Y) = Q Y` -/
theorem apply_QY_mat_toMg (q : UpperHessenbergQR α) {m : Nat} {Y : Mat α} (hw : WF Y) (hr : Y.rows = q.n) (hc : Y.cols = m) :
    toMg q.n m (apply_QY_mat q Y) = Qofg q * toMg q.n m Y := by
  rw [apply_QY_mat_eq]; exact toMg_qk q.cos q.sin (q.n - 1) hw hr hc (Nat.le_refl _)

/-- M3: `apply_YQ(Y) = Y Q` -/
theorem apply_YQ_toMg (q : UpperHessenbergQR α) {m : Nat} {Y : Mat α} (hw : WF Y) (hr : Y.rows = m) (hc : Y.cols = q.n) :
    toMg m q.n (apply_YQ q Y) = toMg m q.n Y * Qofg q := by
  rw [apply_YQ_eqg]; exact toMg_yqkg q.cos q.sin hw hr hc (q.n - 1) (Nat.le_refl _)

/-- M3: `apply_YQt(Y) = Y Qᵀ` -/
theorem apply_YQt_toMg (q : UpperHessenbergQR α) {m : Nat} {Y : Mat α} (hw : WF Y) (hr : Y.rows = m) (hc : Y.cols = q.n) :
    toMg m q.n (apply_YQt q Y) = toMg m q.n Y * (Qofg q)ᵀ := by
  rw [apply_YQt_eqg]; exact toMg_yqtkg q.cos q.sin (q.n - 1) hw hr hc (Nat.le_refl _)

/-- the entries of the one-column matrix of a vector -/
theorem toMg_colMat (n : Nat) (y : Vec α) (i : Fin n) (j : Fin 1) : toMg n 1 (colMat n y) i j = vget y i.val := by
  unfold toMg colMat
  rw [get_ofFn n 1 _ i.isLt j.isLt]

/-- M3, vector overload: `apply_QY(y) = Q y` -/
theorem apply_QY_vec_toMg (q : UpperHessenbergQR α) (y : Vec α) (hy : y.size = q.n) :
    (fun i : Fin q.n => vget (apply_QY q y) i.val) = (Qofg q).mulVec (fun i : Fin q.n => vget y i.val) := by
  obtain ⟨⟨_, g⟩, _⟩ := apply_vec_gen q y hy
  funext i
  have h := congrFun (congrFun (apply_QY_mat_toMg q (m := 1) (corr_colMat q.n y hy).1 rfl rfl) i) (0 : Fin 1)
  rw [g i.val i.isLt]
  show toMg q.n 1 (apply_QY_mat q (colMat q.n y)) i 0 = _
  rw [h, Matrix.mul_apply]
  unfold Matrix.mulVec dotProduct
  apply Finset.sum_congr rfl
  intro l _
  rw [toMg_colMat]

/-- M3, vector overload: `apply_QtY(y) = Qᵀ y` -/
theorem apply_QtY_vec_toMg (q : UpperHessenbergQR α) (y : Vec α) (hy : y.size = q.n) :
    (fun i : Fin q.n => vget (apply_QtY q y) i.val) = (Qofg q)ᵀ.mulVec (fun i : Fin q.n => vget y i.val) := by
  obtain ⟨_, ⟨_, g⟩⟩ := apply_vec_gen q y hy
  funext i
  have h := congrFun (congrFun (apply_QtY_mat_toMg q (m := 1) (corr_colMat q.n y hy).1 rfl rfl) i) (0 : Fin 1)
  rw [g i.val i.isLt]
  show toMg q.n 1 (apply_QtY_mat q (colMat q.n y)) i 0 = _
  rw [h, Matrix.mul_apply]
  unfold Matrix.mulVec dotProduct
  apply Finset.sum_congr rfl
  intro l _
  rw [toMg_colMat]

/-- the accumulated product of rotations on the unit circle is orthogonal -/
theorem Qmg_orth (n : Nat) (cs sn : Vec α) (k : Nat) (hk : k ≤ n - 1)
    (horth : ∀ i, i < k → vget cs i * vget cs i + vget sn i * vget sn i = 1) :
    (Qmg n cs sn k)ᵀ * Qmg n cs sn k = 1 ∧ Qmg n cs sn k * (Qmg n cs sn k)ᵀ = 1 := by
  induction k with
  | zero => rw [Qmg_zero, Matrix.transpose_one, Matrix.mul_one]; exact ⟨rfl, rfl⟩
  | succ k ih =>
    obtain ⟨h1, h2⟩ := ih (by omega) (fun i hi => horth i (by omega))
    obtain ⟨g1, g2⟩ := Gm_orth n (vget cs k) (vget sn k) k (by omega) (horth k (by omega))
    rw [Qmg_succ, Matrix.transpose_mul]
    constructor
    · rw [Matrix.mul_assoc, ← Matrix.mul_assoc _ (Qmg n cs sn k), h1, Matrix.one_mul, g1]
    · rw [Matrix.mul_assoc, ← Matrix.mul_assoc _ (Gm n (vget cs k) (vget sn k) k)ᵀ, g2, Matrix.one_mul, h2]

end Generic

/-! ### instantiation at the exact-arithmetic scalar instance `scOfField F` -/

section AtField
variable {K : Type} [Field K] [LinearOrder K] [IsStrictOrderedRing K] (F : FieldFns K)

/-- the `r × c` Mathlib matrix read off the array `A` (entries `A(i,j)`, `i < r`, `j < c`) -/
def toM (r c : Nat) (A : Mat K) : Matrix (Fin r) (Fin c) K := fun i j => mget F A i.val j.val

/-- `G₀ G₁ ⋯ G_{k-1}`, `Gᵢ = Gm n (cs[i]) (sn[i]) i` -/
def Qm (n : Nat) (cs sn : Vec K) (k : Nat) : Matrix (Fin n) (Fin n) K := @Qmg K _ (scOfField F) n cs sn k

/-- the orthogonal factor of the decomposition `q` -/
def Qof (q : UpperHessenbergQR K) : Matrix (Fin q.n) (Fin q.n) K := Qm F q.n q.cos q.sin (q.n - 1)

theorem toM_apply (r c : Nat) (A : Mat K) (i : Fin r) (j : Fin c) : toM F r c A i j = mget F A i.val j.val := rfl
theorem toM_eq (r c : Nat) (A : Mat K) : toM F r c A = @toMg K (scOfField F) r c A := rfl
theorem Qm_zero (n : Nat) (cs sn : Vec K) : Qm F n cs sn 0 = 1 := rfl
theorem Qm_succ (n : Nat) (cs sn : Vec K) (k : Nat) :
    Qm F n cs sn (k + 1) = Qm F n cs sn k * Gm n (vgt F cs k) (vgt F sn k) k := rfl
theorem Qof_eq (q : UpperHessenbergQR K) : Qof F q = @Qofg K _ (scOfField F) q := rfl

abbrev YQtm (q : UpperHessenbergQR K) (Y : Mat K) : Mat K := @apply_YQt K _ _ _ (scOfField F) q Y
abbrev rowsP (f : K → K → K × K) (Y : Mat K) (i j0 cnt : Nat) : Mat K := @rowsPair K (scOfField F) f Y i j0 cnt
abbrev colsP (f : K → K → K × K) (Y : Mat K) (i cnt : Nat) : Mat K := @colsPair K (scOfField F) f Y i cnt

/-! #### M1 -/

theorem rowsPair_rotT_toM {n m : Nat} (c s : K) {Y : Mat K} (hw : WF Y) (hr : Y.rows = n) (hc : Y.cols = m)
    {k : Nat} (hk : k + 1 < n) :
    toM F n m (rowsP F (rotT c s) Y k 0 m) = (Gm n c s k)ᵀ * toM F n m Y :=
  @toMg_rowsPair_rotT K _ (scOfField F) n m c s Y hw hr hc k hk

theorem rowsPair_rotG_toM {n m : Nat} (c s : K) {Y : Mat K} (hw : WF Y) (hr : Y.rows = n) (hc : Y.cols = m)
    {k : Nat} (hk : k + 1 < n) :
    toM F n m (rowsP F (rotG c s) Y k 0 m) = Gm n c s k * toM F n m Y :=
  @toMg_rowsPair_rotG K _ (scOfField F) n m c s Y hw hr hc k hk

theorem colsPair_rotT_toM {n m : Nat} (c s : K) {Y : Mat K} (hw : WF Y) (hr : Y.rows = m) (hc : Y.cols = n)
    {k : Nat} (hk : k + 1 < n) :
    toM F m n (colsP F (rotT c s) Y k m) = toM F m n Y * Gm n c s k :=
  @toMg_colsPair_rotT K _ (scOfField F) n m c s Y hw hr hc k hk

theorem colsPair_rotG_toM {n m : Nat} (c s : K) {Y : Mat K} (hw : WF Y) (hr : Y.rows = m) (hc : Y.cols = n)
    {k : Nat} (hk : k + 1 < n) :
    toM F m n (colsP F (rotG c s) Y k m) = toM F m n Y * (Gm n c s k)ᵀ :=
  @toMg_colsPair_rotG K _ (scOfField F) n m c s Y hw hr hc k hk

/-! #### M3 -/

theorem apply_QtY_mat_toM (q : UpperHessenbergQR K) {m : Nat} {Y : Mat K} (hw : WF Y) (hr : Y.rows = q.n) (hc : Y.cols = m) :
    toM F q.n m (QtYm F q Y) = (Qof F q)ᵀ * toM F q.n m Y :=
  @apply_QtY_mat_toMg K _ (scOfField F) q m Y hw hr hc

theorem apply_QY_mat_toM (q : UpperHessenbergQR K) {m : Nat} {Y : Mat K} (hw : WF Y) (hr : Y.rows = q.n) (hc : Y.cols = m) :
    toM F q.n m (QYm F q Y) = Qof F q * toM F q.n m Y :=
  @apply_QY_mat_toMg K _ (scOfField F) q m Y hw hr hc

theorem apply_YQ_toM (q : UpperHessenbergQR K) {m : Nat} {Y : Mat K} (hw : WF Y) (hr : Y.rows = m) (hc : Y.cols = q.n) :
    toM F m q.n (YQm F q Y) = toM F m q.n Y * Qof F q :=
  @apply_YQ_toMg K _ (scOfField F) q m Y hw hr hc

theorem apply_YQt_toM (q : UpperHessenbergQR K) {m : Nat} {Y : Mat K} (hw : WF Y) (hr : Y.rows = m) (hc : Y.cols = q.n) :
    toM F m q.n (YQtm F q Y) = toM F m q.n Y * (Qof F q)ᵀ :=
  @apply_YQt_toMg K _ (scOfField F) q m Y hw hr hc

theorem apply_QY_vec (q : UpperHessenbergQR K) (y : Vec K) (hy : y.size = q.n) :
    (fun i : Fin q.n => vgt F (QYv F q y) i.val) = (Qof F q).mulVec (fun i : Fin q.n => vgt F y i.val) :=
  @apply_QY_vec_toMg K _ (scOfField F) q y hy

theorem apply_QtY_vec (q : UpperHessenbergQR K) (y : Vec K) (hy : y.size = q.n) :
    (fun i : Fin q.n => vgt F (QtYv F q y) i.val) = (Qof F q)ᵀ.mulVec (fun i : Fin q.n => vgt F y i.val) :=
  @apply_QtY_vec_toMg K _ (scOfField F) q y hy

/-- orthogonality of `Q` from the unit-circle property of the stored pairs -/
theorem Qof_orth (q : UpperHessenbergQR K)
    (horth : ∀ i, i < q.n - 1 → vgt F q.cos i * vgt F q.cos i + vgt F q.sin i * vgt F q.sin i = 1) :
    (Qof F q)ᵀ * Qof F q = 1 ∧ Qof F q * (Qof F q)ᵀ = 1 :=
  @Qmg_orth K _ (scOfField F) q.n q.cos q.sin (q.n - 1) (Nat.le_refl _) horth

/-! #### M4: the computed decomposition in `Matrix` language -/

/-- the upper Hessenberg part of the input (entries below the subdiagonal are ignored by the class) -/
abbrev Hup (mat : Mat K) : Mat K :=
  Mat.ofFn mat.rows mat.rows (fun i j => if i ≤ j + 1 then mget F mat i j else 0)

theorem hqr_n (mat : Mat K) (shift : K) : (hqr F mat shift).n = mat.rows := rfl

theorem Hup_get (mat : Mat K) (i j : Nat) (hi : i < mat.rows) (hj : j < mat.rows) :
    mget F (Hup F mat) i j = if i ≤ j + 1 then mget F mat i j else 0 :=
  @get_ofFn K (scOfField F) _ _ _ _ _ hi hj

/-- `Hsh = Hup - σ I` -/
theorem toM_Hsh (mat : Mat K) (shift : K) (n : Nat) (hn : n = mat.rows) :
    toM F n n (Hsh F mat shift) = toM F n n (Hup F mat) - shift • (1 : Matrix (Fin n) (Fin n) K) := by
  subst hn
  ext i j
  rw [Matrix.sub_apply, Matrix.smul_apply, Matrix.one_apply, toM_apply, toM_apply,
    Hsh_get F mat shift i.val j.val i.isLt j.isLt, Hup_get F mat i.val j.val i.isLt j.isLt]
  have e : (i = j) = (i.val = j.val) := propext Fin.ext_iff
  simp only [e, smul_eq_mul]
  by_cases h1 : i.val ≤ j.val + 1
  · rw [if_pos h1, if_pos h1]
    by_cases h2 : i.val = j.val
    · rw [if_pos h2, if_pos h2, mul_one]
    · rw [if_neg h2, if_neg h2, mul_zero]
  · have h2 : ¬ i.val = j.val := by omega
    rw [if_neg h1, if_neg h1, if_neg h2, mul_zero, sub_zero]

/-- pure `Matrix` algebra: `Qᵀ Q = 1`, `Q R = H - σ I` imply `Qᵀ H Q = R Q + σ I` -/
theorem similarity_of_QR {n : Nat} (Q R H : Matrix (Fin n) (Fin n) K) (σ : K)
    (hQ : Qᵀ * Q = 1) (hQR : Q * R = H - σ • (1 : Matrix (Fin n) (Fin n) K)) :
    Qᵀ * H * Q = R * Q + σ • (1 : Matrix (Fin n) (Fin n) K) := by
  have hH : H = Q * R + σ • (1 : Matrix (Fin n) (Fin n) K) := by rw [hQR, sub_add_cancel]
  rw [hH, Matrix.mul_add, Matrix.add_mul, ← Matrix.mul_assoc, hQ, Matrix.one_mul, Matrix.mul_smul, Matrix.mul_one,
    Matrix.smul_mul, hQ]

/-! The parts of M4 for `q = hqr F mat shift` (all matrices indexed by `Fin q.n`; `q.n = mat.rows`). -/

/-- (a) `Q` is orthogonal -/
theorem hqr_Q_orth (hsqrt : ∀ x : K, 0 ≤ x → F.sqrt x * F.sqrt x = x ∧ 0 ≤ F.sqrt x) (hcut : C08Givens.cutoff F ≤ 0)
    (mat : Mat K) (hw : WF mat) (hsq : mat.cols = mat.rows) (shift : K)
    (q : UpperHessenbergQR K) (hq : q = hqr F mat shift) :
    (Qof F q)ᵀ * Qof F q = 1 ∧ Qof F q * (Qof F q)ᵀ = 1 := by
  subst hq
  exact Qof_orth F (hqr F mat shift) (fun i hi => hqr_rot_orth F hsqrt hcut mat hw hsq shift i hi)

/-- (b) `Q R = H - σ I` -/
theorem hqr_QR_matrix (hsqrt : ∀ x : K, 0 ≤ x → F.sqrt x * F.sqrt x = x ∧ 0 ≤ F.sqrt x) (hcut : C08Givens.cutoff F ≤ 0)
    (mat : Mat K) (hw : WF mat) (hsq : mat.cols = mat.rows) (shift : K)
    (q : UpperHessenbergQR K) (hq : q = hqr F mat shift) :
    Qof F q * toM F q.n q.n q.R = toM F q.n q.n (Hup F mat) - shift • (1 : Matrix (Fin q.n) (Fin q.n) K) := by
  have hn : q.n = mat.rows := by rw [hq]; rfl
  obtain ⟨_, h2, h3, h4, _, _⟩ := hqr_sizes F mat hw hsq shift
  rw [← hq, ← hn] at h2 h3
  rw [← hq] at h4
  have h := apply_QY_mat_toM F q (m := q.n) h4 h2 h3
  have e : QYm F q q.R = Hsh F mat shift := by rw [hq]; exact hqr_QR_eq F hsqrt hcut mat hw hsq shift
  rw [e] at h
  rw [← toM_Hsh F mat shift q.n hn]
  exact h.symm

/-- (c) `R` is upper triangular (no hypothesis on the rotations) -/
theorem hqr_R_upper_matrix (mat : Mat K) (hw : WF mat) (hsq : mat.cols = mat.rows) (shift : K)
    (q : UpperHessenbergQR K) (hq : q = hqr F mat shift)
    (i j : Fin q.n) (hji : j < i) : toM F q.n q.n q.R i j = 0 := by
  subst hq
  exact hqr_R_upper F mat hw hsq shift i.val j.val i.isLt j.isLt hji

/-- (d) `matrix_QtHQ = R Q + σ I` (no hypothesis on the rotations) -/
theorem hqr_RQ_matrix (mat : Mat K) (hw : WF mat) (hsq : mat.cols = mat.rows) (shift : K)
    (q : UpperHessenbergQR K) (hq : q = hqr F mat shift) :
    toM F q.n q.n (QtHQ F q) = toM F q.n q.n q.R * Qof F q + shift • (1 : Matrix (Fin q.n) (Fin q.n) K) := by
  have hn : q.n = mat.rows := by rw [hq]; rfl
  obtain ⟨_, h2, h3, h4, _, _⟩ := hqr_sizes F mat hw hsq shift
  rw [← hq, ← hn] at h2 h3
  rw [← hq] at h4
  have h := apply_YQ_toM F q (m := q.n) h4 h2 h3
  have hrq : ∀ i j, i < q.n → j < q.n →
      mget F (QtHQ F q) i j = mget F (YQm F q q.R) i j + (if i = j then shift else 0) := by
    intro i j hi hj
    rw [hq]
    exact hqr_rq F mat hw hsq shift i j (by rw [← hn]; exact hi) (by rw [← hn]; exact hj)
  ext i j
  rw [Matrix.add_apply, Matrix.smul_apply, Matrix.one_apply, ← h, toM_apply, toM_apply,
    hrq i.val j.val i.isLt j.isLt]
  have e : (i = j) = (i.val = j.val) := propext Fin.ext_iff
  simp only [e, smul_eq_mul]
  by_cases h2 : i.val = j.val
  · rw [if_pos h2, if_pos h2, mul_one]
  · rw [if_neg h2, if_neg h2, mul_zero]

/-- (d') `matrix_QtHQ = Qᵀ H Q` -/
theorem hqr_QtHQ_matrix (hsqrt : ∀ x : K, 0 ≤ x → F.sqrt x * F.sqrt x = x ∧ 0 ≤ F.sqrt x) (hcut : C08Givens.cutoff F ≤ 0)
    (mat : Mat K) (hw : WF mat) (hsq : mat.cols = mat.rows) (shift : K)
    (q : UpperHessenbergQR K) (hq : q = hqr F mat shift) :
    toM F q.n q.n (QtHQ F q) = (Qof F q)ᵀ * toM F q.n q.n (Hup F mat) * Qof F q := by
  rw [hqr_RQ_matrix F mat hw hsq shift q hq]
  exact (similarity_of_QR (Qof F q) _ _ shift (hqr_Q_orth F hsqrt hcut mat hw hsq shift q hq).1
    (hqr_QR_matrix F hsqrt hcut mat hw hsq shift q hq)).symm

/-- (e) `matrix_QtHQ` is upper Hessenberg (no hypothesis on the rotations) -/
theorem hqr_QtHQ_hessenberg_matrix (mat : Mat K) (hw : WF mat) (hsq : mat.cols = mat.rows) (shift : K)
    (q : UpperHessenbergQR K) (hq : q = hqr F mat shift)
    (i j : Fin q.n) (hji : j.val + 1 < i.val) : toM F q.n q.n (QtHQ F q) i j = 0 := by
  subst hq
  exact hqr_qthq_hessenberg F mat hw hsq shift i.val j.val i.isLt j.isLt hji

/-- M4: the computed decomposition, in `Matrix` language (`n = mat.rows`) -/
theorem hqr_matrix (hsqrt : ∀ x : K, 0 ≤ x → F.sqrt x * F.sqrt x = x ∧ 0 ≤ F.sqrt x) (hcut : C08Givens.cutoff F ≤ 0)
    (mat : Mat K) (hw : WF mat) (hsq : mat.cols = mat.rows) (shift : K) :
    let n := mat.rows
    let Q : Matrix (Fin n) (Fin n) K := Qof F (hqr F mat shift)
    let R : Matrix (Fin n) (Fin n) K := toM F n n (hqr F mat shift).R
    let Hm : Matrix (Fin n) (Fin n) K := toM F n n (Mat.ofFn n n (fun i j => if i ≤ j + 1 then mget F mat i j else 0))
    let T : Matrix (Fin n) (Fin n) K := toM F n n (QtHQ F (hqr F mat shift))
    (Qᵀ * Q = 1 ∧ Q * Qᵀ = 1) ∧
    Q * R = Hm - shift • (1 : Matrix (Fin n) (Fin n) K) ∧
    (∀ i j : Fin n, j < i → R i j = 0) ∧
    T = R * Q + shift • (1 : Matrix (Fin n) (Fin n) K) ∧
    T = Qᵀ * Hm * Q ∧
    (∀ i j : Fin n, j.val + 1 < i.val → T i j = 0) := by
  intro n Q R Hm T
  exact ⟨hqr_Q_orth F hsqrt hcut mat hw hsq shift _ rfl, hqr_QR_matrix F hsqrt hcut mat hw hsq shift _ rfl,
    fun i j h => hqr_R_upper_matrix F mat hw hsq shift _ rfl i j h, hqr_RQ_matrix F mat hw hsq shift _ rfl,
    hqr_QtHQ_matrix F hsqrt hcut mat hw hsq shift _ rfl,
    fun i j h => hqr_QtHQ_hessenberg_matrix F mat hw hsq shift _ rfl i j h⟩

end AtField
end C08HessMatrix
