from vlib.core import *

META = dict(
    level_text="Proved: (A) structural facts about the source, re-derived from the clang AST of the whole include/Spectra tree (with and without -DSPECTRA_VERIF) plus an independent token scan on every run: no non-const variable with static storage duration anywhere (c20_no_statics, c20_no_statics_verif_build: the only thread_local is the verification observer slot), every static/mutable/thread_local/extern keyword of the header text is accounted for by a classified AST declaration (c20_keywords_accounted), the six Dense/Sparse Sym/Gen/Herm product wrappers have exactly one const-qualified Ref<const Matrix> member, no mutable member, no reference/pointer to non-const, no base class, only const operation methods (c20_wrappers_readonly, c20_wrappers_shape), the mutable members of the tree are exactly the 11 documented scratch members, each in a per-solver adaptor or a stateful user operator and none in a shareable wrapper (c20_scratch_private), adaptors are held by value / owning pointer / moved into m_op_container, never by reference (c20_scratch_held_by_owner), no use of rand/time/clock/getenv/random_device/new-handlers/const_cast (c20_no_global_facilities); (B) non-interference for ANY number of threads, ANY actions, ANY schedule of ANY length, by induction on the interleaving: with private states and one shared immutable value every interleaving (inductive Merge) ends in exactly the states of the solo runs (c20_interleave), hence equal results for any two schedules and equality with the sequential schedule (c20_interleave_results, c20_concurrent_eq_sequential); the same over one global store with frame/locality hypotheses instead of types (c20_interleave_mem, c20_interleave_mem_schedules). NOT proved, observed only: absence of data races below the granularity of a model action (inside Eigen kernels, allocator, libstdc++), which is what the ThreadSanitizer harness explores: 2..16 threads x 13 solver configurations, private operators or one shared product wrapper, randomised launch order/barrier/delays, bitwise concurrent-vs-sequential comparison of eigenvalues, eigenvectors, counters, status.",
    note="Lean kernel + standard axioms; the footprint extractor xlate/tgt_c20.py (clang-14 JSON AST + token scan; cross-checked against the symbol table and type traits of the compiled harness on every run); the step from 'no static storage and read-only shared wrappers' to the Local/private-state hypotheses of the model is an informal reading of the C++ object model (a C-style cast removing const, or third-party code with hidden shared state, is not excluded by the footprint); ThreadSanitizer (gcc 12 libtsan) observes only the schedules that occur",
    technique="Lean 4 proof (induction on interleavings; decide on source-regenerated footprint literals) + ThreadSanitizer differential exploration on the implementation",
    design="§5 C20", harnesses=[{'name': 'c20', 'sanitize': False, 'extra': ['-fsanitize=thread']}])

TSAN = ['-fsanitize=thread']

def run(tier, seed, replay=None):
    R = Run('C20', tier, seed)
    R.trusted = TRUSTED_COMMON + [
        'footprint extractor /verif/xlate/tgt_c20.py: clang-14 JSON AST of every declaration in namespace Spectra (guard on and off) + token scan of the header text; a declaration outside namespace Spectra is caught only by the token scan',
        'reading of the footprint as the hypotheses of Par (every location a solver run writes lies inside objects owned by that run): informal; C-style casts that drop const and hidden state in Eigen/libstdc++ are not covered',
        'ThreadSanitizer (gcc 12): reports races only on schedules that actually occur; TSan and ASan cannot be combined, so this harness runs without ASan/UBSan']
    R.assumptions = ['the user does not share a stateful operator (shift-solve operators, SparseRegularInverse, Cholesky operators) between threads: the property\'s sharing clause covers product wrappers only',
                     'sequential determinism of one run (C06) is taken from C06; here concurrent results are compared with the sequential results of the same process']
    if replay:
        exe, log = build_harness('c20', sanitize=False, extra=TSAN)
        if exe is None:
            R.oblige('harness-build:c20', False, log); return R.finish()
        out = os.path.join(R.work, 'replay'); rc, hlog = run_harness(exe, out, seed, tier, ['--replay', replay])
        R.failures += load_oracle(os.path.join(out, 'oracle.jsonl'))
        if rc != 0 and not R.failures:
            m = re.search(r'(SUMMARY:[^\n]*)', hlog)
            R.failures.append({'sig': 'harness-abort', 'what': f'replay exited with {rc}: ' + (m.group(1) if m else hlog[-300:]), 'replay': {'replay_of': replay, 'log_tail': hlog[-1500:]}})
        return R.finish()
    standard_prove(R, 'C20', ['Footprint', 'Rand'])
    r = standard_corr(R, 'c20', 'footprint+par', sanitize=False, extra_flags=TSAN)
    if R.broken and not R.failures and tier == 'quick':
        R.notes.append('obligation broken: extended search for a concrete racing / differing launch at the thorough budget')
        standard_corr(R, 'c20', 'footprint+par-search', sanitize=False, extra_flags=TSAN, tier='thorough')
    if r:
        st = r['stats'].get('counters', {})
        R.cov['distinct_nontrivial'] = sum(v for k, v in st.items() if k == 'oracle_job_ok') + distinct_count(os.path.join(r['out'], 'requests.txt'))
        R.cov['launches'] = st.get('launches', 0)
        R.cov['tsan_reports'] = st.get('tsan_reports', 0)
        R.cov['rule'] = ('a launch = T threads (quick 2..8, thorough 2..16) started in random order behind a barrier with random pre-delays, each solving its own job '
                         '(class, nev, ncv, selection rule; matrix size 16..55) either on private operators over distinct random matrices, or all on ONE shared '
                         'Dense/Sparse product wrapper (same matrix, different nev/ncv/rule), or mixed classes; every job is run sequentially before and after and '
                         'concurrently (2 (quick) / 3 (thorough) barrier-started rounds x 3 back-to-back solves per thread) and compared bitwise (eigenvalues, eigenvectors, nconv, info, iteration and operation counters); '
                         'non-trivial = jobs whose sequential run completed without exception (counted) + distinct model requests (footprint probes, par_rng schedules); '
                         'the schedules explored are those the OS produced, not enumerated')
        R.cov['exhaustive'] = False
    return R.finish()
