from vlib.core import *

META = dict(
    level_text="Exact-arithmetic content proved for all n, m, k, every operator A, every (not necessarily definite) inner-product matrix B and every history: one extension exactly as Arnoldi::factorize_from performs it (v = f/beta, H(i,i-1) = beta, column h, f' = A v - V h, any number of corrections f -= V g, h += g) maps a k-step relation A V = V H + f e_k' to a (k+1)-step relation for EVERY h and g (c07_extend), the Lanczos three-term variant under B-self-adjointness + orthonormality (c07_extend_lanczos), orthonormality is preserved when h = V'Bw and beta^2 = <f,f>_B (c07_orth), the implicit-restart update V+ = VQ, f+ = f Q(m-1,k-1) + v+_k H+(k,k-1) yields the k-step relation with V+'BV+ = I, V+'Bf+ = 0 (c07_compress, c07_compress_orth) and compress_V's truncated column sums equal the full products for banded Q (c07_compress_band), continuing after a breakdown with a fresh direction and H(i,i-1) = 0 preserves the relation iff the discarded residual is 0, with the explicit error term otherwise (c07_breakdown), init (c07_init), composition over any finite sequence of extend/compress/breakdown steps by induction (c07_run), H stays upper Hessenberg / symmetric tridiagonal and k is the advertised dimension (c07_hessenberg, c07_tridiagonal_symmetric). What Lanczos' re-orthogonalisation drops from H is stated as an explicit error term (c07_lanczos_dropped). On the EXECUTABLE model: the array kernels compute the Finset sums used in the theorems (c07_kernel_sums), compress_V's truncated sums are the abstract compress step for banded Q (c07_model_compress_V), one pass of Arnoldi.factorize_from's loop is specified entry by entry and preserves the relation and its loop invariant (c07_model_step_spec, c07_model_extend, c07_model_factorStep), and k is the advertised dimension for every scalar type incl. Float (c07_dim_model). Rounding is NOT modelled: 'to rounding level relative to ||A||' is checked only by the long-double oracle on the real code.",
    note="Lean kernel + propext/Classical.choice/Quot.sound; hand-written model tied to the real classes by bit-exact correspondence on sampled histories; Eigen gemv/dot evaluation order as compiled with EIGEN_DONT_VECTORIZE; rounding and the floating comparisons (breakdown tests) are oracle outcomes, not proved",
    technique="Lean 4 / Mathlib proof (Finset.sum / Matrix algebra, induction on the step sequence) on an executable scalar-generic model + bit-exact differential correspondence + long-double predicate oracle through the observer hooks",
    design="§5 C07", harnesses=['c07'])

def run(tier, seed, replay=None):
    R = Run('C07', tier, seed)
    R.trusted = TRUSTED_COMMON + [
        'hand-written model Model/Arnoldi.lean, Model/Lanczos.lean: tied to Arnoldi.h / Lanczos.h / ArnoldiOp.h only by the sampled bit-exact correspondence (every V, H, f, beta, k, op count, accepted expansion count after every init / factorize_from / compress step)',
        'theorems are about exact arithmetic over a field; floating-point rounding, the breakdown / re-orthogonalisation comparisons and convergence of the re-orthogonalisation loop are not modelled (theorems quantify over every h, g and every branch outcome instead)',
        'QR helpers (UpperHessenbergQR, TridiagQR, DoubleShiftQR) are used as black boxes here: c07_compress assumes H Q = Q H+ , H+ Hessenberg and the band of Q (their proof is property C08)',
        'the oracle of the B-inner-product solver runs builds the operator matrix by applying the real operator to unit vectors in double (error ~ cond(B) eps, covered by the stated constants)']
    R.assumptions = ['real scalars in model and correspondence (complex Hermitian covered only by the scalar-generic theorems over a commutative ring with trivial conjugation)', 'm < 128 (Eigen gemv column blocking changes the summation order above)', 'finite inputs']
    if replay:
        exe, log = build_harness('c07')
        out = os.path.join(R.work, 'replay'); rc, hlog = run_harness(exe, out, seed, tier, ['--replay', replay])
        R.failures += load_oracle(os.path.join(out, 'oracle.jsonl'))
        return R.finish()
    standard_prove(R, 'C07', ['Rand'])
    r = standard_corr(R, 'c07', 'krylov')
    if R.broken and not R.failures and tier == 'quick':
        R.notes.append('obligation broken: extended search at thorough budget')
        standard_corr(R, 'c07', 'krylov-search', tier='thorough')
    if r:
        R.cov['distinct_nontrivial'] = distinct_count(os.path.join(r['out'], 'requests.txt'))
        R.cov['rule'] = ('direct histories init / factorize_from(1,m1) / factorize_from(m1,m) / up to 3 x [compress with 1..m-1 real shifts (UpperHessenbergQR, DoubleShiftQR, TridiagQR) + compress_V + factorize_from(k,m)] on the real Arnoldi and Lanczos classes (identity and dense SPD B), n 2..12, m 2..8, generators random / small integers with zeros / block diagonal with start vector in the small invariant block / rank-deficient scaled 1e-8..1e8 / eigenvector start / graded; plus a fixed share (nd/4 per class) of STRUCTURED BREAKDOWN histories (exact eigenvector start, eigenvector up to rounding, sum of two eigenvectors, exact integer invariant block of size 2..3; Lanczos also with B = blockdiag(4^k, dense SPD) resp. dense SPD) that take the init f := 0 guard, beta < near_0 -> expand_basis, the re-orthogonalisation f := 0 shortcut and continue with further steps after the restart (branch tags counted as corrtag_* in harness_counters); a correspondence line is written for every finite history, also when the oracle fails on it; compress_V on explicit states with arbitrary dense Q; '
                         'full runs of SymEigsSolver, GenEigsSolver, SymGEigsSolver<Cholesky>, SymGEigsSolver<RegularInverse> (n 4..40) observed at arnoldi.init / *.factorize / arnoldi.expand / arnoldi.compress; predicate constants: relation, V\'Bf <= 2000 k u ||A||_F, ||V\'BV-I||_F <= 2000 k u (x cond_F(B)), |beta-||f||_B| <= 2000 u ||f||; distinct request lines counted')
        R.cov['exhaustive'] = False
    return R.finish()
