from vlib.core import *

META = dict(
    level_text="Exact-arithmetic / discrete content proved for all sizes and inputs: (c02_residual) a pair handed back satisfies A x - theta x = y_last f for complex theta, y over the real Arnoldi relation, so the flag test of num_converged bounds its norm; (c02_unit) ||x|| = ||y|| when V'V = I; (c02_realshift) lambda = sigma + 1/nu inverts nu = 1/(lambda - sigma), the residual identity of the shifted operator, and for EVERY kernel record every value returned by eigenvalues() after sort_ritzpair is a back-transformed Ritz value (never a value of the transformed spectrum), instantiated for the executable general-solver kernel; (c02_quadratic) nu = (1/(lambda-sigma) + 1/(lambda-conj sigma))/2 iff lambda is a root of the code's quadratic, whose two roots are exactly the code's candidates root1 = root_part1 + root_part2 and root2 = sigmar + 2 sigmai^2 nu / (1 + sqrt_disc) (= root_part1 - root_part2 over a field, c02_quadratic_root2; the repair 0117f45 of the cancellation at nu ~ 0), and for nu = 0 (eigenvalue AT Re sigma) root2 is Re sigma exactly, the unique solution (c02_quadratic_nu_zero); boundary lemmas behind F14 (a real nu with negative discriminant has both roots lambda, conj lambda for the SAME nu); (c02_pairs) the conjugate-pair loop of GenEigsComplexShiftSolver::sort_ritzpair, whose pair test is made on the transformed Ritz value nu (repair of F14), writes every slot exactly once and, PROVIDED complex Ritz values are adjacent exact conjugates (P1), overwrites with conj(lambda) only the slot that held conj(nu); every slot ends with its own eigenvalue when the root selection commutes with conjugation (c02_pairs_own; the quadratic does: c02_quadratic_conj); no hypothesis on the selected roots is left (the former P2), the former P2 counter-model is now an example of the repaired behaviour; machine-checked counter-model without P1; (c02_restart_schedule) under P1 the single/double-shift loop of GenEigsBase::restart applies every unwanted Ritz value exactly once; unconditionally (c02_restart_reads_in_range, the loop as repaired by c0124c3) it reads only indices < ncv, consumes every unwanted slot once and leaves m_k = k; without P1 exactly the unpaired complex values are applied as real shifts (c02_restart_unpaired). The SAME definitions (Model/GenSolver.lean: an Orch.Kern built from the Arnoldi, UpperHessenbergQR, DoubleShiftQR, UpperHessenbergEigen models and the source-translated nev_adjusted / is_complex / is_conj / sort keys / SimpleRandom) are run at Float against the real GenEigsSolver, GenEigsRealShiftSolver and GenEigsComplexShiftSolver on histories of at most four init/compute calls: return value, status, counters, eigenvalues, probe shift and a hash of the whole factorization object agree bit for bit, eigenvectors up to the final matrix-matrix product. The property's own predicate (residual with stated constants and exact back-transformation factors, unit norm, lambda in the spectrum of A by Bauer-Fike against a long-double dense reference, no duplicated simple eigenvalue, operator left at the user's shift) is evaluated on every pair handed back over the ten matrix classes of the quantifier.",
    note="Lean kernel + propext/Classical.choice/Quot.sound; translator; rounding and convergence are NOT proved (residual clause 'plus a rounding-level multiple of ||A||', convergence of the restarted iteration, correctness of the root selection by probing: oracle only); P1 (conjugate Ritz values adjacent after sorting) is a hypothesis: it holds for the Ritz values of UpperHessenbergEigen by c09_conj_compute before sorting, and std::sort keeps pairs adjacent only without key ties (F9); std::sort modelled as stable insertion sort (exact up to 16 elements: correspondence cases have ncv <= 16); libstdc++/libgcc/glibc complex arithmetic (operator/, sqrt, hypot) re-implemented in the model and pinned by the ckern stream; float/long double: scalar-generic theorems and the double oracle only",
    technique="Lean 4 proof (matrix algebra over a field with an embedded real subfield; induction over the pair loop and the shift loop, all comparisons arbitrary) + bit-exact differential correspondence of the executable instance through Orch.compute + long-double oracle against a dense reference",
    design="§5 C02", harnesses=['c02'])

def _canon_nan(line):
    def tok(t):
        u = t[2:] if t.startswith('e:') else t
        if len(u) >= 19 and u.isdigit():
            v = int(u)
            if v < (1 << 64) and ((v >> 52) & 0x7ff) == 0x7ff and (v & ((1 << 52) - 1)): return t[:len(t) - len(u)] + 'nan'
        return t
    return ' '.join(tok(t) for t in line.split(' '))

def compare_c02(req_file, impl_file, model_file, soft_ulps=0, float_fields=None, maxreport=5, rel_tol=1e-13):
    """compare_segments with one change: the soft rule of the `rows=` segment (eigenvectors = V * Y, a matrix-matrix product whose summation
       order differs from the model's) is |a - b| <= rel_tol * 64 * max(1, max|entry|): the terms V(i,k) Y(k,j) of every entry are bounded by 1
       (unit columns, unit coefficient vectors), so the absolute rounding difference is relative to 1 even when the sum itself cancels to a tiny
       vector (rank-deficient matrices, finding F13)."""
    res = {'total': 0, 'equal': 0, 'soft': 0, 'hard': [], 'badop': 0}
    with open(req_file) as fr, open(impl_file) as fi, open(model_file) as fm:
        for n, (rq, a, b) in enumerate(zip(fr, fi, fm)):
            res['total'] += 1
            a = a.rstrip('\n'); b = b.rstrip('\n')
            if a == b: res['equal'] += 1; continue
            # NaN is NaN: sign and payload of a NaN are not part of the result (x86 produces the negative quiet NaN for inf - inf, the model the positive one); seen
            # for the eigenvalue at Re sigma whose transformed Ritz value is exactly 0 (finding C02-resigma-cancellation)
            a = _canon_nan(a); b = _canon_nan(b)
            if a == b: res['equal'] += 1; res['nan_canonicalised'] = res.get('nan_canonicalised', 0) + 1; continue
            sa = a.split(' | '); sb = b.split(' | '); ok = len(sa) == len(sb)
            if ok:
                for x, y in zip(sa, sb):
                    if x == y: continue
                    tx = x.split(); ty = y.split()
                    if not (tx and tx[0].startswith('rows=') and len(tx) == len(ty)): ok = False; break
                    vals = [bits_to_float(int(t)) for t in tx if t.isdigit()]
                    scale = max([abs(v) for v in vals if v == v] + [1.0])
                    for p, q in zip(tx, ty):
                        if p == q: continue
                        if not (p.isdigit() and q.isdigit()): ok = False; break
                        fp, fq = bits_to_float(int(p)), bits_to_float(int(q))
                        if not (abs(fp - fq) <= rel_tol * 64 * scale): ok = False; break
                    if not ok: break
            if ok: res['soft'] += 1
            elif len(res['hard']) < maxreport: res['hard'].append((n + 1, rq.rstrip('\n')[:2000], a[:2000], b[:2000]))
            else: res['hard_more'] = res.get('hard_more', 0) + 1
    return res

def run(tier, seed, replay=None):
    R = Run('C02', tier, seed)
    R.trusted = TRUSTED_COMMON + [
        'theorems are exact-arithmetic / discrete; that the real numeric code is an instance of the model is validated by the bit-level correspondence, not proved',
        'libstdc++ std::complex operators, libgcc __divdc3/__muldc3, glibc csqrt/hypot as re-implemented in Model/GenSolver.lean and Model/HessEigen.lean (finite, unscaled paths), validated by the ckern/cdiv streams',
        'std::sort = stable insertion sort for at most 16 elements (libstdc++)',
        'the complex-shift operator is an explicit matrix Re[(A - sigma I)^-1] computed by the harness in long double for every shift the solver installs',
        'dense reference: Eigen::EigenSolver<long double>']
    R.assumptions = ['compute() is called after at least one init()', 'A - sigma I nonsingular with |lambda - sigma| >= 0.03 spectral radius for the shift solvers (shift-and-invert domain; streams 2/3: |lambda - sigma| >= 0.1, Re sigma MAY be an exact eigenvalue)',
                     'c02_pairs / c02_restart_schedule assume P1 (adjacent exact conjugates: UpperHessenbergEigen convention, kept by std::sort only without key ties above 16 elements); the former hypothesis P2 is gone with the repair of F14 (pair test on nu); P1 failed with an out-of-range read until /repo commit c0124c3 (F9)']
    if replay:
        exe, log = build_harness('c02')
        if exe is None:
            R.failures.append({'sig': 'harness-build', 'what': log[-400:], 'replay': {}}); return R.finish()
        out = os.path.join(R.work, 'replay'); rc, hlog = run_harness(exe, out, seed, tier, ['--replay', replay])
        R.failures += load_oracle(os.path.join(out, 'oracle.jsonl'))
        if rc != 0: R.failures.append({'sig': 'harness-abort', 'what': hlog[-400:], 'replay': {}})
        return R.finish()
    standard_prove(R, 'C02', ['Sort', 'Restart', 'Givens', 'Refl', 'Rand', 'Wilk'])
    r = standard_corr(R, 'c02', 'solver-gen', compare=compare_c02)
    if R.broken and not R.failures and tier == 'quick':
        R.notes.append('obligation broken: extended search at thorough budget')
        standard_corr(R, 'c02', 'solver-gen-search', tier='thorough', compare=compare_c02)
    if r:
        hc = r['stats'].get('counters', {})
        R.cov['distinct_nontrivial'] = distinct_count(os.path.join(r['out'], 'requests.txt'))
        R.cov['rule'] = ('histories init[(v)] compute [compute [compute]] | init compute init compute (at most 4 calls) on GenEigsSolver / GenEigsRealShiftSolver / '
                         'GenEigsComplexShiftSolver x 10 matrix classes (dense, normal, skew, orthogonal, permutation, triangular, companion, rank-1, block-diagonal, few distinct '
                         'eigenvalues incl. repeated complex pairs) x scales {1, 1e-3, 1e3}, n <= 14 (22 thorough), all six selection/sorting rules, tol in {1e-3..4.5e-16}, '
                         'maxit in {0..60} (300 thorough); targeted stream 1: complex shift with |lambda - Re sigma| = |Im sigma| for a real eigenvalue; stream 2 (GenEigsComplexShiftSolver): decoupled / block-diagonal '
                         'real matrices (1x1, 2x2 rotation-scaling, dense 3x3/4x4 blocks) with the blocks of the eigenvalues nearest to sigma placed so that the wanted eigenvectors vanish in the first nev '
                         'coordinates (decoupled-away, -perm: behind a permutation similarity that keeps the zeros), inside them (control) or anywhere (mixed); stream 3: upper triangular / diagonal + banded '
                         'strictly upper / block upper triangular / permuted matrices with exactly prescribed eigenvalues (multiples of 1/4) and sigma = (an exact real eigenvalue) + i tau, tau in {0.1 .. 2}, '
                         'or Re sigma = the real part of a 2x2 diagonal block; ckern stream: '
                         'std::sqrt(complex), the two roots, 1/nu + sigma, probe shift; every history is one request line (distinct lines counted)')
        R.cov['oracle'] = ('for every pair handed back (long double): ||A x - lambda x|| <= amp * (10 tol max(|nu|, eps^(2/3)) + 2000 n eps ||Op||_F) with amp = 1, nu = lambda (plain); '
                           'amp = |lambda - sigma| ||A - sigma I||_F, nu = 1/(lambda - sigma) (real shift); amp = ||(A - lambda\' I)^-1 ((A - Re sigma)^2 + Im sigma^2)||_F / |nu| (complex shift, '
                           'lambda\' the other root; skipped when infinite); | ||x|| - 1 | <= 1000 n eps (1 + restarts of this compute()); distance to the nearest reference eigenvalue <= 2 cond(X_ref) (bound + 100 n eps ||A||) '
                           'when cond(X_ref) < 1e8; complex shift, finite factor, orthonormal basis, cond(X_ref) < 1e8: a returned value at distance >= max(1e-3, 1000 tol) (||A||+|sigma|) from the spectrum whose mirror image '
                           'Re sigma + Im sigma^2 / (lambda - Re sigma) is an eigenvalue to 1e-7 (||A||+|sigma|) = wrong-root; two returned values within 1e-3 gap of one simple reference eigenvalue (gap > 1e-6 ||A||) = duplicate; operator shift restored; complex shift with infinite factor: the returned value must not be >= 1e-3 (||A||+|sigma|) from the spectrum while the other root is an eigenvalue (wrong-root); '
                           'num_operations() = counted applications; no Eigen assertion')
        tags = {'successful': 'oracle_successful', 'partial': 'oracle_partial', 'none converged': 'oracle_none', 'complex-shift probes': 'probe_solves',
                'F14 configuration': 'cfg_dist-eq-imsigma', 'decoupled, wanted eigenvectors away from the first nev coordinates': 'cfg_decoupled-away',
                'decoupled away behind a permutation': 'cfg_decoupled-away-perm', 'decoupled, wanted eigenvectors inside (control)': 'cfg_decoupled-inside', 'decoupled mixed': 'cfg_decoupled-mixed',
                'Re sigma exact eigenvalue: triangular': 'cfg_exact-resigma-tri', 'Re sigma exact eigenvalue: diagonal + banded upper': 'cfg_exact-resigma-banded',
                'Re sigma exact eigenvalue: block triangular': 'cfg_exact-resigma-blocktri', 'Re sigma exact eigenvalue: permuted': 'cfg_exact-resigma-perm',
                'Re sigma = real part of a 2x2 block': 'cfg_exact-resigma-blockre', 'mirror-root predicate evaluated': 'oracle_mirror_checked', 'pair at Re sigma handed back (nu = 0)': 'oracle_pairs_at_resigma'}
        R.cov['structured_shares'] = {k: v for k, v in hc.items() if k.startswith(('cfg_', 'stream_', 'structured_', 'oracle_mirror', 'oracle_pairs_at'))}
        R.cov['model_branches_reached'] = sorted(k for k, v in tags.items() if hc.get(v, 0) > 0)
        R.cov['model_branches_uncovered'] = sorted(k for k, v in tags.items() if hc.get(v, 0) == 0)
        R.cov['exhaustive'] = False
    return R.finish()
