from vlib.core import *

META = dict(
    level_text="Exact arithmetic (Mathlib Matrix, any linearly ordered field, R with Real.sqrt): an eigenpair of A'A with lambda = sigma^2 > 0 and unit v gives u = A(v/sigma) with |u| = 1, Av = sigma u, A'u = sigma v; orthonormal v_i give orthonormal u_i; the same for AA' (c16_triplets*); A'A and AA' are positive semidefinite and every Ritz value w.r.t. any basis is >= 0, so sqrt is applied to non-negative numbers (c16_psd, c16_nonneg_exact). State machine of PartialSVDSolver built on the generic inner-solver model Orch, for EVERY inner kernel behaviour, matrix, scalar type and history: singular_values() has r = compute()'s return value <= ncomp entries, matrix_U(k)/matrix_V(k) always return, with exactly min(k, r) columns (c16_counts); values non-increasing given C18's sortedness of the final sort and monotone sqrt(max(.,0)) (c16_order); every compute() empties the eigenvector cache (c16_cache_invalidated; repair d08c57f of finding F4), so 'factors describe the most recent compute()' holds at full strength for every history (c16_latest) and the factors equal those of a fresh solver (c16_latest_equals_fresh, via C06 non-interference); singular values are sqrt(max(lambda,0)) >= 0 and the computed factor's column for sigma = 0 is the zero vector (c16_nonneg, c16_zero_column, c16_sigma; repair a913b0d of finding F5; finiteness at Float rests on the bit-exact correspondence and the oracle on rank-deficient inputs). The model at exact arithmetic is tied to the matrix theorems (c16_operator, c16_model_triplet_tall/wide: the explicit loops are Mathlib mulVec; the computed side is a singular vector whenever the inner pair is a unit eigenpair), the final sort hypothesis is discharged from C18 for the source-translated argsort (c16_order_argsort). Not proved: that the inner Lanczos solver returns genuine eigenpairs to tolerance (C01), rounding.",
    note="Lean kernel + propext/Classical.choice/Quot.sound; Mathlib Data.Matrix.Mul, Analysis.Real.Sqrt; the inner SymEigsSolver is the generic Orch model (theorems quantify over all kernels; the driver replays the recorded results of the real inner solver through Orch with the source-translated argsort); correspondence is bit-exact (0 soft differences): every Eigen product (matrix_U/V computed side, perform_op) is checked in the harness against the explicit left-to-right loop of the same operands within the componentwise bound 8(d+2)eps(|B||x|)_i and the loop result is what is compared bitwise with the model (token prod=ok|BAD); NaN columns are canonicalised; eigen_assert is redefined to throw in this harness so that out-of-range blocks are observable",
    technique="Lean 4 proof (Mathlib matrix algebra; invariants over histories of a state machine generic in the inner kernels) + differential correspondence through friend access + long double Jacobi SVD oracle",
    design="§5 C16", harnesses=['c16'])

def run(tier, seed, replay=None):
    R = Run('C16', tier, seed)
    R.trusted = TRUSTED_COMMON + [
        'inner solver: modelled by Orch (all kernels); genuineness of the eigenpairs it returns is property C01, not assumed here except as hypotheses of c16_triplets*',
        'Eigen dense/sparse products (m_mat * X, m_mat.transpose() * X, gemv in perform_op): modelled as left-to-right loops; the real products are required to agree with those loops componentwise to 8(d+2) eps (|B||x|)_i (harness, token prod=ok)',
        'IEEE sqrt is monotone and finite, non-negative on finite non-negative arguments (used to carry c16_order and c16_nonneg to Float)']
    R.assumptions = ['matrix_U/matrix_V are called only after a compute() has returned (m_nconv is uninitialised before: reading it is undefined behaviour; the harness never does it)',
                     'k >= 0 in matrix_U(k)/matrix_V(k) (a negative k is an Eigen assertion)']
    if replay:
        exe, log = build_harness('c16')
        out = os.path.join(R.work, 'replay'); rc, hlog = run_harness(exe, out, seed, tier, ['--replay', replay])
        R.failures += load_oracle(os.path.join(out, 'oracle.jsonl'))
        return R.finish()
    standard_prove(R, 'C16', ['Sort'])
    r = standard_corr(R, 'c16', 'svd-state-machine+operators', timeout=3000)
    if r:
        st = r['stats'].get('counters', {})
        R.cov['distinct_nontrivial'] = distinct_count(os.path.join(r['out'], 'requests.txt'))
        R.cov['rule'] = ('histories: 1-3 compute(maxit in {0,1,2,3,300,1000}, tol in {1e-3..1e-12}) interleaved with singular_values / matrix_U(k) / matrix_V(k), k in 0..ncomp+2; '
                         'shapes tall/wide/square 2..14 (thorough: ..40); dense col/row-major and sparse col/row-major; matrices: uniform random, small integers with zeros, graded singular values over 1-3 decades, '
                         'rank-deficient (integer products, real products, duplicated rows/columns), scaled by 1e-8..1e6; perform_op of SVDTallMatOp/SVDWideMatOp on all four storage variants; '
                         'full-rank matrices scaled by 1e-8..1e8; fixed F4/F5/F12 witnesses; '
                         'partial-convergence share (stream 6, half of it also in the correspondence): A = P S W\' with prescribed spectra (families top-pair, top-triple, second-pair, hidden-lead, hidden-lead-pair, hidden-lead-plain: '
                         'cluster of relative gap 1e-9..1e-6 next to separated values, linear tail), the operator-side leading singular vector orthogonal to the start vector SimpleRandom(0).random_vec(dim) up to delta in {0,1e-8..1e-3}, '
                         'd = 10..30 (thorough ..40), tall/wide/square by idx mod 3, ncv - ncomp in {1,2,3,ncomp}, 3-6 compute(maxit in 1..12, tol in {1e-6..1e-12}) per object each followed by S/U/V; every returned value must be a singular value of A '
                         '(distance to the reference spectrum <= (100 tol + 1e-9)||A||, also when fewer than ncomp converged) and the factor identities are graded on whatever was returned; 6 fixed sin-matrix witnesses with maxit = 1..12 (stream 7); distinct request lines counted')
        R.cov['exhaustive'] = False
        R.cov['input_histogram'] = {k: v for k, v in st.items() if k.startswith(('shape_', 'kind_', 'variant_', 'compute_', 'op_', 'opcase_', 'cluster_', 'partial_witness', 'all_converged_'))}
    return R.finish()
