from vlib.core import *
import struct

META = dict(
    level_text="Proved for ALL kernels (every eigen-solver / orthogonaliser that leaves the old columns alone / sort / correction function / dot / norm / comparison, every linear operator, any commutative ring, every initial space incl. non-orthonormal and dependent ones, every tol/maxit/sizes): the cached products stay A*basis through initialize/update/restart/extend and every stored residue is the true residual A x - theta x (c15_cached_products*, also for Mathlib Matrix.mulVec); info = Successful implies the convergence test was passed by the TRUE residuals of the first nev pairs the space holds at least nev pairs and compute returns nev (c15_successful, c15_successful_true_residuals); num_iterations < maxit, one Rayleigh-Ritz step per iteration, space size <= max at every step and at exit, exactly within [initial, max] for length-preserving kernels, max <= n, nev <= initial and initial + correction <= n from the translated constructor/initialize (c15_iterations*, c15_sizes*); values at exit ordered by the selection rule via the translated argsort over any ordered field (c15_order*); Gram matrix of Ritz vectors = Gram matrix of small eigenvectors when the basis is orthonormal, and orthonormal basis + orthonormal Ritz vectors at every exit for specification-conforming kernels and an orthonormal (e.g. default) initial space, with a counter-model for a non-orthonormal user space (c15_unit_orth*); the repaired DPR correction does not depend on the value of a division by zero (finite for every theta), equals the DPR quotient where theta != a_ii and is 0 elsewhere (c15_correction_defined); the extension step is extend_basis -> twice_is_enough_orthogonalisation -> 2 x (subspace_orthogonalisation; QR_orthogonalisation = Q factor of Eigen::HouseholderQR) and reaches no Gram-Schmidt / normalize() routine, read off the call footprint of Orthogonalization.h / SearchSpace.h regenerated on every run (c15_extension_uses_householder_qr); for an orthogonaliser meeting the Q-factor specification (appended block orthonormal in itself for EVERY input) every appended column has unit norm and is non-zero whatever the old columns are (c15_extension_block_orthonormal), with a counter-model where an orthogonaliser that leaves a zero column yields Successful with eigenvalue 0 and a zero eigenvector. Eigen's SelfAdjointEigenSolver and HouseholderQR enter by specification only; rounding and convergence are not proved (oracle with stated slack). OBJECT REUSE (code repaired by /repo 6587027): for EVERY state an earlier history of calls can have left in the object, every maxit (0 included), every initial space (also wider than max) and every outcome of the small eigenproblems, compute_with_guess leaves exactly the object and the return value of the same call on a fresh solver (c15_recompute, c15_recompute_accessors), so every theorem above holds for an object in any state and Successful means THIS call's test passed by the true residuals after any history (c15_successful_reused, c15_successful_true_residuals_reused); with maxit = 0 ANY object reports NotComputed, returns 0 and hands out no eigenvalue / eigenvector / flag (c15_maxit0_not_computed); info() after a call is never carried over: NotComputed iff maxit = 0 (c15_info_of_this_call). OWNERSHIP / RESET FOOTPRINT, decided over the data members, aliases and flattened statement sequences of JDSymEigsBase / DavidsonSymEigsSolver / SearchSpace / RitzPairs regenerated from the AST on every run: the operator reference is the only non-owning member, no mutable / cache member, the initial space is copied into the owning basis, accessors return by value (c15_members_owning); the statements of compute_with_guess before the loop are m_ritz_pairs = RitzPairs<Scalar>(); m_info = CompInfo::NotComputed; m_search_space.initialize_search_space(initial_space); niter_ = 0 - every result member of the object is reset, unconditionally, no other member is assigned, RitzPairs() is the defaulted constructor of a class without default member initialisers and without a declared assignment operator (empty arrays), initialize_search_space assigns every member of SearchSpace, inside the loop compute_eigen_pairs / check_convergence assign every member of RitzPairs and every break writes m_info (c15_compute_resets, the full clause). F11 (0/0 in the DPR correction), F18 (sizes reset below nev) and F21 / F21b / F21c (maxit = 0, a first-iteration restart or a throwing call on a used object saw the previous call's Ritz pairs and status) are repaired in /repo and covered by c15_correction_defined / c15_sizes / c15_successful / c15_compute_resets / c15_recompute; F16 (non-orthonormal user space), F19 (degenerate correction block) and F20 / F20c (max < initial, guess narrower than initial) remain known findings.",
    note="Lean kernel + propext/Classical.choice/Quot.sound; translator xlate + clang-14 AST for Gen.JD / Gen.JDOrth (call footprint of Orthogonalization.h) / Gen.JDMembers (data members with their default initialisers, aliases, declared constructors / assignment operators, statement sequences of compute / compute_with_guess / accessors) / Gen.Sort / Gen.Guard; Eigen SelfAdjointEigenSolver / HouseholderQR modelled by specification (their recorded outputs are replayed into the model and checked against the specification on every run); correspondence samples inputs",
    technique="Lean 4 proof (induction on the loop, list/module algebra) on a kernel-generic model + source-translated size logic; differential correspondence (exact discrete fields, tolerance on numerics, replay of third-party kernels); long-double oracle on the implementation",
    design="§5 C15", harnesses=['c15'])

XFLAGS = ['-fno-sanitize=null']   # Eigen's selfadjoint product forms &dst.coeffRef(0,0) on the empty (n x 0) product that restart() produces: benign, reported

def _d(tok): return struct.unpack('<d', struct.pack('<Q', int(tok)))[0]

def _close(x, y, atol, rtol):
    if x != x or y != y: return (x != x) and (y != y)
    return abs(x - y) <= atol + rtol * max(abs(x), abs(y))

def cmp_line(rq, a, b):
    """returns 'equal' | 'soft' | 'tie' | ('hard', why)"""
    if a == b: return 'equal'
    if b == 'bad-op': return ('hard', 'model: bad-op')
    op = rq[0]
    if op in ('sizes', 'initspace', 'dpr'): return ('hard', op + ' differs (exact comparison)')
    if op == 'run':
        ta = a.split(); tb = b.split()
        try:
            tol = _d(rq[7]); maxit = int(rq[6])
            ia, ra, na, ka = map(int, ta[:4]); ib, rb, nb, kb = map(int, tb[:4])
            sa = list(map(int, ta[4:4 + ka])); sb = list(map(int, tb[4:4 + kb]))
            ea = [_d(t) for t in ta[5 + ka:]]; eb = [_d(t) for t in tb[5 + kb:]]
        except Exception as e: return ('hard', 'unparsable run response: ' + repr(e))
        k = min(len(sa), len(sb))
        if sa[:k] != sb[:k]: return ('hard', 'search-space sizes per iteration differ')
        # runs that restart discard the newest corrections at every restart and are numerically chaotic in the iteration count
        # (the model's own kernels differ from Eigen's in the last bits): there only the sizes, and the eigenvalues when both
        # converge, are compared here; the exact discrete behaviour of every iteration is tied by the `step` requests
        restarts = any(y < x for x, y in zip(sa, sa[1:])) or any(y < x for x, y in zip(sb, sb[1:]))
        if restarts and (na != nb) and {ia, ib} <= {0, 2}:
            if ia == ib == 0:
                for x, y in zip(ea, eb):
                    if not _close(x, y, 4 * tol + 1e-9, 1e-9): return ('hard', f'eigenvalue differs beyond 4*tol: {x} vs {y}')
            return 'tie'
        if max(na, nb) > 2 * min(na, nb) + 2: return ('hard', f'iteration counts differ by more than a factor 2 (+2): {na} vs {nb}')
        if ia == ib == 2: ra = rb     # both NotConverging: the number of pairs that happen to be below tol at the cut-off is not compared
        if ia != ib or ra != rb:
            if {ia, ib} == {0, 2} and na != nb and max(na, nb) == maxit - 1: return 'tie'     # converged exactly at the maxit boundary in one of the two
            return ('hard', f'info/return differ: impl ({ia},{ra}) model ({ib},{rb})')
        if ia == 0:
            if len(ea) != len(eb): return ('hard', 'number of eigenvalues differs')
            for x, y in zip(ea, eb):
                if not _close(x, y, 4 * tol + 1e-9, 1e-9): return ('hard', f'eigenvalue differs beyond 4*tol: {x} vs {y}')
        return 'soft'
    if op == 'step':
        pa = a.split('|'); pb = b.split('|')
        if len(pa) != 3 or len(pb) != 3: return ('hard', 'unparsable step response')
        ha = pa[0].split(); hb = pb[0].split()
        try:
            tol = _d(rq[8])
            na = [_d(t) for t in pa[1].split()]; nb = [_d(t) for t in pb[1].split()]
            wa = [_d(t) for t in pa[2].split()]; wb = [_d(t) for t in pb[2].split()]
        except Exception as e: return ('hard', 'unparsable step numbers: ' + repr(e))
        if hb[-5:] != ['1', '1', '1', '1', '1']: return ('hard', 'recorded third-party kernel output violates its specification (left columns untouched, column count, corrections inside the new span, appended block orthonormal in itself [Householder Q factor: unit-norm columns], eigen-decomposition) = ' + ' '.join(hb[-5:]))
        scale = 1.0 + max([abs(x) for x in wa if x == x] + [0.0])
        if len(wa) != len(wb) or len(na) != len(nb): return ('hard', 'shape of cached products / residues differs')
        for x, y in zip(wa, wb):
            if not _close(x, y, 1e-10 * scale, 1e-9): return ('hard', f'cached product entry differs: {x} vs {y}')
        for x, y in zip(na, nb):
            if not _close(x, y, 1e-9 * scale, 1e-6): return ('hard', f'residue norm differs: {x} vs {y}')
        if ha != hb:
            if ha[:2] == hb[:2] and len(ha) == len(hb) and any(abs(x - tol) <= 1e-9 * scale + 1e-6 * tol for x in nb): return 'tie'
            return ('hard', 'discrete fields differ: impl `' + ' '.join(ha) + '` model `' + ' '.join(hb) + '`')
        return 'soft'
    if op == 'recall':
        pa = a.split('|'); pb = b.split('|')
        if len(pa) != 3 or len(pb) != 3: return ('hard', 'unparsable recall response')
        ha = pa[0].split(); hb = pb[0].split()
        try:
            tol = _d(rq[8])
            na = [_d(t) for t in pa[1].split()]; nb = [_d(t) for t in pb[1].split()]
            wa = [_d(t) for t in pa[2].split()]; wb = [_d(t) for t in pb[2].split()]
        except Exception as e: return ('hard', 'unparsable recall numbers: ' + repr(e))
        if hb[-1:] != ['1']: return ('hard', 'recorded SelfAdjointEigenSolver output is not an eigen-decomposition of the small matrix of the first step of this call')
        scale = 1.0 + max([abs(x) for x in wa if x == x] + [0.0])
        if len(wa) != len(wb) or len(na) != len(nb): return ('hard', 'shape of cached products / residues after the call differs (used object, model started from the state of the previous call)')
        for x, y in zip(wa, wb):
            if not _close(x, y, 1e-10 * scale, 1e-9): return ('hard', f'cached product entry differs: {x} vs {y}')
        for x, y in zip(na, nb):
            if not _close(x, y, 1e-9 * scale, 1e-6): return ('hard', f'residue norm differs: {x} vs {y}')
        if ha != hb:
            if ha[:2] == hb[:2] and len(ha) == len(hb) and rq[7] == '1' and any(abs(x - tol) <= 1e-9 * scale + 1e-6 * tol for x in nb): return 'tie'
            return ('hard', 'call on a used object: info / num_iterations / return value / flags / eigenvalues differ: impl `' + ' '.join(ha)[:160] + '` model `' + ' '.join(hb)[:160] + '`')
        return 'soft'
    return ('hard', 'unknown request kind')

def corr15(R, tier, oracle_only=False):
    exe, log = build_harness('c15', extra=XFLAGS)
    if exe is None:
        R.oblige('harness-build:c15', False, log); return None
    out = os.path.join(R.work, 'c15_' + tier)
    rc, hlog = run_harness(exe, out, R.seed, tier, None, timeout=3000)
    stats = {}
    try: stats = json.load(open(os.path.join(out, 'stats.json')))
    except Exception: pass
    fails = load_oracle(os.path.join(out, 'oracle.jsonl'))
    if rc != 0:
        tail = hlog[-1500:]
        m = re.search(r'(ERROR: AddressSanitizer[^\n]*|runtime error:[^\n]*|Assertion[^\n]*failed[^\n]*|SUMMARY:[^\n]*)', hlog)
        last = None; lp = os.path.join(out, 'lastcase.txt')
        if os.path.exists(lp): last = open(lp).read()[:3000]
        fails.append({'sig': 'harness-abort', 'what': f'harness c15 exited with {rc}: ' + (m.group(1) if m else tail[-300:]),
                      'replay': {'harness': 'c15', 'seed': R.seed, 'tier': tier, 'lastcase': last, 'log_tail': tail}})
    # report order: failures of the property's own clauses (Successful with a non-unit / non-orthogonal vector, a residual above tol, ...) before
    # the kernel-level ones of the same run, so that the replay written for a violation is an end-to-end failing input where there is one
    fails.sort(key=lambda f: 1 if f.get('sig') in ('extension-block-not-orthonormal', 'basis-not-orthonormal') else 0)
    R.failures += fails
    req = os.path.join(out, 'requests.txt'); impl = os.path.join(out, 'impl.txt'); model = os.path.join(out, 'model.txt')
    res = {'total': 0, 'equal': 0, 'soft': 0, 'tie': 0, 'hard': []}
    kinds = {}
    if oracle_only: pass
    elif os.path.exists(req) and os.path.getsize(req) > 0 and os.path.exists(drv_path('C15')):
        rcd, err = run_driver(req, model, 'C15')
        if rcd != 0: R.oblige('corr:davidson', False, 'driver crashed: ' + err)
        else:
            with open(req) as fr, open(impl) as fi, open(model) as fm:
                for n, (rq, a, b) in enumerate(zip(fr, fi, fm)):
                    rqt = rq.split(); res['total'] += 1
                    v = cmp_line(rqt, a.strip(), b.strip())
                    kinds[rqt[0]] = kinds.get(rqt[0], 0) + 1
                    if isinstance(v, tuple):
                        if len(res['hard']) < 5: res['hard'].append((n + 1, rq[:300], a[:300], b[:300], v[1]))
                        else: res['hard_more'] = res.get('hard_more', 0) + 1
                    else: res[v] += 1
            nm = sum(1 for _ in open(model))
            if nm != res['total'] or sum(1 for _ in open(impl)) != nm: res['hard'].append((0, '', '', '', 'line counts of request/implementation/model streams differ'))
            for kind in ('sizes', 'initspace', 'dpr', 'run', 'step', 'recall'):
                hk = [h for h in res['hard'] if h[1].startswith(kind)]
                if kinds.get(kind, 0) == 0: R.oblige(f'corr:{kind}', False, 'no request of this kind was produced')
                elif hk: R.oblige(f'corr:{kind}', False, f'line {hk[0][0]}: {hk[0][4]}: request `{hk[0][1][:120]}...` implementation `{hk[0][2][:200]}` model `{hk[0][3][:200]}` (+{len(hk) - 1 + res.get("hard_more", 0)} more)')
                else: R.oblige(f'corr:{kind}', True, f'{kinds[kind]} requests agree')
            oth = [h for h in res['hard'] if not any(h[1].startswith(k) for k in ('sizes', 'initspace', 'dpr', 'run', 'step', 'recall'))]
            if oth: R.oblige('corr:streams', False, oth[0][4])
    elif os.path.exists(req) and os.path.getsize(req) > 0:
        R.oblige('corr:davidson', False, 'driver not built')
    c = R.cov
    c['evaluations'] = c.get('evaluations', 0) + stats.get('requests', 0) + sum(v for k, v in stats.get('counters', {}).items() if k.startswith('oracle_'))
    c.setdefault('harness_counters', {}).update({'c15:' + k: v for k, v in stats.get('counters', {}).items()})
    c['traces_validated_against_impl'] = c.get('traces_validated_against_impl', 0) + res['total']
    c['soft_differences'] = c.get('soft_differences', 0) + res['soft']
    c['near_tie_skips'] = c.get('near_tie_skips', 0) + res['tie']
    c['request_kinds'] = kinds
    c['samples'] = (c.get('samples', []) + stats.get('samples', []))[:12]
    return {'stats': stats, 'cmp': res, 'out': out, 'rc': rc}

def run(tier, seed, replay=None):
    R = Run('C15', tier, seed)
    R.trusted = TRUSTED_COMMON + [
        'Eigen::SelfAdjointEigenSolver and Eigen::HouseholderQR (inside twice_is_enough_orthogonalisation) are modelled by their specification (orthonormal eigen-decomposition of the small matrix; old columns untouched, new columns an orthonormal basis completing the same span, the appended block orthonormal in itself - unit-norm columns - for EVERY input as the leading columns of a Householder Q factor are); every recorded output is checked against that specification on the model side (spanok/blockok/eigok fields) and, for the appended block, also by the harness on every observed extension (oracle signature extension-block-not-orthonormal)',
        'exact arithmetic: theorems hold over a commutative ring / ordered field; rounding enters only through the stated oracle slack 64*eps*n*(||A||_F+1)*(||x||+1)',
        'harness compiled with -fno-sanitize=null in addition to the common flags: Eigen 3.4.0 forms &dst.coeffRef(0,0) of the empty n x 0 product that SearchSpace::restart + update_operator_basis_product evaluates (pointer never dereferenced)']
    R.assumptions = ['the user operator is linear (x -> A x) and A is symmetric', 'the operator object (and the matrix behind it) outlives the solver and is not changed after construction', 'initial space has between corr and max columns (a wider or narrower one can run into the assertions of findings F20 / F20c, on a fresh and on a used object alike)']
    if replay:
        exe, log = build_harness('c15', extra=XFLAGS)
        out = os.path.join(R.work, 'replay'); rc, hlog = run_harness(exe, out, seed, tier, ['--replay', replay])
        R.failures += load_oracle(os.path.join(out, 'oracle.jsonl'))
        return R.finish()
    standard_prove(R, 'C15', ['JD', 'JDOrth', 'JDMembers', 'Sort', 'Guard'])
    r = corr15(R, tier)
    if R.broken and tier == 'quick':
        # an obligation is broken: look for a concrete failing input with the 10x case budget of the thorough generator (oracle only)
        R.notes.append('obligation broken: extended failing-input search run (thorough generator, oracle only)')
        corr15(R, 'thorough', oracle_only=True)
    if r:
        R.cov['distinct_nontrivial'] = distinct_count(os.path.join(r['out'], 'requests.txt'))
        R.cov['rule'] = ('matrix classes {diagonally dominant, dense non-dominant, block-diagonal, one exactly decoupled coordinate with extreme diagonal, diagonal, clustered, exact Ritz block, graded} x '
                         '{DenseSymMatProd, SparseSymMatProd} x {LargestMagn, LargestAlge, SmallestMagn, SmallestAlge} x {default, orthonormal, non-orthonormal, dependent initial space} x '
                         '{2-argument ctor, explicit init/max sizes incl. max < init + corr (forced restarts) and sizes reaching n}; n in 4..20 (quick) / 4..40 (thorough); fixed corpus of 7 regression inputs first (incl. histories whose last / last-but-one call throws); '
                         'structured share (48 quick / 480 thorough, one period = {arrowhead, bordered diagonal with 1-3 hubs, twin = repeated diagonal entries with equal couplings, arrowhead block + dense block} x 4 rules x {positive definite, negative definite, indefinite}): '
                         'integer diagonal, couplings k/8, nev 2..4, so that the DPR corrections of the first expansions are exactly parallel / equal / rank deficient; default space or user space of signed (orthonormal), scaled (non-orthonormal) or repeated (dependent) coordinate vectors; '
                         'edge share (72 quick / 360 thorough, one period = 4 rules x nev in {1, n-1} x maxit in {0, 1, 100} x sizes {2-argument ctor, init = max = nev, init = nev and max = nev + corr}, n in 4..8 / 4..14); '
                         'EVERY case: its own call and 3 more calls (other rule / tol / maxit in {0,1,2,3,100}, compute <-> compute_with_guess, guess as owning matrix / block / outer-stride Map / const Ref / inner-stride Map with canaries, heap-allocated arguments overwritten and freed after the call) on ONE solver object, each compared bit for bit (accessors and all internal members) with a fresh object given the same call and judged by the predicate of that call; accessors re-queried 3 times in random orders; '
                         'operator built on a block (upper triangle poisoned) / outer-stride Map / sparse Map / uncompressed sparse matrix compared bit for bit with the owning-matrix run; last call of each history (maxit in {0,1}) replayed in the model from the state the previous call left, also after a throwing call (recall requests: the answer of the model does not depend on that state, neither may the answer of the real object); '
                         'distinct request lines counted; per-iteration states obtained by re-running the real loop with maxit = 1, 2, ...')
        R.cov['exhaustive'] = False
    return R.finish()
