from vlib.core import *

META = dict(
    level_text="Proved for EVERY behaviour of the numeric kernels (every rounding outcome, every operator, every small eigen-solver result, exceptions at any call), every configuration, every argument tuple incl. maxit = 0/1, every prior object state and every history of init/compute/accessor calls, on one orchestration model shared by HermEigsBase and GenEigsBase: compute()'s return value = eigenvalues().size() = eigenvectors().cols() <= nev, eigenvectors(m) has min(m, count) columns, info() is Successful exactly when that number is nev and NotConverging otherwise (c05_counts, c05_counts_any_history); the flags handed back were computed from the Ritz pairs of the final factorization (c05_flags_fresh); eigenvalues()/eigenvectors(nvec) walk one index list in stored order and sort_ritzpair permutes values, vectors and flags by one index vector (c05_accessor_pairing, c05_sort_pairing; with C18's c18_sorted this is the ordering clause); at most maxit restarts and num_iterations() grows by i+1 (c05_maxit); before any compute() info() is NotComputed and the accessors are empty (c05_before_compute); a throwing compute() leaves info()/num_iterations() unchanged (c05_throwing_compute); init() resets the counters and num_operations() then counts what the factorization reports (c05_init_counters, c05_nmatop_monotone); the iteration counter, status, return value and flag-refresh condition of the model are the functions regenerated on every run from the statements after the restart loop of both compute() functions (c05_status_from_source, c05_status_same_both_families), and so are the loop frame and the break condition (c05_loop_from_source); the eigenvalues() and eigenvectors(nvec) loops of both base classes are translated from the source as well and proved to fill exactly the model's lists, in stored order, for every object state (c05_eigenvalues_loop_from_source, _gen, c05_eigenvectors_loop_from_source), and the convergence flags of the numeric instances are, entry by entry, the Eigen array expression of num_converged translated elementwise from the source (c05_flags_from_source_herm, _gen); the copy loops of retrieve_ritzpair and sort_ritzpair (values, estimates from row ncv-1, column choices, flags; the three swaps) are translated as well and proved to store exactly what the model's retrieve/sortRitz store (c05_retrieve_from_source, c05_sort_from_source, _gen). The SAME definitions instantiated with the executable Lanczos / TridiagQR / TridiagEigen kernel models and the source-translated argsort / nev_adjusted are run at Float (and at Float32 for Scalar = float) against the real SymEigsSolver and SymEigsShiftSolver, and the general family's numeric instance (Model/GenSolver.lean) against the real GenEigsSolver and GenEigsRealShiftSolver, on random histories: return value, status, counters, eigenvalues, eigenvectors and a hash of the whole factorization object must agree bit for bit. HermEigsSolver with Scalar = std::complex<double> is inside the executable model as well (Model/HermCplx.lean: complex scalars as pairs with libstdc++/GCC's multiplication and libgcc's __divdc3 division, complex Lanczos / init / expand_basis / compress_V kernels in Eigen's evaluation order, real Ritz data; hermc request lines): c05_counts and c05_flags_fresh are stated for that kernel record (c05c_counts, c05c_flags_fresh), its final sort is the real family's (c05c_sort_same), and at an exact field every complex kernel restricted to zero imaginary parts is the real kernel (c05c_real_embedding). The property's own predicate (incl. a counting operator wrapper for num_operations) is evaluated after every call on all eleven Arnoldi/Lanczos-family classes.",
    note="Lean kernel + standard axioms; translator; correspondence cases are limited to ncv <= 16 (std::sort modelled as stable insertion sort, exact up to 16 elements in libstdc++); the complex-shift class is covered by the shared orchestration theorems and the oracle only; std::complex products/quotients are modelled on non-NaN data (GCC calls __muldc3 / the NaN tail of __divdc3 only when a NaN arises); generalized shift solvers' operation counter is not independently counted",
    technique="Lean 4 proof (induction over the restart loop and over histories, all kernels universally quantified) + bit-exact differential correspondence of the executable instance + oracle on the implementation",
    design="§5 C05", harnesses=['c05'])

def run(tier, seed, replay=None):
    R = Run('C05', tier, seed)
    R.trusted = TRUSTED_COMMON + [
        'the orchestration theorems quantify over all kernel records; that the real numeric code is an instance is validated by the bit-level correspondence (symmetric family) and by the oracle (all classes), not proved',
        'hypothesis SortPerm (final sort returns a permutation) is discharged for the real sort by C18 (c18_perm_base)']
    R.assumptions = ['compute() is called after at least one init() (before any init() the factorization rejects the call with std::invalid_argument)']
    if replay:
        exe, log = build_harness('c05')
        out = os.path.join(R.work, 'replay'); rc, hlog = run_harness(exe, out, seed, tier, ['--replay', replay])
        R.failures += load_oracle(os.path.join(out, 'oracle.jsonl'))
        return R.finish()
    standard_prove(R, 'C05', ['Sort', 'Restart', 'Givens', 'Rand', 'Status', 'Access', 'Conv', 'Copy'])
    # companion theorem file for the complex Hermitian instance (Properties/C05c.lean): build + the same audit
    with Lock('lean'):
        modc = 'SpectraVerif.Properties.C05c'
        okc, logc = lake_build([modc])
        if not okc:
            errs = first_errors(logc)
            if not errs: R.oblige('build:' + modc, False, logc[-800:])
            for (f, ln, msg) in errs[:4]: R.oblige(f'theorem:{os.path.basename(f)}:{enclosing_decl(f, ln)}', False, f'{f}:{ln}: {msg}')
        else:
            problems, thms, axs = audit(modc)
            for p in problems: R.oblige(p.split(':')[0] + ':' + p.split(':')[1], False, p)
            for t in thms:
                if not any(t in p for p in problems): R.oblige('theorem:' + t, True, 'axioms: ' + ','.join(axs.get(t, [])))
    r = standard_corr(R, 'c05', 'solver-herm', compare=compare_segments)
    if R.broken and not R.failures and tier == 'quick':
        R.notes.append('obligation broken: extended search at thorough budget')
        standard_corr(R, 'c05', 'solver-herm-search', tier='thorough', compare=compare_segments)
    if r:
        R.cov['distinct_nontrivial'] = distinct_count(os.path.join(r['out'], 'requests.txt')) + sum(v for k, v in r['stats'].get('counters', {}).items() if k in ('oracle_partial', 'oracle_successful'))
        R.cov['rule'] = 'random histories (2..7 calls: init(), init(v), compute(sel, maxit in {0,1,2,3,10,300}, tol in 1e-3..1e-13, sort), accessor probes; 15% with unsupported rules) on 11 solver classes (5 of them also replayed by the model: SymEigsSolver, SymEigsShiftSolver, HermEigsSolver<complex>, GenEigsSolver, GenEigsRealShiftSolver) x 8 matrix families x 5 scalings, n <= 12 (24 thorough); non-trivial = a compute() that returned with at least one converged pair (partly or fully), counted, plus distinct model requests'
    return R.finish()
