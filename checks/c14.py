from vlib.core import *

META = dict(
    level_text="Proved: (kernel level) the Arnoldi/Lanczos kernels init, expand_basis, factorize_from (both), and the restart's re-factorization are written once as computations over an operator that may fail (Model/FaultOp.lean, free monad on `apply the operator`), by threading the effect through the same step structure as the total models; with an operator that never fails they equal the total models of C07/C05 in value and operation counter (c14_kernel_faultfree, _models, _solver); for EVERY computation over the operator, every counter start and every fault index k in the call's window, the call ends with exactly the user's exception, makes no later application (the operator log is the length-k prefix of the fault-free log) and leaves the by-reference counter at k-1 (c14_kernel_propagates, c14_opcount_prefix, c14_kernel_unaffected); (solver level) for every fault index 1 <= k <= num_operations() of the fault-free init(v); compute(args), from any prior object state, the faulted init or compute ends with exactly that exception (c14_propagates for the symmetric solver built from the fault-aware kernels; c14_gen_propagates for GenEigsSolver/GenEigsRealShiftSolver built from FaultOpGen.genKernF, which with an operator that never fails IS GenSolver.genKern (c14_gen_kernel_faultfree, c14_gen_kernel_faultfree_restart), with the counter at the throw c14_gen_opcount_at_throw and the unconditional recovery c14_gen_recover / c14_gen_fault_keeps_consts (Respects discharged by C06's gen_respects); c14_propagates_any_kernels for any kernel record whose operator-applying kernels agree-or-fault); no model function catches, nothing is invented (c14_no_invention), info()/num_iterations() are not half-updated (c14_fault_keeps_status); from ANY state left behind, init(v); compute(args) is observationally identical to a solver that never saw the fault (c14_recover, under Orch.Respects); regenerated from the headers on every run: no raw new/delete/malloc/free in any function of the solver, factorization, decomposition and wrapper classes, the only try/catch is the catch-all of GenEigsComplexShiftSolver::sort_ritzpair whose handler is a catch-ALL `catch (...)` (it runs for an exception of any type, derived from std::exception or not) with exactly `m_op.set_shift(m_sigmar, m_sigmai); throw;` (restore the user's operator, rethrow the same exception object with a bare `throw;`), no caught object is thrown again by value (`throw e;`: slicing) or transported through std::exception_ptr in any scanned function (c14_rethrow_same_object), otherwise only the three standard exception types are thrown (c14_no_leak with the unwinding model c14_unwind_frees_all), and SparseRegularInverse::solve throws std::runtime_error exactly on CG failure and assigns only its own status (c14_lib_thrower). Tie to the running code: exhaustive fault index sweep k = 1..K on all twelve solver configurations (A- and B-operator applications in one index), nine fault KINDS with the same predicates (exception derived from std::exception; user struct NOT derived from std::exception; `throw int`; `throw const char*`; user classes with extra data derived from std::runtime_error, std::invalid_argument, std::logic_error, std::out_of_range, std::bad_alloc — the types the library throws or a typed handler could intercept/translate —, to expose slicing and replacement), exception identity (dynamic type, payload, serial number, zero copies; a base-class copy leaving the call is reported as exception-sliced), the user's operator still carrying the shift installed at construction, heap-block balance via the ASan allocator hooks, bitwise recovery, pairs of faults; the symmetric family's (`hermf`) and the general family's (`genf`: GenEigsSolver, GenEigsRealShiftSolver) fault histories — outcome of every faulted call, num_operations() at the throw, recovery run — are replayed bit-exactly by the model.",
    note="Lean kernel + standard axioms; translator/footprint extractor; the B operator is a pure parameter of the kernel-level model (B-operator faults are covered by the all-kernels orchestration theorems and by the exhaustive sweep, not by a kernel-level model); the half-updated object state at the throw point is not modelled field by field (nothing reads it before init(): c14_recover); Respects for the concrete kernels is C06's obligation; C++ unwinding semantics modelled (leakedAt), not verified",
    technique="Lean 4 proof (free-monad interpretation theorems by induction over computations; agree-or-fault simulation + counter invariant through the restart loop) + regenerated structural footprint decided by `decide` + exhaustive fault injection on the implementation with bit-exact model replay",
    design="§5 C14", harnesses=['c14'])

def compare_gen_aware(req_file, impl_file, model_file, soft_ulps=0, float_fields=None, maxreport=5, rel_tol=1e-13):
    """compare_segments, with the rule of checks/c02.py for the `rows=` segment of requests on the GENERAL family (`gen`/`genf`):
       eigenvectors = V * Y is a matrix-matrix product whose summation order differs from the model's; every term V(i,k) Y(k,j) is
       bounded by 1 (unit columns, unit coefficient vectors), so the rounding difference is |a - b| <= rel_tol * 64 * max(1, max|entry|)
       even when the sum itself cancels to a numerically zero vector (rank-deficient operators with ncv = n: C02's finding F13).
       Every other token (return value, status, counters, eigenvalues `e:`, beta, hash of the factorization) must be equal."""
    res = {'total': 0, 'equal': 0, 'soft': 0, 'hard': [], 'badop': 0}
    with open(req_file) as fr, open(impl_file) as fi, open(model_file) as fm:
        for n, (rq, a, b) in enumerate(zip(fr, fi, fm)):
            res['total'] += 1
            a = a.rstrip('\n'); b = b.rstrip('\n')
            if a == b: res['equal'] += 1; continue
            if b == 'bad-op': res['badop'] += 1
            floor = 1.0 if rq.split(' ', 1)[0] in ('gen', 'genf') else 0.0
            sa = a.split(' | '); sb = b.split(' | '); ok = len(sa) == len(sb)
            if ok:
                for x, y in zip(sa, sb):
                    if x == y: continue
                    tx = x.split(); ty = y.split()
                    if not (tx and tx[0].startswith('rows=') and len(tx) == len(ty)): ok = False; break
                    vals = [bits_to_float(int(t)) for t in tx if t.isdigit()]
                    scale = max([abs(v) for v in vals if v == v] + [floor])
                    for p, q in zip(tx, ty):
                        if p == q: continue
                        if not (p.isdigit() and q.isdigit()): ok = False; break
                        fp, fq = bits_to_float(int(p)), bits_to_float(int(q))
                        if not (abs(fp - fq) <= rel_tol * 64 * scale): ok = False; break
                    if not ok: break
            if ok: res['soft'] += 1
            elif len(res['hard']) < maxreport: res['hard'].append((n + 1, rq.rstrip('\n')[:2000], a[:2000], b[:2000]))
            else: res['hard_more'] = res.get('hard_more', 0) + 1
    return res

def run(tier, seed, replay=None):
    R = Run('C14', tier, seed)
    R.trusted = TRUSTED_COMMON + [
        'C++ rule: stack unwinding destroys every automatic object constructed before the throw point (modelled by leakedAt)',
        'heap accounting: every malloc/free/operator new/delete seen by the ASan allocator hooks while library code runs',
        'Orch.Respects (kernels read only what the factorization init rebuilds) is discharged for the concrete kernels of the symmetric and the general family by C06 (herm_respects, gen_respects), here validated by the bitwise recovery sweep']
    R.assumptions = ['the fault-free init(v) succeeds (non-zero start vector)', 'the user operator is deterministic apart from the injected fault',
                     'faults inside accessor calls (eigenvectors() of the generalized solvers applies the B operator) are outside the property']
    if replay:
        exe, log = build_harness('c14')
        out = os.path.join(R.work, 'replay'); rc, hlog = run_harness(exe, out, seed, tier, ['--replay', replay])
        R.failures += load_oracle(os.path.join(out, 'oracle.jsonl'))
        return R.finish()
    standard_prove(R, 'C14', ['FaultFootprint', 'Sort', 'Restart', 'Guard', 'Rand'])
    r = standard_corr(R, 'c14', 'fault-histories', compare=compare_gen_aware)
    if R.broken and not R.failures and tier == 'quick':
        R.notes.append('obligation broken: extended search at thorough budget')
        standard_corr(R, 'c14', 'fault-histories-search', tier='thorough', compare=compare_gen_aware)
    if r:
        cnt = r['stats'].get('counters', {})
        R.cov['distinct_nontrivial'] = cnt.get('oracle_fault', 0) + cnt.get('oracle_poison', 0)
        R.cov['exhaustive'] = True
        R.cov['rule'] = ('120 (quick) / 600 (thorough) inputs = 12 solver configurations (SymEigs, SymEigsShift, HermEigs, GenEigs, GenEigsRealShift, GenEigsComplexShift incl. probing solves, '
                         'SymGEigs Cholesky x2 / RegularInverse, SymGEigsShift ShiftInvert/Buckling/Cayley) x 8 matrix families x 4 scalings, n <= 8 (12), random rules/maxit/tol; per input EXHAUSTIVELY '
                         'k = 1..K (K = A+B operator applications of the fault-free run, inputs with K > 90 (400) skipped and counted), on an already used object and on a fresh object; fault KIND (9: std_exception, raw_struct, int, cstring, runtime_error_rich, invalid_argument_rich, logic_error_rich, out_of_range_rich, bad_alloc_rich): quick = per index one of the 6 std-derived kinds on one object and one of the 3 non-std kinds on the other (rotating with k + case + case/12; warm/fresh roles swap with the parity of the case), thorough = all 9 kinds x all indices on both objects, the fault history of the fresh object must be the same string for every kind; every 4th (2nd) k a second fault (of the next kind) '
                         'at a random index of the recovery run; plus fault kind "poison" on every SymGEigsSolver<RegularInverse> input with the real Spectra::SparseRegularInverse as B operator: exhaustively k = 1..K_A, the user A-operator RETURNS a NaN vector at its k-th application so that the library own thrower (SparseRegularInverse::solve -> std::runtime_error) fires inside the operator stack; required: std::runtime_error leaves the call, heap balance, bitwise recovery on the same solver and B-operator objects; non-trivial = faulted calls judged')
    return R.finish()
