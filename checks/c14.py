from vlib.core import *

META = dict(
    level_text="Proved: (kernel level) the Arnoldi/Lanczos kernels init, expand_basis, factorize_from (both), and the restart's re-factorization are written once as computations over an operator that may fail (Model/FaultOp.lean, free monad on `apply the operator`), by threading the effect through the same step structure as the total models; with an operator that never fails they equal the total models of C07/C05 in value and operation counter (c14_kernel_faultfree, _models, _solver); for EVERY computation over the operator, every counter start and every fault index k in the call's window, the call ends with exactly the user's exception, makes no later application (the operator log is the length-k prefix of the fault-free log) and leaves the by-reference counter at k-1 (c14_kernel_propagates, c14_opcount_prefix, c14_kernel_unaffected); (solver level) for every fault index 1 <= k <= num_operations() of the fault-free init(v); compute(args), from any prior object state, the faulted init or compute ends with exactly that exception (c14_propagates for the symmetric solver built from the fault-aware kernels; c14_propagates_any_kernels for any kernel record whose operator-applying kernels agree-or-fault); no model function catches, nothing is invented (c14_no_invention), info()/num_iterations() are not half-updated (c14_fault_keeps_status); from ANY state left behind, init(v); compute(args) is observationally identical to a solver that never saw the fault (c14_recover, under Orch.Respects); regenerated from the headers on every run: no raw new/delete/malloc/free in any function of the solver, factorization, decomposition and wrapper classes, the only try/catch is the catch-all of GenEigsComplexShiftSolver::sort_ritzpair whose handler is exactly `m_op.set_shift(m_sigmar, m_sigmai); throw;` (restore the user's operator, rethrow the same exception), otherwise only the three standard exception types are thrown (c14_no_leak with the unwinding model c14_unwind_frees_all), and SparseRegularInverse::solve throws std::runtime_error exactly on CG failure and assigns only its own status (c14_lib_thrower). Tie to the running code: exhaustive fault index sweep k = 1..K on all twelve solver configurations (A- and B-operator applications in one index), exception identity (serial number, zero copies), heap-block balance via the ASan allocator hooks, bitwise recovery, pairs of faults; the symmetric family's fault histories are replayed bit-exactly by the model.",
    note="Lean kernel + standard axioms; translator/footprint extractor; the B operator is a pure parameter of the kernel-level model (B-operator faults are covered by the all-kernels orchestration theorems and by the exhaustive sweep, not by a kernel-level model); the half-updated object state at the throw point is not modelled field by field (nothing reads it before init(): c14_recover); Respects for the concrete kernels is C06's obligation; C++ unwinding semantics modelled (leakedAt), not verified",
    technique="Lean 4 proof (free-monad interpretation theorems by induction over computations; agree-or-fault simulation + counter invariant through the restart loop) + regenerated structural footprint decided by `decide` + exhaustive fault injection on the implementation with bit-exact model replay",
    design="§5 C14", harnesses=['c14'])

def run(tier, seed, replay=None):
    R = Run('C14', tier, seed)
    R.trusted = TRUSTED_COMMON + [
        'C++ rule: stack unwinding destroys every automatic object constructed before the throw point (modelled by leakedAt)',
        'heap accounting: every malloc/free/operator new/delete seen by the ASan allocator hooks while library code runs',
        'Orch.Respects (kernels read only what the factorization init rebuilds) is discharged for the concrete kernels by C06, here validated by the bitwise recovery sweep']
    R.assumptions = ['the fault-free init(v) succeeds (non-zero start vector)', 'the user operator is deterministic apart from the injected fault',
                     'faults inside accessor calls (eigenvectors() of the generalized solvers applies the B operator) are outside the property']
    if replay:
        exe, log = build_harness('c14')
        out = os.path.join(R.work, 'replay'); rc, hlog = run_harness(exe, out, seed, tier, ['--replay', replay])
        R.failures += load_oracle(os.path.join(out, 'oracle.jsonl'))
        return R.finish()
    standard_prove(R, 'C14', ['FaultFootprint', 'Sort', 'Restart', 'Guard', 'Rand'])
    r = standard_corr(R, 'c14', 'fault-histories', compare=compare_segments)
    if R.broken and not R.failures and tier == 'quick':
        R.notes.append('obligation broken: extended search at thorough budget')
        standard_corr(R, 'c14', 'fault-histories-search', tier='thorough', compare=compare_segments)
    if r:
        cnt = r['stats'].get('counters', {})
        R.cov['distinct_nontrivial'] = cnt.get('oracle_fault', 0)
        R.cov['exhaustive'] = True
        R.cov['rule'] = ('120 (quick) / 600 (thorough) inputs = 12 solver configurations (SymEigs, SymEigsShift, HermEigs, GenEigs, GenEigsRealShift, GenEigsComplexShift incl. probing solves, '
                         'SymGEigs Cholesky x2 / RegularInverse, SymGEigsShift ShiftInvert/Buckling/Cayley) x 8 matrix families x 4 scalings, n <= 8 (12), random rules/maxit/tol; per input EXHAUSTIVELY '
                         'k = 1..K (K = A+B operator applications of the fault-free run, inputs with K > 90 (400) skipped and counted), on an already used object and on a fresh object; every 4th (2nd) k a second fault '
                         'at a random index of the recovery run; non-trivial = faulted calls judged')
    return R.finish()
