from vlib.core import *

META = dict(
    level_text="Proved, for every scalar type and every outcome of every floating comparison (oracles), all sizes and all histories: "
               "the restart size of the symmetric/Hermitian family satisfies nev <= k <= ncv-1 (c13_herm_k) and that of the general family "
               "nev <= k <= ncv-1 with its two Ritz reads in range (c13_gen_k), both on functions translated from HermEigsBase.h / GenEigsBase.h "
               "on every run; the Hermitian shift loop applies exactly ncv-k shifts (c13_herm_shift_count); the general shift loop "
               "(one pass translated from GenEigsBase::restart) reads only indices < ncv AND pairs every complex Ritz value iff the values "
               "are adjacent conjugate pairs (c13_gen_shift_reads), reads index ncv exactly when it arrives at a complex last value "
               "(c13_gen_shift_oob_exact), leaves m_k = k when in bounds (c13_gen_shift_degree); full chain nev_adjusted -> restart is "
               "safe under adjacency + no duplicated pair (c13_gen_restart_safe_partial; both hypotheses are needed: machine-checked "
               "witnesses); init;compute applies the operator at most 2+2(ncv-1)(maxit+1) <= 2+2*ncv*(maxit+1) times on every path "
               "(c13_work_bound_herm/gen), the complex-shift post-processing adds at most 2*nev uncounted solves (c13_cshift_extra_solves); "
               "every perform_op(x,y) gets distinct buffers and existing columns of V (c13_op_args_herm/gen); every vector handed to the "
               "operator (storage table of ALL perform_op call sites of solver code, regenerated from the headers on every run) is an automatic "
               "local of the calling function or m_fac_V / m_fac_f of the factorization object, never static / thread_local / global storage, "
               "lifted to every call of every run of the skeleton (c13_op_buffers_owned); explicit loop bounds, models "
               "total without fuel (c13_termination); compress_V / factorize_from index programs in range (c13_compress_indices, "
               "c13_factorize_indices). NaN-freedom and memory safety inside Eigen / the dense eigen-solvers are explored only "
               "(ASan+UBSan+Eigen assertions over the property's input classes on all ten solver classes), not proved.",
    note="Lean kernel + standard axioms; translator xlate (nev_adjusted, is_complex, is_conj, restart/compute skeletons, storage roots of the "
         "perform_op arguments); hand-written "
         "index programs Model/RestartIdx.lean (buffer identities of perform_op calls, compress_V/factorize_from access lists) tied to the "
         "code by operator-call traces, m_k at the compress hook and sanitizer runs, not by proof; std::sort modelled only through the "
         "AdjacentConj hypothesis; IEEE comparisons are oracles",
    technique="Lean 4 proof (induction over the loop index, omega) on source-translated kernels + hand-written index/op-count skeleton; "
              "exhaustive friend-access enumeration of the real nev_adjusted; trace correspondence; sanitizer exploration with a "
              "pointer-validating counting operator",
    design="§5 C13", harnesses=[{'name': 'c13', 'sanitize': True}, {'name': 'c13x', 'sanitize': True}])

def run(tier, seed, replay=None):
    R = Run('C13', tier, seed)
    R.trusted = TRUSTED_COMMON + [
        'hand-written index programs and operator-call skeleton Model/RestartIdx.lean: validated against real runs (traces, m_k at the compress hook), not derived from the source',
        'std::sort (unstable above 16 elements) enters only through the hypothesis AdjacentConj of c13_gen_restart_safe_partial',
        'memory safety inside Eigen kernels, DoubleShiftQR/UpperHessenbergSchur/TridiagEigen pointer code: AddressSanitizer/UBSan exploration only']
    R.assumptions = ['NaN-freedom is not proved (false when A*v0 = 0); c13_gen_restart_safe_partial assumes adjacent conjugate pairs and no duplicated complex pair in the Ritz values']
    if replay:
        rp = json.load(open(replay)).get('replay', {}) if os.path.exists(replay) else {}
        h = 'c13x' if rp.get('harness') == 'c13x' or rp.get('part') == 'X' else 'c13'
        exe, log = build_harness(h)
        out = os.path.join(R.work, 'replay'); rc, hlog = run_harness(exe, out, seed, tier, ['--replay', replay])
        R.failures += load_oracle(os.path.join(out, 'oracle.jsonl'))
        if rc != 0: R.failures.append({'sig': 'harness-abort', 'what': hlog[-400:], 'replay': rp})
        return R.finish()
    standard_prove(R, 'C13', ['Restart'])
    r = standard_corr(R, 'c13', 'restart')
    rx = standard_corr(R, 'c13x', 'explore')
    if r:
        R.cov['distinct_nontrivial'] = distinct_count(os.path.join(r['out'], 'requests.txt'))
        R.cov['rule'] = ('A: exhaustive over (nev, ncv <= %d, nconv 0..nev, every zero-estimate mask on positions nev..ncv-1, conjugate patterns = all pairings '
                         '(+ every string over {r,a,conj a,b,s} for ncv <= 5, random strings above), three zero/non-zero value alphabets incl. the near_0 boundary); '
                         'B: real restart() on injected Ritz patterns, all k; C: operator-call traces of real SymEigsSolver/GenEigsSolver runs; '
                         'D: nested use (GenEigsSolver / SymEigsSolver / GenEigsRealShiftSolver run inside their own operator, inner problem of equal and of different size); '
                         'X: sanitizer exploration over solver classes x matrix classes x (nev,ncv) extremes x maxit x scale') % (14 if tier == 'thorough' else 10)
    return R.finish()
