from vlib.core import *

META = dict(
    level_text="Bookkeeping of LOBPCGSolver::compute proved for ALL kernels (every outcome of the LDLT orthonormalisation, of the dense EigenSolver, of the inner SymGEigsSolver, every preconditioner, every column-norm test), A* and B* only assumed linear over a commutative ring: the tracked products AX = A X, BX = B X, AD = A D, BD = B D are loop invariants for every coefficient block (c17_products), residuals() = A X - B X diag(eigenvalues) for the iterate (c17_residuals), a Gram-B-orthonormal coefficient matrix yields X'BX = I for the update X C_X + R C_R + D C_D (c17_borth, c17_update_concat, c17_step_update), eigenvectors() IS that iterate and has k columns (c17_shape, full strength since the repair of F10), info = Success iff every residual column passed sqrt(sum r^2) < tol_div_n*n AND the returned block passed the B-orthonormality guard max|X'BX - I| < sqrt(eps), for EVERY prior object state (c17_success_tol, c17_success_borth, c17_passes_info, c17_status, c17_nonsuccess_reported; the guard read in exact arithmetic: c17_guard_meaning; a Gram matrix whose Cholesky factorisation fails ends the loop with NumericalIssue instead of feeding the failed factor to the inner solver; both since the repair of C17-gram-breakdown; exits enumerated in c17_status_exits; an exhausted loop reports NoConvergence: c17_exhausted_noconvergence, since the repair of C17-stale-info), the inner solver's constructor guard (regenerated from HermEigsBase.h) holds on every Gram pencil the loop builds, for every k >= 1 (c17_inner_guard, c17_inner_guard_holds, c17_throw_only_numeric, since the repair of C17-inner-ncv), eigenvalues() ascending for distinct kernel outputs (c17_ascending_partial, c17_sorted_partial), removed-column indices fit every block (c17_directions_width, c17_removed_width), histories on ONE object (model object Obj = members A, m_B/flag, m_preconditioner/flag + state; setters store only: c17_setters_last_win; compute() reads of the earlier state only X, m_evalues, m_evectors, never m_info or m_residuals: c17_compute_reads; after ANY history of setB/setPreconditioner/compute calls the next compute() equals that of a fresh object built from (A, current X) with the B and T last set, i.e. the result is a function of (A, current B, current T, current X, maxit, tol) only, no remembered status/tolerance/result: c17_compute_history_independent, c17_histories_same_tail; without the hypothesis that the first dense eigen-solver succeeds only c17_compute_history_independent_partial, with a counterexample). One recorded finding remains: a rare one-step loss of B-orthonormality below the guard's threshold that is never repaired (C17-borth-drift). That the values are the k SMALLEST of the pencil is convergence: oracle only.",
    note="Lean kernel + propext/Classical.choice/Quot.sound; the numeric inner solvers (SimplicialLDLT, EigenSolver, SymGEigsSolver = C03) enter as arbitrary functions in the theorems and as recorded outputs in the correspondence; a C++ shadow of compute() built from the class's own private methods supplies those records and must equal the real object bit for bit at every cut; exact-arithmetic reading of the invariants (rounding makes AX drift from A X: bounded by the oracle, not proved); setConstraints not modelled",
    technique="Lean 4 proof (list induction, module/linear-map algebra) on a hand-written executable model generic in scalar, column type and kernels + differential correspondence at every iteration cut + long-double oracle",
    design="§5 C17", harnesses=['c17'])

def _ff(req): return 'all'   # discrete fields are printed as name=value (never all-digit), so only float bit patterns fall under the soft rule

def run(tier, seed, replay=None):
    R = Run('C17', tier, seed)
    R.trusted = TRUSTED_COMMON + ['inner numeric solvers (Eigen SimplicialLDLT / EigenSolver, Spectra SymGEigsSolver) are kernels: their outputs are recorded from the real run, their specification (B-orthonormal output, Gram-orthonormal Ritz vectors) is a hypothesis of c17_borth, covered by C03 for the Spectra part',
                                  'harness shadow of compute(): a statement-by-statement copy using the real private methods; checked bit-identical to the real compute() at every cut (field sh=1)',
                                  'the Cholesky outcome of the Gram matrix (DenseCholesky::info()) is a recorded kernel output; the B-orthonormality guard is recomputed by the model (threshold sqrt(eps) handed over by the harness)']
    R.assumptions = ['exact arithmetic over a commutative ring for the invariants; the floating-point drift of the tracked products is bounded by the oracle only',
                     'flag_with_constraints = false in the model and the correspondence (setConstraints is outside the property; it appears in the oracle histories only)']
    if replay:
        exe, log = build_harness('c17')
        out = os.path.join(R.work, 'replay'); rc, hlog = run_harness(exe, out, seed, tier, ['--replay', replay])
        R.failures += load_oracle(os.path.join(out, 'oracle.jsonl'))
        return R.finish()
    standard_prove(R, 'C17', ['Guard'])
    r = standard_corr(R, 'c17', 'lobpcg-cuts', soft_ulps=16, float_fields=_ff, timeout=3000)
    if r:
        R.cov['distinct_nontrivial'] = distinct_count(os.path.join(r['out'], 'requests.txt'))
        R.cov['rule'] = ('general stream: k in {1..6,10}, n = 5k+1 .. 5k+15 (quick) / 5k+41 (thorough), A in {tridiagonal, band-3, shifted Laplacian, arrow} symmetric with well separated '
                         'small eigenvalues, B SPD tridiagonal or none, T = diag(A)^-1 or none, dense random X0, tol_div_n in {1e-3,1e-5,1e-7,1e-9}; every cut maxit = 0..J is one '
                         'request (real compute(maxit) on a fresh object vs the model fed with the recorded kernel outputs); oracle on the run with maxit = n and on a second compute(). '
                         'preconditioner stream (9 / 72 cases): same generator with T in {Jacobi, poor diagonal SPD (entries 0.05..5.05, unrelated to A), poor tridiagonal SPD}, cuts + oracle. '
                         'graded family (n = 60..64, A = diag(1,3,5,..) + couplings at distance 1 and 7, B SPD tridiagonal or none): loose-tolerance stream (16 / 160 cases, tol*n in {6,3,1.8}, '
                         'k = 3..6, T none/Jacobi/poor; columns lock at different iterations and unlock again; cuts 0..12 for the first 60, oracle on all) and near-convergence stress stream '
                         'with the Jacobi preconditioner (24 / 160 cases at tol_div_n in {1e-12,1e-13}, 12 / 1200 at the default 1e-7, k = 4..6: oracle on all, whole-run correspondence (one cut '
                         'at maxit = n) for the first two and for up to three runs that end in the Gram-matrix exit or a failed guard); crafted exits (exact start with tol 0, one column left, tol 0, '
                         'indefinite B making the B-orthonormality guard fail). '
                         'history stream (14 / 140 histories on ONE object, k = 2..4: compute; setB / setPreconditioner / setConstraints with a new argument; compute again with the same, a 10x looser, a 100x tighter '
                         'tolerance or another maxit; also compute(3) unfinished first, three computes, compute on an unchanged converged object): after EVERY compute the state must equal bit for bit that of a fresh '
                         'object built from (A, the X held on entry) with the current B/T/Y and the same call, and the property predicate is evaluated for the CURRENT problem; the first 7 / 42 histories without '
                         'constraints are one `hist` request each, answered by the model object from the state the previous call left). '
                         'indefinite / negative definite stream (24 / 240 cases: prescribed spectra with m <= k large negative eigenvalues below a group around zero, negative definite spectra with both ends separated, '
                         'banded with a negative head, negative of a PD band; with / without B; no / |diag|-Jacobi / poor diagonal preconditioner; cuts 0..5 for the first 6 / 48, oracle on all: the k values must be the k '
                         'ALGEBRAICALLY smallest). collapse family (fixed constants, up to 400 members scanned, one per configuration, at most 4: tridiagonal / pentadiagonal graded A, start block supported on the first '
                         'k nodes, so the residual block of iteration 0 has rank 1 or 2 and a rounding-level negative LDLT pivot zeroes a column of R; the Rayleigh-Ritz step picks the phantom direction and a column of X '
                         'collapses to ~0 while every entry of X\'BX - I is <= 1e-9: the final guard must fail (NumericalIssue); cuts 0, 1, 2, n + oracle). distinct request lines counted')
        R.cov['exhaustive'] = False
        hc = R.cov.get('harness_counters', {})
        tags = {'exit converged / exhausted (info_0 / info_3)': 'c17:info_0', 'exit orthRFailed (LDLT of R\'BR fails)': 'c17:exit_orthR_failed', 'exit rrThrew (inner solver throws)': 'c17:exit_threw',
                'exit orthDFailed (LDLT of D\'BD fails)': 'c17:exit_orthD_failed', 'exit rrFailed (inner solver not converged)': 'c17:exit_rr_notconverged',
                'exit gramFailed (Cholesky of the Gram matrix fails)': 'c17:exit_gram_failed', 'finalize: all columns pass, B-orthonormality guard fails': 'c17:final_guard_failed',
                'finalize: all columns pass, guard passes': 'c17:final_guard_passed', 'iteration where a locked column is unlocked again': 'c17:iter_with_unlocked_column',
                'iteration with removed (converged) columns': 'c17:iter_with_removed_columns', 'sort_epairs with tied keys': 'c17:sortep_ties',
                'finalize: collapsed block (a column of X of B-norm ~0, signed maximum of X\'BX - I below the threshold, cwiseAbs guard fails)': 'c17:collapse_signed_guard_cases',
                'history: compute() on an object whose previous compute() reported Success': 'c17:hist_compute_after_info0',
                'history: compute() on an object whose previous compute() reported NoConvergence': 'c17:hist_compute_after_info2',
                'history: setB on a used object': 'c17:hist_setB', 'history: setPreconditioner on a used object': 'c17:hist_setPreconditioner',
                'history: whole history replayed by the model object': 'c17:hist_corr_lines'}
        R.cov['model_branches_reached'] = sorted(k for k, v in tags.items() if hc.get(v, 0) > 0)
        R.cov['model_branches_uncovered'] = sorted(k for k, v in tags.items() if hc.get(v, 0) == 0) + ['initial orthogonalizeInPlace(X) fails (rank-deficient X0: outside the quantifier; the real code then multiplies the 0x0 BX: Eigen assertion)', 'initial EigenSolver fails']
        R.cov['oracle'] = ('on Success: eigenvalues ascending; |theta_i - lambda_i| <= 4 tol n / sqrt(lambda_min(B)) + 1e-9(1+|lambda_i|) vs long-double GeneralizedSelfAdjointEigenSolver when that bound is below '
                           'a quarter of the smallest gap of lambda_0..lambda_k, otherwise (loose tolerance) every theta_i within the bound of SOME eigenvalue of the pencil and theta_i >= lambda_i - bound; '
                           'max|X\'BX - I| <= 1e-8 (internal X); eigenvectors() n x k and B-orthonormal (F10); max|residuals() - (A X - B X diag(theta))| <= 1e-9 n (|A|+|theta||B|) max(1,|X|); '
                           'column norms < tol n; all outputs finite; no exception for valid input (C17-inner-ncv); second compute() not stale (C17-stale-info); histories: the same predicate after every compute() for the CURRENT (A, B) '
                           '(with constraints Y: reference = pencil restricted to {x : Y\'Bx = 0}, and max|Y\'BX| <= 1e-8 max(1,|Y|)), and bit-equality with the fresh twin (sig reuse-differs-from-fresh)')
    return R.finish()
