from vlib.core import *

META = dict(
    level_text="Proved for all lengths, all values of a linearly ordered field and all ties: the order used is a permutation of 0..len-1 along which the rule's key (|x|, Re x, |Im x|, x; descending for Largest*, ascending for Smallest*) is monotone (c18_perm_base, c18_sorted, c18_sorted_complex); BothEnds puts ceil(k/2) from the top and floor(k/2) from the bottom into the first k positions for every k (c18_bothends, c18_argsort_value); exactly the documented rules are accepted by argsort, by the general solvers' two dispatch switches and by the symmetric solvers' sorting guard, all others throw invalid_argument (c18_dispatch_*, c18_argsort_throws, c18_herm_sorting_guard). Keys, dispatch and interleave loop are regenerated from the headers on every run; std::sort is modelled (stable insertion sort) and validated exhaustively over a tie-rich alphabet.",
    note="Lean kernel + standard axioms; translator; std::sort modelled not verified; IEEE order facts for double; libm hypot",
    technique="Lean 4 proof (list induction, permutations) on source-translated definitions + exhaustive differential correspondence",
    design="§5 C18", harnesses=['c18'])

def run(tier, seed, replay=None):
    R = Run('C18', tier, seed)
    R.trusted = TRUSTED_COMMON + [
        'std::sort is modelled, not verified: stable insertion sort for the executable model (exact for <= 16 elements in libstdc++), and every theorem about the order is stated for the model sort on an arbitrary key over a linear order',
        'IEEE-754: < on non-NaN doubles is a strict total order and negation is exact (carries the field-instance order theorems to double)',
        'std::abs(std::complex) = libm hypot on both sides']
    R.assumptions = ['values contain no NaN']
    if replay:
        exe, log = build_harness('c18')
        out = os.path.join(R.work, 'replay'); rc, hlog = run_harness(exe, out, seed, tier, ['--replay', replay])
        R.failures += load_oracle(os.path.join(out, 'oracle.jsonl'))
        return R.finish()
    standard_prove(R, 'C18', ['Sort'])
    r = standard_corr(R, 'c18', 'sort')
    if R.broken and not R.failures and tier == 'quick':
        R.notes.append('obligation broken: extended search at thorough budget')
        standard_corr(R, 'c18', 'sort-search', tier='thorough')
    if r:
        R.cov['distinct_nontrivial'] = distinct_count(os.path.join(r['out'], 'requests.txt'))
        R.cov['rule'] = 'exhaustive: every vector over {-2,-1,0,1,2} of length 0..6 (7 thorough) and over 10 complex values of length 0..4 (5 thorough), all nine rules, on the real argsort/SortEigenvalue; random vectors (ties, graded, integer) up to length 120; solver-level rule dispatch for all 9x4 (family, argument) combinations; distinct request lines counted'
        R.cov['exhaustive'] = True
    return R.finish()
