from vlib.core import *

META = dict(
    level_text="Noninterference proved in Lean at two levels. (1) Orchestration model shared by HermEigsBase and GenEigsBase, for EVERY behaviour of the numeric kernels that reads only the live part of the factorization object: from ANY two object states (fresh, reused after any history of init/compute calls incl. non-converging and throwing ones, torn by an exception), init(v); compute(args) yields the same return value or exception, eigenvalues, eigenvectors, num_iterations, num_operations and (on return) info (c06_init_total, c06_history_independent, c06_fresh_vs_reused). (2) That hypothesis is DISCHARGED for the executable numeric kernel record of the symmetric family (Arnoldi.init, Lanczos.factorize_from incl. the re-orthogonalisation loop and expand_basis, TridiagQR shift loop, compress_H/compress_V, TridiagEigen, convergence test, V*y) by read/write footprint lemmas (herm_respects): init rebuilds V, H, f, beta, k from (operator, v0, const members) whatever the old object was, every kernel commutes with forgetting the trace counters, const members are never written; giving the UNCONDITIONAL theorems c06_herm_init_total / c06_herm_history_independent / c06_herm_fresh_vs_reused (every operator, every (n, nev, ncv), every two histories, every argument tuple; bit-identity because model functions are functions), c06_trace_counters_inert, c06_stale_basis_columns_harmless / c06_factorize_writes_before_reads (the C++ resize() keeps the stale columns >= 1 of a reused m_fac_V while the model zero-fills: factorize_from writes every column before reading it, so the C++-faithful init and the model's init give the identical object after the first factorization, for every old matrix of the right shape), and c06_two_solvers_one_op / c06_two_solvers_independent (any interleaving of calls on two solvers over one operator). (2b) The hypothesis is likewise DISCHARGED for the numeric kernel record of the GENERAL family GenSolver.genKern (Arnoldi.init, Arnoldi.factorize_from, the single/double-shift restart loop with UpperHessenbergQR/DoubleShiftQR + compress_H/compress_V, HessEigen on H, complex convergence test, V*y over complex pairs) by gen_respects (Proofs/C06Gen.lean), giving the unconditional c06_gen_init_total / c06_gen_history_independent / c06_gen_fresh_vs_reused / c06_gen_two_solvers_independent / c06_gen_two_solvers_one_op for GenEigsSolver and GenEigsRealShiftSolver, and c06_gencs_init_total / c06_gencs_history_independent for GenEigsComplexShiftSolver (GenSolver.computeCS: the sort_ritzpair prologue reads only V, the Ritz vectors/values and the operator at the probe shift as a fixed function; computeWith_sim); the stale-columns argument for the general family's Arnoldi.factorize_from is c06_gen_stale_basis_columns_harmless / c06_gen_factorize_writes_before_reads). Operator-side state: event model of set_shift/perform_op; the installed shift after construct and ANY history equals the constructor's for the real-shift classes (c06_op_shift_real) and for GenEigsComplexShiftSolver as the code is now (c06_op_shift_complex, c06_op_shift_complex_compute, c06_op_shift_complex_throw_in_probe) on every path incl. the user's operator throwing inside the root-selection probe (try/catch handler modelled); both earlier versions of the code are refuted for every shift/probe/count (c06_op_shift_complex_old_refuted: no restore, F3; c06_op_shift_complex_unguarded_refuted: restore on the normal path only, F3b). Structural facts regenerated from the headers on every run: all four random generators are non-static locals seeded by 0 or seed+123*iter (c06_seed_pure), no static-storage variable and exactly the eleven known mutable scratch members (c06_no_hidden_state). The same model definitions run at Float against the real SymEigsSolver/SymEigsShiftSolver and GenEigsSolver/GenEigsRealShiftSolver (`gen` requests answered by GenSolver.genKern) on fresh, reused and second-solver runs (bit-exact up to the final V*Y product), the operator event trace incl. the probe shift computed from the source-translated generator is compared bit for bit, and the bitwise fresh/reused/second-solver/interleaved comparison plus operator probes run on all thirteen solver classes. Regenerated on every run from the clang AST of the whole library: the only data members that do not own their value (references, pointers, Eigen Ref/Map handles, smart pointers, std::function) are the user's operator / B-operator / matrix, the SVD solver's own operator and inner solver, and the transient sort object's array pointer, so no constructor argument other than the operator or matrix can influence a later call through the caller's variable (c06_only_documented_handles).",
    note="Lean kernel + propext/Classical.choice/Quot.sound; translator; the model's Arnoldi.init rebuilds V from a zero matrix whereas the C++ resize() keeps stale columns >= 1 of an already allocated m_fac_V: shown invisible by c06_stale_basis_columns_harmless (hypotheses: old matrix of the allocated shape, operator returns vectors of length n) and cross-checked by the bitwise oracle; the same resize() argument for m_fac_H/m_fac_f (H is zeroed, f assigned) is by reading; general family: in c06_gencs_* the complex-shift operator at the probe shift is a fixed function (that the installed shift is restored is the subject of c06_op_shift_complex); g++ evaluates rng.random()*sigmar + rng.random() left to right (validated bitwise)",
    technique="Lean 4 proof (simulation relation over the orchestration state machine + per-function footprint lemmas by induction over the loops; event-trace model of the operator) + bit-exact differential correspondence on fresh/reused/shared objects + bitwise implementation-level oracle with operator probes",
    design="§5 C06", harnesses=['c06'])

def compare_gen_aware(req_file, impl_file, model_file, soft_ulps=0, float_fields=None, maxreport=5, rel_tol=1e-13):
    """compare_segments, with the rule of checks/c02.py for the `rows=` segment of requests on the GENERAL family (`gen`/`genf`):
       eigenvectors = V * Y is a matrix-matrix product whose summation order differs from the model's; every term V(i,k) Y(k,j) is
       bounded by 1 (unit columns, unit coefficient vectors), so the rounding difference is |a - b| <= rel_tol * 64 * max(1, max|entry|)
       even when the sum itself cancels to a numerically zero vector (rank-deficient operators with ncv = n: C02's finding F13).
       Every other token (return value, status, counters, eigenvalues `e:`, beta, hash of the factorization) must be equal."""
    res = {'total': 0, 'equal': 0, 'soft': 0, 'hard': [], 'badop': 0}
    with open(req_file) as fr, open(impl_file) as fi, open(model_file) as fm:
        for n, (rq, a, b) in enumerate(zip(fr, fi, fm)):
            res['total'] += 1
            a = a.rstrip('\n'); b = b.rstrip('\n')
            if a == b: res['equal'] += 1; continue
            if b == 'bad-op': res['badop'] += 1
            floor = 1.0 if rq.split(' ', 1)[0] in ('gen', 'genf') else 0.0
            sa = a.split(' | '); sb = b.split(' | '); ok = len(sa) == len(sb)
            if ok:
                for x, y in zip(sa, sb):
                    if x == y: continue
                    tx = x.split(); ty = y.split()
                    if not (tx and tx[0].startswith('rows=') and len(tx) == len(ty)): ok = False; break
                    vals = [bits_to_float(int(t)) for t in tx if t.isdigit()]
                    scale = max([abs(v) for v in vals if v == v] + [floor])
                    for p, q in zip(tx, ty):
                        if p == q: continue
                        if not (p.isdigit() and q.isdigit()): ok = False; break
                        fp, fq = bits_to_float(int(p)), bits_to_float(int(q))
                        if not (abs(fp - fq) <= rel_tol * 64 * scale): ok = False; break
                    if not ok: break
            if ok: res['soft'] += 1
            elif len(res['hard']) < maxreport: res['hard'].append((n + 1, rq.rstrip('\n')[:2000], a[:2000], b[:2000]))
            else: res['hard_more'] = res.get('hard_more', 0) + 1
    return res

def run(tier, seed, replay=None):
    R = Run('C06', tier, seed)
    R.trusted = TRUSTED_COMMON + [
        'determinism of each hardware floating-point operation (bit-identity follows from equality of model inputs)',
        'the numeric kernel records HermSolver.hermKern (symmetric family) and GenSolver.genKern (GenEigsSolver, GenEigsRealShiftSolver) are tied to the real classes by the bit-level correspondence on fresh/reused/second-solver runs; GenSolver.computeCS by C02; the other classes are instances of the orchestration model by reading, validated by the oracle',
        'Model/OpShift.lean: the solvers touch the operator only through set_shift and perform_op (checked by the event-trace correspondence on instrumented operators)',
        'order of evaluation of the two generator draws in the probe-shift expression is the compiler\'s (validated bitwise on every run)']
    R.assumptions = ['both solver objects were constructed with the same (operator, nev, ncv[, sigma]) and their const members are intact (Wf)',
                     'the observed init(v) accepts v (otherwise both objects throw the same exception and nothing more is claimed)',
                     'operator-shift theorems: the user\'s set_shift itself does not throw']
    if replay:
        exe, log = build_harness('c06')
        out = os.path.join(R.work, 'replay'); rc, hlog = run_harness(exe, out, seed, tier, ['--replay', replay])
        R.failures += load_oracle(os.path.join(out, 'oracle.jsonl'))
        return R.finish()
    standard_prove(R, 'C06', ['Sort', 'Restart', 'Givens', 'Rand', 'RandSites', 'Footprint'])
    r = standard_corr(R, 'c06', 'solver-herm+gen-reuse+opshift', compare=compare_gen_aware)
    if R.broken and not R.failures and tier == 'quick':
        R.notes.append('obligation broken: extended search at thorough budget')
        standard_corr(R, 'c06', 'solver-herm+gen-reuse+opshift-search', tier='thorough', compare=compare_gen_aware)
    if r:
        st = r['stats'].get('counters', {})
        R.cov['distinct_nontrivial'] = distinct_count(os.path.join(r['out'], 'requests.txt')) + st.get('oracle_fresh_vs_reused', 0)
        R.cov['rule'] = ('per case: observed pair init()/init(v); compute(sel, maxit in {0,1,2,3,10,300}, tol in 1e-3..1e-13, sort; 12% unsupported rules) on (a) a fresh solver, (b) a solver reused after 1..5 history calls '
                         '(init(), init(v\'), init(0) rejected, compute with other rules/tolerances, maxit 0/1, unsupported rule, user operator throwing at a random application of compute() or init(), accessor calls), '
                         '(c) a second solver over the same operator object, (d) the reused solver with the second solver\'s calls interleaved; 13 solver classes x 8 matrix families x 5 scalings, n <= 11 (20 thorough); '
                         'operator probed with a fixed vector before/after every compute(); non-trivial = distinct model requests + fresh-vs-reused comparisons performed')
        R.cov['exhaustive'] = False
        R.cov['input_histogram'] = {k: v for k, v in st.items() if k.startswith(('cls_', 'hist_', 'obs_', 'tied_'))}
    return R.finish()
