from vlib.core import *

META = dict(
    level_text="Noninterference proved in Lean at two levels. (1) Orchestration model shared by HermEigsBase and GenEigsBase, for EVERY behaviour of the numeric kernels that reads only the live part of the factorization object: from ANY two object states (fresh, reused after any history of init/compute calls incl. non-converging and throwing ones, torn by an exception), init(v); compute(args) yields the same return value or exception, eigenvalues, eigenvectors, num_iterations, num_operations and (on return) info (c06_init_total, c06_history_independent, c06_fresh_vs_reused). (2) That hypothesis is DISCHARGED for the executable numeric kernel record of the symmetric family (Arnoldi.init, Lanczos.factorize_from incl. the re-orthogonalisation loop and expand_basis, TridiagQR shift loop, compress_H/compress_V, TridiagEigen, convergence test, V*y) by read/write footprint lemmas (herm_respects): init rebuilds V, H, f, beta, k from (operator, v0, const members) whatever the old object was, every kernel commutes with forgetting the trace counters, const members are never written; giving the UNCONDITIONAL theorems c06_herm_init_total / c06_herm_history_independent / c06_herm_fresh_vs_reused (every operator, every (n, nev, ncv), every two histories, every argument tuple; bit-identity because model functions are functions), c06_trace_counters_inert, c06_stale_basis_columns_harmless / c06_factorize_writes_before_reads (the C++ resize() keeps the stale columns >= 1 of a reused m_fac_V while the model zero-fills: factorize_from writes every column before reading it, so the C++-faithful init and the model's init give the identical object after the first factorization, for every old matrix of the right shape), and c06_two_solvers_one_op / c06_two_solvers_independent (any interleaving of calls on two solvers over one operator). Operator-side state: event model of set_shift/perform_op; the installed shift after construct and ANY history equals the constructor's for the real-shift classes (c06_op_shift_real) and for GenEigsComplexShiftSolver as the code is now (c06_op_shift_complex, c06_op_shift_complex_compute, c06_op_shift_complex_throw_in_probe) on every path incl. the user's operator throwing inside the root-selection probe (try/catch handler modelled); both earlier versions of the code are refuted for every shift/probe/count (c06_op_shift_complex_old_refuted: no restore, F3; c06_op_shift_complex_unguarded_refuted: restore on the normal path only, F3b). Structural facts regenerated from the headers on every run: all four random generators are non-static locals seeded by 0 or seed+123*iter (c06_seed_pure), no static-storage variable and exactly the eleven known mutable scratch members (c06_no_hidden_state). The same model definitions run at Float against the real SymEigsSolver/SymEigsShiftSolver on fresh, reused and second-solver runs (bit-exact up to the final V*Y product), the operator event trace incl. the probe shift computed from the source-translated generator is compared bit for bit, and the bitwise fresh/reused/second-solver/interleaved comparison plus operator probes run on all thirteen solver classes.",
    note="Lean kernel + propext/Classical.choice/Quot.sound; translator; the model's Arnoldi.init rebuilds V from a zero matrix whereas the C++ resize() keeps stale columns >= 1 of an already allocated m_fac_V: shown invisible by c06_stale_basis_columns_harmless (hypotheses: old matrix of the allocated shape, operator returns vectors of length n) and cross-checked by the bitwise oracle; the same resize() argument for m_fac_H/m_fac_f (H is zeroed, f assigned) is by reading; the general family's numeric kernel record (GenSolver.genKern) does not exist yet: footprint lemmas for Arnoldi.factorize_from are proved, the classes are covered by the orchestration theorems and the oracle; g++ evaluates rng.random()*sigmar + rng.random() left to right (validated bitwise)",
    technique="Lean 4 proof (simulation relation over the orchestration state machine + per-function footprint lemmas by induction over the loops; event-trace model of the operator) + bit-exact differential correspondence on fresh/reused/shared objects + bitwise implementation-level oracle with operator probes",
    design="§5 C06", harnesses=['c06'])

def run(tier, seed, replay=None):
    R = Run('C06', tier, seed)
    R.trusted = TRUSTED_COMMON + [
        'determinism of each hardware floating-point operation (bit-identity follows from equality of model inputs)',
        'the numeric kernel record HermSolver.hermKern is tied to the real classes by the bit-level correspondence (symmetric family); the other classes are instances of the orchestration model by reading, validated by the oracle',
        'Model/OpShift.lean: the solvers touch the operator only through set_shift and perform_op (checked by the event-trace correspondence on instrumented operators)',
        'order of evaluation of the two generator draws in the probe-shift expression is the compiler\'s (validated bitwise on every run)']
    R.assumptions = ['both solver objects were constructed with the same (operator, nev, ncv[, sigma]) and their const members are intact (Wf)',
                     'the observed init(v) accepts v (otherwise both objects throw the same exception and nothing more is claimed)',
                     'operator-shift theorems: the user\'s set_shift itself does not throw']
    if replay:
        exe, log = build_harness('c06')
        out = os.path.join(R.work, 'replay'); rc, hlog = run_harness(exe, out, seed, tier, ['--replay', replay])
        R.failures += load_oracle(os.path.join(out, 'oracle.jsonl'))
        return R.finish()
    standard_prove(R, 'C06', ['Sort', 'Restart', 'Givens', 'Rand', 'RandSites', 'Footprint'])
    r = standard_corr(R, 'c06', 'solver-herm-reuse+opshift', compare=compare_segments)
    if R.broken and not R.failures and tier == 'quick':
        R.notes.append('obligation broken: extended search at thorough budget')
        standard_corr(R, 'c06', 'solver-herm-reuse+opshift-search', tier='thorough', compare=compare_segments)
    if r:
        st = r['stats'].get('counters', {})
        R.cov['distinct_nontrivial'] = distinct_count(os.path.join(r['out'], 'requests.txt')) + st.get('oracle_fresh_vs_reused', 0)
        R.cov['rule'] = ('per case: observed pair init()/init(v); compute(sel, maxit in {0,1,2,3,10,300}, tol in 1e-3..1e-13, sort; 12% unsupported rules) on (a) a fresh solver, (b) a solver reused after 1..5 history calls '
                         '(init(), init(v\'), init(0) rejected, compute with other rules/tolerances, maxit 0/1, unsupported rule, user operator throwing at a random application of compute() or init(), accessor calls), '
                         '(c) a second solver over the same operator object, (d) the reused solver with the second solver\'s calls interleaved; 13 solver classes x 8 matrix families x 5 scalings, n <= 11 (20 thorough); '
                         'operator probed with a fixed vector before/after every compute(); non-trivial = distinct model requests + fresh-vs-reused comparisons performed')
        R.cov['exhaustive'] = False
        R.cov['input_histogram'] = {k: v for k, v in st.items() if k.startswith(('cls_', 'hist_', 'obs_', 'tied_'))}
    return R.finish()
