from vlib.core import *

META = dict(
    level_text="PARTIAL (proof of everything the code contributes; 'Successful => the right k' itself only on explored inputs). Proved for all sizes, all values of a linearly ordered field, all ties, every kernel record and every outcome of the small eigen-solver: after retrieve_ritzpair (Orch.retrieve with the source-translated argsort resp. the general family's SortEigenvalue switch as select kernel) the stored Ritz values are a permutation of the projected eigenvalues sorted by the rule's key, so that for EVERY k (nev and every adjusted restart size) no value at a position >= k is strictly better than one at a position < k; BothEnds puts the ceil(k/2) largest and floor(k/2) smallest into the first k positions; values, estimates and vectors are gathered through one index vector (c04_wanted_first, _bothends, _complex); every completed restart ends with the same retrieve (c04_restart_reorders). The symmetric restart's shift list is a permutation of the Ritz values at positions k..ncv-1, has ncv-k entries, is ordered by decreasing magnitude (c04_shifts_unwanted, c04_shifts_model); the translated shift loop of GenEigsBase::restart consumes exactly the positions k..ncv-1, each once, a conjugate pair by one double shift, total degree ncv-k, under adjacency of conjugates (c04_shifts_unwanted_gen). One exact shift mu multiplies the start vector by (A - mu I): first column of VQ = (A - mu I) v1 / R11, the Krylov relation is handed on, two shifts compose (c04_filter, c04_filter_relation, c04_filter_two; any number: C04Filter.filter_list). Rule space: LargestMagn on nu = 1/(lam-sigma) <=> closest to sigma and the one-sided order; full sign-case tables for buckling nu = lam/(lam-sigma) and Cayley nu = (lam+sigma)/(lam-sigma); the final sorting rule acts on the back-transformed values (c04_rule_space, _buckling, _cayley, _final_sort, _back). Every Ritz value of a symmetric matrix lies between its extreme eigenvalues (c04_interlace over any ordered field given the eigen-decomposition, c04_interlace_real via Mathlib's spectral theorem). NOT proved (not provable): convergence to the extreme eigenvalues. The acceptance oracle decides the property on the implementation: prescribed spectra with key gaps >= 0.5 % of the spread, every rule x 14 solver families, dense long-double reference.",
    note="Lean kernel + standard axioms; translator; std::sort modelled as stable insertion sort (exact for <= 16 elements); Mathlib.Analysis.Matrix.Spectrum for the real spectral theorem; the numeric solver model (Lanczos/TridiagQR/TridiagEigen) and the QR models (UpperHessenbergQR, DoubleShiftQR) are tied to the real classes by bit-exact correspondence, not proved equal; convergence of the Krylov iteration to the wanted end of the spectrum is a generic-position statement and is established only on the explored inputs",
    technique="Lean 4 proof (permutations/sortedness composed from C18 through the orchestration model; induction over the translated shift loop; Mathlib Matrix algebra for the polynomial filter and Rayleigh bounds) + bit-exact correspondence (solver model via drv_c05; argsort-then-take-k and the real restart()'s shift sweeps via drv_c04) + acceptance oracle against a long-double dense reference",
    design="§5 C04", harnesses=['c04', 'c04k'])

def run(tier, seed, replay=None):
    R = Run('C04', tier, seed)
    R.trusted = TRUSTED_COMMON + [
        'convergence of the restarted Krylov iteration to the extreme (wanted) eigenvalues is NOT proved: "Successful => the right k" is decided by the acceptance oracle on the explored inputs only',
        'std::sort is modelled (stable insertion sort, exact for <= 16 elements in libstdc++); the shift list of a restart is observed through its effect on H (bit-exact after the QR sweeps), the local array itself has no hook',
        'dense reference decompositions: Eigen SelfAdjointEigenSolver / EigenSolver in long double',
        'Mathlib spectral theorem for real symmetric matrices (c04_interlace_real only)']
    R.assumptions = ['spectra prescribed with simple eigenvalues whose keys (in the spectrum the rule acts on) are at least 0.5 % of the key spread apart (re-checked on the reference spectrum, otherwise the case is skipped and counted)',
                     'ncv >= 2 nev + 1, default start vector, default maxit = 1000 and tol = 1e-10 (history shares: one preceding compute() with another rule on the same object, no init() in between)',
                     'general-family shift schedule: complex Ritz values sit in adjacent conjugate pairs (AdjacentConj); no NaN']
    if replay:
        exe, log = build_harness('c04', sanitize=False)
        out = os.path.join(R.work, 'replay'); rc, hlog = run_harness(exe, out, seed, tier, ['--replay', replay])
        R.failures += load_oracle(os.path.join(out, 'oracle.jsonl'))
        return R.finish()
    standard_prove(R, 'C04', ['Sort', 'Restart'], drivers=['C04', 'C05'])
    rk = standard_corr(R, 'c04k', 'kernel-wanted-shifts', driver='C04')
    nk = distinct_count(os.path.join(rk['out'], 'requests.txt')) if rk else 0
    # the solver-level harness instantiates 14 solver families + long-double references: built without sanitizers (8 min -> 3 min); memory safety is C13's subject
    rs = standard_corr(R, 'c04', 'solver-herm', sanitize=False, driver='C05', compare=compare_segments)
    ns = distinct_count(os.path.join(rs['out'], 'requests.txt')) if rs else 0
    if R.broken and not R.failures and tier == 'quick':
        R.notes.append('obligation broken: extended search at thorough budget')
        standard_corr(R, 'c04', 'solver-herm-search', tier='thorough', sanitize=False, driver='C05', compare=compare_segments)
    if rs:
        ctr = rs['stats'].get('counters', {})
        R.cov['distinct_nontrivial'] = nk + ns + ctr.get('oracle_successful_checked', 0)
        R.cov['oracle_summary'] = {k: v for k, v in ctr.items() if k.startswith(('oracle_', 'not_successful', 'precondition', 'run_exception', 'hooks_seen', 'model_tie', 'generator', 'case_exception'))}
        R.cov['not_converged_by_family_rule'] = {k[8:]: v for k, v in ctr.items() if k.startswith('notconv_')}
        R.cov['structured_shares'] = {k: v for k, v in ctr.items() if k.startswith('cfg_')}
        R.cov['checked_by_family'] = {k[3:]: v for k, v in ctr.items() if k.startswith('ok_')}
        R.cov['checked_fullspace_by_family'] = {k[7:]: v for k, v in ctr.items() if k.startswith('okfull_')}
        R.cov['rule'] = ('acceptance oracle: 14 solver families (SymEigs, HermEigs, SymEigsShift, GenEigs, GenEigsRealShift, GenEigsComplexShift, SymGEigs Cholesky/RegularInverse, '
                         'SymGEigsShift ShiftInvert/Buckling/Cayley, Davidson, PartialSVD, LOBPCG) x every supported rule x 3 (quick) / 8 (thorough) prescribed spectra '
                         '(positive / mixed-sign / negative keys, jittered grid with gaps >= 0.55 % of the spread), n = 30 quick, up to 200 thorough (general families up to 60), nev 1..6, ncv = 2 nev + 1 + (0..6); '
                         'structured shares of GenEigsComplexShiftSolver (8 per rule quick / 24 thorough, n = 24..36): decoupled block-diagonal matrices (1x1, 2x2 rotation-scaling, dense S D S^-1 blocks over 2-3 units) with the blocks of the WANTED eigenvalues last, so that the wanted eigenvectors vanish in the first nev coordinates (decoupled-away, -dense, -perm behind a zero-preserving permutation similarity), control with them first (decoupled-inside); '
                         '(block) upper triangular / banded / permuted matrices with exactly prescribed eigenvalues (grid 1/8) and sigma = (an exact real eigenvalue) + i tau, tau in {0.1 .. 2}, or Re sigma = real part of a 2x2 diagonal block (exact-resigma-*); keys separated by >= 0.65 % of the candidate key range by construction; '
                         'a returned set that contains the wanted acted-on value nu but not its eigenvalue (mirror image root) is reported as wrong-root independently of the full-space twin; history shares of GenEigsSolver / RealShift / ComplexShift (2 per rule quick / 5 thorough): init(); compute(ruleA); compute(ruleB) on one object, judged under ruleB, twin with the same history; '
                         'a case counts when the solver reported Successful and the returned set was compared with the long-double reference; every case is repeated with ncv = n (full-space run: only the selection logic is left), which separates selection defects (wrong-set) from premature convergence (misconverged); '
                         'kernel correspondence: exhaustive real argsort-then-take-k over {-2..2}^n (n <= 4 quick / 5 thorough, 9 rules, all k), SortEigenvalue<Complex> over 8 values^n (n <= 3/4), '
                         'real HermEigsBase::restart on injected Ritz values over {+-0.5,+-1,+-2}^ncv (ncv <= 4/5 exhaustive, up to 8/12 sampled) and GenEigsBase::restart over 6 complex patterns^ncv; distinct request lines counted')
    return R.finish()
