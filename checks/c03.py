from vlib.core import *

META = dict(
    level_text="Exact-arithmetic content proved on the executable model of the five generalized symmetric solver classes (Model/GSymSolver.lean: instances of the orchestration model Orch over the Lanczos / TridiagQR / TridiagEigen kernel models, with the mode's composite operator, inner product, back-transformation, constructor shift guard and Cholesky-mode eigenvector post-processing), for all sizes, pencils, shifts and vectors: the operator each mode builds is the documented one (c03_operator: inv(L) A inv(L'), inv(B) A, inv(A-sB) B, inv(K-sK_G) K, and (A-sB) Op x = (A+sB) x for Cayley); from a Ritz pair Op y = nu y + r of THAT operator the pair handed back satisfies, in the user's pencil, A x - theta B x = L r with x = inv(L') y (c03_cholesky, Gram X'BX = Y'Y: c03_cholesky_gram), A x - theta B x = B r (c03_reginv), A x - (sigma + 1/nu) B x = -(1/nu)(A - sigma B) r (c03_shiftinvert), K x - (sigma nu/(nu-1)) K_G x = (K - sigma K_G) r/(1-nu) (c03_buckling), A x - (sigma(nu+1)/(nu-1)) B x = (A - sigma B) r/(1-nu) (c03_cayley), where the eigenvalue expressions are the model's back-transformations, which invert the spectral maps (c03_back_inverse); r is y_last f of the Lanczos relation (c03_ritz_residual) and a set convergence flag means |y_last| beta < tol max(|nu|, eps^(2/3)) (c03_flag_bound); the inner product of the model's ArnoldiOp is x'By, x'Kx in buckling mode because the solver is built with Bop = K, Euclidean in Cholesky mode (c03_inner), and V'GV = I, Y'Y = I give X'GX = I for the vectors eigenvectors() assembles (c03_borth; Cholesky: X'BX = I, c03_borth_cholesky); buckling and Cayley constructors reject exactly sigma = 0 (translated guard), which is exactly the shift at which the spectral map collapses to nu = 1 (c03_sigma0); the composite operator is held by value in HermEigsBase::m_op_container for the life of the solver (c03_rvalue_op, regenerated member/holder tables); for every history, prior state, scalar type and kernel behaviour the flags handed back were computed on the final factorization and permuted with back-transformed values and vectors by one index vector, and counts are consistent (c03_flags_fresh, c03_counts, c03_values_backtransformed: instances of C05). Rounding is NOT modelled: 'tol-level', the conditioning-scaled rounding term and orthonormality to rounding level are checked only by the long double oracle (constants in harness/c03.cpp) on the real classes with harness-defined and with the library's own dense/sparse wrappers.",
    note="Lean kernel + propext/Classical.choice/Quot.sound; hand-written model tied to the five real classes by bit-exact correspondence on sampled histories (harness-defined operator classes: explicit loops over explicit matrices); the user's solves enter the theorems through the linear system they solve (C11 for the library's wrappers); V'BV = I (C07) and Y'Y = I (C09) are hypotheses of c03_borth; C++ lifetime rules for by-value members trusted; rounding and convergence not proved",
    technique="Lean 4 / Mathlib proof (Matrix algebra on the executable scalar-generic model, orchestration theorems instantiated from C05) + bit-exact differential correspondence of the Float instance against SymGEigsSolver / SymGEigsShiftSolver + long double predicate oracle incl. the library's own dense/sparse wrappers",
    design="§5 C03", harnesses=['c03'])

def run(tier, seed, replay=None):
    R = Run('C03', tier, seed)
    R.trusted = TRUSTED_COMMON + [
        'hand-written model Model/GSymSolver.lean (+ Model/HermSolver, Orch, Lanczos, Arnoldi, TridiagQR, TridiagEigen): tied to SymGEigsSolver.h / SymGEigsShiftSolver.h / MatOp/internal/SymGEigs*Op.h / ArnoldiOp.h only by the sampled bit-exact correspondence (return value, status, counters, eigenvalues, hash of V/H/f/beta after every compute; eigenvectors under the matrix-product soft rule)',
        'theorems are exact arithmetic over a field: rounding, the conditioning constants of the property statement and convergence are not proved (oracle only)',
        'the user-supplied solves are characterised by the system they solve (hypotheses L*Xmat = 1, Bmat*Xmat = 1, (Amat - sigma Bmat)*Xmat = 1); that the library wrappers meet them is property C11',
        'orthonormality of the Lanczos basis in the mode\'s inner product (C07) and of the tridiagonal eigenvectors (C09) are hypotheses of c03_borth',
        'C++ object lifetime rules (a by-value member lives as long as its object) for c03_rvalue_op; the member tables are regenerated from the clang AST on every run',
        'oracle reference quantities (norms, condition numbers, transformed spectrum) are computed with Eigen in long double']
    R.assumptions = ['real double scalars in model and correspondence', 'ncv - nev <= 16 in the correspondence (std::sort of the restart shifts modelled as insertion sort)',
                     'symmetric A, symmetric positive definite B (K in buckling mode), finite inputs']
    if replay:
        exe, log = build_harness('c03')
        out = os.path.join(R.work, 'replay'); rc, hlog = run_harness(exe, out, seed, tier, ['--replay', replay])
        R.failures += load_oracle(os.path.join(out, 'oracle.jsonl'))
        return R.finish()
    standard_prove(R, 'C03', ['Guard', 'Footprint', 'Sort', 'Restart', 'Givens', 'Rand'])
    r = standard_corr(R, 'c03', 'solver-gsym', compare=compare_segments)
    if R.broken and not R.failures and tier == 'quick':
        R.notes.append('obligation broken: extended search at thorough budget')
        standard_corr(R, 'c03', 'solver-gsym-search', tier='thorough', compare=compare_segments)
    if r:
        cnt = r['stats'].get('counters', {})
        R.cov['distinct_nontrivial'] = distinct_count(os.path.join(r['out'], 'requests.txt')) + sum(v for k, v in cnt.items() if k in ('oracle_partial', 'oracle_successful'))
        R.cov['rule'] = ('stream corr: random histories (init(), init(v), compute(sel in {0,3,4,7,8}, maxit in {0,1,2,3,10,300,1000}, tol 1e-3..1e-13, sort in {0,3,4,7}), repeated compute(), accessor probes, 12% with unsupported rules) on the five classes with harness-defined operators; A from 8 symmetric families x 5 scalings, B (K) SPD with cond 1, 1e1, 1e2, 1e4, 1e6, 1e8 x 3 scalings, shifts {+-1.2345, +-O(1) x pencil scale, next to a generalized eigenvalue (rel. 1e-3/1e-6/1e-9), 1e3 x pencil scale, 0 (guard)}; n <= 11 (20 thorough); '
                         'stream lib: same generators on the library\'s own wrappers (DenseSymMatProd/SparseSymMatProd x DenseCholesky/SparseCholesky, SparseRegularInverse, SymShiftInvert<Dense|Sparse, Dense|Sparse>), n <= 16 (40 thorough), predicate only; '
                         'predicate constants: residual <= 10 tol g S sqrt(cond Ip) + 100 n eps g S cond(F) sqrt(cond Ip), Gram <= 1000 n eps cond(G) (definitions in harness/c03.cpp); non-trivial = a compute() that returned at least one converged pair, plus distinct model requests')
        R.cov['exhaustive'] = False
    return R.finish()
