from vlib.core import *

def run(tier, seed, replay=None):
    R = Run('C19', tier, seed)
    R.trusted = TRUSTED_COMMON + ['IEEE-754: rounding of s/(2^31-1) - 0.5 is monotone, so the real-number range (-1/2,1/2) implies the closed float range [-0.5,0.5] (checked for all states in float and double by the thorough tier, not proved)']
    R.assumptions = ['long is 64-bit (LP64), as on the platform the library is compiled on here']
    if replay:
        exe, log = build_harness('c19')
        out = os.path.join(R.work, 'replay'); rc, hlog = run_harness(exe, out, seed, tier, ['--replay', replay])
        R.failures += load_oracle(os.path.join(out, 'oracle.jsonl'))
        return R.finish()
    standard_prove(R, 'C19', ['Rand'])
    r = standard_corr(R, 'c19', 'rand')
    if R.broken and not R.failures and tier == 'quick':
        R.notes.append('obligation broken: extended search (all 2^31-2 states) run')
        standard_corr(R, 'c19', 'rand-search', tier='thorough')
    if r:
        R.cov['distinct_nontrivial'] = distinct_count(os.path.join(r['out'], 'requests.txt'))
        R.cov['rule'] = 'states: boundary values of the 16-bit split and of the fold thresholds + uniform random states in [1,2^31-2]; seeds: 0 and 2i+123j; distinct request lines counted; thorough enumerates all 2^31-2 states on the implementation against a 128-bit reference'
        R.cov['exhaustive'] = False
    return R.finish()
