from vlib.core import *

META = dict(
    level_text="All integer content proved for every state and every library seed form: one step = 16807*s mod (2^31-1) (c19_step), closed state space (c19_closed, c19_orbit*), no signed overflow / wrap in any intermediate (c19_nowrap), seeds never degenerate (c19_seeds*). The theorems are about definitions regenerated from SimpleRandom.h on every run; purity (no global/static/time/address state) is decided structurally by the translator, and every place where a generator object is created is extracted from the whole header tree on every run and proved to be a non-static local seeded by 0 or 2i+123j (c19_sites, c19_no_static_generator). The floating range [-0.5,0.5] is proved over exact arithmetic only and checked on all states in the thorough tier.",
    note="Lean kernel + propext/Classical.choice/Quot.sound; translator xlate + clang-14 AST (differential-tested every run against the compiled C++); LP64; IEEE monotone rounding for the float range",
    technique="Lean 4 proof (omega/induction) on source-translated definitions + differential correspondence",
    design="§5 C19", harnesses=['c19'])

def run(tier, seed, replay=None):
    R = Run('C19', tier, seed)
    R.trusted = TRUSTED_COMMON + ['IEEE-754: rounding of s/(2^31-1) - 0.5 is monotone, so the real-number range (-1/2,1/2) implies the closed float range [-0.5,0.5] (checked for all states in float and double by the thorough tier, not proved)']
    R.assumptions = ['long is 64-bit (LP64), as on the platform the library is compiled on here']
    if replay:
        exe, log = build_harness('c19')
        out = os.path.join(R.work, 'replay'); rc, hlog = run_harness(exe, out, seed, tier, ['--replay', replay])
        R.failures += load_oracle(os.path.join(out, 'oracle.jsonl'))
        return R.finish()
    standard_prove(R, 'C19', ['Rand', 'RandSites'])
    r = standard_corr(R, 'c19', 'rand')
    if R.broken and not R.failures and tier == 'quick':
        R.notes.append('obligation broken: extended search (all 2^31-2 states) run')
        standard_corr(R, 'c19', 'rand-search', tier='thorough')
    if r:
        R.cov['distinct_nontrivial'] = distinct_count(os.path.join(r['out'], 'requests.txt'))
        R.cov['rule'] = 'states: boundary values of the 16-bit split and of the fold thresholds + uniform random states in [1,2^31-2]; seeds: 0 and 2i+123j; distinct request lines counted; thorough enumerates all 2^31-2 states on the implementation against a 128-bit reference'
        R.cov['exhaustive'] = False
    return R.finish()
