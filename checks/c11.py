from vlib.core import *
import struct, math, concurrent.futures

META = dict(
    level_text="Proved (Lean) for the Spectra-owned algebra of the wrappers, all sizes and any commutative ring/field: every wrapper with a triangle option is a function of symFromTri uplo M only (c11_triangle_only_*), SymShiftInvert's triangle-wise assembly equals the read triangle of sym(A) - sigma sym(B) for all 4 pairings x 4 (UploA,UploB) (c11_shiftinvert_assembly*), the five composite operators equal their documented operators given their parts (c11_cayley, c11_cholesky_op, c11_reginv_op, c11_buckling_op, c11_shiftinvert_op), the fill-reducing permutation of SparseCholesky cancels and F = L^-1 P is an inverse factor of B (c11_sparse_chol_perm, c11_perm_roundtrip), the real block system gives Re[(A - sigma I)^-1 x] (c11_real_part), and the template footprint regenerated from the headers passes Uplo to every Eigen member/view/compute call (c11_uplo_passthrough), instantiates SparseLU column-major for general matrices and otherwise only on matrices declared symmetric (c11_sparselu_colmajor_or_symmetric), tests info() and throws in every factorizing set_shift whose solver can fail (c11_shift_failure_throws), SparseRegularInverse::solve as coded equals the spec for both triangles (c11_reginv_solve) and SymShiftInvertHelper has exactly the view/transposition structure the assembly model mirrors (c11_helper_footprint); the regenerated list of EVERY call a wrapper method makes on its third-party solver object (SparseLU, PartialPivLU, LLT, SimplicialLLT, ConjugateGradient, BKLDLT, the Fac& of the helper) contains only the documented interface compute / info / solve / matrixL,U / permutationP,Pinv / isSymmetric(true) (c11_solver_calls_documented), lifted to all member-function names (c11_only_documented_calls) and to all call histories: no pivot-threshold, tolerance or iteration-limit change, SparseLU keeps the partial pivoting it is constructed with (c11_no_pivot_threshold_change, c11_partial_pivoting). Each template configuration itself is decided by translation validation: the real class is run against the executable specification `spec uplo M` (model's own Cholesky / Gaussian elimination from the full symmetric matrix) with tolerance 256 n eps scale, plus the metamorphic junk-triangle run (bit-identical), a long-double oracle of the documented operator, for the real shift solves the normwise backward error <= 256 n eps (also on near-singular-pivot families: sigma within 1e-9..1e-5 of a diagonal entry of grid Laplacians / tridiagonal Toeplitz / diagonal-plus-low-rank matrices) and for the complex shift solves the shift history complex, real, complex on one object. Eigen's decompositions are trusted.",
    note="Lean kernel + standard axioms; Eigen LLT/SimplicialLLT/PartialPivLU/SparseLU/ConjugateGradient and Spectra's BKLDLT (C10) modelled by their specification; the correspondence is sampled per configuration with a normwise tolerance, not bit-exact; float/long double/complex<float> configurations are covered by the long-double oracle only",
    technique="Lean 4 proof (entrywise case analysis, Mathlib Matrix algebra) + per-configuration translation validation against an executable specification + metamorphic triangle test",
    design="§5 C11", harnesses=[{'name': 'c11', 'parts': True}])

QUICK_PARTS = [0, 1, 2, 3, 4, 5]
EXTRA_PARTS = [10, 11, 12, 13, 14, 15, 16, 17]
C_TOL = 256.0
EPS = 2.0 ** -52
INC = ['c11.cpp', 'c11_core.inc', 'c11_run.inc', 'c11_parts.inc']

def build_part(part, sanitize):
    """compile harness/c11.cpp with -DC11_PART=<part> against /repo's working tree; cached by content hash"""
    hd = os.path.join(VERIF, 'harness')
    flags = list(CXX_BASE) + (SAN if sanitize else []) + ['-DC11_PART=%d' % part]
    h = hashlib.sha256(); h.update(tree_hash().encode()); h.update(' '.join(flags).encode())
    for p in [os.path.join(hd, f) for f in INC] + sorted(glob.glob(os.path.join(hd, '*.h'))): h.update(open(p, 'rb').read())
    d = os.path.join(BUILD, 'harness'); os.makedirs(d, exist_ok=True)
    name = 'c11p%d' % part
    exe = os.path.join(d, f'{name}_{h.hexdigest()[:16]}')
    if os.path.exists(exe): return part, exe, 'cached'
    for old in glob.glob(os.path.join(d, name + '_*')):
        try: os.remove(old)
        except OSError: pass
    r = sh(flags + [os.path.join(hd, 'c11.cpp'), '-o', exe + '.tmp', '-lpthread'])
    if r.returncode != 0: return part, None, r.stdout[-3000:]
    os.replace(exe + '.tmp', exe)
    return part, exe, r.stdout[-300:]

# configurations the class template advertises but that cannot be driven by the harness if they do not even compile
PROBES = [('SymShiftInvert<double,Sparse,Sparse,Lower,Lower,ColMajor,ColMajor,int,long>', 'int', 'long'),
          ('SymShiftInvert<double,Sparse,Sparse,Lower,Upper,ColMajor,ColMajor,long,int>', 'long', 'int')]

def compile_probe(R):
    """-fsyntax-only instantiation of ctor + set_shift + perform_op; result cached by tree hash"""
    def one(pr):
        cfg, ia, ib = pr
        ua, ub = cfg.split(',')[3], cfg.split(',')[4]
        src = ('#include <Eigen/Core>\n#include <Eigen/SparseCore>\n#include <Spectra/MatOp/SymShiftInvert.h>\n'
               f'void probe() {{ Eigen::SparseMatrix<double, Eigen::ColMajor, {ia}> A(3, 3); Eigen::SparseMatrix<double, Eigen::ColMajor, {ib}> B(3, 3); A.setIdentity(); B.setIdentity();\n'
               f'  Spectra::SymShiftInvert<double, Eigen::Sparse, Eigen::Sparse, Eigen::{ua}, Eigen::{ub}, Eigen::ColMajor, Eigen::ColMajor, {ia}, {ib}> op(A, B); op.set_shift(0.5); double x[3] = {{1, 2, 3}}, y[3]; op.perform_op(x, y); }}\n')
        h = hashlib.sha256((tree_hash() + src).encode()).hexdigest()[:16]
        d = os.path.join(BUILD, 'harness'); os.makedirs(d, exist_ok=True)
        cache = os.path.join(d, f'c11probe_{ia}_{ib}_{h}.json')
        if os.path.exists(cache): return cfg, json.load(open(cache))
        for old in glob.glob(os.path.join(d, f'c11probe_{ia}_{ib}_*.json')):
            try: os.remove(old)
            except OSError: pass
        tu = os.path.join(R.work, f'probe_{ia}_{ib}.cpp'); open(tu, 'w').write(src)
        r = sh([f for f in CXX_BASE if f not in ('-g',)] + ['-fsyntax-only', tu])
        m = re.search(r'error: [^\n]*', r.stdout)
        res = {'ok': r.returncode == 0, 'error': m.group(0)[:300] if m else r.stdout[-300:]}
        json.dump(res, open(cache, 'w'))
        return cfg, res
    with concurrent.futures.ThreadPoolExecutor(max_workers=2) as ex:
        for cfg, res in ex.map(one, PROBES):
            R.cov.setdefault('harness_counters', {})['c11:compile_probes'] = R.cov.get('harness_counters', {}).get('c11:compile_probes', 0) + 1
            if not res['ok']:
                R.failures.append({'sig': 'config-does-not-compile', 'what': f'{cfg}: set_shift does not compile: {res["error"]}',
                                   'replay': {'harness': 'compile-probe', 'wrapper': 'SymShiftInvert', 'pairing': 'Sparse,Sparse', 'storage_index': 'mixed', 'cfg': cfg}})

def f64(tok): return struct.unpack('<d', struct.pack('<Q', int(tok)))[0]

MEMBERS = {'chol': ['lower_triangular_solve', 'upper_triangular_solve'], 'reginv': ['solve', 'perform_op'], 'hprod': ['perform_op', 'perform_op.imag']}

def compare_line(req, impl, model):
    """None if the implementation's answer agrees with the model's spec within C n eps scale; else (member, detail)"""
    t = req.split(' ', 3); op, n = t[0], int(t[2])
    a = impl.split(); b = model.split()
    mem = MEMBERS.get(op, ['perform_op'])
    if not b or b[0] == 'bad-op': return ('?', 'model could not answer the request: ' + model[:80])
    if a[0] != b[0]:
        return (mem[0] if a[0] == 'throw' else 'set_shift', f'status: implementation {a[0]}, model {b[0]} (throw = factorization failed)')
    if a[0] != 'ok': return None
    nb = (len(b) - 1) // (n + 1)
    if (len(b) - 1) != nb * (n + 1) or len(a) - 1 != nb * n: return ('?', f'shape: implementation {len(a) - 1} values, model {len(b) - 1} tokens, n={n}')
    for k in range(nb):
        scale = f64(b[1 + k * (n + 1)])
        ym = [f64(x) for x in b[2 + k * (n + 1): 2 + k * (n + 1) + n]]
        yi = [f64(x) for x in a[1 + k * n: 1 + (k + 1) * n]]
        tol = C_TOL * n * EPS * scale
        err = max([abs(u - v) for u, v in zip(yi, ym)] + [0.0])
        if not (math.isfinite(err) and math.isfinite(tol) and err <= tol):
            return (mem[min(k, len(mem) - 1)], f'|implementation - spec|_inf = {err:.3e} > {tol:.3e} = {C_TOL:g} n eps scale (n={n}, scale={scale:.3e})')
    return None

def matches_known(known, f):
    return next((x for x in known if x.get('sig') == f['sig'] and all(str(f.get('replay', {}).get(kk)) == str(vv) for kk, vv in x.get('match', {}).items())), None)

def run_parts(R, parts, tier, sanitize_of, replay=None, label=''):
    known = R.known()
    with concurrent.futures.ThreadPoolExecutor(max_workers=4) as ex:
        built = list(ex.map(lambda p: build_part(p, sanitize_of(p)), parts))
    exes = {}
    for part, exe, log in built:
        if exe is None: R.oblige(f'harness-build:c11:part{part}', False, log)
        else: exes[part] = exe
    def one(part):
        out = os.path.join(R.work, f'c11p{part}_{tier}{label}')
        rc, hlog = run_harness(exes[part], out, R.seed, tier, (['--replay', replay] if replay else None), timeout=3000)
        model = os.path.join(out, 'model.txt'); req = os.path.join(out, 'requests.txt')
        drc, derr = (0, '')
        if os.path.exists(req) and os.path.getsize(req) > 0 and os.path.exists(drv_path('C11')): drc, derr = run_driver(req, model, 'C11')
        return part, out, rc, hlog, drc, derr
    with concurrent.futures.ThreadPoolExecutor(max_workers=4) as ex:
        results = list(ex.map(one, sorted(exes)))
    percfg = {}     # cfg -> [lines, mismatches(unlisted), known mismatches, first detail]
    c = R.cov
    for part, out, rc, hlog, drc, derr in results:
        stats = {}
        try: stats = json.load(open(os.path.join(out, 'stats.json')))
        except Exception: pass
        fails = load_oracle(os.path.join(out, 'oracle.jsonl'))
        if rc != 0 and not replay:
            m = re.search(r'(ERROR: AddressSanitizer[^\n]*|runtime error:[^\n]*|Assertion[^\n]*failed[^\n]*|SUMMARY:[^\n]*)', hlog)
            last = {}
            try: last = json.loads(open(os.path.join(out, 'lastcase.txt')).read())
            except Exception: pass
            last.update({'log_tail': hlog[-1200:]})
            fails.append({'sig': 'harness-abort', 'what': f'harness c11 part {part} exited with {rc}: ' + (m.group(1) if m else hlog[-300:]), 'replay': last})
        R.failures += fails
        try: cfgs = [l.strip() for l in open(os.path.join(out, 'configs.txt')) if l.strip()]
        except Exception: cfgs = []
        for cf in cfgs: percfg.setdefault(cf, [0, 0, 0, ''])
        req = os.path.join(out, 'requests.txt'); impl = os.path.join(out, 'impl.txt'); model = os.path.join(out, 'model.txt'); meta = os.path.join(out, 'meta.txt')
        nlines = 0
        if drc != 0: R.oblige(f'corr:driver:part{part}', False, 'driver crashed: ' + derr)
        elif os.path.exists(req) and os.path.getsize(req) > 0:
            if not os.path.exists(model): R.oblige(f'corr:driver:part{part}', False, 'driver not built'); continue
            with open(req) as fr, open(impl) as fi, open(model) as fm, open(meta) as fx:
                for rq, a, b, mt in zip(fr, fi, fm, fx):
                    nlines += 1
                    cfg = rq.split(' ', 2)[1]
                    e = percfg.setdefault(cfg, [0, 0, 0, '']); e[0] += 1
                    bad = compare_line(rq.rstrip('\n'), a.rstrip('\n'), b.rstrip('\n'))
                    if bad is None: continue
                    rep = json.loads(mt); rep['member'] = bad[0]; rep['request'] = rq.rstrip('\n')[:6000]
                    f = {'sig': 'corr-mismatch', 'what': f'{cfg}::{bad[0]} disagrees with the specification: {bad[1]}', 'replay': rep}
                    if matches_known(known, f): e[2] += 1
                    else:
                        e[1] += 1
                        if not e[3]: e[3] = bad[1]
                    R.failures.append(f)
        c['evaluations'] = c.get('evaluations', 0) + stats.get('requests', 0) + sum(v for k, v in stats.get('counters', {}).items() if k.startswith('oracle_'))
        hc = c.setdefault('harness_counters', {})
        for k, v in stats.get('counters', {}).items(): hc['c11:' + k] = hc.get('c11:' + k, 0) + v
        c['traces_validated_against_impl'] = c.get('traces_validated_against_impl', 0) + nlines
        c['samples'] = (c.get('samples', []) + [s[:300] for s in stats.get('samples', [])[:2]])[:12]
    for cfg in sorted(percfg):
        n, bad, kn, det = percfg[cfg]
        if replay and n == 0: continue
        R.oblige(f'corr:wrapper:{cfg}' + label, bad == 0,
                 (f'{bad} of {n} request lines disagree: {det}' if bad else f'{n - kn} of {n} lines within {C_TOL:g} n eps scale' + (f'; {kn} disagreements belong to a recorded known finding' if kn else '') + ('' if n else ' (oracle-only configuration: no double-precision model instance)')))
    return percfg

def run(tier, seed, replay=None):
    R = Run('C11', tier, seed)
    R.trusted = TRUSTED_COMMON + [
        'Eigen 3.4.0 LLT, SimplicialLLT (+AMD ordering), PartialPivLU, SparseLU, ConjugateGradient, selfadjointView/triangularView products and Spectra::BKLDLT (property C10) are represented by their specification (they return the factorization / solution / product of the matrix they are given)',
        'the comparison with the executable specification is normwise: |impl - spec|_inf <= 256 n eps scale, scale = ||A|| ||x|| for products and cond_inf x ||y|| for solves (cond_inf^2 for triangular Cholesky solves), evaluated by the model itself',
        'configurations with Scalar = float, long double, complex<float> have no model instance: long-double oracle only',
        'backward-error oracle of the real shift solves: |(A - sigma B) y - x|_inf / (|A - sigma B|_inf |y|_inf + |x|_inf) <= 256 n eps with A - sigma B formed in long double from the documented matrices (the near-singular-pivot generator keeps |A - sigma B| >= (|A| + |sigma| |B|) / 16, so the single rounding of the entries when the wrapper forms the matrix is covered)',
        'the solver-call footprint is syntactic: calls on solver members, on non-const template-reference parameters (Fac&) and on local references to them inside MatOp/*.h; a configuration hidden behind a free function in another header is only seen as a "(use)" of the object']
    R.assumptions = ['matrices are admissible (symmetric / SPD / nonsingular after shifting) with cond_inf <= 1e4 (float: 50) in the sampled cases', 'no NaN/Inf entries']
    san = lambda p: p < 10
    if replay:
        rep = json.load(open(replay)); rp = rep.get('replay', rep)
        with Lock('lean'): sh([sys.executable, os.path.join(VERIF, 'tools', 'mkmain.py')]); lake_build(['drv_c11'])
        tmp = os.path.join(R.work, 'replay_in.json'); json.dump(rp, open(tmp, 'w'))
        run_parts(R, [int(rp.get('part', 0))], rp.get('tier', tier), san, replay=tmp, label=':replay')
        return R.finish()
    gens = ['OpsFootprint'] if os.path.exists(os.path.join(VERIF, 'xlate', 'tgt_c11.py')) else []
    standard_prove(R, 'C11', gens)
    parts = QUICK_PARTS + (EXTRA_PARTS if tier == 'thorough' else [])
    percfg = run_parts(R, parts, tier, san)
    compile_probe(R)
    if R.broken and not R.failures and tier == 'quick':
        R.notes.append('obligation broken: extended search (thorough case budget on the quick configurations) run')
        run_parts(R, QUICK_PARTS, 'thorough', san, label=':search')
    R.cov['distinct_nontrivial'] = sum(1 for v in percfg.values() if v[0] > 0) + sum(v for k, v in R.cov.get('harness_counters', {}).items() if k.startswith('c11:cases_'))
    R.cov['configurations'] = len(percfg)
    R.cov['rule'] = ('per template configuration (quick: covering subset in which every option value of every wrapper appears; thorough: + all 64 SymShiftInvert<double,int,int> combinations, remaining StorageIndex and scalar types): 8 (thorough 24) cases, n in {1..12} (thorough up to 24), entry families {uniform, small integers with exact zeros, graded}, patterns {dense, banded, arrow, random sparse}, argument forms {plain, block, Map, expression, uncompressed}, last case = exactly singular shift / non-SPD matrix (error mapping); shift-and-invert wrappers: + 3 (thorough 9) near-singular-pivot cases, families {grid Laplacian / convection, tridiagonal Toeplitz, diagonal + rank 1-2}, n in {6..14} (thorough up to 24), sigma = d(1 +- delta), d a diagonal entry (of A, or a_kk/b_kk), delta log-uniform in [1e-9, 1e-5], cond(A - sigma B) <= 1000, graded also by the normwise backward error <= 256 n eps; complex shift solves: shift history complex/real/complex on one object must reproduce the first answer; stored matrix = documented triangle + junk; second run with different huge junk must be bit-identical')
    R.cov['exhaustive'] = False
    return R.finish()
