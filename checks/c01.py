from vlib.core import *

META = dict(
    level_text="Exact arithmetic (any linearly ordered field, all sizes, Mathlib Matrix): the code's flag test |y_last|*||f|| < tol*max(eps^(2/3),|theta|) together with the Krylov relation A V = V H + f e' and H y = theta y bounds the true residual ||A(Vy) - theta(Vy)|| by tol*max(eps^(2/3),|theta|) (c01_residual, squared norms; c01_residual_real with Real.sqrt; c01_residual_norm for any absolutely homogeneous norm, i.e. complex Hermitian / B-norm); V^H V = I and Y^H Y = I give (VY)^H (VY) = I and ||Vy|| = ||y|| (c01_unit_orth, c01_unit_orth_real); shift mode: lambda = sigma + 1/nu, A x - lambda x = -(1/nu)(A - sigma I)(Op x - nu x), hence ||A x - lambda x|| < C*tol*max(eps23,|nu|)/|nu| (= C*tol when |nu| >= eps23) for every bound C of ||A - sigma I|| (c01_shift). On the orchestration model shared with C05 (every kernel behaviour, every prior state): the flags handed back are the convergence test evaluated on the Ritz pairs of the FINAL factorization, permuted together with the vectors (c01_flags_paired, from c05_flags_fresh; false before fix c774a83). For EVERY finite history of init()/compute() calls (no 'preceded by init()' restriction since fix f70c7d9) and a final compute() that returns - Successful or NotConverging -, every pair handed back satisfies the residual bound in exact arithmetic, under the explicit kernel specifications ExactKernels (each factorization kernel is a sequence of C07 steps, composed with C07's run theorem; small eigen-solver returns eigenpairs of H with estimate = last coordinate; flag test and x = V y as coded): c01_invariant_histories, c01_histories, c01_histories_sym, c01_histories_shift; ExactKernels is shown satisfiable and the theorem is run on an instance. The SAME orchestration definitions instantiated with the executable Lanczos / TridiagQR / TridiagEigen models are run at Float against the real SymEigsSolver and SymEigsShiftSolver on histories built for this property (return value, status, counters, eigenvalues, eigenvectors, hash of the whole factorization object: bit for bit up to the final matrix product). The property's own predicate is evaluated in __float128 on the real classes incl. HermEigsSolver and float / long double instantiations. DISCHARGE for the executable kernels: ExactKernels as stated (for EVERY object / every factorize a b / every restartFac k) is not satisfiable by the numeric kernels, so it is relativised to an invariant the kernels preserve as compute()/init() call them (ExactKernelsOn; c01_histories_on, c01_histories_orth_on) and that is PROVED for HermSolver.hermKern (Arnoldi.init, Lanczos.factorize_from, restartFac = TridiagQR shift loop + compress_H/compress_V + factorize_from, eigH = TridiagEigen, convTest, assemble, sort wrappers, nev_adjusted) at the exact instance scOfField F: c01_hermKern_kernels, c01_histories_hermKern (eig_spec as hypothesis) and c01_histories_hermKern_full (NO kernel-specification hypothesis: eig_spec from C09's whole-run similarity of TridiagEigen, restart from C08's TridiagQR theorems, factorization loop from the model-level C07 run theorems), c01_invariant_hermKern (Krylov relation, V'V = I, V'f = 0, beta = ||f|| after every history on every path), c01_histories_orth_hermKern (orthonormal returned vectors; index-vector injectivity SortInj still a hypothesis). Hypotheses of the _full theorem: exact sqrt, ideal rotations (series cutoff <= 0), Sc.eps = 0 (TridiagQR deflation drops only exact zeros), 0 < min(), M symmetric, 1 <= nev < ncv, and two RUN-LEVEL hypotheses on a user-chosen closed set G of factorization states: Reg (no breakdown: beta >= near_0 and beta != 0 at every Lanczos pass, ||A v0|| != 0 and no f := 0 shortcut in init) and ZeroDrop (TridiagEigen's perturbation budget is 0 on full states). Consistency of the hypotheses is shown on a degenerate witness only (operator on R^0). Not proved: rounding (the '+ rounding-level multiple of ||A||' term); the breakdown/expand_basis branch and non-zero discards (explicit error terms); injectivity of the argsort index vectors for the orthonormality clause.",
    note="Lean kernel + propext/Classical.choice/Quot.sound; Mathlib Data.Matrix.Mul, LinearAlgebra.Matrix.ConjTranspose, Analysis.Real.Sqrt, Algebra.BigOperators.Fin; the solver model is Model/HermSolver.lean (driver C05); std::sort of the restart shifts modelled as stable insertion sort (exact up to 16 shifts: correspondence cases keep ncv - nev <= 16); the final V*Y product is compared under the soft rule of compare_segments; oracle constants C1 = 1.01, C2 = 100, C3 = 100 (harness/c01.cpp header)",
    technique="Lean 4 proof (Mathlib matrix algebra; invariants over the restart loop and over histories of a state machine generic in the kernels; composition with C07's step-sequence theorem) + bit-exact differential correspondence of the executable solver model + __float128 oracle on the implementation",
    design="§5 C01", harnesses=['c01'])

def run(tier, seed, replay=None):
    R = Run('C01', tier, seed)
    R.trusted = TRUSTED_COMMON + [
        'c01_histories rests on the hypotheses ExactKernels (exact-arithmetic specifications of facInit / factorize / restartFac / eig / select / convTest / assemble / sortIdx / backTransform); they are proved piecewise elsewhere (C07: steps and their composition, compress_V, one regular pass of the factorization loop; C08/C09: QR helpers and TridiagEigen with ideal rotations; C18: sort indices) and shown satisfiable here, but not discharged for the executable kernel record as a whole',
        'that the real classes are an instance of the orchestration model is validated by the bit-level correspondence, not proved',
        'oracle arithmetic: gcc __float128 (libgcc soft-float), explicit loops']
    R.assumptions = ['real symmetric / complex Hermitian operator; sigma not an eigenvalue (shift mode)',
                     'the user operator does not throw (a throwing operator can leave a torn factorization: property C14)']
    if replay:
        exe, log = build_harness('c01')
        out = os.path.join(R.work, 'replay'); rc, hlog = run_harness(exe, out, seed, tier, ['--replay', replay])
        R.failures += load_oracle(os.path.join(out, 'oracle.jsonl'))
        # model side of the replayed request
        req = os.path.join(out, 'requests.txt')
        if os.path.exists(req) and os.path.getsize(req) > 0 and os.path.exists(drv_path('C05')):
            rcd, err = run_driver(req, os.path.join(out, 'model.txt'), 'C05')
            if rcd == 0:
                cmp = compare_segments(req, os.path.join(out, 'impl.txt'), os.path.join(out, 'model.txt'))
                print('replay correspondence:', 'agrees' if not cmp['hard'] else 'DISAGREES', f"({cmp['equal']} equal, {cmp['soft']} soft of {cmp['total']})")
        return R.finish()
    standard_prove(R, 'C01', ['Sort', 'Restart', 'Givens', 'Rand'], drivers=['C05'])
    r = standard_corr(R, 'c01', 'solver-herm-c01', driver='C05', compare=compare_segments)
    if R.broken and not R.failures and tier == 'quick':
        R.notes.append('obligation broken: extended search at thorough budget')
        standard_corr(R, 'c01', 'solver-herm-c01-search', tier='thorough', driver='C05', compare=compare_segments)
    if r:
        st = r['stats'].get('counters', {})
        R.cov['distinct_nontrivial'] = distinct_count(os.path.join(r['out'], 'requests.txt')) + st.get('oracle_partial', 0) + st.get('oracle_successful', 0)
        R.cov['rule'] = ('histories of 2..7 calls (init(), init(v) with v in {random, eigenvector, sum of two eigenvectors, null-space / least-magnitude eigenvector incl. exactly A v = 0, vector inside the invariant subspace of a diagonal block}, '
                         'compute(sel in the five rules, maxit in {0,1,2,5,1000}, tol in {1e-3,1e-10,4 eps}, sort), repeated compute() without init(), compute() before any init()) on matrices '
                         '{generic, clustered 1e-8 apart, repeated, graded 1e-8..1e8, numerically low rank, block diagonal, exactly low rank} x norms 1e-8..1e8; ALL legal (n, nev, ncv) with n <= 10 on SymEigsSolver and SymEigsShiftSolver (correspondence + oracle), '
                         'thorough: additionally n in 11..40 with ncv - nev <= 16; oracle-only: SymEigsSolver<float|long double>, HermEigsSolver<complex<float|double|long double>>, SymEigsShiftSolver<DenseSymShiftSolve<float|double|long double>>; '
                         'non-trivial = a compute() that returned at least one pair, counted, plus distinct model requests')
        R.cov['exhaustive'] = False
        R.cov['input_histogram'] = {k: v for k, v in st.items() if k.startswith(('kind_', 'scale_', 'size_', 'start_', 'maxit_', 'tol_', 'sel_', 'inst_', 'regime_', 'Av0_', 'compute_throw', 'max_'))}
        R.cov['oracle_constants'] = 'C1 = 1.01 (tol term), C2 = 100 (n*eps*||A||_F term), C3 = 100 (n*eps orthonormality); eps of the solver scalar type; predicates evaluated in __float128'
    return R.finish()
