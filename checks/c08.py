from vlib.core import *

META = dict(
    level_text="Proved for every size n, every input matrix, every shift and every value of the machine parameters (any ordered field with a square-root function; exact arithmetic): the translated compute_rotation annihilates exactly in all sign/zero cases and both branches, is an ideal rotation in the standard branch and has orthogonality defect <= (5/8)t^6 in the series branch; for UpperHessenbergQR the whole property as Mathlib Matrix statements (Q'Q = 1, Q R = H - sI, R upper triangular, matrix_QtHQ = R Q + sI = Q'HQ and upper Hessenberg, every apply_* = multiplication by that Q / Q' from the stated side, the latter unconditionally); for TridiagQR Q'(T - sI) = R, Q R = T - sI, band/symmetric-tridiagonal shapes by construction, the closed Q'TQ formulas = entries of G'TG, the dropped bulge is exactly zero, deflation drops only negligible entries; for DoubleShiftQR the reflector kernel (unit u, (I - 2uu')x = rho*||x||*e1), first column of H^2 - sH + tI, Q e1 = P0 e1 parallel to it, the same Q applied from both sides, index safety of the reflector row counts for every deflation pattern / block split, and the similarity transform as a whole-matrix theorem (c08_dsqr_similarity_partial: for every n, input, shifts and block split, matrix_QtHQ = Q'(Hm - D1)Q - D2 with Q = P0...P(n-2) the matrix apply_YQ/apply_QtY multiply by, Q'Q = QQ' = 1, D1/D2 the explicitly described subdiagonal entries the two deflation passes drop, Q'(Hm - D1)Q and matrix_QtHQ upper Hessenberg with exact zeros; c08_dsqr_similarity_nodrop_partial: with nothing dropped matrix_QtHQ = Q'HQ exactly and the characteristic polynomial is preserved) under the hypothesis RunExact that no compute_reflector argument lies in the underflow window 0 < |x| < 10*min() (c08_dsqr_runexact_two: holds for every non-deflated 2x2 input with |m10| >= 10*min(); inside the window the exact identities are false). Not proved: the floating-point error bound c*n*eps*(||H||+|s|) (checked on the real classes in long double for float, double and long double) and the DoubleShiftQR identities inside the underflow window. One known finding (absolute deflation threshold near underflow).",
    note="Lean kernel + propext/Classical.choice/Quot.sound; translator xlate + clang-14 AST (differential-tested every run); hand models of the three classes tied to the C++ by bit-exact correspondence on sampled inputs; Eigen numext::hypot re-implemented; double only in the correspondence (float/long double by the scalar-generic theorems)",
    technique="Lean 4 proof (field_simp/nlinarith/ring, induction over loops) on source-translated kernels and executable models + bit-exact differential correspondence + long-double oracle",
    design="§5 C08", harnesses=['c08'])

def run(tier, seed, replay=None):
    R = Run('C08', tier, seed)
    R.trusted = TRUSTED_COMMON + [
        'hand-written models Model/HessQR.lean, Model/TridiagQR.lean, Model/DoubleShiftQR.lean mirror the C++ statement by statement; their agreement with the real classes is sampled (bit-exact on every sampled input), not proved',
        'Eigen 3.4.0 numext::hypot is re-implemented in the model (finite arguments) and validated by the same correspondence',
        'exact arithmetic = any linearly ordered field with a function sqrt satisfying sqrt(x)^2 = x, sqrt(x) >= 0 for x >= 0; machine parameters (eps, min, the series cutoff) are arbitrary field elements in the theorems',
        'correspondence runs Scalar = double only; float and long double are covered by the scalar-generic theorems and (long double) by the oracle arithmetic, not by model-vs-code comparison']
    R.assumptions = ['inputs are finite (no NaN/Inf); for DoubleShiftQR entry magnitudes within [1e-140, 1e140] so that the squares in (H^2 - sH + tI)e1 are representable',
                     'n >= 2 (n >= 3 for DoubleShiftQR)']
    if replay:
        exe, log = build_harness('c08')
        out = os.path.join(R.work, 'replay'); rc, hlog = run_harness(exe, out, seed, tier, ['--replay', replay])
        R.failures += load_oracle(os.path.join(out, 'oracle.jsonl'))
        return R.finish()
    standard_prove(R, 'C08', ['Givens', 'Refl'])
    r = standard_corr(R, 'c08', 'qr-helpers')
    if R.broken and not R.failures and tier == 'quick':
        R.notes.append('obligation broken: extended search at thorough budget')
        standard_corr(R, 'c08', 'qr-helpers-search', tier='thorough')
    if r:
        R.cov['distinct_nontrivial'] = distinct_count(os.path.join(r['out'], 'requests.txt'))
        R.cov['rule'] = ('scalar kernels: 30 000 (200 000 thorough) double and 15 000 (100 000) float (x, y) pairs over {random, 600 decades, ratio at the series cutoff, series branch, small integers, |x| = |y|, '
                         'subnormals, 1e300} + 3-vector kernels; per class (hqr, tqr, dsqr) 1 200 (4 000 thorough) double matrices with bit-exact model comparison, plus 600 (2 000) float matrices with bit-exact comparison against the Float32 instance of the same model and 300 (1 000) long double matrices (oracle only), n in 2..30 (..100 thorough), patterns {random, integer with exact zeros, '
                         'graded over 16 decades, deflated (exact zeros / negligible / at the deflation threshold), extreme magnitudes and subnormals, exact-eigenvalue shifts computed by the harness} '
                         'x shifts {0, random, diagonal entry, eigenvalue, other} + fixed exactly-singular cases; entries the classes must ignore are filled with garbage in 40% of the cases; '
                         'branch tags and the largest error/tolerance ratio per predicate are in harness_counters')
        R.cov['exhaustive'] = False
    return R.finish()
