from vlib.core import *

META = dict(
    level_text="Proved for all sizes and all inputs, with every floating comparison an arbitrary boolean (any `Sc` instance): the models of TridiagEigen::compute and UpperHessenbergSchur::compute return normally only when the loop's own exit condition holds (tridiagonal: every sub-diagonal entry tests == 0 in the final state; Schur: iu < 0 reached), return `throw` exactly when the iteration cap stopped the loop (iter > 30n / total_iter > 40n), on normal exit of the Schur model the returned T has no two consecutive non-zero sub-diagonal entries (loop invariant + write footprint of every reflector/rotation, c09_schur_exit) and, for an upper Hessenberg input, is quasi-upper-triangular with every entry below the sub-diagonal exactly 0 (c09_schur_quasi_triangular), UpperHessenbergEigen adds no other non-normal exit, and the models' recursion budgets are never exhausted (c09_trideig_exit, c09_iteration_cap, c09_trideig_fuel, c09_schur_iteration_cap, c09_hesseig_throw_iff). Over any ordered field (eps > 0, sqrt arbitrary): walking the block structure of T, eigenvalue extraction emits (T(i,i), 0) for every 1x1 block and, for every 2x2 block left unsplit (T(i+1,i) != 0), (x, z), (x, -z) with z STRICTLY positive; the sign of the emitted imaginary part is the row kind, the back-substitution takes the complex branch for exactly the unsplit blocks, scaling back keeps exact conjugacy, the exact zero and positivity, also for the composed compute including the zero matrix, which returns eigenvalues 0 and the identity without any division (c09_conj_exact, c09_conj_blocks, c09_conj_unsplit_pos, c09_conj_kinds, c09_backsub_branch, c09_conj_scale, c09_conj_compute, c09_hesseig_zero); the model's port of libgcc __divdc3 is complex division in every scaling branch and normalize() yields squared norm exactly 1 (c09_cdiv_spec, c09_eigvec_unit); the Wilkinson shift equals b - e^2/(td + sign(td) hypot(td,e)) in both guarded branches (c09_wilkinson_shift), and the hand model's shift prologue is definitionally the function regenerated from TridiagEigen.h on every run (c09_wilkinson_gen). Whole-run exact-arithmetic statement: with an exact square root makeGivens returns c^2+s^2=1 and the eigenvector matrix returned by the TridiagEigen model has orthonormal columns, Z'Z = I, for all n, all inputs and all comparison outcomes (c09_givens_unit, c09_trideig_orth); likewise makeHouseholder returns an orthogonal reflector and the U returned by the UpperHessenbergSchur model has orthonormal columns (c09_householder_ideal, c09_schur_orth). Ring identities, array level: one Givens step stores exactly the entries of G'TG (incl. bulge) and Q.applyOnTheRight is QG entrywise (c09_trideig_step, c09_trideig_step_GtTG, c09_trideig_step_Q); a rotation with c^2+s^2=1 preserves Q'Q = I (c09_rot_orth); apply_householder_left/right compute PX / XP for P = I - tau v v' and touch nothing else (c09_householder_apply_left, c09_householder_apply_right, c09_householder_kernel). NOT proved (rounding / convergence): the backward-stability bounds T Z = Z D, Z'Z = I, U T U' = H, ||Hx - lambda x|| <= C n eps norm, and convergence within the iteration limit; they are covered only by the long-double oracle on the real classes.",
    note="Lean kernel + standard axioms; hand models validated bit-exactly against the real classes; Eigen makeGivens/hypot/makeHouseholder and libgcc __divdc3 re-implemented; IEEE order/negation facts for double",
    technique="Lean 4 proof (loop invariants with comparisons as oracles, ring identities) on executable hand models + bit-exact differential correspondence + long-double residual oracle",
    design="§5 C09", harnesses=['c09'])

def run(tier, seed, replay=None):
    R = Run('C09', tier, seed)
    R.trusted = TRUSTED_COMMON + [
        'hand-written models Model/TridiagEigen.lean, Model/HessSchur.lean, Model/HessEigen.lean: validated by bit-exact correspondence on the sampled inputs only',
        'Eigen 3.4.0 JacobiRotation::makeGivens, apply_rotation_in_the_plane, numext::hypot, makeHouseholder and libgcc __divdc3 (GCC 12) are re-implemented in the model from their sources, not verified',
        'IEEE-754: negation is exact, x*s for s>0 keeps sign, < on non-NaN doubles is a strict total order (carries c09_conj_exact / c09_conj_scale from the field instance to double)',
        'float and long double are covered by the implementation-level oracle and by the scalar-generic theorems only, never by model-vs-code comparison']
    R.assumptions = ['inputs finite, no NaN; n >= 2; |entries|^2 neither overflow nor underflow',
                     'oracle constants: residuals <= 200*n*eps*||A||_F, orthogonality <= 100*n*eps, unit norm within 50*n*eps, evaluated in long double']
    if replay:
        exe, log = build_harness('c09')
        out = os.path.join(R.work, 'replay'); rc, hlog = run_harness(exe, out, seed, tier, ['--replay', replay])
        R.failures += load_oracle(os.path.join(out, 'oracle.jsonl'))
        return R.finish()
    standard_prove(R, 'C09', ['Wilk'])
    r = standard_corr(R, 'c09', 'trideig+schur+hesseig+cdiv')
    if R.broken and not R.failures and tier == 'quick':
        R.notes.append('obligation broken: extended search at thorough budget')
        standard_corr(R, 'c09', 'search', tier='thorough')
    if r:
        R.cov['distinct_nontrivial'] = distinct_count(os.path.join(r['out'], 'requests.txt'))
        R.cov['rule'] = ('fixed case counts per tier; tridiagonal patterns {random, integer, graded over 16 decades, exact zero sub-diagonals, repeated, Toeplitz, Wilkinson, zero, 1e+150, 1e-150, glued, constant diagonal, tiny sub-diagonals}; '
                         'Hessenberg patterns {random, integer, graded, zero sub-diagonals, triangular with repeated diagonal, companion, companion of (x-r)^n (defective), Jordan, zero, 1e+150, 1e-150, cyclic shift (exceptional shifts), orthogonal, repeated 2x2 blocks, symmetric tridiagonal, identity, tiny sub-diagonals, perturbed Jordan, near-defective leading 2x2 block (b*c = -p^2 up to 3 ulp; dedicated stream + 3 fixed witnesses of the repaired F20)}; '
                         'sizes 2..20 (quick) / 2..64 (thorough); double compared bit-for-bit with the model; float, double, long double through the long-double oracle')
        R.cov['exhaustive'] = False
    return R.finish()
