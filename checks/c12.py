from vlib.core import *

META = dict(
    level_text="Proved for all integers n, nev, ncv: each solver family's constructor guard accepts exactly the documented range and every rejection is std::invalid_argument (c12_herm_iff for both HermEigsBase overloads, c12_gen_iff, c12_jd_iff, c12_svd_iff), the stored ncv equals the argument when accepted (c12_*_ncv), buckling/Cayley reject exactly sigma = 0 (c12_sigma, any ordered field), the accepted selection/sorting rule sets are the documented ones (c12_rules), every matrix-operation wrapper of MatOp/ accepts exactly its documented shapes for all integer rows/cols and rejects the rest with invalid_argument (c12_wrap_<Class> for the 13 square-only wrappers and the 2 general products, c12_wrap_SymShiftInvert: accepted iff A.rows = A.cols = B.rows = B.cols, with size() translated as rows*cols), the general family additionally rejects a non-square operator whatever (nev, ncv) are (c12_gen_iff with the operator's column count, c12_gen_nonsquare_rejected; finding F23, repaired in /repo), a generalized solver on two operators of sizes a, b is accepted in every GEigsMode iff a = b and (nev, ncv) is in the symmetric range for that common size, every other combination throwing invalid_argument (c12_geigs_adapter, c12_geigs_iff, c12_geigs_mismatch_rejected: the full statement since the repair of finding F22; c12_geigs_iff_partial is the equal-size corollary), and no constructor in namespace Spectra holds a raw `new` result across a later throwing action, so a rejected constructor leaks nothing under the C++ unwinding model (c12_ctor_unwind, c12_no_raw_no_leak, c12_no_leak). All guard functions (solver constructors, every MatOp wrapper constructor, the SymGEigs*Op adapters and their rows()) and the raw-new footprint are regenerated from the headers on every run. The tie to the running code is the exhaustive sweep the property names: every solver class x n in 1..12 x (nev,ncv) in [-2,n+3]^2, every wrapper constructor x every shape rows, cols in 0..5 (SymShiftInvert: the shapes of A and B independently, all four dense/sparse pairings) x Uplo/storage-order/scalar variants, generalized solvers x every pair of operator sizes 1..6 x every mode, general solvers over non-square operators, sigma = 0, zero start vector, all nine rules, with a live-heap-block counter.",
    note="Lean kernel + standard axioms; translator; the C++ object-lifetime rule for a throwing constructor is modelled (leakedAt), not verified; global operator new/delete counters see only allocations made through operator new (Eigen's aligned_malloc is handmade_aligned_malloc->malloc and is checked by matching frees only in the ASan builds of other properties)",
    technique="Lean 4 proof (omega, decide) on source-translated guards + exhaustive enumeration on the implementation",
    design="§5 C12", harnesses=[{'name': 'c12', 'sanitize': False, 'opt': '-O0'}])

def run(tier, seed, replay=None):
    R = Run('C12', tier, seed)
    R.trusted = TRUSTED_COMMON + ['C++ rule: when a constructor throws, fully constructed members are destroyed and the class destructor does not run (modelled by leakedAt)']
    if replay:
        exe, log = build_harness('c12', sanitize=False, opt='-O0')
        out = os.path.join(R.work, 'replay'); rc, hlog = run_harness(exe, out, seed, tier, ['--replay', replay])
        R.failures += load_oracle(os.path.join(out, 'oracle.jsonl'))
        return R.finish()
    standard_prove(R, 'C12', ['Guard', 'Sort', 'MatOpGuard'])
    r = standard_corr(R, 'c12', 'guards', sanitize=False, opt='-O0')
    if r:
        R.cov['distinct_nontrivial'] = distinct_count(os.path.join(r['out'], 'requests.txt'))
        R.cov['rule'] = 'exhaustive enumeration exactly as the property quantifies (the same in both tiers): 14 solver configurations x n in 1..12 x (nev,ncv) in [-2,n+3]^2 (+ 3 matrix shapes for the SVD), 41 single-matrix wrapper instantiations (15 classes) x 36 shapes (rows, cols in 0..5) + 8 SymShiftInvert instantiations (4 dense/sparse pairings) x 1296 shape pairs (A and B independent), 5 generalized-solver modes x 36 operator-size pairs (1..6)^2 x (nev,ncv) in [0,max+1]^2, GenEigsSolver over dense/sparse non-square operators (30 shapes), 5 sigma values x 3 modes, zero/tiny start vectors, 9 rules x {selection, sorting} x {Sym, Gen}; model requests: herm/gen/jd guard, sigma guard, wrapper guard (wrap1/wrap2) and generalized-solver guard (geigs_ctor) for every enumerated argument tuple'
        R.cov['exhaustive'] = True
        R.cov['evaluations'] = sum(v for k, v in r['stats'].get('counters', {}).items())
    return R.finish()
