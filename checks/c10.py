from vlib.core import *

META = dict(
    level_text="Proved in Lean for all n, every input, every scalar type with every Sc instance (comparisons are arbitrary functions, so every pivot-decision sequence is covered): every access of the model of BKLDLT::compute and solve_inplace to the packed array, m_perm and the right-hand side is in range, the running dest pointer of copy_data addresses coeff(i,j), offsets j*n-j(j-1)/2+(i-j) lie in [0,n(n+1)/2) and are injective (c10_index_safe, c10_index_safe_compute, c10_offset_in_range, c10_offset_injective); m_perm after compute is a tiling by 1x1/2x2 blocks with entries decoding into [0,n) (c10_perm_blocks, c10_permc_in_range) and the last permutation pass of solve_inplace undoes the first (c10_perm_inverse); the translated solve_inplace_2x2 / inverse_inplace_2x2 and the model's solve_left_2x2 solve E x = b / x E = c resp. give E^-1 over any field in both pivoting branches (c10_solve2, c10_solve2_ordered, c10_solve_left2, c10_inv2); status: translated singularity tests give NumericalIssue exactly on a zero 1x1 pivot / zero 2x2 determinant, compute's status statements make info() Successful or NumericalIssue for every n incl. 1, the loop stops at the first failure, both wrappers throw invalid_argument iff info != Successful (c10_status_ge1/ge2/compute/n1/loop/total, c10_wrapper_throws); the packed copy (whole state) from Upper equals the one from Lower for symmetric input in both storage orders, hence compute agrees (c10_uplo_equal, c10_uplo_equal_compute); entry-by-entry semantics of the model's 1x1 and 2x2 elimination steps, of pivoting_1x1 / pivoting_2x2 (symmetric interchange of the trailing block) and interchange_rows by read-over-write reasoning on the packed array (c10_elim1_model, c10_elim2_model, c10_pivot_sym, c10_pivot2_sym, c10_interchange_rows) plus the Schur-complement field identities (c10_elim1, c10_elim2). TIER 3 (real model, exact arithmetic over any linearly ordered field, every n, every input, every pivot-decision sequence incl. 2x2 pivots and all interchanges, by induction over the pivot loop): if compute reports Successful then P(A-sI)P^T = L D L^T entrywise and as a Mathlib matrix equation over Fin n, with L unit lower triangular (block-unit for 2x2 pivots), D block diagonal with the stored 1x1 / symmetric 2x2 blocks, all D blocks nonsingular, P the bijection given by the compressed permutation, A-sI tied to the input triangle selected by uplo (c10_factor_partial, c10_factor_matrix_partial, c10_LD_structure, c10_shiftedSym); and the five phases of solve_inplace compose to a solution of (A-sI)x = b (c10_solve_correct_partial). COMPLEX HERMITIAN instantiation: executable model Model/BKLDLTC.lean (std::complex as pairs over the real scalar class, g++ complex multiplication formula, libgcc __divdc3 division, hypot abs; copy_data in all four Uplo x storage-order branches with the conj of the Upper path, conjugating interchanges, both eliminations, solve with the conjugating dot), bit-exact against BKLDLT<std::complex<double>>; for it: index safety of compute and solve_inplace, m_perm block structure, status totality for every real scalar type and Sc instance (c10_index_safe_compute_complex, c10_index_safe_complex, c10_perm_blocks_complex, c10_status_loop_complex, c10_status_total_complex), Lower == Upper of the packed copy for Hermitian input in both storage orders with the TRANSLATED ScalarOp<complex>::conj (c10_uplo_equal_complex, c10_uplo_equal_compute_complex, c10_scalarop_complex), and the TRANSLATED branch condition of copy_data takes the unconjugated std::copy path for column-major + Lower only (c10_copy_fast_path). NOT proved: the floating-point residual bound c*n*eps(...) (needs the Bunch-Kaufman growth analysis; checked with c = 100 in long double); tier 3 and the per-step Schur identities for the complex model; uniqueness of the solution is not stated separately (it follows from L unit triangular and D nonsingular).",
    note="Lean kernel + propext/Classical.choice/Quot.sound; translator xlate + clang-14 AST for Gen.BK; hand models Model/BKLDLT.lean (real) and Model/BKLDLTC.lean (complex Hermitian) tied to the code by bit-exact correspondence on sampled inputs only; g++ 12 -O1 evaluation of std::complex * and / (naive product formula resp. libgcc __divdc3, re-implemented as HessEigen.cdiv; the NaN-recovery paths of __muldc3/__divdc3 are not modelled); Eigen element-wise expression semantics and sequential dot under EIGEN_DONT_VECTORIZE",
    technique="Lean 4 proof (invariants over folds / fuel recursion, field identities) on source-translated kernels + hand model; bit-exact differential correspondence; long double oracle on double/float/complex<double>",
    design="§5 C10", harnesses=['c10'])

def run(tier, seed, replay=None):
    R = Run('C10', tier, seed)
    R.trusted = TRUSTED_COMMON + [
        'hand models Model/BKLDLT.lean (real) and Model/BKLDLTC.lean (complex Hermitian): storage, copy_data, pivot search and selection, eliminations, solve loops correspond to BKLDLT.h only as far as the sampled bit-exact comparison shows',
        'Eigen 3.4.0: `dst -= s*v`, `v /= s`, `(a - s*b).array()/d` are evaluated element-wise with true division; `dot` is a left-to-right sum under EIGEN_DONT_VECTORIZE',
        'std::complex<double> arithmetic as compiled by g++ 12 at -O1 -ffp-contract=off: a*b = (ar*br - ai*bi, ar*bi + ai*br), a/b = libgcc __divdc3 (finite path), abs = hypot; tier-3 theorems are exact-arithmetic statements about the real model']
    R.assumptions = ['input entries finite; the residual clause is checked, not proved (rounding is not modelled)']
    if replay:
        exe, log = build_harness('c10')
        if exe is None:
            R.oblige('harness-build:c10', False, log); return R.finish()
        out = os.path.join(R.work, 'replay'); rc, hlog = run_harness(exe, out, seed, tier, ['--replay', replay])
        R.failures += load_oracle(os.path.join(out, 'oracle.jsonl'))
        if rc != 0: R.failures.append({'sig': 'harness-abort', 'what': 'replay aborted: ' + hlog[-400:], 'replay': {'file': replay}})
        if os.path.exists(drv_path('C10')) and os.path.exists(os.path.join(out, 'requests.txt')):
            run_driver(os.path.join(out, 'requests.txt'), os.path.join(out, 'model.txt'), 'C10')
            cmp = compare_streams(os.path.join(out, 'requests.txt'), os.path.join(out, 'impl.txt'), os.path.join(out, 'model.txt'))
            R.oblige('corr:bkldlt', not cmp['hard'], str(cmp['hard'][:1])[:600])
        return R.finish()
    standard_prove(R, 'C10', ['BK'])
    r = standard_corr(R, 'c10', 'bkldlt', timeout=3400)
    if R.broken and not R.failures and tier == 'quick':
        # DESIGN §6 b: an obligation is broken but no input failed yet: search with the large case budget
        R.notes.append('obligation broken without a failing input in the quick sample: extended search (thorough case budget, sizes up to 80) run')
        standard_corr(R, 'c10', 'bkldlt-search', timeout=3400, tier='thorough')
    if r:
        R.cov['distinct_nontrivial'] = distinct_count(os.path.join(r['out'], 'requests.txt'))
        R.cov['rule'] = ('cases idx = 0..N-1 (N = 1500 quick / 12000 thorough), kind = idx mod 10 in {SPD, indefinite, zero diagonal, block diagonal (+[0 a;a 0] blocks, permuted), graded over 16 decades, '
                         'small integers, exactly singular pivot blocks (exact arithmetic), shift equal/adjacent to a diagonal entry, tridiagonal with tiny diagonal (2x2 pivots), fixed corpus}; '
                         'n in 1..20 (quick) / 1..80 (thorough), small-biased; every case runs Lower/Upper x ColMajor/RowMajor x (unused triangle NaN) on double, float, complex<double>; '
                         'one configuration per case is sent to the models at double, float and complex<double> (Hermitian data with skew imaginary part; bit-exact compare of info, m_perm, packed data, solution); branch tags = pivot outcomes read from m_perm')
        R.cov['exhaustive'] = False
    return R.finish()
