#!/bin/bash
# usage: tools/try_seed.sh <PROP> <patch.diff> [tier]  -> runs the check of PROP against a scratch copy of /repo with the patch applied,
# from an isolated copy of /verif (so the shared tree and /repo are not disturbed while other work is going on).  Prints the verdict lines.
p="$1"; patch="$2"; tier="${3:-quick}"; tag="$(basename $(dirname "$patch"))_$(basename "$patch" .diff)"
d="/tmp/try_${p}_${tag}"; rm -rf "$d"; mkdir -p "$d"
git -C /repo worktree add -q "$d/repo" HEAD || exit 2
( cd "$d/repo" && git apply "$patch" ) || { echo "TRY $p $tag: patch does not apply"; git -C /repo worktree remove --force "$d/repo"; exit 2; }
rsync -a --exclude .git --exclude build/run --exclude build/replay /verif/ "$d/verif/"
( cd "$d/verif" && VERIF_REPO="$d/repo" timeout 3000 python3 check.py "$p" --tier "$tier" > "$d/out.log" 2>&1 ); rc=$?
echo "TRY $p $tag tier=$tier exit=$rc"; grep -E "^(VIOLATION|KNOWN-FINDING|OK |  broken:)" "$d/out.log" | cut -c1-400 | head -8
rp=$(grep -oE "replay=[^ ]+" "$d/out.log" | head -1 | cut -d= -f2); [ -n "$rp" ] && [ -f "$rp" ] && head -c 1500 "$rp"
git -C /repo worktree remove --force "$d/repo"; rm -rf "$d"
