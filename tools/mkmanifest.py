#!/usr/bin/env python3
"""Build MANIFEST.json from the META dict of every checks/cXX.py (so that adding a check never edits a shared file)."""
import json, os, sys, glob, importlib, subprocess
HERE = os.path.dirname(os.path.abspath(__file__)); VERIF = os.path.dirname(HERE)
sys.path.insert(0, VERIF)

def main():
    props = [json.loads(l) for l in open(os.path.join(VERIF, 'properties.jsonl'))]
    hook_commits = []
    try:
        out = subprocess.run(['git', '-C', '/repo', 'log', '--format=%H %s'], stdout=subprocess.PIPE, text=True).stdout
        hook_commits = [l.split()[0] for l in out.splitlines() if 'verif hook' in l.lower()]
    except Exception: pass
    man = {
        "version": 1,
        "setup_cmd": "python3 /verif/setup.py",
        "hooks": {"guard": "SPECTRA_VERIF", "enable": "-DSPECTRA_VERIF on the harness compile line (header-only library: nothing else is rebuilt)",
                  "baseline_off_cmd": "cmake --build /repo/_build && ctest --test-dir /repo/_build -j8 --timeout 900",
                  "source_commits": hook_commits, "add_only": True},
        "engines": [{"name": "lean-proof", "path": "/verif/lean", "serves_properties": [],
                     "kind_free_text": "Lean 4 theorems about definitions regenerated from /repo by /verif/xlate (clang AST -> Lean) and about hand-written executable models tied to the code by a differential correspondence check (compiled Lean driver vs C++ harness built from /repo's working tree)"}],
        "checks": [], "x_harnesses": [], "notes": "see DESIGN.md; check.py <id> --tier quick|thorough [--replay file]", "not_applicable": []}
    # only checks the integrator has run and accepted are claimed (checks/claimed.txt, one property id per line)
    try: claimed = set(open(os.path.join(VERIF, 'checks', 'claimed.txt')).read().split())
    except Exception: claimed = set()
    for p in props:
        i = p['id']; f = os.path.join(VERIF, 'checks', i.lower() + '.py')
        meta = None
        if os.path.exists(f) and i in claimed:
            mod = importlib.import_module('checks.' + i.lower()); meta = getattr(mod, 'META', None)
        if meta and meta.get('claimed', True):
            man['engines'][0]['serves_properties'].append(i)
            man['checks'].append({"property_id": i, "quick_cmd": f"python3 check.py {i} --tier quick", "thorough_cmd": f"python3 check.py {i} --tier thorough",
                                  "evidence_file": f"/verif/evidence/{i}.json", "replay_cmd_template": f"python3 check.py {i} --replay {{path}}", "engine": "lean-proof",
                                  "level_claimed": {"category": meta.get('category', 'proof'), "text": meta['level_text'], "design_ref": meta.get('design', '§5 ' + i)},
                                  "level_note": meta['note'], "technique": meta.get('technique', 'Lean 4 proof + differential correspondence')})
            for h in meta.get('harnesses', []):
                h = h if isinstance(h, dict) else {'name': h}
                if h not in man['x_harnesses']: man['x_harnesses'].append(h)
        else:
            man['not_applicable'].append({"property_id": i, "reason": (meta or {}).get('na_reason', "check not yet built in this revision (planned, see DESIGN.md §5/§9); not a statement that the technique cannot apply")})
    json.dump(man, open(os.path.join(VERIF, 'MANIFEST.json'), 'w'), indent=1)
    print('claimed:', [c['property_id'] for c in man['checks']])

if __name__ == '__main__':
    main()
