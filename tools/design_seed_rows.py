#!/usr/bin/env python3
"""append a row to the seeded-changes table at the end of DESIGN.md for every /verif/seeded/<name> not mentioned there yet"""
import json, glob, os
V = os.path.dirname(os.path.dirname(os.path.abspath(__file__)))
p = os.path.join(V, 'DESIGN.md'); s = open(p).read()
def cl(x, k):
    x = ' '.join(str(x).split()).replace('|', '/')
    return x if len(x) <= k else x[:k - 1] + '…'
rows = []
for d in sorted(glob.glob(os.path.join(V, 'seeded', '*'))):
    n = os.path.basename(d)
    if n in s or not os.path.exists(d + '/meta.json'): continue
    m = json.load(open(d + '/meta.json'))
    rows.append(f"| {n} | {cl(m['summary'], 230)} | {cl(m.get('needs_to_manifest', ''), 170)} | {cl(m['detected_by'], 330)} |")
if rows:
    open(p, 'w').write(s.rstrip('\n') + '\n' + '\n'.join(rows) + '\n')
print('appended', len(rows))
