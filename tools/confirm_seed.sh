#!/bin/bash
# usage: tools/confirm_seed.sh <out_dir_with patchN.diff demoN.cpp> <N> <scratch_worktree_path>
# Confirms a seeded change independently: applies it in a fresh scratch worktree of /repo, runs the pinned suite, builds and runs
# the demonstration with and without the change.  Prints one summary line and removes the worktree.
o="$1"; n="$2"; wt="$3"
git -C /repo worktree add -q "$wt" HEAD || exit 2
g++ -std=c++17 -O1 $CONFIRM_FLAGS -I"$wt/include" -I/usr/include/eigen3 "$o/demo$n.cpp" -o "$wt/demo_clean" 2> "$wt/demo_clean.log"; ( cd "$wt" && timeout 600 ./demo_clean > demo_clean.out 2>&1 ); rc_clean=$?
( cd "$wt" && git apply "$o/patch$n.diff" ) || { echo "CONFIRM $o patch$n: does-not-apply"; git -C /repo worktree remove --force "$wt"; exit 1; }
g++ -std=c++17 -O1 $CONFIRM_FLAGS -I"$wt/include" -I/usr/include/eigen3 "$o/demo$n.cpp" -o "$wt/demo_mut" 2> "$wt/demo_mut.log"; ( cd "$wt" && timeout 600 ./demo_mut > demo_mut.out 2>&1 ); rc_mut=$?
s=$(/verif/tools/suite.sh "$wt" 6 | tail -1)
echo "CONFIRM $o patch$n: demo_clean_rc=$rc_clean demo_mutated_rc=$rc_mut suite_with_change='$s'"
git -C /repo worktree remove --force "$wt"
