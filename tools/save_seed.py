#!/usr/bin/env python3
"""usage: tools/save_seed.py <outdir> <n> <name> <property> <detected_by text>   -> /verif/seeded/<name>/{patch.diff,demo.cpp,meta.json}"""
import sys, os, json, shutil
out, n, name, prop, det = sys.argv[1:6]
d = os.path.join(os.path.dirname(os.path.dirname(os.path.abspath(__file__))), 'seeded', name)
os.makedirs(d, exist_ok=True)
shutil.copy(f'{out}/patch{n}.diff', f'{d}/patch.diff'); shutil.copy(f'{out}/demo{n}.cpp', f'{d}/demo.cpp')
m = json.load(open(f'{out}/meta{n}.json'))
meta = {"property": prop, "summary": m.get('summary', ''), "needs_to_manifest": m.get('needs', m.get('needs_to_manifest', '')),
        "origin": "written by an independent sub-agent that saw only the property text and its own scratch worktree of /repo (nothing from /verif)",
        "confirmed_by_integrator": "tools/confirm_seed.sh: fresh worktree of /repo HEAD, patch applied, demo exit 0 without / non-zero with the change, pinned suite with the change: SUITE passed=28 failed=0; tools/try_seed.sh (isolated copy of /verif, VERIF_REPO = patched worktree): exit 1 VIOLATION",
        "detected_by": det}
json.dump(meta, open(f'{d}/meta.json', 'w'), indent=1)
print('saved', d)
