#!/usr/bin/env python3-vt
"""validate MANIFEST.json and the evidence files of the CLAIMED properties against the schemas"""
import json, jsonschema, glob, sys, os
man = json.load(open('/verif/MANIFEST.json'))
jsonschema.validate(man, json.load(open('/root/.vp/MANIFEST.schema.json')))
es = json.load(open('/root/.vp/EVIDENCE.schema.json'))
n = 0
for c in man['checks']:
    f = c['evidence_file']
    if not os.path.exists(f): print('missing evidence', f); sys.exit(1)
    jsonschema.validate(json.load(open(f)), es); n += 1
print('manifest + %d evidence files valid' % n)
