#!/bin/bash
# usage: tools/suite.sh <dir of a spectra checkout/worktree> [jobs]   -> builds the pinned test suite there and runs it.
# prints "SUITE passed=<n> failed=<m>" ; exit 0 iff no test failed.  Build output goes to <dir>/_build (remove it with the worktree).
d="$1"; j="${2:-6}"
cd "$d" || exit 2
cmake -G Ninja -B _build -DCMAKE_BUILD_TYPE=RelWithDebInfo -DBUILD_TESTS=ON -DCMAKE_CXX_FLAGS=-Wno-error > _build_cfg.log 2>&1 || { echo "SUITE configure-failed"; tail -5 _build_cfg.log; exit 2; }
cmake --build _build -j "$j" > _build.log 2>&1 || { echo "SUITE build-failed"; grep -m5 -E "error" _build.log; exit 2; }
ctest --test-dir _build -j "$j" --timeout 900 > _ctest.log 2>&1
p=$(grep -c "Passed" _ctest.log); f=$(grep -cE "\*\*\*Failed|\*\*\*Timeout|\*\*\*Exception|Not Run" _ctest.log)
tail -3 _ctest.log
echo "SUITE passed=$p failed=$f"
[ "$f" = "0" ] && grep -q "100% tests passed" _ctest.log
