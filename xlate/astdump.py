#!/usr/bin/env python3
"""Dump the clang-14 JSON AST of every declaration in namespace Spectra (one clang run, ~2 s)
and give access to it.  Used by xlate.py and by the footprint extractor."""
import json, os, subprocess, hashlib, glob, sys

REPO = os.environ.get("VERIF_REPO", "/repo")
INC = os.path.join(REPO, "include")

def tree_hash():
    h = hashlib.sha256()
    for p in sorted(glob.glob(os.path.join(INC, "Spectra", "**", "*.h"), recursive=True)):
        h.update(p.encode()); h.update(open(p, "rb").read())
    return h.hexdigest()

def all_headers():
    return sorted(os.path.relpath(p, INC) for p in glob.glob(os.path.join(INC, "Spectra", "**", "*.h"), recursive=True))

def dump(workdir):
    """returns list of top-level decl objects (dicts)"""
    os.makedirs(workdir, exist_ok=True)
    th = tree_hash()
    cache = os.path.join(workdir, "ast_%s.json" % th[:16])
    if not os.path.exists(cache):
        for old in glob.glob(os.path.join(workdir, "ast_*.json")):
            os.remove(old)
        tu = os.path.join(workdir, "tu_all.cpp")
        with open(tu, "w") as f:
            for h in all_headers():
                f.write('#include <%s>\n' % h)
        cmd = ["clang++-14", "-std=gnu++17", "-fsyntax-only", "-I" + INC, "-I/usr/include/eigen3",
               "-Xclang", "-ast-dump=json", "-Xclang", "-ast-dump-filter=Spectra::", tu]
        with open(cache + ".tmp", "w") as out:
            r = subprocess.run(cmd, stdout=out, stderr=subprocess.PIPE, text=True)
        if r.returncode != 0:
            raise RuntimeError("clang failed:\n" + r.stderr[-4000:])
        os.replace(cache + ".tmp", cache)
    s = open(cache).read()
    dec = json.JSONDecoder(); i = 0; objs = []
    n = len(s)
    while i < n:
        while i < n and s[i].isspace(): i += 1
        if i >= n: break
        o, j = dec.raw_decode(s, i); objs.append(o); i = j
    return objs

def show(n, d=0, out=sys.stdout, maxd=99):
    k = n.get('kind'); extra = ''
    for key in ('name', 'opcode', 'value', 'castKind', 'isPostfix', 'member', 'isArrow', 'storageClass', 'mutable', 'constexpr'):
        if key in n: extra += f' {key}={n[key]}'
    t = n.get('type', {}).get('qualType')
    if t: extra += f' :{t}'
    if 'referencedDecl' in n:
        extra += ' ->' + n['referencedDecl'].get('name', '?') + '#' + n['referencedDecl'].get('kind', '')
    if 'referencedMemberDecl' in n: extra += ' refmem=' + str(n['referencedMemberDecl'])
    if 'lookups' in n: extra += ' lookups=' + ','.join(l.get('name','?') for l in n['lookups'])
    out.write('  ' * d + str(k) + extra + '\n')
    if d < maxd:
        for c in n.get('inner', []): show(c, d + 1, out, maxd)

def find(objs, path):
    """path like 'HermEigsBase::nev_adjusted' or 'next_long_rand'; returns list of matching decl nodes"""
    parts = path.split('::')
    res = []
    def rec(node, idx):
        for c in node.get('inner', []):
            if c.get('name') == parts[idx] and c.get('kind','').endswith('Decl'):
                if idx == len(parts) - 1: res.append(c)
                else: rec(c, idx + 1)
            elif c.get('kind') in ('ClassTemplateDecl','FunctionTemplateDecl') and c.get('name') == parts[idx]:
                pass
            # look through template wrappers
            if c.get('kind') in ('CXXRecordDecl',) and c.get('name') == parts[idx-1] and idx>0:
                pass
    for o in objs:
        if o.get('name') == parts[0]:
            if len(parts) == 1:
                if o.get('kind') == 'FunctionTemplateDecl':
                    res += [x for x in o.get('inner', []) if x.get('kind') == 'FunctionDecl'][:1]
                else: res.append(o)
            else:
                # descend: ClassTemplateDecl -> CXXRecordDecl(name same)
                stack = [o]
                if o.get('kind') == 'ClassTemplateDecl':
                    stack = [c for c in o.get('inner', []) if c.get('kind') == 'CXXRecordDecl' and c.get('name') == parts[0]][:1]
                for rec_ in stack:
                    cur = [rec_]
                    for p in parts[1:]:
                        nxt = []
                        for nd in cur:
                            for c in nd.get('inner', []):
                                if c.get('kind') == 'CXXConstructorDecl' and p == nd.get('name'):
                                    nxt.append(c)
                                elif c.get('kind') == 'FunctionTemplateDecl' and p == nd.get('name') and any(x.get('kind') == 'CXXConstructorDecl' for x in c.get('inner', [])):
                                    nxt += [x for x in c.get('inner', []) if x.get('kind') == 'CXXConstructorDecl'][:1]
                                elif c.get('name') == p:
                                    if c.get('kind') == 'FunctionTemplateDecl':
                                        nxt += [x for x in c.get('inner', []) if x.get('kind') in ('CXXMethodDecl','FunctionDecl')][:1]
                                    elif c.get('kind') == 'ClassTemplateDecl':
                                        nxt += [x for x in c.get('inner', []) if x.get('kind') == 'CXXRecordDecl'][:1]
                                    else:
                                        nxt.append(c)
                        cur = nxt
                    res += cur
    return res

if __name__ == '__main__':
    objs = dump(sys.argv[1] if len(sys.argv) > 2 else '/tmp/x/astcache')
    for nd in find(objs, sys.argv[-1]):
        show(nd)
        print('-----')
