"""C09: the Wilkinson-shift scalar prologue of TridiagEigen<Scalar>::tridiagonal_qr_step, translated from the header on every run.

  Gen.Wilk.wilkinson_mu   <- the first statements of tridiagonal_qr_step up to and including the guarded `mu -= ...` chain
                             (value of `mu` when the Givens loop is entered), with `diag`/`subdiag` as index functions.

`Eigen::numext::abs2(e)` is `e * e`; `Eigen::numext::hypot` is Eigen's `positive_real_hypot`, re-implemented (not translated:
third-party code) as `EigenPrims.hypot` in Model/TridiagEigen.lean.  The rest of tridiagonal_qr_step (raw-pointer updates,
`Eigen::Map`, Jacobi rotations) is outside the translator subset and is hand-modelled in Model/TridiagEigen.lean; the theorem
`C09.c09_wilkinson_gen` states that the hand model's `wilkinsonMu` IS this generated function, so an edit of the C++ prologue
breaks a proof obligation (not only the correspondence).
"""
from targets import T, first_n
from xlate import XlateError

def prologue(fn, ss):
    """statements up to and including the first IfStmt (the guarded shift chain)"""
    out = []
    for s in ss:
        out.append(s)
        if s['kind'] == 'IfStmt': return out
    raise XlateError('tridiagonal_qr_step: no if-chain found in the prologue')

CFG = dict(mode='state', state_out=['mu'], slice=prologue,
           params={'diag': 'arr_sc', 'subdiag': 'arr_sc', 'start': 'int', 'end': 'int', 'n': 'int'},
           ignore_params=['matrixQ'], locals={'td': 'sc', 'e': 'sc', 'mu': 'sc', 'e2': 'sc', 'h': 'sc'},
           calls={'abs2': {'lean': '(fun x => x * x)', 'kind': 'sc'}, 'hypot': {'lean': 'EigenPrims.hypot', 'kind': 'sc'}},
           ret_type='α')

def wilkinson_mu(tu, t):
    """`end` is a Lean keyword: the C++ parameter `end` is renamed to `end_` in the generated text"""
    import re
    from xlate import Fn
    node = tu.find(t['path'], 0)
    txt, _ = Fn(tu, node, CFG).translate(t['lean'])
    return re.sub(r'\bend\b', 'end_', txt)

WILK = [dict(lean='wilkinson_mu', header='LinAlg/TridiagEigen.h', custom=wilkinson_mu, path='TridiagEigen::tridiagonal_qr_step')]

MODULES = [('Wilk', WILK, 'import SpectraVerif.Model.TridiagEigen\n')]
