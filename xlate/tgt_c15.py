"""C15: scalar size logic of the Davidson base class, translated from JDSymEigsBase.h on every run.

  Gen.JD.jd_ctor_sizes   <- member initialisers of JDSymEigsBase(op, nev, nvec_init, nvec_max)
  Gen.JD.jd_initialize   <- JDSymEigsBase::initialize (clamps: max <= n, init >= nev, init + corr <= n or init = max(n/3, nev), corr = min(n/3, n - init))
  (JDSymEigsBase::check_argument is Gen.Guard.jd_check_argument, owned by C12)

The loop of `compute_with_guess` mixes Eigen objects and CRTP calls and is outside the translator subset: it is hand-modelled
in Model/Davidson.lean (`Dav.loop`) and tied by the correspondence check (sizes per iteration, niter, info, return value).
"""
from targets import T

JDH = 'JDSymEigsBase.h'
_mem = {'m_number_eigenvalues': 'int', 'm_max_search_space_size': 'int', 'm_initial_search_space_size': 'int',
        'm_correction_size': 'int', 'm_matrix_operator': 'other'}
_meth = {('m_matrix_operator', 'cols'): ('n', 'int'), ('m_matrix_operator', 'rows'): ('n', 'int'),
         ('op', 'rows'): ('n', 'int'), ('op', 'cols'): ('n', 'int')}
_inits = {'m_number_eigenvalues': 'int', 'm_max_search_space_size': 'int', 'm_initial_search_space_size': 'int', 'm_correction_size': 'int'}

def _ctor(lean, out):
    return T(lean, 'JDSymEigsBase::JDSymEigsBase', JDH, index=0, mode='state', state_out=out, members=_mem, ctor_inits=_inits,
             ignore_params=['op'], methods=_meth, slice=lambda fn, ss: [], ret_type=' × '.join(['Int'] * len(out)))

JD = [
    _ctor('jd_ctor_sizes', ['m_max_search_space_size', 'm_initial_search_space_size', 'm_correction_size']),
    T('jd_initialize', 'JDSymEigsBase::initialize', JDH, mode='state',
      state_out=['m_max_search_space_size', 'm_initial_search_space_size', 'm_correction_size'],
      members=_mem, methods=_meth, ret_type='Int × Int × Int',
      member_order=['m_max_search_space_size', 'm_initial_search_space_size', 'm_correction_size', 'm_number_eigenvalues', 'm_matrix_operator']),
]

MODULES = [('JD', JD, '')]


# ---------------------------------------------------------------------------------------------------------------------------------
# Gen.JDOrth: CALL FOOTPRINT of LinAlg/Orthogonalization.h and of the two SearchSpace members that extend the basis, regenerated from
# the clang AST on every run.  One row per (a) call of a free function, (b) member-function call, (c) local variable of a class-template
# type, in source order inside every function template of Orthogonalization.h and inside SearchSpace::append_new_vectors_to_basis /
# SearchSpace::extend_basis.  `C15.c15_extension_uses_householder_qr` reads off this table that the extension step is
#   extend_basis -> twice_is_enough_orthogonalisation -> JensWehner_orthogonalisation (x2) -> subspace_orthogonalisation ; QR_orthogonalisation
# and that QR_orthogonalisation takes the Q factor of an Eigen::HouseholderQR of the block: the kernel whose specification (orthonormal
# block for EVERY input, rank deficient or not) the step replay checks on the recorded outputs.  Calling another routine there
# (MGS_/GS_orthogonalisation: `normalize()` leaves a zero column for dependent corrections) changes the table and breaks the theorem.
import os, re
import astdump
from xlate import XlateError

ORTH_H = 'LinAlg/Orthogonalization.h'
SPACE_H = 'LinAlg/SearchSpace.h'
SPACE_FNS = ['append_new_vectors_to_basis', 'extend_basis']

def _lstr(s): return '"' + str(s).replace('\\', '\\\\').replace('"', '\\"') + '"'

def _off(loc):
    if 'offset' not in loc: return None          # inside a macro expansion (assert): not part of the footprint
    return loc['offset'], loc.get('tokLen', 0)

def _text(src, node):
    r = node.get('range', {}); b = _off(r.get('begin', {})); e = _off(r.get('end', {}))
    if b is None or e is None: return None
    return re.sub(r'\s+', ' ', src[b[0]: e[0] + e[1]]).strip()

def _strip(n):
    while n.get('kind') in ('ImplicitCastExpr', 'ParenExpr') and len(n.get('inner', []) or []) == 1: n = n['inner'][0]
    return n

def _rows_of(fname, node, src):
    rows = []
    def walk(n):
        k = n.get('kind')
        if k in ('FullComment', 'ParagraphComment'): return
        if k in ('CallExpr', 'CXXMemberCallExpr') and n.get('inner'):
            callee = _strip(n['inner'][0]); args = n['inner'][1:]
            atxt = [_text(src, a) for a in args]
            if all(t is not None for t in atxt) and _text(src, n) is not None:
                ck = callee.get('kind')
                if ck == 'UnresolvedLookupExpr': rows.append((fname, 'call', callee.get('name', '?'), ', '.join(atxt)))
                elif ck == 'DeclRefExpr' and callee.get('referencedDecl', {}).get('kind') in ('FunctionDecl', 'CXXMethodDecl'):
                    rows.append((fname, 'call', callee['referencedDecl'].get('name', '?'), ', '.join(atxt)))
                elif ck == 'CXXDependentScopeMemberExpr':
                    rows.append((fname, 'member', callee.get('member', '?'), (_text(src, callee['inner'][0]) if callee.get('inner') else 'this') + ' | ' + ', '.join(atxt)))
                elif ck == 'MemberExpr':
                    base = callee['inner'][0] if callee.get('inner') else {}
                    rows.append((fname, 'member', callee.get('name', '?'), ('this' if base.get('kind') == 'CXXThisExpr' else (_text(src, base) or '?')) + ' | ' + ', '.join(atxt)))
                elif ck == 'DependentScopeDeclRefExpr': rows.append((fname, 'call', _text(src, callee) or '?', ', '.join(atxt)))
                else: raise XlateError('%s: call through an unsupported callee node %s' % (fname, ck))
        if k == 'VarDecl':
            qt = n.get('type', {}).get('qualType', '')
            if '<' in qt:
                init = [c for c in n.get('inner', []) or [] if isinstance(c, dict) and c.get('kind') not in ('FullComment',)]
                itxt = _text(src, init[0]) if init else ''
                rows.append((fname, 'local', qt, n.get('name', '?') + ' := ' + (itxt if itxt is not None else '?')))
        for c in n.get('inner', []) or []:
            if isinstance(c, dict): walk(c)
    body = [c for c in node.get('inner', []) or [] if c.get('kind') == 'CompoundStmt']
    if len(body) != 1: raise XlateError('%s: no body' % fname)
    walk(body[0])
    return rows

def orth_calls(tu, t):
    src = open(os.path.join(astdump.INC, 'Spectra', ORTH_H)).read()
    names = re.findall(r'template\s*<[^>]*>\s*(?:inline\s+|static\s+)*[\w:<>&\s]+?\b(\w+)\s*\([^;{]*\)\s*\{', src)
    if not names: raise XlateError('no function template found in ' + ORTH_H)
    for need in ('QR_orthogonalisation', 'MGS_orthogonalisation', 'JensWehner_orthogonalisation', 'twice_is_enough_orthogonalisation', 'subspace_orthogonalisation'):
        if need not in names: raise XlateError('%s not found in %s' % (need, ORTH_H))
    if len(set(names)) != len(names): raise XlateError('overloaded function templates in ' + ORTH_H)
    rows = []
    for nm in names:
        nodes = [x for x in astdump.find(tu.objs, nm) if any(c.get('kind') == 'CompoundStmt' for c in x.get('inner', []) or [])]
        if len(nodes) != 1: raise XlateError('%s: %d definitions' % (nm, len(nodes)))
        rows += _rows_of(nm, nodes[0], src)
    ssrc = open(os.path.join(astdump.INC, 'Spectra', SPACE_H)).read()
    for nm in SPACE_FNS:
        nodes = [x for x in astdump.find(tu.objs, 'SearchSpace::' + nm) if any(c.get('kind') == 'CompoundStmt' for c in x.get('inner', []) or [])]
        if len(nodes) != 1: raise XlateError('SearchSpace::%s: %d definitions' % (nm, len(nodes)))
        rows += _rows_of('SearchSpace::' + nm, nodes[0], ssrc)
    s = '-- one row of the call footprint: `kind` = "call" (free function, `callee` its name, `args` the argument text), "member" (member function `callee`, `args` = "object | arguments"), "local" (local variable of a class-template type `callee`, `args` = "name := initializer")\n'
    s += 'structure OrthCall where\n  fn : String\n  kind : String\n  callee : String\n  args : String\n  deriving DecidableEq, Repr\n\n'
    s += '/-- the function templates of `LinAlg/Orthogonalization.h`, in source order -/\n'
    s += 'def orth_functions : List String := [' + ', '.join(_lstr(n) for n in names) + ']\n\n'
    s += '/-- every call / member call / class-typed local in those functions and in `SearchSpace::append_new_vectors_to_basis`, `SearchSpace::extend_basis`, in source order -/\n'
    s += 'def orth_calls : List OrthCall := [\n  ' + ',\n  '.join('{ fn := %s, kind := %s, callee := %s, args := %s }' % tuple(_lstr(x) for x in r) for r in rows) + ']\n'
    return s

MODULES += [('JDOrth', [dict(lean='orth_calls', header=ORTH_H, custom=orth_calls, path='Orthogonalization.h : * ; SearchSpace::extend_basis')], '')]


# ---------------------------------------------------------------------------------------------------------------------------------
# Gen.JDMembers: OWNERSHIP and RESET footprint of the Davidson classes, regenerated from the clang AST on every run.
#   members   one record per data member of JDSymEigsBase / DavidsonSymEigsSolver / SearchSpace / RitzPairs: class, name, declared type (source
#             text), reference?, pointer / non-owning handle (Eigen::Ref / Map, reference_wrapper, smart pointer, std::function)?, top-level const?,
#             `mutable`?, default member initialiser (source text)
#   aliases   the `using X = ...` declarations of those classes (class, name, aliased type): a member declared `Matrix` owns its storage only as
#             long as `Matrix` is an Eigen::Matrix
#   flow      the bodies of compute / compute_with_guess / the four accessors, SearchSpace::initialize_search_space,
#             RitzPairs::compute_eigen_pairs and RitzPairs::check_convergence flattened into statements in source order:
#             Stmt{fn, depth (nesting inside if / for), kind, target, text};  kind = "signature" (target = return type, text = parameter types),
#             "assign" (target = left-hand side, text = right-hand side), "call" (target = callee, text = arguments), "decl" (target = variable,
#             text = "type := initializer"), "if" / "else" / "for" / "while" (text = condition / header), "break", "return" (text = expression)
#   special_members   the constructors / destructors / assignment operators DECLARED in those classes (class, name, type, "default" | "deleted" | "user")
# `C15.c15_members_owning` / `C15.c15_compute_resets` (decide) read off these tables that the operator reference is the only member that
# does not own its value, that the initial space and the scalars of a call are copied, that `compute_with_guess` resets EVERY result member
# before the loop (`m_ritz_pairs = RitzPairs<Scalar>()`, `m_info = CompInfo::NotComputed`, `m_search_space.initialize_search_space`, `niter_ = 0`)
# and that a default-constructed `RitzPairs` is empty (defaulted constructor, no default member initialiser, implicit assignment).
# A cache member, a member that keeps the caller's matrix by reference, a dropped reset statement change a table and break a theorem.
JD_CLASSES = [('JDSymEigsBase', 'JDSymEigsBase.h'), ('DavidsonSymEigsSolver', 'DavidsonSymEigsSolver.h'), ('SearchSpace', 'LinAlg/SearchSpace.h'), ('RitzPairs', 'LinAlg/RitzPairs.h')]
JD_FLOW = [('JDSymEigsBase', 'compute'), ('JDSymEigsBase', 'compute_with_guess'), ('JDSymEigsBase', 'info'), ('JDSymEigsBase', 'num_iterations'),
           ('JDSymEigsBase', 'eigenvalues'), ('JDSymEigsBase', 'eigenvectors'), ('SearchSpace', 'initialize_search_space'),
           ('RitzPairs', 'compute_eigen_pairs'), ('RitzPairs', 'check_convergence')]
_HANDLE = re.compile(r'\b(Ref|Map|reference_wrapper|shared_ptr|unique_ptr|weak_ptr|function)\s*<')
_jsrc = {}
def _jd_src(cls):
    h = dict(JD_CLASSES)[cls]
    if h not in _jsrc: _jsrc[h] = open(os.path.join(astdump.INC, 'Spectra', h)).read()
    return _jsrc[h]

def _lbool(b): return 'true' if b else 'false'
def _llist(items): return '[]' if not items else '[\n  ' + ',\n  '.join(items) + ']'

def _jd_record(tu, cls):
    for o in tu.objs:
        if o.get('kind') == 'ClassTemplateDecl' and o.get('name') == cls:
            rec = [c for c in o.get('inner', []) if c.get('kind') == 'CXXRecordDecl' and c.get('completeDefinition')]
            if len(rec) == 1: return rec[0]
    raise XlateError('class template %s: definition not found' % cls)

def _jd_classify(qual, text):
    q = qual.strip(); t = text.strip()
    is_ref = q.endswith('&') or t.endswith('&')
    is_ptr = bool(re.search(r'\*(\s*const)?$', q)) or bool(re.search(r'\*(\s*const)?$', t)) or bool(_HANDLE.search(q)) or bool(_HANDLE.search(t))
    core = q.rstrip('&').strip()
    is_const = (not is_ref and not is_ptr) and (core.startswith('const ') or core.endswith(' const') or t.startswith('const '))
    return is_ref, is_ptr, is_const

def jd_members(tu, t):
    rows = []; al = []; sp = []
    for cls, _h in JD_CLASSES:
        rec = _jd_record(tu, cls); src = _jd_src(cls)
        for f in rec.get('inner', []) or []:
            if f.get('kind') == 'TypeAliasDecl':
                al.append('(%s, %s, %s)' % (_lstr(cls), _lstr(f.get('name', '?')), _lstr(f.get('type', {}).get('qualType', '?'))))
            if not f.get('isImplicit') and (f.get('kind') in ('CXXConstructorDecl', 'CXXDestructorDecl') or (f.get('kind') == 'CXXMethodDecl' and f.get('name') == 'operator=')):
                how = f.get('explicitlyDefaulted') or ('deleted' if f.get('explicitlyDeleted') else 'user')
                sp.append('(%s, %s, %s, %s)' % (_lstr(cls), _lstr(re.sub(r'<.*$', '', f.get('name', '?'))), _lstr(f.get('type', {}).get('qualType', '?')), _lstr(how)))
            if f.get('kind') == 'FunctionTemplateDecl' and f.get('name') in ('operator=', cls):
                sp.append('(%s, %s, %s, %s)' % (_lstr(cls), _lstr(f.get('name')), _lstr('template'), _lstr('user')))
            if f.get('kind') != 'FieldDecl': continue
            b = _off(f['range']['begin']); e = _off(f['loc'])
            if b is None or e is None: raise XlateError('%s::%s: no source range' % (cls, f.get('name')))
            txt = re.sub(r'^(mutable\s+)', '', re.sub(r'\s+', ' ', src[b[0]:e[0]]).strip())
            r, p, c = _jd_classify(f.get('type', {}).get('qualType', ''), txt)
            ini = ''
            if f.get('hasInClassInitializer'):
                iv = [x for x in f.get('inner', []) or [] if isinstance(x, dict) and x.get('kind') not in ('FullComment',)]
                ini = (_text(src, iv[0]) if iv else None) or '?'
            rows.append('{ cls := %s, name := %s, type := %s, isRef := %s, isPtr := %s, isConst := %s, isMutable := %s, init := %s }' %
                        (_lstr(cls), _lstr(f.get('name', '?')), _lstr(txt), _lbool(r), _lbool(p), _lbool(c), _lbool(bool(f.get('mutable'))), _lstr(ini)))
        if any(x.get('kind') == 'VarDecl' for x in rec.get('inner', []) or []): raise XlateError('%s: static data member' % cls)
    s = '-- one data member: `type` is the declared type as written in the header; `isPtr` also covers non-owning handles (Eigen::Ref / Map, reference_wrapper, smart pointers, std::function); `init` is the default member initialiser as written ("" = none)\n'
    s += 'structure Member where\n  cls : String\n  name : String\n  type : String\n  isRef : Bool\n  isPtr : Bool\n  isConst : Bool\n  isMutable : Bool\n  init : String\n  deriving DecidableEq, Repr\n\n'
    s += '/-- ALL data members of `JDSymEigsBase`, `DavidsonSymEigsSolver`, `SearchSpace`, `RitzPairs`, in declaration order -/\n'
    s += 'def members : List Member := ' + _llist(rows) + '\n\n'
    s += '/-- the type aliases declared in those classes: (class, alias, aliased type) -/\n'
    s += 'def aliases : List (String × String × String) := ' + _llist(al) + '\n\n'
    s += '/-- the constructors, destructors and assignment operators DECLARED in those classes (implicit ones are not listed): (class, name, type, "default" | "deleted" | "user") -/\n'
    s += 'def special_members : List (String × String × String × String) := ' + _llist(sp) + '\n'
    return s

def _jd_root(n):
    """the data member of *this at the root of an lvalue / callee expression ('' if it is rooted in a local or a parameter)"""
    while isinstance(n, dict):
        inner = [c for c in n.get('inner', []) or [] if isinstance(c, dict)]
        if n.get('kind') == 'MemberExpr' and (not inner or _strip(inner[0]).get('kind') == 'CXXThisExpr'): return n.get('name', '')
        if not inner: return ''
        n = inner[1] if (n.get('kind') == 'CXXOperatorCallExpr' and len(inner) >= 2) else inner[0]
    return ''

_ASSIGN = ('=', '+=', '-=', '*=', '/=', '&=', '|=', '^=', '%=', '<<=', '>>=')
def _jd_flow_of(cls, fname, fn, src):
    rows = []
    def T(n):
        t = _text(src, n)
        if t is None: raise XlateError('%s::%s: statement without a source range (macro?)' % (cls, fname))
        return t
    def stmt(n, d):
        k = n.get('kind')
        if k in ('FullComment', 'ParagraphComment', 'NullStmt'): return
        inner = [c for c in n.get('inner', []) or [] if isinstance(c, dict)]
        if k == 'CompoundStmt':
            for c in inner: stmt(c, d)
        elif k == 'ExprWithCleanups' and len(inner) == 1: stmt(inner[0], d)
        elif k == 'IfStmt':
            rows.append((d, 'if', '', T(inner[0]))); stmt(inner[1], d + 1)
            if len(inner) > 2: rows.append((d, 'else', '', '')); stmt(inner[2], d + 1)
        elif k == 'ForStmt':
            parts = n.get('inner', []) or []
            hd = '; '.join(T(p).rstrip(';').strip() for p in parts[:-1] if isinstance(p, dict) and p.get('kind'))
            rows.append((d, 'for', '', hd)); stmt(parts[-1], d + 1)
        elif k in ('WhileStmt', 'DoStmt'):
            rows.append((d, 'while', '', T(inner[0] if k == 'WhileStmt' else inner[-1]))); stmt(inner[-1] if k == 'WhileStmt' else inner[0], d + 1)
        elif k == 'BreakStmt': rows.append((d, 'break', '', ''))
        elif k == 'ContinueStmt': rows.append((d, 'continue', '', ''))
        elif k == 'ReturnStmt': rows.append((d, 'return', '', T(inner[0]) if inner else ''))
        elif k == 'DeclStmt':
            for v in inner:
                if v.get('kind') != 'VarDecl': raise XlateError('%s::%s: unsupported declaration %s' % (cls, fname, v.get('kind')))
                b = _off(v['range']['begin']); e = _off(v['loc'])
                ty = re.sub(r'\s+', ' ', src[b[0]:e[0]]).strip() if b and e else v.get('type', {}).get('qualType', '?')
                init = [c for c in v.get('inner', []) or [] if isinstance(c, dict) and c.get('kind') not in ('FullComment',)]
                rows.append((d, 'decl', v.get('name', '?'), ty + ' := ' + (T(init[0]) if init else '')))
        elif k in ('BinaryOperator', 'CompoundAssignOperator') and n.get('opcode') in _ASSIGN and len(inner) == 2:
            rows.append((d, 'assign', T(inner[0]), ('' if n.get('opcode') == '=' else n.get('opcode') + ' ') + T(inner[1]), _jd_root(inner[0])))
        elif k == 'CXXOperatorCallExpr' and len(inner) == 3 and T(n).count('=') >= 1 and _strip(inner[0]).get('kind') in ('DeclRefExpr', 'UnresolvedLookupExpr') and (_strip(inner[0]).get('referencedDecl', {}).get('name', _strip(inner[0]).get('name', '')) in ('operator=',) + tuple('operator' + o for o in _ASSIGN)):
            rows.append((d, 'assign', T(inner[1]), T(inner[2]), _jd_root(inner[1])))
        elif k in ('CallExpr', 'CXXMemberCallExpr') and inner:
            rows.append((d, 'call', T(inner[0]), ', '.join(T(a) for a in inner[1:]), _jd_root(inner[0])))
        elif k in ('UnaryOperator',): rows.append((d, 'expr', '', T(n)))
        else: raise XlateError('%s::%s: unsupported statement kind %s' % (cls, fname, k))
    body = [c for c in fn.get('inner', []) or [] if c.get('kind') == 'CompoundStmt']
    if len(body) != 1: raise XlateError('%s::%s: no body' % (cls, fname))
    b = _off(fn['range']['begin']); e = _off(fn['loc'])
    ret = re.sub(r'\s+', ' ', src[b[0]:e[0]]).strip() if b and e else '?'
    ret = re.sub(r'^template\s*<[^>]*>\s*', '', ret); ret = re.sub(r'\s*\b\w+(<\w+>)?::$', '', ret)
    params = ', '.join(p.get('type', {}).get('qualType', '?') for p in fn.get('inner', []) or [] if p.get('kind') == 'ParmVarDecl')
    qual = ' const' if ' const' in fn.get('type', {}).get('qualType', '').split(')')[-1] else ''
    out = [(0, 'signature', ret, '(' + params + ')' + qual)]
    stmt(body[0], 0)
    return out + rows

def jd_flow(tu, t):
    rows = []
    for cls, fname in JD_FLOW:
        src = _jd_src(cls)
        cands = astdump.find(tu.objs, cls + '::' + fname) + [o for o in tu.objs if o.get('kind') == 'CXXMethodDecl' and o.get('name') == fname and (o.get('loc', {}).get('includedFrom') or o.get('range'))]
        defs = [x for x in cands if any(c.get('kind') == 'CompoundStmt' for c in x.get('inner', []) or [])]
        # an out-of-class definition (RitzPairs::compute_eigen_pairs) is a top-level CXXMethodDecl: keep it only if its source text sits in the class's header
        keep = []
        for x in defs:
            b = _off(x['range']['begin'])
            if b is not None and re.search(r'\b' + re.escape(fname) + r'\s*\(', src[b[0]: b[0] + 400]) and x not in keep: keep.append(x)
        if len(keep) != 1: raise XlateError('%s::%s: %d definitions' % (cls, fname, len(keep)))
        for r in _jd_flow_of(cls, fname, keep[0], src): rows.append((cls + '::' + fname, r[0], r[1], r[2], r[3], r[4] if len(r) > 4 else ''))
    s = '-- one statement of a flattened function body (see the header comment of xlate/tgt_c15.py)\n'
    s += 'structure Stmt where\n  fn : String\n  depth : Nat\n  kind : String\n  target : String\n  text : String\n  root : String\n  deriving DecidableEq, Repr\n\n'
    s += 'def flow : List Stmt := ' + _llist(['{ fn := %s, depth := %d, kind := %s, target := %s, text := %s, root := %s }' % (_lstr(r[0]), r[1], _lstr(r[2]), _lstr(r[3]), _lstr(r[4]), _lstr(r[5])) for r in rows]) + '\n'
    return s

MODULES += [('JDMembers', [dict(lean='members', header='JDSymEigsBase.h', custom=jd_members, path='JDSymEigsBase | DavidsonSymEigsSolver | SearchSpace | RitzPairs : data members, aliases'),
                           dict(lean='flow', header='JDSymEigsBase.h', custom=jd_flow, path='compute / compute_with_guess / accessors / initialize_search_space / compute_eigen_pairs / check_convergence : statements')], '')]
