"""C15: scalar size logic of the Davidson base class, translated from JDSymEigsBase.h on every run.

  Gen.JD.jd_ctor_sizes   <- member initialisers of JDSymEigsBase(op, nev, nvec_init, nvec_max)
  Gen.JD.jd_initialize   <- JDSymEigsBase::initialize (clamps: max <= n, init >= nev, init + corr <= n or init = max(n/3, nev), corr = min(n/3, n - init))
  (JDSymEigsBase::check_argument is Gen.Guard.jd_check_argument, owned by C12)

The loop of `compute_with_guess` mixes Eigen objects and CRTP calls and is outside the translator subset: it is hand-modelled
in Model/Davidson.lean (`Dav.loop`) and tied by the correspondence check (sizes per iteration, niter, info, return value).
"""
from targets import T

JDH = 'JDSymEigsBase.h'
_mem = {'m_number_eigenvalues': 'int', 'm_max_search_space_size': 'int', 'm_initial_search_space_size': 'int',
        'm_correction_size': 'int', 'm_matrix_operator': 'other'}
_meth = {('m_matrix_operator', 'cols'): ('n', 'int'), ('m_matrix_operator', 'rows'): ('n', 'int'),
         ('op', 'rows'): ('n', 'int'), ('op', 'cols'): ('n', 'int')}
_inits = {'m_number_eigenvalues': 'int', 'm_max_search_space_size': 'int', 'm_initial_search_space_size': 'int', 'm_correction_size': 'int'}

def _ctor(lean, out):
    return T(lean, 'JDSymEigsBase::JDSymEigsBase', JDH, index=0, mode='state', state_out=out, members=_mem, ctor_inits=_inits,
             ignore_params=['op'], methods=_meth, slice=lambda fn, ss: [], ret_type=' × '.join(['Int'] * len(out)))

JD = [
    _ctor('jd_ctor_sizes', ['m_max_search_space_size', 'm_initial_search_space_size', 'm_correction_size']),
    T('jd_initialize', 'JDSymEigsBase::initialize', JDH, mode='state',
      state_out=['m_max_search_space_size', 'm_initial_search_space_size', 'm_correction_size'],
      members=_mem, methods=_meth, ret_type='Int × Int × Int',
      member_order=['m_max_search_space_size', 'm_initial_search_space_size', 'm_correction_size', 'm_number_eigenvalues', 'm_matrix_operator']),
]

MODULES = [('JD', JD, '')]
