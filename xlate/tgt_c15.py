"""C15: scalar size logic of the Davidson base class, translated from JDSymEigsBase.h on every run.

  Gen.JD.jd_ctor_sizes   <- member initialisers of JDSymEigsBase(op, nev, nvec_init, nvec_max)
  Gen.JD.jd_initialize   <- JDSymEigsBase::initialize (clamps: max <= n, init >= nev, init + corr <= n or init = max(n/3, nev), corr = min(n/3, n - init))
  (JDSymEigsBase::check_argument is Gen.Guard.jd_check_argument, owned by C12)

The loop of `compute_with_guess` mixes Eigen objects and CRTP calls and is outside the translator subset: it is hand-modelled
in Model/Davidson.lean (`Dav.loop`) and tied by the correspondence check (sizes per iteration, niter, info, return value).
"""
from targets import T

JDH = 'JDSymEigsBase.h'
_mem = {'m_number_eigenvalues': 'int', 'm_max_search_space_size': 'int', 'm_initial_search_space_size': 'int',
        'm_correction_size': 'int', 'm_matrix_operator': 'other'}
_meth = {('m_matrix_operator', 'cols'): ('n', 'int'), ('m_matrix_operator', 'rows'): ('n', 'int'),
         ('op', 'rows'): ('n', 'int'), ('op', 'cols'): ('n', 'int')}
_inits = {'m_number_eigenvalues': 'int', 'm_max_search_space_size': 'int', 'm_initial_search_space_size': 'int', 'm_correction_size': 'int'}

def _ctor(lean, out):
    return T(lean, 'JDSymEigsBase::JDSymEigsBase', JDH, index=0, mode='state', state_out=out, members=_mem, ctor_inits=_inits,
             ignore_params=['op'], methods=_meth, slice=lambda fn, ss: [], ret_type=' × '.join(['Int'] * len(out)))

JD = [
    _ctor('jd_ctor_sizes', ['m_max_search_space_size', 'm_initial_search_space_size', 'm_correction_size']),
    T('jd_initialize', 'JDSymEigsBase::initialize', JDH, mode='state',
      state_out=['m_max_search_space_size', 'm_initial_search_space_size', 'm_correction_size'],
      members=_mem, methods=_meth, ret_type='Int × Int × Int',
      member_order=['m_max_search_space_size', 'm_initial_search_space_size', 'm_correction_size', 'm_number_eigenvalues', 'm_matrix_operator']),
]

MODULES = [('JD', JD, '')]


# ---------------------------------------------------------------------------------------------------------------------------------
# Gen.JDOrth: CALL FOOTPRINT of LinAlg/Orthogonalization.h and of the two SearchSpace members that extend the basis, regenerated from
# the clang AST on every run.  One row per (a) call of a free function, (b) member-function call, (c) local variable of a class-template
# type, in source order inside every function template of Orthogonalization.h and inside SearchSpace::append_new_vectors_to_basis /
# SearchSpace::extend_basis.  `C15.c15_extension_uses_householder_qr` reads off this table that the extension step is
#   extend_basis -> twice_is_enough_orthogonalisation -> JensWehner_orthogonalisation (x2) -> subspace_orthogonalisation ; QR_orthogonalisation
# and that QR_orthogonalisation takes the Q factor of an Eigen::HouseholderQR of the block: the kernel whose specification (orthonormal
# block for EVERY input, rank deficient or not) the step replay checks on the recorded outputs.  Calling another routine there
# (MGS_/GS_orthogonalisation: `normalize()` leaves a zero column for dependent corrections) changes the table and breaks the theorem.
import os, re
import astdump
from xlate import XlateError

ORTH_H = 'LinAlg/Orthogonalization.h'
SPACE_H = 'LinAlg/SearchSpace.h'
SPACE_FNS = ['append_new_vectors_to_basis', 'extend_basis']

def _lstr(s): return '"' + str(s).replace('\\', '\\\\').replace('"', '\\"') + '"'

def _off(loc):
    if 'offset' not in loc: return None          # inside a macro expansion (assert): not part of the footprint
    return loc['offset'], loc.get('tokLen', 0)

def _text(src, node):
    r = node.get('range', {}); b = _off(r.get('begin', {})); e = _off(r.get('end', {}))
    if b is None or e is None: return None
    return re.sub(r'\s+', ' ', src[b[0]: e[0] + e[1]]).strip()

def _strip(n):
    while n.get('kind') in ('ImplicitCastExpr', 'ParenExpr') and len(n.get('inner', []) or []) == 1: n = n['inner'][0]
    return n

def _rows_of(fname, node, src):
    rows = []
    def walk(n):
        k = n.get('kind')
        if k in ('FullComment', 'ParagraphComment'): return
        if k in ('CallExpr', 'CXXMemberCallExpr') and n.get('inner'):
            callee = _strip(n['inner'][0]); args = n['inner'][1:]
            atxt = [_text(src, a) for a in args]
            if all(t is not None for t in atxt) and _text(src, n) is not None:
                ck = callee.get('kind')
                if ck == 'UnresolvedLookupExpr': rows.append((fname, 'call', callee.get('name', '?'), ', '.join(atxt)))
                elif ck == 'DeclRefExpr' and callee.get('referencedDecl', {}).get('kind') in ('FunctionDecl', 'CXXMethodDecl'):
                    rows.append((fname, 'call', callee['referencedDecl'].get('name', '?'), ', '.join(atxt)))
                elif ck == 'CXXDependentScopeMemberExpr':
                    rows.append((fname, 'member', callee.get('member', '?'), (_text(src, callee['inner'][0]) if callee.get('inner') else 'this') + ' | ' + ', '.join(atxt)))
                elif ck == 'MemberExpr':
                    base = callee['inner'][0] if callee.get('inner') else {}
                    rows.append((fname, 'member', callee.get('name', '?'), ('this' if base.get('kind') == 'CXXThisExpr' else (_text(src, base) or '?')) + ' | ' + ', '.join(atxt)))
                elif ck == 'DependentScopeDeclRefExpr': rows.append((fname, 'call', _text(src, callee) or '?', ', '.join(atxt)))
                else: raise XlateError('%s: call through an unsupported callee node %s' % (fname, ck))
        if k == 'VarDecl':
            qt = n.get('type', {}).get('qualType', '')
            if '<' in qt:
                init = [c for c in n.get('inner', []) or [] if isinstance(c, dict) and c.get('kind') not in ('FullComment',)]
                itxt = _text(src, init[0]) if init else ''
                rows.append((fname, 'local', qt, n.get('name', '?') + ' := ' + (itxt if itxt is not None else '?')))
        for c in n.get('inner', []) or []:
            if isinstance(c, dict): walk(c)
    body = [c for c in node.get('inner', []) or [] if c.get('kind') == 'CompoundStmt']
    if len(body) != 1: raise XlateError('%s: no body' % fname)
    walk(body[0])
    return rows

def orth_calls(tu, t):
    src = open(os.path.join(astdump.INC, 'Spectra', ORTH_H)).read()
    names = re.findall(r'template\s*<[^>]*>\s*(?:inline\s+|static\s+)*[\w:<>&\s]+?\b(\w+)\s*\([^;{]*\)\s*\{', src)
    if not names: raise XlateError('no function template found in ' + ORTH_H)
    for need in ('QR_orthogonalisation', 'MGS_orthogonalisation', 'JensWehner_orthogonalisation', 'twice_is_enough_orthogonalisation', 'subspace_orthogonalisation'):
        if need not in names: raise XlateError('%s not found in %s' % (need, ORTH_H))
    if len(set(names)) != len(names): raise XlateError('overloaded function templates in ' + ORTH_H)
    rows = []
    for nm in names:
        nodes = [x for x in astdump.find(tu.objs, nm) if any(c.get('kind') == 'CompoundStmt' for c in x.get('inner', []) or [])]
        if len(nodes) != 1: raise XlateError('%s: %d definitions' % (nm, len(nodes)))
        rows += _rows_of(nm, nodes[0], src)
    ssrc = open(os.path.join(astdump.INC, 'Spectra', SPACE_H)).read()
    for nm in SPACE_FNS:
        nodes = [x for x in astdump.find(tu.objs, 'SearchSpace::' + nm) if any(c.get('kind') == 'CompoundStmt' for c in x.get('inner', []) or [])]
        if len(nodes) != 1: raise XlateError('SearchSpace::%s: %d definitions' % (nm, len(nodes)))
        rows += _rows_of('SearchSpace::' + nm, nodes[0], ssrc)
    s = '-- one row of the call footprint: `kind` = "call" (free function, `callee` its name, `args` the argument text), "member" (member function `callee`, `args` = "object | arguments"), "local" (local variable of a class-template type `callee`, `args` = "name := initializer")\n'
    s += 'structure OrthCall where\n  fn : String\n  kind : String\n  callee : String\n  args : String\n  deriving DecidableEq, Repr\n\n'
    s += '/-- the function templates of `LinAlg/Orthogonalization.h`, in source order -/\n'
    s += 'def orth_functions : List String := [' + ', '.join(_lstr(n) for n in names) + ']\n\n'
    s += '/-- every call / member call / class-typed local in those functions and in `SearchSpace::append_new_vectors_to_basis`, `SearchSpace::extend_basis`, in source order -/\n'
    s += 'def orth_calls : List OrthCall := [\n  ' + ',\n  '.join('{ fn := %s, kind := %s, callee := %s, args := %s }' % tuple(_lstr(x) for x in r) for r in rows) + ']\n'
    return s

MODULES += [('JDOrth', [dict(lean='orth_calls', header=ORTH_H, custom=orth_calls, path='Orthogonalization.h : * ; SearchSpace::extend_basis')], '')]
