"""C10: translated kernels of LinAlg/BKLDLT.h and the guards of its two wrappers  ->  Gen.BK

Translated from the source on every run (real-scalar instantiation: `ScalarOp<Scalar>::conj/real` are the primary
template, i.e. the identity, and that template is itself translated as `scalarop_conj` / `scalarop_real`):
  scalarop_conj, scalarop_real      ScalarOp<Scalar>::conj / ::real (primary template)
  solve_inplace_2x2                 both pivoting branches, (b1, b2) in/out
  inverse_inplace_2x2               (e11, e21, e22) in/out
  compress_permutation              the decode `perm = m_perm[i] >= 0 ? m_perm[i] : -m_perm[i]-1` and the push_back guard
  ge1_status, ge2_status            the singularity tests of gaussian_elimination_1x1/2x2 (first early return + final return)
  compute_init_info                 the value of m_info when the pivot loop is entered (statement before the loop)
  compute_break                     the loop's `if (m_info != Successful) break`
  compute_final_info                the trailing `if (k == m_n - 1) {... if (akk == 0) m_info = NumericalIssue }`
  compute_prologue, compute_prologue_conditional, compute_perm_reset_args
                                    which members compute() resets before the pivot loop, unconditionally / under a condition
  solve_inplace_flow, solve_flow, solve_inplace_cond_names, solve_inplace_params
                                    the bodies of solve_inplace() / solve() flattened into (depth, kind, canonical text) rows from the AST alone
                                    (loop headers, branch conditions, every statement, any continue/break/return), and the names its conditions read
  dense_set_shift_guard             DenseSymShiftSolve::set_shift : the throwing check after compute()
  symshift_factorize_ok, symshift_set_shift_guard   SymShiftInvertHelper<dense,...>::factorize return + SymShiftInvert::set_shift check
Complex Hermitian instantiation (used by Model/BKLDLTC.lean):
  scalarop_conj_c, scalarop_real_c  the partial specialisation ScalarOp<std::complex<RealScalar>> (std::complex = pair)
  copy_fast_path                    the branch condition of copy_data (which storage order x triangle takes the std::copy path)
  solve_inplace_2x2_h, ge2_status_h the same statements as above with `ScalarOp<Scalar>::conj/real` left as parameters `cj`/`rl`
                                    (instantiated in the model with the translated complex specialisation; ge1_status and
                                    compute_final_info contain no conj/real and are used as they are, at the complex scalar type)
Hand-modelled (Model/BKLDLT.lean, Model/BKLDLTC.lean), tied by correspondence only: storage, copy_data loops, pivot search/selection,
eliminations, solve loops.
"""
from targets import T, first_n
from xlate import Fn, XlateError, Out
import astdump

H = 'LinAlg/BKLDLT.h'
SCH = ' {α : Type} [Add α] [Sub α] [Mul α] [Div α] [Neg α] [Sc α]'
CONJ = {'conj': {'lean': 'scalarop_conj', 'kind': 'sc'}, 'real': {'lean': 'scalarop_real', 'kind': 'sc'}}

CONJ_H = {'conj': {'lean': 'cj', 'kind': 'sc'}, 'real': {'lean': 'rl', 'kind': 'sc'}}
SCH_H = SCH + ' (cj rl : α → α)'

def swap_hook(fn, s, env, out, ind):
    """std::swap(a, b) on two scalar locals/params"""
    nm, _ = fn.callee_name(s['inner'][0])
    if nm != 'swap' or len(s['inner']) != 3: return None
    names = []
    for x in s['inner'][1:]:
        while x['kind'] in ('ParenExpr', 'ImplicitCastExpr'): x = x['inner'][0]
        if x['kind'] != 'DeclRefExpr': raise XlateError('swap of non-variables')
        names.append(x['referencedDecl']['name'])
    a, b = names
    if a not in env or b not in env: raise XlateError('swap of non-locals')
    out.add(ind, f'let ({a}, {b}) := ({env[b][0]}, {env[a][0]})')
    e = fn.bind(env, a, env[a][1]); return fn.bind(e, b, env[b][1])

def render(fn, ss, env, final, ind=2):
    out = Out(); fn.stmts(ss, env, out, ind, final); return out.render()

def body_of(node):
    return list([c for c in node['inner'] if c['kind'] == 'CompoundStmt'][0].get('inner', []))

def unwrap(x):
    while x['kind'] in ('ExprWithCleanups', 'ParenExpr', 'ImplicitCastExpr', 'MaterializeTemporaryExpr'): x = x['inner'][0]
    return x

def strip_d2b(x):
    """drop derived-to-base casts (Eigen vector -> DenseCoeffsBase for operator[]): value-preserving"""
    if isinstance(x, list): return [strip_d2b(c) for c in x]
    if not isinstance(x, dict): return x
    if x.get('kind') == 'ImplicitCastExpr' and x.get('castKind') in ('UncheckedDerivedToBase', 'DerivedToBase'): return strip_d2b(x['inner'][0])
    return {k: strip_d2b(v) if k == 'inner' else v for k, v in x.items()}

def compress_permutation(tu, t):
    node = strip_d2b(tu.find('BKLDLT::compress_permutation'))
    fn = Fn(tu, node, dict(mode='value', members={'m_perm': 'arr_int', 'm_n': 'int'}))
    ss = body_of(node)
    if len(ss) != 1 or ss[0]['kind'] != 'ForStmt': raise XlateError('compress_permutation: expected a single for loop')
    init, _, cond, inc, body = ss[0]['inner']
    vd = init['inner'][0]; iv = vd['name']; lo, _ = fn.expr(vd['inner'][0], {})
    if not (cond['kind'] == 'BinaryOperator' and cond['opcode'] == '<' and inc.get('opcode') == '++'): raise XlateError('loop shape')
    hi, _ = fn.expr(cond['inner'][1], {})
    bl = fn.body_list(body)
    if len(bl) != 2 or bl[0]['kind'] != 'DeclStmt' or bl[1]['kind'] != 'IfStmt': raise XlateError('loop body shape')
    pv = bl[0]['inner'][0]; pn = pv['name']
    env = {iv: (iv, 'int')}
    pe, _ = fn.expr(pv['inner'][0], env)
    env[pn] = (pn, 'int')
    parts = bl[1]['inner']
    if len(parts) != 2: raise XlateError('unexpected else branch')
    c, ck = fn.expr(parts[0], env)
    call = unwrap(parts[1])
    if call['kind'] != 'CXXMemberCallExpr' or call['inner'][0].get('name') != 'push_back': raise XlateError('expected push_back')
    tgt = call['inner'][0]['inner'][0]
    if tgt.get('name') != 'm_permc': raise XlateError('push_back target')
    mp = unwrap(call['inner'][1])
    if mp['kind'] != 'CallExpr' or fn.callee_name(mp['inner'][0])[0] != 'make_pair': raise XlateError('expected make_pair')
    a, _ = fn.expr(mp['inner'][1], env); b, _ = fn.expr(mp['inner'][2], env)
    return (f'def compress_permutation (m_perm : Int → Int) (m_n : Int) : List (Int × Int) :=\n'
            f'  (intRange {fn.atom(lo)} {fn.atom(hi)}).foldl (fun m_permc {iv} =>\n'
            f'    let {pn} : Int := {pe}\n'
            f'    if {fn.to_bool(c, ck)} then m_permc ++ [({a}, {b})] else m_permc\n'
            f'  ) []')

def ge_status(which, calls=CONJ, sch=SCH, suffix=''):
    def g(tu, t):
        node = tu.find('BKLDLT::gaussian_elimination_' + which)
        fn = Fn(tu, node, dict(mode='value', calls=calls))
        ss = body_of(node)
        ifs = [s for s in ss if s['kind'] == 'IfStmt' and fn.escapes(s)]
        rets = [s for s in ss if s['kind'] == 'ReturnStmt']
        if len(ifs) != 1 or len(rets) != 1 or ss[-1] is not rets[0]: raise XlateError('expected one early return and a final return')
        pos = ss.index(ifs[0])
        if which == '1x1':
            env = {'akk': ('akk', 'sc')}; pre = []; params = '(akk : α)'
        else:
            env = {n: (n, 'sc') for n in ('e11', 'e21', 'e22')}; params = '(e11 e21 e22 : α)'
            pre = [s for s in ss[:pos] if s['kind'] == 'DeclStmt' and s['inner'][0].get('name') == 'e12']
            if len(pre) != 1: raise XlateError('e12 declaration not found')
            # the statements `e11 = real(e11); e22 = real(e22)` are the identity for real scalars (scalarop_real)
        # nothing but declarations / diag write-back may precede the test
        txt = render(fn, pre + [ifs[0], rets[0]], env, None)
        return f'def ge{which[0]}_status{suffix}{sch} {params} : Int :=\n' + txt
    return g

def compute_status(tu, t):
    node = tu.find('BKLDLT::compute')
    fn = Fn(tu, node, dict(mode='state', state_out=['m_info'], members={'m_info': 'enum', 'm_n': 'int'}, calls=CONJ))
    ss = body_of(node)
    fors = [i for i, s in enumerate(ss) if s['kind'] == 'ForStmt']
    if len(fors) != 1: raise XlateError('compute: expected exactly one loop')
    fi = fors[0]
    def is_info_assign(s):
        return s['kind'] == 'BinaryOperator' and s.get('opcode') == '=' and s['inner'][0].get('kind') == 'MemberExpr' and s['inner'][0].get('name') == 'm_info'
    pre = [s for s in ss[:fi] if is_info_assign(s)]
    env0 = {'m_info': ('m_info', 'enum')}
    fin = lambda e, o, i: o.add(i, e['m_info'][0])
    res = 'def compute_init_info (m_info : Int) : Int :=\n' + render(fn, pre, env0, fin) + '\n\n'
    # loop: the status test that leaves the loop
    body = fn.body_list(ss[fi]['inner'][4])
    brk = [s for s in body if s['kind'] == 'IfStmt' and len(s['inner']) == 2 and s['inner'][1]['kind'] == 'BreakStmt']
    if len(brk) != 1 or body[-1] is not brk[0]: raise XlateError('compute: loop does not end with a single status break')
    c, ck = fn.expr(brk[0]['inner'][0], env0)
    res += f'def compute_break (m_info : Int) : Bool :=\n  {fn.to_bool(c, ck)}\n\n'
    # trailing block
    post = [s for s in ss[fi + 1:] if s['kind'] == 'IfStmt']
    if len(post) != 1: raise XlateError('compute: expected one trailing if')
    cond, thn = post[0]['inner'][0], post[0]['inner'][1]
    if len(post[0]['inner']) != 2: raise XlateError('trailing if has an else')
    env = {'m_info': ('m_info', 'enum'), 'k': ('k', 'int'), 'akk': ('akk', 'sc')}
    c, ck = fn.expr(cond, env)
    inner = [s for s in fn.body_list(thn) if s['kind'] == 'IfStmt']
    others = [s for s in fn.body_list(thn) if s['kind'] not in ('IfStmt', 'DeclStmt')]
    if len(inner) != 1: raise XlateError('trailing block: expected one status test')
    for s in others:   # only the write-back `diag_coeff(k) = akk` is allowed besides the test
        if not (s['kind'] == 'BinaryOperator' and s.get('opcode') == '=' and unwrap(s['inner'][0])['kind'] == 'CallExpr'): raise XlateError('trailing block: unexpected statement ' + s['kind'])
    res += (f'def compute_final_info{SCH} (m_n : Int) (k : Int) (m_info : Int) (akk : α) : Int :=\n'
            f'  if {fn.to_bool(c, ck)} then\n' + render(fn, inner, env, fin, 4) + '\n  else\n    m_info')
    return res

def dense_guard(tu, t):
    node = tu.find('DenseSymShiftSolve::set_shift')
    fn = Fn(tu, node, dict(mode='guard', throws=True, members={'m_solver': 'other'}, methods={('m_solver', 'info'): ('info', 'enum')}))
    ss = body_of(node)
    calls = [s for s in ss if s['kind'] == 'CallExpr']
    if len(calls) != 1 or fn.callee_name(calls[0]['inner'][0])[0] != 'compute' or ss.index(calls[0]) != 0: raise XlateError('set_shift does not start with m_solver.compute(...)')
    rest = ss[1:]
    if any(s['kind'] != 'IfStmt' for s in rest): raise XlateError('unexpected statement after compute')
    txt = render(fn, rest, {}, lambda e, o, i: o.add(i, 'Res.ok ()'))
    return 'def dense_set_shift_guard (info : Int) : Res Unit :=\n' + txt

def symshift_guard(tu, t):
    outs = []
    n = 0
    for o in tu.objs:
        if o.get('name') == 'SymShiftInvertHelper' and o['kind'] == 'ClassTemplatePartialSpecializationDecl':
            for c in o['inner']:
                if c.get('kind') != 'FunctionTemplateDecl' or c.get('name') != 'factorize': continue
                m = [x for x in c['inner'] if x['kind'] == 'CXXMethodDecl'][0]
                fn = Fn(tu, m, dict(mode='value', params={'fac': 'other'}, methods={('fac', 'info'): ('info', 'enum')}, ignore_params=['A', 'B', 'sigma']))
                ss = body_of(m)
                if ss[-1]['kind'] != 'ReturnStmt' or fn.callee_name(unwrap(ss[-2])['inner'][0])[0] != 'compute': raise XlateError('factorize: expected fac.compute(...); return ...')
                e, k = fn.expr(ss[-1]['inner'][0], {'fac': ('fac', 'other')})
                outs.append(fn.to_bool(e, k)); n += 1
    if n != 2 or outs[0] != outs[1]: raise XlateError('expected two dense SymShiftInvertHelper specialisations with the same status test')
    res = f'def symshift_factorize_ok (info : Int) : Bool :=\n  {outs[0]}\n\n'
    node = tu.find('SymShiftInvert::set_shift')
    fn = Fn(tu, node, dict(mode='guard', throws=True))
    ss = body_of(node)
    decl = [s for s in ss if s['kind'] == 'DeclStmt' and s['inner'][0].get('name') == 'success']
    ifs = [s for s in ss if s['kind'] == 'IfStmt']
    if len(decl) != 1 or len(ifs) != 1 or ss[-1] is not ifs[0]: raise XlateError('set_shift shape')
    call = unwrap(decl[0]['inner'][0]['inner'][0])
    if call['kind'] != 'CallExpr' or fn.callee_name(call['inner'][0])[0] != 'factorize': raise XlateError('success is not the result of Helper::factorize')
    txt = render(fn, ifs, {'success': ('success', 'bool')}, lambda e, o, i: o.add(i, 'Res.ok ()'))
    res += 'def symshift_set_shift_guard (success : Bool) : Res Unit :=\n' + txt
    return res

# ---------------------------------------------------------------- the prologue of compute(): which members are reset, and whether unconditionally
def _member_write(tu, x):
    """(member, action) if the expression statement x writes a member / calls a method on a member or on this; else None"""
    x = unwrap(x)
    k = x['kind']
    if k in ('BinaryOperator', 'CompoundAssignOperator') and x.get('opcode', '').endswith('='):
        l = unwrap(x['inner'][0])
        if x['opcode'] in ('==', '!=', '<=', '>='): return None
        if l['kind'] == 'MemberExpr': return (l['name'], x['opcode'])
        return None
    if k in ('CallExpr', 'CXXMemberCallExpr'):
        cal = unwrap(x['inner'][0])
        ck = cal['kind']
        if ck in ('MemberExpr', 'CXXDependentScopeMemberExpr'):
            meth = cal.get('name') or cal.get('member')
            obj = unwrap(cal['inner'][0]) if cal.get('inner') else {'kind': 'CXXThisExpr'}
            if obj['kind'] == 'CXXThisExpr': return ('this', meth)
            if obj['kind'] == 'MemberExpr': return (obj['name'], meth)
            return None
        if ck == 'UnresolvedMemberExpr':
            src = tu.src_text(cal).strip()
            return ('this', src.split('(')[0].split('.')[-1].split('>')[-1].strip())
        return None
    return None

def _all_writes(tu, node, acc):
    w = None
    if node.get('kind') in ('BinaryOperator', 'CompoundAssignOperator', 'CallExpr', 'CXXMemberCallExpr'):
        w = _member_write(tu, node)
    if w: acc.append(w)
    for c in node.get('inner', []) or []:
        if isinstance(c, dict): _all_writes(tu, c, acc)
    return acc

def compute_prologue(tu, t):
    """BKLDLT::compute, statements before the pivot loop: the top-level (unconditional) member writes in order, the member writes
    nested under a condition, and the argument text of m_perm.setLinSpaced"""
    node = tu.find('BKLDLT::compute')
    ss = body_of(node)
    fors = [i for i, s in enumerate(ss) if s['kind'] == 'ForStmt']
    if len(fors) != 1: raise XlateError('compute: expected exactly one loop')
    top, cond, args = [], [], None
    for s in ss[:fors[0]]:
        k = s['kind']
        if k == 'DeclStmt': continue
        if k == 'IfStmt':
            parts = s['inner']
            thn = unwrap(parts[1])
            if len(parts) == 2 and (thn['kind'] == 'CXXThrowExpr' or (thn['kind'] == 'CompoundStmt' and all(unwrap(c)['kind'] == 'CXXThrowExpr' for c in thn.get('inner', [])))):
                continue        # argument check that only throws
            _all_writes(tu, s, cond); continue
        if k in ('ForStmt', 'WhileStmt', 'DoStmt', 'SwitchStmt', 'CompoundStmt', 'CXXTryStmt'):
            _all_writes(tu, s, cond); continue
        w = _member_write(tu, s)
        if w is None: raise XlateError('compute prologue: statement not understood: ' + k)
        top.append(w)
        if w == ('m_perm', 'setLinSpaced'):
            src = tu.src_text(unwrap(s)); args = ' '.join(src[src.index('(') + 1: src.rindex(')')].split())
    q = lambda l: '[' + ', '.join(f'("{a}", "{b}")' for a, b in l) + ']'
    # (gen_module puts its own doc comment in front of the first declaration)
    return (f'def compute_prologue : List (String × String) :=\n  {q(top)}\n\n'
            '/-- member writes before the pivot loop that are nested under a condition / loop (argument checks that only throw are not listed) -/\n'
            f'def compute_prologue_conditional : List (String × String) :=\n  {q(cond)}\n\n'
            '/-- the arguments of `m_perm.setLinSpaced(...)` -/\n'
            f'def compute_perm_reset_args : String :=\n  "{args if args is not None else ""}"')

# ---------------------------------------------------------------- complex Hermitian instantiation
def cplx_expr(x, pname):
    """tiny expression emitter for the bodies of ScalarOp<std::complex<RealScalar>>::conj / ::real (std::complex = pair)"""
    while x['kind'] in ('ExprWithCleanups', 'ParenExpr', 'ImplicitCastExpr', 'MaterializeTemporaryExpr'): x = x['inner'][0]
    k = x['kind']
    if k == 'DeclRefExpr':
        if x['referencedDecl']['name'] != pname: raise XlateError('unexpected variable ' + x['referencedDecl']['name'])
        return pname, 'cplx'
    if k == 'CallExpr':
        cal = x['inner'][0]; args = x['inner'][1:]
        if cal['kind'] == 'UnresolvedLookupExpr' and cal.get('name') == 'conj' and len(args) == 1:
            a, ak = cplx_expr(args[0], pname)
            if ak != 'cplx': raise XlateError('conj of a non-complex value')
            return f'(Sc.conj {a})', 'cplx'
        if cal['kind'] in ('CXXDependentScopeMemberExpr', 'MemberExpr') and cal.get('member', cal.get('name')) in ('real', 'imag') and not args:
            a, ak = cplx_expr(cal['inner'][0], pname)
            if ak != 'cplx': raise XlateError('.real()/.imag() of a non-complex value')
            return (f'{a}.1' if cal.get('member', cal.get('name')) == 'real' else f'{a}.2'), 'sc'
        raise XlateError('call not understood in ScalarOp<complex> body')
    if k in ('CXXUnresolvedConstructExpr', 'CXXFunctionalCastExpr', 'CXXTemporaryObjectExpr', 'CXXConstructExpr'):
        ty = x.get('type', {}).get('qualType', ''); args = x.get('inner', [])
        if 'complex<' in ty and len(args) == 2:
            (a, ak), (b, bk) = cplx_expr(args[0], pname), cplx_expr(args[1], pname)
            if ak != 'sc' or bk != 'sc': raise XlateError('complex(re, im) of non-real parts')
            return f'({a}, {b})', 'cplx'
        if 'complex<' not in ty and len(args) == 1:
            return cplx_expr(args[0], pname)[0], 'sc'
        raise XlateError('constructor not understood: ' + ty)
    if k == 'IntegerLiteral': return f'(Sc.ofInt {x["value"]})', 'sc'
    raise XlateError('ScalarOp<complex>: unsupported expression ' + k)

def scalarop_cplx(tu, t):
    spec = [o for o in tu.objs if o.get('name') == 'ScalarOp' and o['kind'] == 'ClassTemplatePartialSpecializationDecl']
    if len(spec) != 1: raise XlateError('expected exactly one partial specialisation of ScalarOp')
    targ = spec[0]['inner'][0].get('type', {}).get('qualType', '')
    if not targ.startswith('complex<'): raise XlateError('ScalarOp specialisation is not for std::complex: ' + targ)
    res = []
    for nm in ('conj', 'real'):
        ms = [c for c in spec[0]['inner'] if c['kind'] == 'CXXMethodDecl' and c.get('name') == nm]
        if len(ms) != 1: raise XlateError('ScalarOp<complex>::' + nm + ' not found')
        ps = [c for c in ms[0]['inner'] if c['kind'] == 'ParmVarDecl']
        if len(ps) != 1: raise XlateError('one parameter expected')
        ss = [s for s in body_of(ms[0]) if not (s['kind'] == 'DeclStmt' and all(d['kind'] == 'UsingDecl' for d in s['inner']))]
        if len(ss) != 1 or ss[0]['kind'] != 'ReturnStmt': raise XlateError('single return expected in ScalarOp<complex>::' + nm)
        e, ek = cplx_expr(ss[0]['inner'][0], ps[0]['name'])
        if ek != 'cplx': raise XlateError('complex result expected')
        res.append(f'def scalarop_{nm}_c{SCH} ({ps[0]["name"]} : α × α) : α × α :=\n  {e}')
    return '\n\n'.join(res)

EIGEN_UPLO = {'Lower': '1', 'Upper': '2'}   # Eigen::UpLoType (Eigen/src/Core/util/Constants.h)

def copy_fast_path(tu, t):
    """the condition under which copy_data takes the std::copy path, as a function of the storage order and uplo"""
    node = tu.find('BKLDLT::copy_data')
    ss = body_of(node)
    ifs = [s for s in ss if s['kind'] == 'IfStmt']
    if len(ifs) != 1 or len(ifs[0]['inner']) != 3 or ss[-1] is not ifs[0]: raise XlateError('copy_data: expected a final if/else')
    locs = {}
    def ex(x):
        while x['kind'] in ('ParenExpr', 'ImplicitCastExpr', 'ExprWithCleanups'): x = x['inner'][0]
        k = x['kind']
        if k in ('CXXDependentScopeMemberExpr', 'DependentScopeDeclRefExpr'):
            if x.get('member', x.get('name')) == 'IsRowMajor' or 'IsRowMajor' in tu.src_text(x): return 'rowMajor', 'bool'
            raise XlateError('unknown dependent name')
        if k == 'DeclRefExpr':
            rd = x['referencedDecl']
            if rd['kind'] == 'ParmVarDecl' and rd['name'] == 'uplo': return 'uplo', 'int'
            if rd['kind'] == 'EnumConstantDecl' and rd['name'] in EIGEN_UPLO: return EIGEN_UPLO[rd['name']], 'int'
            if rd['kind'] == 'VarDecl' and rd['name'] in locs: return locs[rd['name']]
            raise XlateError('copy_data condition: unexpected name ' + rd.get('name', '?'))
        if k == 'UnaryOperator' and x['opcode'] == '!':
            a, ak = ex(x['inner'][0])
            if ak != 'bool': raise XlateError('! of non-bool')
            return f'(!{a})', 'bool'
        if k == 'BinaryOperator' and x['opcode'] in ('&&', '||'):
            (a, ak), (b, bk) = ex(x['inner'][0]), ex(x['inner'][1])
            if ak != 'bool' or bk != 'bool': raise XlateError('logical op on non-bool')
            return f'({a} {x["opcode"]} {b})', 'bool'
        if k == 'BinaryOperator' and x['opcode'] in ('==', '!='):
            (a, ak), (b, bk) = ex(x['inner'][0]), ex(x['inner'][1])
            if ak != bk: raise XlateError('comparison of different kinds')
            if ak == 'bool': return f'({a} {x["opcode"]} {b})', 'bool'
            return f'(decide ({a} {"=" if x["opcode"] == "==" else "≠"} {b}))', 'bool'
        if k == 'ConditionalOperator':
            (c, ck), (a, ak), (b, bk) = ex(x['inner'][0]), ex(x['inner'][1]), ex(x['inner'][2])
            if ck != 'bool' or ak != bk: raise XlateError('conditional operator kinds')
            return f'(if {c} then {a} else {b})', ak
        if k == 'CXXBoolLiteralExpr': return ('true' if x['value'] else 'false'), 'bool'
        raise XlateError('copy_data condition: unsupported expression ' + k)
    for s in ss[:-1]:
        if s['kind'] != 'DeclStmt': raise XlateError('copy_data: unexpected statement before the branch: ' + s['kind'])
        for vd in s['inner']:
            ty = vd.get('type', {}).get('qualType', '')
            if ty in ('const bool', 'bool', 'const int', 'int') and vd.get('inner'):
                locs[vd['name']] = ex(vd['inner'][0])
            elif vd.get('name') != 'src': raise XlateError('copy_data: unexpected local ' + vd.get('name', '?'))
    c, ck = ex(ifs[0]['inner'][0])
    if ck != 'bool': raise XlateError('condition is not boolean')
    return f'def copy_fast_path (rowMajor : Bool) (uplo : Int) : Bool :=\n  {c}'

def solve2_h(tu, t):
    node = tu.find('BKLDLT::solve_inplace_2x2')
    txt, _ = Fn(tu, node, dict(mode='outparams', out=['b1', 'b2'], out_is_inout=True, calls=CONJ_H, ret_type='α × α')).translate('solve_inplace_2x2_h')
    if txt.count('[Sc α] (') != 1: raise XlateError('signature shape')
    return txt.replace('[Sc α] (', '[Sc α] (cj rl : α → α) (', 1)

# ---------------------------------------------------------------- statement tables of solve_inplace / solve (control skeleton)
# Rendered from the clang AST ALONE (node kinds, operator codes, declared names, literal values): comments, white space, line breaks,
# redundant parentheses and implicit casts do not enter.  The only source characters read are the single identifier token of an
# `UnresolvedMemberExpr` (a call of a member function of the dependent class: `coeff`, `diag_coeff`, ...), whose name clang's JSON omits.
_TRANSPARENT = ('ImplicitCastExpr', 'ParenExpr', 'ExprWithCleanups', 'MaterializeTemporaryExpr', 'CXXBindTemporaryExpr', 'ConstantExpr', 'FullExpr')
_ASSIGN_OPS = ('=', '+=', '-=', '*=', '/=', '%=', '&=', '|=', '^=', '<<=', '>>=')

def _kids(n): return [c for c in (n.get('inner') or []) if isinstance(c, dict) and c.get('kind') not in ('FullComment', 'ParagraphComment', 'TextComment')]

def _tok(tu, n):
    e = n.get('range', {}).get('end', {})
    if 'offset' not in e or 'tokLen' not in e: raise XlateError('node without a token range: ' + str(n.get('kind')))
    src = open(astdump.os.path.join(astdump.INC, 'Spectra', tu.header)).read()
    t = src[e['offset']: e['offset'] + e['tokLen']]
    if not t.replace('_', 'a').isalnum(): raise XlateError('not an identifier token: ' + repr(t))
    return t

def canon(tu, n):
    """canonical text of an expression, from the AST only"""
    if not isinstance(n, dict) or not n.get('kind'): return ''
    k = n['kind']; ch = _kids(n)
    if k in _TRANSPARENT and len(ch) == 1: return canon(tu, ch[0])
    if k == 'DeclRefExpr': return n['referencedDecl'].get('name', '?')
    if k == 'CXXThisExpr': return 'this'
    if k == 'MemberExpr':
        base = canon(tu, ch[0]) if ch else 'this'
        return n.get('name', '?') if base == 'this' else base + '.' + n.get('name', '?')
    if k == 'CXXDependentScopeMemberExpr':
        base = canon(tu, ch[0]) if ch else 'this'
        return (n.get('member', '?') if base == 'this' else base + '.' + n.get('member', '?'))
    if k == 'DependentScopeDeclRefExpr': return '::' + _tok(tu, n)
    if k == 'UnresolvedLookupExpr': return n.get('name', '?')
    if k == 'UnresolvedMemberExpr': return _tok(tu, n)
    if k in ('IntegerLiteral', 'FloatingLiteral', 'StringLiteral', 'CharacterLiteral'): return str(n.get('value'))
    if k == 'CXXBoolLiteralExpr': return 'true' if n.get('value') else 'false'
    if k == 'CXXNullPtrLiteralExpr': return 'nullptr'
    if k in ('BinaryOperator', 'CompoundAssignOperator') and len(ch) == 2: return '(' + canon(tu, ch[0]) + ' ' + n['opcode'] + ' ' + canon(tu, ch[1]) + ')'
    if k == 'UnaryOperator' and len(ch) == 1: return '(' + canon(tu, ch[0]) + n['opcode'] + ')' if n.get('isPostfix') else '(' + n['opcode'] + canon(tu, ch[0]) + ')'
    if k == 'ConditionalOperator' and len(ch) == 3: return '(' + canon(tu, ch[0]) + ' ? ' + canon(tu, ch[1]) + ' : ' + canon(tu, ch[2]) + ')'
    if k == 'ArraySubscriptExpr' and len(ch) == 2: return canon(tu, ch[0]) + '[' + canon(tu, ch[1]) + ']'
    if k == 'CXXOperatorCallExpr' and ch:
        op = canon(tu, ch[0]); args = [canon(tu, c) for c in ch[1:]]
        if op == 'operator[]' and len(args) == 2: return args[0] + '[' + args[1] + ']'
        if op == 'operator()' and args: return args[0] + '(' + ', '.join(args[1:]) + ')'
        if op.startswith('operator') and len(args) == 2: return '(' + args[0] + ' ' + op[len('operator'):] + ' ' + args[1] + ')'
        if op.startswith('operator') and len(args) == 1: return '(' + op[len('operator'):] + args[0] + ')'
        return op + '(' + ', '.join(args) + ')'
    if k in ('CallExpr', 'CXXMemberCallExpr') and ch: return canon(tu, ch[0]) + '(' + ', '.join(canon(tu, c) for c in ch[1:]) + ')'
    if k in ('ParenListExpr', 'InitListExpr'): return '(' + ', '.join(canon(tu, c) for c in ch) + ')'
    if k == 'CXXThrowExpr': return 'throw ' + (canon(tu, ch[0]) if ch else '')
    if k in ('CXXFunctionalCastExpr', 'CXXConstructExpr', 'CXXUnresolvedConstructExpr', 'CXXTemporaryObjectExpr', 'CXXStaticCastExpr', 'CStyleCastExpr', 'CXXConstCastExpr', 'CXXReinterpretCastExpr'):
        inner = ', '.join(canon(tu, c) for c in ch)
        if k == 'CXXConstructExpr' and len(ch) == 1: return inner            # copy/conversion construction around a single expression
        return n.get('type', {}).get('qualType', '?') + '(' + inner + ')'
    return k + '<' + ', '.join(canon(tu, c) for c in ch) + '>'              # anything else: still shown, by node kind

def flow_rows(tu, node):
    """flatten a function body into rows (depth, kind, text); kinds: if / else / for / while / do / switch / case / decl / assign / call / expr / continue / break /
    return / goto / label / throw / try"""
    rows = []
    def stmt(n, d):
        if not isinstance(n, dict) or not n.get('kind'): return
        k = n['kind']; ch = _kids(n)
        if k in ('NullStmt',): return
        if k == 'CompoundStmt':
            for c in ch: stmt(c, d)
        elif k in _TRANSPARENT and len(ch) == 1: stmt(ch[0], d)
        elif k == 'IfStmt':
            parts = [c for c in (n.get('inner') or []) if isinstance(c, dict)]
            if n.get('hasInit') or n.get('hasVar'): raise XlateError('if with an init statement / condition variable')
            rows.append((d, 'if', canon(tu, parts[0]))); stmt(parts[1], d + 1)
            if len(parts) > 2: rows.append((d, 'else', '')); stmt(parts[2], d + 1)
        elif k == 'ForStmt':
            parts = n.get('inner') or []
            if len(parts) != 5: raise XlateError('for statement shape')
            def hd(x):
                if not isinstance(x, dict) or not x.get('kind'): return ''
                if x['kind'] == 'DeclStmt': return ', '.join(v.get('name', '?') + ' := ' + (canon(tu, _kids(v)[0]) if _kids(v) else '') for v in _kids(x))
                return canon(tu, x)
            rows.append((d, 'for', hd(parts[0]) + ' ; ' + hd(parts[2]) + ' ; ' + hd(parts[3]))); stmt(parts[4], d + 1)
        elif k == 'WhileStmt': rows.append((d, 'while', canon(tu, ch[0]))); stmt(ch[-1], d + 1)
        elif k == 'DoStmt': rows.append((d, 'do', canon(tu, ch[-1]))); stmt(ch[0], d + 1)
        elif k == 'CXXForRangeStmt': rows.append((d, 'for', 'range')); stmt(ch[-1], d + 1)
        elif k == 'SwitchStmt': rows.append((d, 'switch', canon(tu, ch[0]))); stmt(ch[-1], d + 1)
        elif k in ('CaseStmt', 'DefaultStmt'): rows.append((d, 'case', canon(tu, ch[0]) if k == 'CaseStmt' else 'default')); stmt(ch[-1], d)
        elif k == 'BreakStmt': rows.append((d, 'break', ''))
        elif k == 'ContinueStmt': rows.append((d, 'continue', ''))
        elif k == 'GotoStmt': rows.append((d, 'goto', ''))
        elif k == 'LabelStmt': rows.append((d, 'label', n.get('name', ''))); [stmt(c, d) for c in ch]
        elif k == 'ReturnStmt': rows.append((d, 'return', canon(tu, ch[0]) if ch else ''))
        elif k == 'CXXTryStmt': rows.append((d, 'try', '')); [stmt(c, d + 1) for c in ch]
        elif k == 'CXXCatchStmt': rows.append((d, 'catch', '')); [stmt(c, d + 1) for c in ch]
        elif k == 'DeclStmt':
            for v in ch:
                if v.get('kind') in ('UsingDecl', 'TypeAliasDecl', 'TypedefDecl', 'UsingDirectiveDecl', 'StaticAssertDecl'): continue
                if v.get('kind') != 'VarDecl': raise XlateError('unsupported declaration ' + str(v.get('kind')))
                rows.append((d, 'decl', v.get('name', '?') + ' := ' + (canon(tu, _kids(v)[0]) if _kids(v) else '')))
        elif k == 'CXXThrowExpr': rows.append((d, 'throw', canon(tu, ch[0]) if ch else ''))
        elif k in ('BinaryOperator', 'CompoundAssignOperator') and n.get('opcode') in _ASSIGN_OPS: rows.append((d, 'assign', canon(tu, n)))
        elif k in ('CallExpr', 'CXXMemberCallExpr'): rows.append((d, 'call', canon(tu, n)))
        elif k == 'CXXOperatorCallExpr':
            op = canon(tu, ch[0]) if ch else ''
            rows.append((d, 'assign' if op in tuple('operator' + o for o in _ASSIGN_OPS) else 'expr', canon(tu, n)))
        else: rows.append((d, 'expr', canon(tu, n)))
    body = [c for c in node.get('inner', []) if isinstance(c, dict) and c.get('kind') == 'CompoundStmt']
    if len(body) != 1: raise XlateError('no body')
    stmt(body[0], 0)
    return rows

def _names_in(tu, n, acc):
    """every declared name / member / dependent member / unresolved callee an expression refers to"""
    if not isinstance(n, dict): return acc
    k = n.get('kind')
    if k == 'DeclRefExpr': acc.append(n['referencedDecl'].get('name', '?'))
    elif k == 'MemberExpr': acc.append(n.get('name', '?'))
    elif k == 'CXXDependentScopeMemberExpr': acc.append(n.get('member', '?'))
    elif k == 'UnresolvedLookupExpr': acc.append(n.get('name', '?'))
    elif k in ('UnresolvedMemberExpr', 'DependentScopeDeclRefExpr'): acc.append(_tok(tu, n))
    for c in _kids(n): _names_in(tu, c, acc)
    return acc

def _lq(x): return '"' + x.replace('\\', '\\\\').replace('"', '\\"') + '"'

def solve_flow(tu, t):
    out = []
    for lean, path in (('solve_inplace_flow', 'BKLDLT::solve_inplace'), ('solve_flow', 'BKLDLT::solve')):
        node = strip_d2b(tu.find(path))
        rows = flow_rows(tu, node)
        out.append(f'def {lean} : List (Nat × String × String) :=\n  [' + ',\n   '.join(f'({d}, {_lq(k)}, {_lq(x)})' for d, k, x in rows) + ']')
        if lean == 'solve_inplace_flow':
            # the names every branch / loop condition of solve_inplace reads (loop headers incl. init and increment)
            names = []
            def conds(n):
                if not isinstance(n, dict): return
                k = n.get('kind'); parts = [c for c in (n.get('inner') or [])]
                if k == 'IfStmt': _names_in(tu, parts[0], names)
                elif k == 'ForStmt':
                    for x in parts[:4]: _names_in(tu, x, names)
                elif k in ('WhileStmt', 'SwitchStmt'): _names_in(tu, parts[0], names)
                elif k == 'DoStmt': _names_in(tu, parts[-1], names)
                elif k == 'ConditionalOperator': _names_in(tu, parts[0], names)
                for c in parts: conds(c)
            conds(node)
            uniq = sorted(set(names))
            out.append('/-- every name read by an `if` / loop header / `?:` condition of `solve_inplace` -/\n'
                       'def solve_inplace_cond_names : List String :=\n  [' + ', '.join(_lq(x) for x in uniq) + ']')
            # parameters (name, by-reference?) and constness of the method
            ps = [c for c in node.get('inner', []) if c.get('kind') == 'ParmVarDecl']
            out.append('def solve_inplace_params : List String :=\n  [' + ', '.join(_lq(c.get('name', '?')) for c in ps) + ']')
    return '\n\n'.join(out)

BK = [
    T('scalarop_conj', 'ScalarOp::conj', H, mode='value', ret_kind='sc', ret_type='α'),
    T('scalarop_real', 'ScalarOp::real', H, mode='value', ret_kind='sc', ret_type='α'),
    T('solve_inplace_2x2', 'BKLDLT::solve_inplace_2x2', H, mode='outparams', out=['b1', 'b2'], out_is_inout=True, calls=CONJ, ret_type='α × α'),
    T('inverse_inplace_2x2', 'BKLDLT::inverse_inplace_2x2', H, mode='outparams', out=['e11', 'e21', 'e22'], out_is_inout=True, calls=CONJ,
      call_hook=swap_hook, ret_type='α × α × α'),
    dict(lean='compress_permutation', header=H, custom=compress_permutation, path='BKLDLT::compress_permutation'),
    dict(lean='ge1_status', header=H, custom=ge_status('1x1'), path='BKLDLT::gaussian_elimination_1x1'),
    dict(lean='ge2_status', header=H, custom=ge_status('2x2'), path='BKLDLT::gaussian_elimination_2x2'),
    dict(lean='compute_status', header=H, custom=compute_status, path='BKLDLT::compute'),
    dict(lean='compute_prologue', header=H, custom=compute_prologue, path='BKLDLT::compute'),
    dict(lean='scalarop_cplx', header=H, custom=scalarop_cplx, path='ScalarOp<std::complex<RealScalar>>::conj / ::real'),
    dict(lean='copy_fast_path', header=H, custom=copy_fast_path, path='BKLDLT::copy_data'),
    dict(lean='solve_inplace_2x2_h', header=H, custom=solve2_h, path='BKLDLT::solve_inplace_2x2'),
    dict(lean='ge2_status_h', header=H, custom=ge_status('2x2', CONJ_H, SCH_H, '_h'), path='BKLDLT::gaussian_elimination_2x2'),
    dict(lean='solve_flow', header=H, custom=solve_flow, path='BKLDLT::solve_inplace / ::solve : statement tables'),
    dict(lean='dense_set_shift_guard', header='MatOp/DenseSymShiftSolve.h', custom=dense_guard, path='DenseSymShiftSolve::set_shift'),
    dict(lean='symshift_guard', header='MatOp/SymShiftInvert.h', custom=symshift_guard, path='SymShiftInvert::set_shift'),
]

MODULES = [('BK', BK, '')]
