"""C16: object model of PartialSVDSolver / SVDMatOp / SVDTallMatOp / SVDWideMatOp, regenerated from the clang AST on every run.

  Gen.SVDMem.dataMembers     every data member: (class, name, declared type with the class's own aliases resolved, kind, const, mutable);
                             kind = value | reference | pointer | handle (Eigen::Ref / Eigen::Map / reference_wrapper / smart pointer / std::function)
  Gen.SVDMem.methodParams    every parameter of every constructor / method with a body: (class, method, parameter, resolved type, kind)
  Gen.SVDMem.svdMethods      every constructor / destructor / method the classes declare: (class, signature, const, has a body)
  Gen.SVDMem.memberUses      every occurrence of a data member in a constructor / destructor / method, in source order:
                             (class, method, member, use, arguments as written, conditions of the enclosing if-branches, inside a loop)
                             use: `init` (constructor initializer), `=`/`+=`/.. (left side of an assignment), `noalias=`, `.f` / `->f`
                             (member f accessed / called on it), `delete`, `*` (dereferenced), `read` (anything else)
  Gen.SVDMem.specialMembers  the copy/move constructors, copy/move assignments and destructors the classes DECLARE: (class, which, how)

The theorems `C16.c16_members_nonowning`, `c16_accessor_writes`, `c16_compute_resets_cache` (Properties/C16.lean) are closed facts about
these tables, decided by the kernel: a new reference / pointer member, a parameter kept by reference, an accessor that writes another
member, a cache refill under another condition, or a compute() that no longer empties the cache first changes a table and breaks them.
"""
import os, re
import astdump
from xlate import XlateError

HDR = 'contrib/PartialSVDSolver.h'
CLASSES = ['SVDMatOp', 'SVDTallMatOp', 'SVDWideMatOp', 'PartialSVDSolver']
LOOPS = ('ForStmt', 'WhileStmt', 'DoStmt', 'CXXForRangeStmt')
ASSIGN = ('=', '+=', '-=', '*=', '/=', '%=', '&=', '|=', '^=', '<<=', '>>=')

def _lstr(s): return '"' + s.replace('\\', '\\\\').replace('"', '\\"') + '"'
def _b(x): return 'true' if x else 'false'

def _src(): return open(os.path.join(astdump.INC, 'Spectra', HDR)).read()

def _text(src, node):
    r = node.get('range', {}); b = r.get('begin', {}); e = r.get('end', {})
    b = b.get('expansionLoc', b); e = e.get('expansionLoc', e)
    if 'offset' not in b or 'offset' not in e: raise XlateError('no source range for a ' + str(node.get('kind')))
    return re.sub(r'\s+', ' ', src[b['offset']: e['offset'] + e.get('tokLen', 0)]).strip()

def _record(tu, cls):
    for o in tu.objs:
        if o.get('kind') == 'ClassTemplateDecl' and o.get('name') == cls:
            rec = [c for c in o.get('inner', []) if c.get('kind') == 'CXXRecordDecl' and c.get('name') == cls]
            if rec: return rec[0]
    raise XlateError('class ' + cls + ' not found')

def _aliases(rec):
    al = {}
    for c in rec.get('inner', []):
        if c.get('kind') in ('TypeAliasDecl', 'TypedefDecl'): al[c['name']] = c.get('type', {}).get('qualType', '')
    return al

def _resolve(qt, cls, al):
    """drop the `Spectra::Class::` qualification and replace the class's own aliases by what they stand for (an alias name that is
    itself qualified, e.g. the `Index` of `Eigen::Index`, is not an alias of the class)"""
    def unq(x): return re.sub(r'\b(Spectra::)?' + cls + r'::', '', x).replace('Spectra::', '')
    q = unq(qt)
    if al:
        pat = re.compile(r'(?<![:\w])(' + '|'.join(map(re.escape, al)) + r')\b')
        for _ in range(6):
            q2 = pat.sub(lambda m: unq(al[m.group(1)]), q)
            if q2 == q: break
            q = q2
    return re.sub(r'\s+', ' ', q).strip()

HANDLES = ('Eigen::Ref<', 'Eigen::Map<', 'std::reference_wrapper<', 'std::shared_ptr<', 'std::unique_ptr<', 'std::weak_ptr<', 'std::function<',
           'Ref<', 'Map<', 'reference_wrapper<', 'shared_ptr<', 'unique_ptr<', 'function<')

def _kind(resolved):
    q = resolved.strip()
    if q.endswith('&'): return 'reference'
    if q.endswith('*') or q.endswith('* const'): return 'pointer'
    core = re.sub(r'^(const|volatile|typename)\s+', '', q)
    core = re.sub(r'^(const|volatile|typename)\s+', '', core)
    if core.startswith(HANDLES): return 'handle'
    return 'value'

def _is_const(resolved):
    q = resolved.strip()
    if q.endswith('&'): return False           # a reference member is not re-seatable anyway; constness of the referee is in the type text
    if q.endswith('* const'): return True
    if q.endswith('*'): return False
    return q.startswith('const ')

def _sig(m, cls, al):
    params = [c for c in m.get('inner', []) if c.get('kind') == 'ParmVarDecl']
    name = m.get('name')
    if m.get('kind') == 'CXXConstructorDecl': name = cls
    elif m.get('kind') == 'CXXDestructorDecl': name = '~' + cls
    qt = m.get('type', {}).get('qualType', '')
    const = bool(re.search(r'\)\s*const\b', qt))
    def short(p):   # parameter types as written (aliases kept), without the class qualification
        return re.sub(r'\b(Spectra::)?' + cls + r'::', '', p.get('type', {}).get('qualType', '')).replace('Spectra::', '')
    return name + '(' + ', '.join(short(p) for p in params) + ')' + (' const' if const else ''), const, params

def _methods(rec):
    out = []
    for c in rec.get('inner', []):
        if c.get('kind') in ('CXXMethodDecl', 'CXXConstructorDecl', 'CXXDestructorDecl') and not c.get('isImplicit'): out.append(c)
        elif c.get('kind') == 'FunctionTemplateDecl':
            out += [x for x in c.get('inner', []) if x.get('kind') in ('CXXMethodDecl', 'CXXConstructorDecl')]
    return out

def _walk_ctx(n, f, guards=(), loop=False, parents=()):
    """pre-order walk that knows the conditions of the enclosing if-branches (not for the condition itself), catch handlers and loops"""
    f(n, guards, loop, parents)
    kids = [c for c in n.get('inner', []) if isinstance(c, dict) and 'kind' in c]
    k = n.get('kind')
    if k == 'IfStmt' and not n.get('hasInit') and not n.get('hasVar') and len(kids) >= 2:
        _walk_ctx(kids[0], f, guards, loop, parents + (n,))
        _walk_ctx(kids[1], f, guards + (('then', kids[0]),), loop, parents + (n,))
        for e in kids[2:]: _walk_ctx(e, f, guards + (('else', kids[0]),), loop, parents + (n,))
        return
    if k == 'ConditionalOperator' and len(kids) == 3:
        _walk_ctx(kids[0], f, guards, loop, parents + (n,))
        _walk_ctx(kids[1], f, guards + (('then', kids[0]),), loop, parents + (n,))
        _walk_ctx(kids[2], f, guards + (('else', kids[0]),), loop, parents + (n,))
        return
    if k in ('IfStmt', 'SwitchStmt'):
        for c in kids: _walk_ctx(c, f, guards + (('then', n),), loop, parents + (n,))
        return
    if k == 'CXXCatchStmt':
        for c in kids: _walk_ctx(c, f, guards + (('catch', n),), loop, parents + (n,))
        return
    for c in kids: _walk_ctx(c, f, guards, loop or k in LOOPS, parents + (n,))

def svdmem(tu, t):
    src = _src()
    members = []; params_t = []; meths = []; uses = []; special = []
    for cls in CLASSES:
        rec = _record(tu, cls); al = _aliases(rec)
        fields = [c for c in rec.get('inner', []) if c.get('kind') == 'FieldDecl']
        fnames = {f_['name'] for f_ in fields}
        for f_ in fields:
            res = _resolve(f_.get('type', {}).get('qualType', ''), cls, al)
            members.append((cls, f_['name'], res, _kind(res), _is_const(res), bool(f_.get('mutable'))))
        # static data members / nested records would be VarDecl / CXXRecordDecl: none is expected
        for c in rec.get('inner', []):
            if c.get('kind') == 'VarDecl': members.append((cls, c['name'], 'static ' + _resolve(c.get('type', {}).get('qualType', ''), cls, al), 'static', False, False))
        def gtext(guards):
            out = []
            for b, c in guards:
                if b == 'catch': out.append('catch')
                else: out.append(('' if b == 'then' else 'not ') + '(' + _text(src, c) + ')')
            return ' && '.join(out)
        for m in _methods(rec):
            sig, const, params = _sig(m, cls, al)
            body = [c for c in m.get('inner', []) if c.get('kind') == 'CompoundStmt']
            how = 'deleted' if m.get('explicitlyDeleted') else ('defaulted' if m.get('explicitlyDefaulted') else ('pure' if m.get('pure') else ('body' if body else 'declared')))
            meths.append((cls, sig, const, how))
            # copy / move constructors and assignments, destructors the class declares itself
            ptypes = [re.sub(r'\b(Spectra::)?' + cls + r'::', '', p.get('type', {}).get('qualType', '')).replace('Spectra::', '') for p in params]
            selfref = r'^(const )?' + cls + r'(<.*>)? &&?$'
            if m.get('kind') == 'CXXDestructorDecl': special.append((cls, 'destructor', how))
            elif m.get('kind') == 'CXXConstructorDecl' and len(ptypes) == 1 and re.search(selfref, ptypes[0]):
                special.append((cls, 'move-constructor' if ptypes[0].endswith('&&') else 'copy-constructor', how))
            elif m.get('name') == 'operator=' and len(ptypes) == 1 and re.search(selfref, ptypes[0]):
                special.append((cls, 'move-assignment' if ptypes[0].endswith('&&') else 'copy-assignment', how))
            for p in ([] if how == 'deleted' else params):     # a deleted function takes nothing from anybody
                res = _resolve(p.get('type', {}).get('qualType', ''), cls, al)
                params_t.append((cls, sig, p.get('name', ''), res, _kind(res)))
            # constructor initializers
            for ci in [c for c in m.get('inner', []) if c.get('kind') == 'CXXCtorInitializer']:
                tgt = ci.get('anyInit', {}).get('name') or ci.get('baseInit', {}).get('qualType', '(base)')
                args = ', '.join(_text(src, a) for e in ci.get('inner', []) for a in (e.get('inner', []) if e.get('kind') in ('ParenListExpr', 'InitListExpr') else [e]) if isinstance(a, dict) and 'range' in a)
                uses.append((cls, sig, tgt, 'init', args, '', False))
                def initvisit(n, guards, loop, parents):
                    if n.get('kind') == 'MemberExpr' and n.get('name') in fnames and n.get('inner') and n['inner'][0].get('kind') == 'CXXThisExpr':
                        uses.append((cls, sig, n['name'], 'read', 'in the initializer of ' + str(tgt), gtext(guards), loop))
                for e in ci.get('inner', []): _walk_ctx(e, initvisit)
            if not body: continue
            def visit(n, guards, loop, parents):
                if not (n.get('kind') == 'MemberExpr' and n.get('name') in fnames and n.get('inner') and n['inner'][0].get('kind') == 'CXXThisExpr'): return
                name = n['name']
                i = len(parents) - 1
                while i >= 0 and parents[i].get('kind') in ('ParenExpr', 'ImplicitCastExpr'): i -= 1
                par = parents[i] if i >= 0 else {}
                child = parents[i + 1] if i + 1 < len(parents) else n
                pk = par.get('kind'); use = 'read'; args = ''
                kids = [c for c in par.get('inner', []) if isinstance(c, dict) and 'kind' in c]
                if pk in ('CXXDependentScopeMemberExpr', 'MemberExpr') and kids and kids[0] is child:
                    mem = par.get('member', par.get('name')); use = ('->' if par.get('isArrow') else '.') + str(mem)
                    call = parents[i - 1] if i >= 1 else {}
                    ck = [c for c in call.get('inner', []) if isinstance(c, dict) and 'kind' in c]
                    if call.get('kind') in ('CallExpr', 'CXXMemberCallExpr') and ck and ck[0] is par:
                        args = ', '.join(_text(src, a) for a in ck[1:])
                        up = parents[i - 2] if i >= 2 else {}
                        uk = [c for c in up.get('inner', []) if isinstance(c, dict) and 'kind' in c]
                        if mem == 'noalias' and up.get('kind') in ('BinaryOperator', 'CompoundAssignOperator', 'CXXOperatorCallExpr') and uk and uk[0] is call:
                            use = 'noalias' + up.get('opcode', '='); args = _text(src, uk[1])
                    else: use += ' (not called)'
                elif pk in ('BinaryOperator', 'CompoundAssignOperator') and par.get('opcode') in ASSIGN and kids and kids[0] is child:
                    use = par.get('opcode'); args = _text(src, kids[1])
                elif pk == 'CXXOperatorCallExpr' and len(kids) >= 2 and kids[1] is child and _text(src, kids[0]) in ASSIGN:
                    use = _text(src, kids[0]); args = ', '.join(_text(src, a) for a in kids[2:])
                elif pk == 'UnaryOperator' and par.get('opcode') in ('++', '--'):
                    use = par.get('opcode')
                elif pk == 'UnaryOperator' and par.get('opcode') == '*':
                    use = '*'; up = parents[i - 1] if i >= 1 else {}
                    j = i - 1
                    while j >= 0 and parents[j].get('kind') in ('ParenExpr', 'ImplicitCastExpr', 'ParenListExpr'): j -= 1
                    args = _text(src, parents[j]) if j >= 0 and 'range' in parents[j] else ''
                elif pk == 'UnaryOperator' and par.get('opcode') == '&':
                    use = '&'; args = _text(src, par)
                elif pk == 'CXXDeleteExpr':
                    use = 'delete'
                elif pk == 'ArraySubscriptExpr' and kids and kids[0] is child:
                    use = '[]'; args = _text(src, kids[1])
                    up = parents[i - 1] if i >= 1 else {}
                    uk = [c for c in up.get('inner', []) if isinstance(c, dict) and 'kind' in c]
                    if up.get('kind') in ('BinaryOperator', 'CompoundAssignOperator') and up.get('opcode') in ASSIGN and uk and uk[0] is par: use = '[]' + up.get('opcode')
                else:
                    args = _text(src, par) if 'range' in par and pk not in ('CompoundStmt',) else ''
                uses.append((cls, sig, name, use, args, gtext(guards), loop))
            _walk_ctx(body[0], visit)
    if not members: raise XlateError('no data members found')
    s = '-- (class, data member, declared type with the class\'s own aliases resolved, kind: value | reference | pointer | handle, const, mutable), in declaration order\n'
    s += 'def dataMembers : List (String × String × String × String × Bool × Bool) := [\n' + ',\n'.join(
        '  (' + ', '.join(_lstr(x) for x in u[:4]) + ', ' + _b(u[4]) + ', ' + _b(u[5]) + ')' for u in members) + ']\n\n'
    s += '-- (class, constructor / destructor / method with its parameter types as written, const, body | pure | declared | deleted | defaulted)\n'
    s += 'def svdMethods : List (String × String × Bool × String) := [\n' + ',\n'.join(
        '  (' + _lstr(u[0]) + ', ' + _lstr(u[1]) + ', ' + _b(u[2]) + ', ' + _lstr(u[3]) + ')' for u in meths) + ']\n\n'
    s += '-- (class, method, parameter, resolved type, kind)\n'
    s += 'def methodParams : List (String × String × String × String × String) := [\n' + ',\n'.join('  (' + ', '.join(_lstr(x) for x in u) + ')' for u in params_t) + ']\n\n'
    s += '-- (class, method, data member, use, arguments / right-hand side / enclosing expression as written, conditions of the enclosing if-branches and catch handlers ("" = unconditional), inside a loop), in source order\n'
    s += 'def memberUses : List (String × String × String × String × String × String × Bool) := [\n' + ',\n'.join(
        '  (' + ', '.join(_lstr(x) for x in u[:6]) + ', ' + _b(u[6]) + ')' for u in uses) + ']\n\n'
    s += '-- copy / move constructors, copy / move assignments and destructors the classes declare themselves: (class, which, body | deleted | defaulted | declared)\n'
    s += 'def specialMembers : List (String × String × String) := [' + ', '.join('(' + ', '.join(_lstr(x) for x in u) + ')' for u in special) + ']\n'
    return s

SVDMEM = [dict(lean='svdmem', header=HDR, custom=svdmem, path='(object model of PartialSVDSolver / SVDMatOp / SVDTallMatOp / SVDWideMatOp)')]

MODULES = [('SVDMem', SVDMEM, '')]
