"""C05: the statements of HermEigsBase::compute / GenEigsBase::compute AFTER the restart loop (flag refresh condition, final
sort call, iteration counter, status, return value) -> module Gen.Status, regenerated on every run.  The loop itself and the
prologue are translated by tgt_c13.py (`Gen.Restart.*ComputeSkel_*`)."""
from xlate import Fn, XlateError

def _strip(x):
    while x.get('kind') in ('ExprWithCleanups', 'ParenExpr', 'ImplicitCastExpr', 'MaterializeTemporaryExpr'): x = x['inner'][0]
    return x

def _calls(x, acc):
    if not isinstance(x, dict): return acc
    if x.get('kind') in ('CXXMemberCallExpr', 'CallExpr'):
        c = x['inner'][0]
        while c.get('kind') in ('ImplicitCastExpr', 'ParenExpr'): c = c['inner'][0]
        nm = c.get('member') or c.get('name') or (c.get('referencedDecl') or {}).get('name')
        if not nm and c.get('kind') == 'UnresolvedLookupExpr': nm = c.get('name')
        if nm: acc.append(nm)
    for cc in x.get('inner', []): _calls(cc, acc)
    return acc

def compute_tail(tu, t):
    node = tu.find(t['path'], 0)
    fn = Fn(tu, node, dict(mode='value', members={'m_ncv': 'int', 'm_nev': 'int', 'm_niter': 'int', 'm_info': 'enum'}))
    body = [c for c in node['inner'] if c['kind'] == 'CompoundStmt'][0]['inner']
    fors = [s for s in body if s['kind'] == 'ForStmt']
    if len(fors) != 1: raise XlateError('compute: expected exactly one loop')
    post = [s for s in body[body.index(fors[0]) + 1:] if s.get('kind') not in ('NullStmt',)]
    env = {'maxit': ('maxit', 'int'), 'nconv': ('nconv', 'int'), 'i': ('i', 'int'), 'm_niter': ('m_niter', 'int'), 'm_nev': ('m_nev', 'int')}
    if len(post) != 5: raise XlateError(f'compute: expected 5 statements after the loop (refresh-if, sort_ritzpair, m_niter, m_info, return), found {len(post)}')
    s_if, s_sort, s_niter, s_info, s_ret = post
    # 1. `if (i >= maxit) nconv = num_converged(tol);`
    if s_if['kind'] != 'IfStmt' or len(s_if['inner']) != 2: raise XlateError('compute: first statement after the loop is not a plain if')
    cond, _ = fn.expr(s_if['inner'][0], env)
    thn = fn.body_list(s_if['inner'][1])
    if len(thn) != 1 or _strip(thn[0]).get('kind') != 'BinaryOperator' or _strip(thn[0]).get('opcode') != '=': raise XlateError('compute: refresh branch is not a single assignment')
    asg = _strip(thn[0]); lhs = _strip(asg['inner'][0])
    if (lhs.get('referencedDecl') or {}).get('name') != 'nconv' or _calls(asg['inner'][1], []) != ['num_converged']:
        raise XlateError('compute: refresh branch is not `nconv = num_converged(tol)`')
    # 2. `sort_ritzpair(sorting);`
    if _calls(s_sort, []) != ['sort_ritzpair']: raise XlateError('compute: second statement after the loop is not sort_ritzpair(...)')
    # 3. `m_niter += i + 1;`
    sn = _strip(s_niter)
    if sn.get('kind') != 'CompoundAssignOperator' or sn.get('opcode') != '+=' or _strip(sn['inner'][0]).get('name') != 'm_niter': raise XlateError('compute: expected `m_niter += ...`')
    inc, _ = fn.expr(sn['inner'][1], env)
    # 4. `m_info = (...) ? Successful : NotConverging;`
    si = _strip(s_info)
    if si.get('kind') != 'BinaryOperator' or si.get('opcode') != '=' or _strip(si['inner'][0]).get('name') != 'm_info': raise XlateError('compute: expected `m_info = ...`')
    info, ik = fn.expr(si['inner'][1], env)
    # 5. `return (std::min)(m_nev, nconv);`
    if s_ret['kind'] != 'ReturnStmt': raise XlateError('compute: last statement is not a return')
    ret, _ = fn.expr(s_ret['inner'][0], env)
    p = t['lean']
    return (f'-- `if (<this>) nconv = num_converged(tol);` right after the restart loop\n'
            f'def {p}_refresh (i : Int) (maxit : Int) : Bool := {cond}\n\n'
            f'-- new value of m_niter\n'
            f'def {p}_niter (m_niter : Int) (i : Int) : Int := m_niter + {inc}\n\n'
            f'-- new value of m_info as the index of the CompInfo enumerator (Successful = 0, NotComputed = 1, NotConverging = 2, NumericalIssue = 3)\n'
            f'def {p}_info (m_nev : Int) (nconv : Int) : Int := {info}\n\n'
            f'-- return value\n'
            f'def {p}_ret (m_nev : Int) (nconv : Int) : Int := {ret}\n')

MODULES = [('Status', [
    dict(lean='hermTail', header='HermEigsBase.h', custom=compute_tail, path='HermEigsBase::compute'),
    dict(lean='genTail', header='GenEigsBase.h', custom=compute_tail, path='GenEigsBase::compute'),
], '')]
