"""C05: the statements of HermEigsBase::compute / GenEigsBase::compute AFTER the restart loop (flag refresh condition, final
sort call, iteration counter, status, return value) -> module Gen.Status, regenerated on every run.  The loop itself and the
prologue are translated by tgt_c13.py (`Gen.Restart.*ComputeSkel_*`)."""
import re
from xlate import Fn, XlateError

def _strip(x):
    while x.get('kind') in ('ExprWithCleanups', 'ParenExpr', 'ImplicitCastExpr', 'MaterializeTemporaryExpr'): x = x['inner'][0]
    return x

def _calls(x, acc):
    if not isinstance(x, dict): return acc
    if x.get('kind') in ('CXXMemberCallExpr', 'CallExpr'):
        c = x['inner'][0]
        while c.get('kind') in ('ImplicitCastExpr', 'ParenExpr'): c = c['inner'][0]
        nm = c.get('member') or c.get('name') or (c.get('referencedDecl') or {}).get('name')
        if not nm and c.get('kind') == 'UnresolvedLookupExpr': nm = c.get('name')
        if nm: acc.append(nm)
    for cc in x.get('inner', []): _calls(cc, acc)
    return acc

def compute_tail(tu, t):
    node = tu.find(t['path'], 0)
    fn = Fn(tu, node, dict(mode='value', members={'m_ncv': 'int', 'm_nev': 'int', 'm_niter': 'int', 'm_info': 'enum'}))
    body = [c for c in node['inner'] if c['kind'] == 'CompoundStmt'][0]['inner']
    fors = [s for s in body if s['kind'] == 'ForStmt']
    if len(fors) != 1: raise XlateError('compute: expected exactly one loop')
    post = [s for s in body[body.index(fors[0]) + 1:] if s.get('kind') not in ('NullStmt',)]
    # the restart-loop counter (declared before the loop, `for (<counter> = 0; ...)`) is called `i` in the generated text whatever
    # its name in the source: renaming it must not disturb the proofs
    finit = fors[0]['inner'][0]
    lv = (_strip(finit['inner'][0]).get('referencedDecl') or {}).get('name') if finit and finit.get('kind') == 'BinaryOperator' and finit.get('opcode') == '=' else None
    if not lv: raise XlateError('compute: the loop does not start with `<counter> = ...`')
    env = {'maxit': ('maxit', 'int'), 'nconv': ('nconv', 'int'), lv: ('i', 'int'), 'm_niter': ('m_niter', 'int'), 'm_nev': ('m_nev', 'int')}
    if len(post) != 5: raise XlateError(f'compute: expected 5 statements after the loop (refresh-if, sort_ritzpair, m_niter, m_info, return), found {len(post)}')
    s_if, s_sort, s_niter, s_info, s_ret = post
    # 1. `if (i >= maxit) nconv = num_converged(tol);`
    if s_if['kind'] != 'IfStmt' or len(s_if['inner']) != 2: raise XlateError('compute: first statement after the loop is not a plain if')
    cond, _ = fn.expr(s_if['inner'][0], env)
    thn = fn.body_list(s_if['inner'][1])
    if len(thn) != 1 or _strip(thn[0]).get('kind') != 'BinaryOperator' or _strip(thn[0]).get('opcode') != '=': raise XlateError('compute: refresh branch is not a single assignment')
    asg = _strip(thn[0]); lhs = _strip(asg['inner'][0])
    if (lhs.get('referencedDecl') or {}).get('name') != 'nconv' or _calls(asg['inner'][1], []) != ['num_converged']:
        raise XlateError('compute: refresh branch is not `nconv = num_converged(tol)`')
    # 2. `sort_ritzpair(sorting);`
    if _calls(s_sort, []) != ['sort_ritzpair']: raise XlateError('compute: second statement after the loop is not sort_ritzpair(...)')
    # 3. `m_niter += i + 1;`
    sn = _strip(s_niter)
    if sn.get('kind') != 'CompoundAssignOperator' or sn.get('opcode') != '+=' or _strip(sn['inner'][0]).get('name') != 'm_niter': raise XlateError('compute: expected `m_niter += ...`')
    inc, _ = fn.expr(sn['inner'][1], env)
    # 4. `m_info = (...) ? Successful : NotConverging;`
    si = _strip(s_info)
    if si.get('kind') != 'BinaryOperator' or si.get('opcode') != '=' or _strip(si['inner'][0]).get('name') != 'm_info': raise XlateError('compute: expected `m_info = ...`')
    info, ik = fn.expr(si['inner'][1], env)
    # 5. `return (std::min)(m_nev, nconv);`
    if s_ret['kind'] != 'ReturnStmt': raise XlateError('compute: last statement is not a return')
    ret, _ = fn.expr(s_ret['inner'][0], env)
    p = t['lean']
    return (f'-- `if (<this>) nconv = num_converged(tol);` right after the restart loop\n'
            f'def {p}_refresh (i : Int) (maxit : Int) : Bool := {cond}\n\n'
            f'-- new value of m_niter\n'
            f'def {p}_niter (m_niter : Int) (i : Int) : Int := m_niter + {inc}\n\n'
            f'-- new value of m_info as the index of the CompInfo enumerator (Successful = 0, NotComputed = 1, NotConverging = 2, NumericalIssue = 3)\n'
            f'def {p}_info (m_nev : Int) (nconv : Int) : Int := {info}\n\n'
            f'-- return value\n'
            f'def {p}_ret (m_nev : Int) (nconv : Int) : Int := {ret}\n')

MODULES = [('Status', [
    dict(lean='hermTail', header='HermEigsBase.h', custom=compute_tail, path='HermEigsBase::compute'),
    dict(lean='genTail', header='GenEigsBase.h', custom=compute_tail, path='GenEigsBase::compute'),
], '')]

# ------------------------------------------------------------------ accessor loops (module Gen.Access)
from xlate import Out

def _body(node): return [c for c in node['inner'] if c['kind'] == 'CompoundStmt'][0]['inner']

def eigenvalues_loop(tu, t):
    """`Index j = 0; for (i < m_nev) if (m_ritz_conv[i]) { res[j] = m_ritz_val[i]; j++; }` of eigenvalues(): translated as written"""
    node = tu.find(t['path'], 0); body = _body(node)
    ak = t['cfg']['arr']
    fn = Fn(tu, node, dict(mode='value', members={'m_nev': 'int', 'm_ritz_conv': 'arr_bool', 'm_ritz_val': ak}))
    kinds = [s['kind'] for s in body]
    if kinds != ['DeclStmt', 'DeclStmt', 'IfStmt', 'DeclStmt', 'ForStmt', 'ReturnStmt']: raise XlateError('eigenvalues(): unexpected statement sequence ' + str(kinds))
    # the early return `if (!nconv) return res;` must be exactly that
    g = body[2]
    if len(g['inner']) != 2 or g['inner'][1]['kind'] != 'ReturnStmt': raise XlateError('eigenvalues(): early exit is not `if (!nconv) return res;`')
    out = Out(); env = {'res': ('res', ak)}
    fn.stmts(body[3:5], env, out, 2, lambda e, o, i: o.add(i, '(j, res)'))
    ty = '(α × α)' if ak == 'arr_cplx' else 'α'
    return (f'def {t["lean"]} {{α : Type}} [Add α] [Sub α] [Mul α] [Div α] [Neg α] [Sc α] (m_nev : Int) (m_ritz_conv : Int → Bool) (m_ritz_val : Int → {ty}) (res : Int → {ty}) : Int × (Int → {ty}) :=\n'
            + out.render())

def eigenvectors_loop(tu, t):
    """`nvec = min(nvec, nconv); … Index j = 0; for (i < m_nev && j < nvec) if (m_ritz_conv[i]) { ritz_vec_conv.col(j) = m_ritz_vec.col(i); j++; }`:
    the column copy is recorded as `colsel[j] = i` (which stored Ritz vector goes to which output column)"""
    node = tu.find(t['path'], 0); body = _body(node)
    fn = Fn(tu, node, dict(mode='value', members={'m_nev': 'int', 'm_ritz_conv': 'arr_bool'}, params={'nvec': 'int'}))
    kinds = [s['kind'] for s in body]
    if kinds != ['DeclStmt', 'BinaryOperator', 'DeclStmt', 'IfStmt', 'DeclStmt', 'DeclStmt', 'ForStmt', 'BinaryOperator', 'ReturnStmt']:
        raise XlateError('eigenvectors(nvec): unexpected statement sequence ' + str(kinds))
    import copy
    f = copy.deepcopy(body[6])
    def member_call(x, name):
        # CallExpr( CXXDependentScopeMemberExpr member=name (obj), args… )
        return x.get('kind') == 'CallExpr' and x['inner'] and x['inner'][0].get('kind') == 'CXXDependentScopeMemberExpr' and x['inner'][0].get('member') == name
    def rewrite(x):
        if not isinstance(x, dict): return
        inner = x.get('inner', [])
        for k, c in enumerate(inner):
            if isinstance(c, dict) and c.get('kind') == 'BinaryOperator' and c.get('opcode') == '=':
                lhs, rhs = c['inner']
                if member_call(lhs, 'noalias'): lhs = lhs['inner'][0]['inner'][0]
                if member_call(lhs, 'col') and member_call(rhs, 'col'):
                    lobj = lhs['inner'][0]['inner'][0]; robj = rhs['inner'][0]['inner'][0]
                    if (lobj.get('referencedDecl') or {}).get('name') != 'ritz_vec_conv' or robj.get('name') != 'm_ritz_vec':
                        raise XlateError('eigenvectors(nvec): column copy is not ritz_vec_conv.col(j) = m_ritz_vec.col(i)')
                    inner[k] = {'kind': 'BinaryOperator', 'opcode': '=', 'type': {'qualType': 'long'}, 'inner': [
                        {'kind': 'ArraySubscriptExpr', 'type': {'qualType': 'long'}, 'inner': [
                            {'kind': 'DeclRefExpr', 'type': {'qualType': 'long *'}, 'referencedDecl': {'kind': 'VarDecl', 'name': 'colsel'}}, lhs['inner'][1]]},
                        rhs['inner'][1]]}
                    continue
            rewrite(c)
    rewrite(f)
    # `nvec = (std::min)(nvec, nconv)` with nconv = m_ritz_conv.count() passed in as a parameter
    out = Out(); env = {'colsel': ('colsel', 'arr_int'), 'nvec': ('nvec', 'int'), 'nconv': ('nconv', 'int')}
    fn.stmts([body[1], body[5], f], env, out, 2, lambda e, o, i: o.add(i, '(nvec, j, colsel)'))
    return (f'def {t["lean"]} (m_nev : Int) (m_ritz_conv : Int → Bool) (nvec : Int) (nconv : Int) (colsel : Int → Int) : Int × Int × (Int → Int) :=\n' + out.render())

MODULES.append(('Access', [
    dict(lean='hermEigenvalues_loop', header='HermEigsBase.h', custom=eigenvalues_loop, path='HermEigsBase::eigenvalues', cfg={'arr': 'arr_sc'}),
    dict(lean='genEigenvalues_loop', header='GenEigsBase.h', custom=eigenvalues_loop, path='GenEigsBase::eigenvalues', cfg={'arr': 'arr_cplx'}),
    dict(lean='hermEigenvectors_loop', header='HermEigsBase.h', custom=eigenvectors_loop, path='HermEigsBase::eigenvectors', cfg={}),
    dict(lean='genEigenvectors_loop', header='GenEigsBase.h', custom=eigenvectors_loop, path='GenEigsBase::eigenvectors', cfg={}),
], ''))

# ------------------------------------------------------------------ num_converged (module Gen.Conv)
# `num_converged(tol)` is written with Eigen array expressions; they are translated ELEMENTWISE: every array-valued expression
# becomes a function of the element index.  Only the operations that occur are understood (head/array views, abs, max with a
# scalar, scalar*array, array*scalar, array<array); anything else raises.
def num_converged(tu, t):
    node = tu.find(t['path'], 0); body = _body(node)
    cplx = t['cfg']['complex_val']
    arrays = {'m_ritz_val': 'cplx' if cplx else 'real', 'm_ritz_est': 'cplx' if cplx else 'real'}
    scalars = {'tol': 'tol'}
    lets = []          # (name, lean function body in terms of index i)
    local_arr = {}
    length = {}
    def callee(x):
        if x.get('kind') == 'CallExpr' and x['inner'] and x['inner'][0].get('kind') == 'CXXDependentScopeMemberExpr':
            m = x['inner'][0]
            return m['member'], (m['inner'][0] if m.get('inner') else {'kind': 'none'}), x['inner'][1:]
        return None
    def strip(x):
        while x.get('kind') in ('ParenExpr', 'ImplicitCastExpr', 'ExprWithCleanups', 'MaterializeTemporaryExpr'): x = x['inner'][0]
        return x
    def is_member(x, name=None):
        x = strip(x)
        return x.get('kind') == 'MemberExpr' and x['inner'][0].get('kind') == 'CXXThisExpr' and (name is None or x.get('name') == name)
    def scalar(x):
        x = strip(x)
        if x.get('kind') == 'DeclRefExpr':
            n = x['referencedDecl']['name']
            if n in scalars: return scalars[n]
        c = callee(x)
        if c and c[0] == 'f_norm' and is_member(c[1], 'm_fac') and not c[2]: return 'f_norm'
        return None
    def arr(x):
        """-> (lean expr at index i, kind real|cplx|bool, length expr)"""
        x = strip(x)
        if x.get('kind') == 'DeclRefExpr':
            n = x['referencedDecl']['name']
            if n in local_arr: return (f'({n} i)', local_arr[n], length[n])
            raise XlateError('num_converged: unknown array ' + n)
        c = callee(x)
        if c:
            name, obj, args = c
            if name == 'head' and len(args) == 1 and is_member(obj) and strip(obj)['name'] in arrays and is_member(args[0], 'm_nev'):
                n = strip(obj)['name']; return (f'({n} i)', arrays[n], 'm_nev')
            if name == 'array' and not args: return arr(obj)
            if name == 'abs' and not args:
                e, k, ln = arr(obj)
                return ((f'(Sc.cabs {e})' if k == 'cplx' else f'(Sc.abs {e})'), 'real', ln)
            if name == 'max' and len(args) == 1:
                e, k, ln = arr(obj); s = scalar(args[0])
                if k != 'real' or s is None: raise XlateError('num_converged: max() of something else than a real array and a scalar')
                # Eigen scalar_max_op (PropagateFast) = numext::maxi(a, b) = std::max(a, b) = (a < b) ? b : a
                return (f'(if Sc.lt {e} {s} then {s} else {e})', 'real', ln)
            raise XlateError('num_converged: unsupported array method ' + name)
        if x.get('kind') == 'BinaryOperator' and x.get('opcode') in ('*', '<'):
            l, r = x['inner']
            if x['opcode'] == '*':
                sl, sr = scalar(l), scalar(r)
                if sl is not None and sr is None:
                    e, k, ln = arr(r); 
                    if k != 'real': raise XlateError('num_converged: scalar * non-real array')
                    return (f'({sl} * {e})', 'real', ln)
                if sr is not None and sl is None:
                    e, k, ln = arr(l)
                    if k != 'real': raise XlateError('num_converged: non-real array * scalar')
                    return (f'({e} * {sr})', 'real', ln)
                raise XlateError('num_converged: product shape not understood')
            (e1, k1, l1), (e2, k2, l2) = arr(l), arr(r)
            if k1 != 'real' or k2 != 'real' or l1 != l2: raise XlateError('num_converged: comparison of mismatched arrays')
            return (f'(Sc.lt {e1} {e2})', 'bool', l1)
        raise XlateError('num_converged: unsupported expression ' + x.get('kind', '?'))
    flag = None; eps23_def = None
    for s in body:
        k = s['kind']
        if k == 'DeclStmt':
            d = s['inner'][0]
            if d['kind'] == 'UsingDecl': continue
            if d['kind'] != 'VarDecl': raise XlateError('num_converged: unexpected declaration')
            n = d['name']; init = strip(d['inner'][0])
            if n == 'eps':
                c = callee(init)
                if not (c and c[0] == 'epsilon'): raise XlateError('num_converged: eps is not TypeTraits::epsilon()')
                continue
            if n == 'eps23':
                ok = (init.get('kind') == 'CallExpr' and init['inner'][0].get('name') == 'pow' and strip(init['inner'][1]).get('referencedDecl', {}).get('name') == 'eps')
                e = strip(init['inner'][2]) if ok else {}
                ok = ok and e.get('kind') == 'BinaryOperator' and e.get('opcode') == '/'
                if ok:
                    a, b = strip(e['inner'][0]), strip(e['inner'][1])
                    if a.get('kind') == 'CXXUnresolvedConstructExpr': a = strip(a['inner'][0])
                    ok = a.get('kind') == 'IntegerLiteral' and b.get('kind') == 'IntegerLiteral'
                if not ok: raise XlateError('num_converged: eps23 is not pow(eps, Scalar(p) / q)')
                eps23_def = f'Sc.pow eps (Sc.ofInt {a["value"]} / Sc.ofInt {b["value"]})'
                scalars['eps23'] = 'eps23'
                continue
            e, kk, ln = arr(init)
            local_arr[n] = kk; length[n] = ln; lets.append((n, e))
        elif k == 'BinaryOperator' and s.get('opcode') == '=':
            if not is_member(s['inner'][0], 'm_ritz_conv') or flag is not None: raise XlateError('num_converged: unexpected assignment')
            e, kk, ln = arr(s['inner'][1])
            if kk != 'bool': raise XlateError('num_converged: m_ritz_conv assigned a non-boolean array')
            flag = (e, ln)
        elif k == 'ReturnStmt':
            r = strip(s['inner'][0])
            ok = r.get('kind') == 'CXXMemberCallExpr' and strip(r['inner'][0]).get('name') == 'count' and is_member(strip(r['inner'][0])['inner'][0], 'm_ritz_conv')
            if not ok or flag is None: raise XlateError('num_converged: return value is not m_ritz_conv.count() after the assignment')
        else:
            raise XlateError('num_converged: unexpected statement ' + k)
    if flag is None or eps23_def is None: raise XlateError('num_converged: flags or eps23 not found')
    ty = '(α × α)' if cplx else 'α'
    cls = '{α : Type} [Add α] [Sub α] [Mul α] [Div α] [Neg α] [Sc α]'
    L = t['lean']
    txt = f'def {L}_eps23 {cls} (eps : α) : α := {eps23_def}\n\n'
    txt += f'/-- element `i` of the array assigned to `m_ritz_conv` -/\ndef {L}_flag {cls} (tol eps23 f_norm : α) (m_ritz_val m_ritz_est : Int → {ty}) (i : Int) : Bool :=\n'
    for n, e in lets: txt += f'  let {n} : Int → α := fun i => {e}\n'
    txt += f'  {flag[0]}\n\n'
    txt += f'/-- length of the array assigned to `m_ritz_conv` -/\ndef {L}_len (m_nev : Int) : Int := {flag[1]}'
    return txt

MODULES.append(('Conv', [
    dict(lean='hermNumConverged', header='HermEigsBase.h', custom=num_converged, path='HermEigsBase::num_converged', cfg={'complex_val': False}),
    dict(lean='genNumConverged', header='GenEigsBase.h', custom=num_converged, path='GenEigsBase::num_converged', cfg={'complex_val': True}),
], ''))

# ------------------------------------------------------------------ copy loops of retrieve_ritzpair / sort_ritzpair (module Gen.Copy)
def _strip(x):
    while x.get('kind') in ('ParenExpr', 'ImplicitCastExpr', 'ExprWithCleanups', 'MaterializeTemporaryExpr'): x = x['inner'][0]
    return x
def _member_call(x, name):
    return x.get('kind') == 'CallExpr' and x['inner'] and x['inner'][0].get('kind') == 'CXXDependentScopeMemberExpr' and x['inner'][0].get('member') == name
def _objname(x):
    x = _strip(x)
    if x.get('kind') == 'MemberExpr': return x.get('name')
    if x.get('kind') == 'DeclRefExpr': return x['referencedDecl'].get('name')
    return None
def _aref(name): return {'kind': 'DeclRefExpr', 'type': {'qualType': 'long *'}, 'referencedDecl': {'kind': 'VarDecl', 'name': name}}
def _asub(name, idx): return {'kind': 'ArraySubscriptExpr', 'type': {'qualType': 'long'}, 'inner': [_aref(name), idx]}

def _rewrite_cols(x, dst, src, sel, rowcall=None, rows=None):
    """`dst.col(a).noalias() = src.col(b)` -> `sel[a] = b`;  `rowcall(r, c)` -> `<rowcall>_row[c]` (r recorded in rows)"""
    if not isinstance(x, dict): return
    inner = x.get('inner', [])
    for k, c in enumerate(inner):
        if not isinstance(c, dict): continue
        if c.get('kind') == 'BinaryOperator' and c.get('opcode') == '=':
            lhs, rhs = c['inner']
            l2 = lhs['inner'][0]['inner'][0] if _member_call(lhs, 'noalias') else lhs
            if _member_call(l2, 'col') or _member_call(rhs, 'col'):
                if not (_member_call(l2, 'col') and _member_call(rhs, 'col')): raise XlateError('column copy with a non-column side')
                if _objname(l2['inner'][0]['inner'][0]) != dst or _objname(rhs['inner'][0]['inner'][0]) != src:
                    raise XlateError(f'column copy is not {dst}.col(..) = {src}.col(..)')
                inner[k] = {'kind': 'BinaryOperator', 'opcode': '=', 'type': {'qualType': 'long'}, 'inner': [_asub(sel, l2['inner'][1]), rhs['inner'][1]]}
                continue
        if rowcall and c.get('kind') == 'CallExpr' and _strip(c['inner'][0]).get('kind') == 'DeclRefExpr' and _objname(c['inner'][0]) == rowcall and len(c['inner']) == 3:
            rows.append(c['inner'][1])
            inner[k] = _asub(rowcall + '_row', c['inner'][2])
            _rewrite_cols(inner[k], dst, src, sel, rowcall, rows)
            continue
        _rewrite_cols(c, dst, src, sel, rowcall, rows)

def retrieve_loops(tu, t):
    """the two copy loops at the end of retrieve_ritzpair: m_ritz_val[i] = evals[ind[i]]; m_ritz_est[i] = evecs(m_ncv - 1, ind[i]);
    m_ritz_vec.col(i) = evecs.col(ind[i]) (recorded as vecsel[i] = ind[i])"""
    import copy
    node = tu.find(t['path'], 0); body = _body(node)
    if [s['kind'] for s in body[-2:]] != ['ForStmt', 'ForStmt'] or any(s['kind'] == 'ForStmt' for s in body[:-2]):
        raise XlateError('retrieve_ritzpair: the body does not end with exactly two loops')
    ak = t['cfg']['arr']
    loops = copy.deepcopy(body[-2:]); rows = []
    for f in loops: _rewrite_cols(f, 'm_ritz_vec', 'evecs', 'vecsel', 'evecs', rows)
    if len(rows) != 1: raise XlateError('retrieve_ritzpair: expected exactly one evecs(row, col) read')
    r = _strip(rows[0])
    ok = r.get('kind') == 'BinaryOperator' and r.get('opcode') == '-' and _objname(r['inner'][0]) == 'm_ncv' and _strip(r['inner'][1]).get('kind') == 'IntegerLiteral'
    if not ok: raise XlateError('retrieve_ritzpair: the row read from evecs is not m_ncv - <literal>')
    fn = Fn(tu, node, dict(mode='value', members={'m_nev': 'int', 'm_ncv': 'int', 'm_ritz_val': ak, 'm_ritz_est': ak}))
    out = Out(); env = {'m_ritz_val': ('m_ritz_val', ak), 'm_ritz_est': ('m_ritz_est', ak), 'vecsel': ('vecsel', 'arr_int'),
                        'evals': ('evals', ak), 'evecs_row': ('evecs_row', ak), 'ind': ('ind', 'arr_int')}
    fn.stmts(loops, env, out, 2, lambda e, o, i: o.add(i, f'({e["m_ritz_val"][0]}, {e["m_ritz_est"][0]}, {e["vecsel"][0]})'))
    ty = '(α × α)' if ak == 'arr_cplx' else 'α'
    L = t['lean']
    return (f'def {L}_estRow (m_ncv : Int) : Int := m_ncv - {_strip(r["inner"][1])["value"]}\n\n'
            f'def {L} {{α : Type}} [Add α] [Sub α] [Mul α] [Div α] [Neg α] [Sc α] (m_nev m_ncv : Int) (evals evecs_row : Int → {ty}) (ind : Int → Int) '
            f'(m_ritz_val m_ritz_est : Int → {ty}) (vecsel : Int → Int) : (Int → {ty}) × (Int → {ty}) × (Int → Int) :=\n' + out.render())

def sort_loop(tu, t):
    """the loop of sort_ritzpair: new_ritz_val[i] = m_ritz_val[ind[i]]; new_ritz_vec.col(i) = m_ritz_vec.col(ind[i]) (vecsel[i] = ind[i]);
    new_ritz_conv[i] = m_ritz_conv[ind[i]]; followed by exactly the three swaps new_* <-> m_*"""
    import copy
    node = tu.find(t['path'], 0); body = _body(node)
    fors = [k for k, s in enumerate(body) if s['kind'] == 'ForStmt']
    if len(fors) != 1 or fors[0] != len(body) - 4: raise XlateError('sort_ritzpair: expected one loop followed by three statements')
    swaps = set()
    for s in body[-3:]:
        txt = re.sub(r'\s+', '', tu.src_text(s))
        m = re.fullmatch(r'(m_ritz_\w+)\.swap\((new_ritz_\w+)\)', txt)
        if not m or m.group(2) != 'new_' + m.group(1)[2:]: raise XlateError('sort_ritzpair: statement after the loop is not m_X.swap(new_X): ' + txt)
        swaps.add(m.group(1))
    if swaps != {'m_ritz_val', 'm_ritz_vec', 'm_ritz_conv'}: raise XlateError('sort_ritzpair: the three swaps do not cover val/vec/conv')
    ak = t['cfg']['arr']
    loop = copy.deepcopy(body[fors[0]])
    _rewrite_cols(loop, 'new_ritz_vec', 'm_ritz_vec', 'vecsel')
    fn = Fn(tu, node, dict(mode='value', members={'m_nev': 'int', 'm_ncv': 'int', 'm_ritz_val': ak, 'm_ritz_conv': 'arr_bool'}))
    out = Out(); env = {'new_ritz_val': ('new_ritz_val', ak), 'new_ritz_conv': ('new_ritz_conv', 'arr_bool'), 'vecsel': ('vecsel', 'arr_int'), 'ind': ('ind', 'arr_int')}
    fn.stmts([loop], env, out, 2, lambda e, o, i: o.add(i, f'({e["new_ritz_val"][0]}, {e["vecsel"][0]}, {e["new_ritz_conv"][0]})'))
    ty = '(α × α)' if ak == 'arr_cplx' else 'α'
    return (f'def {t["lean"]} {{α : Type}} [Add α] [Sub α] [Mul α] [Div α] [Neg α] [Sc α] (m_nev m_ncv : Int) (m_ritz_val : Int → {ty}) (m_ritz_conv : Int → Bool) (ind : Int → Int) '
            f'(new_ritz_val : Int → {ty}) (vecsel : Int → Int) (new_ritz_conv : Int → Bool) : (Int → {ty}) × (Int → Int) × (Int → Bool) :=\n' + out.render())

MODULES.append(('Copy', [
    dict(lean='hermRetrieve_loops', header='HermEigsBase.h', custom=retrieve_loops, path='HermEigsBase::retrieve_ritzpair', cfg={'arr': 'arr_sc'}),
    dict(lean='genRetrieve_loops', header='GenEigsBase.h', custom=retrieve_loops, path='GenEigsBase::retrieve_ritzpair', cfg={'arr': 'arr_cplx'}),
    dict(lean='hermSort_loop', header='HermEigsBase.h', custom=sort_loop, path='HermEigsBase::sort_ritzpair', cfg={'arr': 'arr_sc'}),
    dict(lean='genSort_loop', header='GenEigsBase.h', custom=sort_loop, path='GenEigsBase::sort_ritzpair', cfg={'arr': 'arr_cplx'}),
], ''))
