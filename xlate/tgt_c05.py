"""C05: the statements of HermEigsBase::compute / GenEigsBase::compute AFTER the restart loop (flag refresh condition, final
sort call, iteration counter, status, return value) -> module Gen.Status, regenerated on every run.  The loop itself and the
prologue are translated by tgt_c13.py (`Gen.Restart.*ComputeSkel_*`)."""
from xlate import Fn, XlateError

def _strip(x):
    while x.get('kind') in ('ExprWithCleanups', 'ParenExpr', 'ImplicitCastExpr', 'MaterializeTemporaryExpr'): x = x['inner'][0]
    return x

def _calls(x, acc):
    if not isinstance(x, dict): return acc
    if x.get('kind') in ('CXXMemberCallExpr', 'CallExpr'):
        c = x['inner'][0]
        while c.get('kind') in ('ImplicitCastExpr', 'ParenExpr'): c = c['inner'][0]
        nm = c.get('member') or c.get('name') or (c.get('referencedDecl') or {}).get('name')
        if not nm and c.get('kind') == 'UnresolvedLookupExpr': nm = c.get('name')
        if nm: acc.append(nm)
    for cc in x.get('inner', []): _calls(cc, acc)
    return acc

def compute_tail(tu, t):
    node = tu.find(t['path'], 0)
    fn = Fn(tu, node, dict(mode='value', members={'m_ncv': 'int', 'm_nev': 'int', 'm_niter': 'int', 'm_info': 'enum'}))
    body = [c for c in node['inner'] if c['kind'] == 'CompoundStmt'][0]['inner']
    fors = [s for s in body if s['kind'] == 'ForStmt']
    if len(fors) != 1: raise XlateError('compute: expected exactly one loop')
    post = [s for s in body[body.index(fors[0]) + 1:] if s.get('kind') not in ('NullStmt',)]
    env = {'maxit': ('maxit', 'int'), 'nconv': ('nconv', 'int'), 'i': ('i', 'int'), 'm_niter': ('m_niter', 'int'), 'm_nev': ('m_nev', 'int')}
    if len(post) != 5: raise XlateError(f'compute: expected 5 statements after the loop (refresh-if, sort_ritzpair, m_niter, m_info, return), found {len(post)}')
    s_if, s_sort, s_niter, s_info, s_ret = post
    # 1. `if (i >= maxit) nconv = num_converged(tol);`
    if s_if['kind'] != 'IfStmt' or len(s_if['inner']) != 2: raise XlateError('compute: first statement after the loop is not a plain if')
    cond, _ = fn.expr(s_if['inner'][0], env)
    thn = fn.body_list(s_if['inner'][1])
    if len(thn) != 1 or _strip(thn[0]).get('kind') != 'BinaryOperator' or _strip(thn[0]).get('opcode') != '=': raise XlateError('compute: refresh branch is not a single assignment')
    asg = _strip(thn[0]); lhs = _strip(asg['inner'][0])
    if (lhs.get('referencedDecl') or {}).get('name') != 'nconv' or _calls(asg['inner'][1], []) != ['num_converged']:
        raise XlateError('compute: refresh branch is not `nconv = num_converged(tol)`')
    # 2. `sort_ritzpair(sorting);`
    if _calls(s_sort, []) != ['sort_ritzpair']: raise XlateError('compute: second statement after the loop is not sort_ritzpair(...)')
    # 3. `m_niter += i + 1;`
    sn = _strip(s_niter)
    if sn.get('kind') != 'CompoundAssignOperator' or sn.get('opcode') != '+=' or _strip(sn['inner'][0]).get('name') != 'm_niter': raise XlateError('compute: expected `m_niter += ...`')
    inc, _ = fn.expr(sn['inner'][1], env)
    # 4. `m_info = (...) ? Successful : NotConverging;`
    si = _strip(s_info)
    if si.get('kind') != 'BinaryOperator' or si.get('opcode') != '=' or _strip(si['inner'][0]).get('name') != 'm_info': raise XlateError('compute: expected `m_info = ...`')
    info, ik = fn.expr(si['inner'][1], env)
    # 5. `return (std::min)(m_nev, nconv);`
    if s_ret['kind'] != 'ReturnStmt': raise XlateError('compute: last statement is not a return')
    ret, _ = fn.expr(s_ret['inner'][0], env)
    p = t['lean']
    return (f'-- `if (<this>) nconv = num_converged(tol);` right after the restart loop\n'
            f'def {p}_refresh (i : Int) (maxit : Int) : Bool := {cond}\n\n'
            f'-- new value of m_niter\n'
            f'def {p}_niter (m_niter : Int) (i : Int) : Int := m_niter + {inc}\n\n'
            f'-- new value of m_info as the index of the CompInfo enumerator (Successful = 0, NotComputed = 1, NotConverging = 2, NumericalIssue = 3)\n'
            f'def {p}_info (m_nev : Int) (nconv : Int) : Int := {info}\n\n'
            f'-- return value\n'
            f'def {p}_ret (m_nev : Int) (nconv : Int) : Int := {ret}\n')

MODULES = [('Status', [
    dict(lean='hermTail', header='HermEigsBase.h', custom=compute_tail, path='HermEigsBase::compute'),
    dict(lean='genTail', header='GenEigsBase.h', custom=compute_tail, path='GenEigsBase::compute'),
], '')]

# ------------------------------------------------------------------ accessor loops (module Gen.Access)
from xlate import Out

def _body(node): return [c for c in node['inner'] if c['kind'] == 'CompoundStmt'][0]['inner']

def eigenvalues_loop(tu, t):
    """`Index j = 0; for (i < m_nev) if (m_ritz_conv[i]) { res[j] = m_ritz_val[i]; j++; }` of eigenvalues(): translated as written"""
    node = tu.find(t['path'], 0); body = _body(node)
    ak = t['cfg']['arr']
    fn = Fn(tu, node, dict(mode='value', members={'m_nev': 'int', 'm_ritz_conv': 'arr_bool', 'm_ritz_val': ak}))
    kinds = [s['kind'] for s in body]
    if kinds != ['DeclStmt', 'DeclStmt', 'IfStmt', 'DeclStmt', 'ForStmt', 'ReturnStmt']: raise XlateError('eigenvalues(): unexpected statement sequence ' + str(kinds))
    # the early return `if (!nconv) return res;` must be exactly that
    g = body[2]
    if len(g['inner']) != 2 or g['inner'][1]['kind'] != 'ReturnStmt': raise XlateError('eigenvalues(): early exit is not `if (!nconv) return res;`')
    out = Out(); env = {'res': ('res', ak)}
    fn.stmts(body[3:5], env, out, 2, lambda e, o, i: o.add(i, '(j, res)'))
    ty = '(α × α)' if ak == 'arr_cplx' else 'α'
    return (f'def {t["lean"]} {{α : Type}} [Add α] [Sub α] [Mul α] [Div α] [Neg α] [Sc α] (m_nev : Int) (m_ritz_conv : Int → Bool) (m_ritz_val : Int → {ty}) (res : Int → {ty}) : Int × (Int → {ty}) :=\n'
            + out.render())

def eigenvectors_loop(tu, t):
    """`nvec = min(nvec, nconv); … Index j = 0; for (i < m_nev && j < nvec) if (m_ritz_conv[i]) { ritz_vec_conv.col(j) = m_ritz_vec.col(i); j++; }`:
    the column copy is recorded as `colsel[j] = i` (which stored Ritz vector goes to which output column)"""
    node = tu.find(t['path'], 0); body = _body(node)
    fn = Fn(tu, node, dict(mode='value', members={'m_nev': 'int', 'm_ritz_conv': 'arr_bool'}, params={'nvec': 'int'}))
    kinds = [s['kind'] for s in body]
    if kinds != ['DeclStmt', 'BinaryOperator', 'DeclStmt', 'IfStmt', 'DeclStmt', 'DeclStmt', 'ForStmt', 'BinaryOperator', 'ReturnStmt']:
        raise XlateError('eigenvectors(nvec): unexpected statement sequence ' + str(kinds))
    import copy
    f = copy.deepcopy(body[6])
    def member_call(x, name):
        # CallExpr( CXXDependentScopeMemberExpr member=name (obj), args… )
        return x.get('kind') == 'CallExpr' and x['inner'] and x['inner'][0].get('kind') == 'CXXDependentScopeMemberExpr' and x['inner'][0].get('member') == name
    def rewrite(x):
        if not isinstance(x, dict): return
        inner = x.get('inner', [])
        for k, c in enumerate(inner):
            if isinstance(c, dict) and c.get('kind') == 'BinaryOperator' and c.get('opcode') == '=':
                lhs, rhs = c['inner']
                if member_call(lhs, 'noalias'): lhs = lhs['inner'][0]['inner'][0]
                if member_call(lhs, 'col') and member_call(rhs, 'col'):
                    lobj = lhs['inner'][0]['inner'][0]; robj = rhs['inner'][0]['inner'][0]
                    if (lobj.get('referencedDecl') or {}).get('name') != 'ritz_vec_conv' or robj.get('name') != 'm_ritz_vec':
                        raise XlateError('eigenvectors(nvec): column copy is not ritz_vec_conv.col(j) = m_ritz_vec.col(i)')
                    inner[k] = {'kind': 'BinaryOperator', 'opcode': '=', 'type': {'qualType': 'long'}, 'inner': [
                        {'kind': 'ArraySubscriptExpr', 'type': {'qualType': 'long'}, 'inner': [
                            {'kind': 'DeclRefExpr', 'type': {'qualType': 'long *'}, 'referencedDecl': {'kind': 'VarDecl', 'name': 'colsel'}}, lhs['inner'][1]]},
                        rhs['inner'][1]]}
                    continue
            rewrite(c)
    rewrite(f)
    # `nvec = (std::min)(nvec, nconv)` with nconv = m_ritz_conv.count() passed in as a parameter
    out = Out(); env = {'colsel': ('colsel', 'arr_int'), 'nvec': ('nvec', 'int'), 'nconv': ('nconv', 'int')}
    fn.stmts([body[1], body[5], f], env, out, 2, lambda e, o, i: o.add(i, '(nvec, j, colsel)'))
    return (f'def {t["lean"]} (m_nev : Int) (m_ritz_conv : Int → Bool) (nvec : Int) (nconv : Int) (colsel : Int → Int) : Int × Int × (Int → Int) :=\n' + out.render())

MODULES.append(('Access', [
    dict(lean='hermEigenvalues_loop', header='HermEigsBase.h', custom=eigenvalues_loop, path='HermEigsBase::eigenvalues', cfg={'arr': 'arr_sc'}),
    dict(lean='genEigenvalues_loop', header='GenEigsBase.h', custom=eigenvalues_loop, path='GenEigsBase::eigenvalues', cfg={'arr': 'arr_cplx'}),
    dict(lean='hermEigenvectors_loop', header='HermEigsBase.h', custom=eigenvectors_loop, path='HermEigsBase::eigenvectors', cfg={}),
    dict(lean='genEigenvectors_loop', header='GenEigsBase.h', custom=eigenvectors_loop, path='GenEigsBase::eigenvectors', cfg={}),
], ''))
