"""C20 (re-entrancy): structural footprint of the WHOLE include/Spectra tree -> module `Gen.Footprint` (Lean list literals),
regenerated from the clang-14 AST (and, as a second net, from the comment-stripped token stream) on every run.

 statics            every variable with static storage duration (namespace scope / static data member / function-local static)
                    that is not const/constexpr and not thread_local, library as shipped AND the SPECTRA_VERIF build
 thread_locals      same, thread_local ones (expected: the verification observer slot of Util/VerifHooks.h, guard-on only)
 outside_namespace  declarations of the Spectra headers that are not inside `namespace Spectra` (the AST filter cannot see them)
 mutable_members    every `mutable` data member with its class
 wrappers           data members of the six matrix-product wrappers: (name, mutable, const-qualified, refers to non-const)
 wrapper_methods    perform_op / operator* / rows / cols of the wrappers with their const-qualification
 wrapper_bases      base classes of the wrappers
 holders            how classes with a mutable member are held by other Spectra classes (by value / reference / pointer / as base argument)
 blacklist_uses     references to rand/srand/time/clock/getenv/random_device/set_new_handler/... and const_cast/reinterpret_cast
 keyword_counts     token counts of static/thread_local/mutable/extern/volatile in the headers vs the AST-accounted ones
"""
import os, re, json, glob, subprocess
import astdump
from xlate import XlateError

WRAPPERS = ['DenseSymMatProd', 'DenseGenMatProd', 'DenseHermMatProd', 'SparseSymMatProd', 'SparseGenMatProd', 'SparseHermMatProd']
FUNC_KINDS = ('FunctionDecl', 'CXXMethodDecl', 'CXXConstructorDecl', 'CXXDestructorDecl', 'CXXConversionDecl')
REC_KINDS = ('CXXRecordDecl', 'ClassTemplatePartialSpecializationDecl', 'ClassTemplateSpecializationDecl')
BLACK_NAMES = {'rand', 'srand', 'rand_r', 'drand48', 'lrand48', 'mrand48', 'srand48', 'time', 'clock', 'clock_gettime', 'gettimeofday',
               'getenv', 'secure_getenv', 'setenv', 'putenv', 'set_new_handler', 'get_new_handler', 'set_terminate', 'set_unexpected',
               'setlocale', 'strtok', 'localtime', 'gmtime', 'asctime', 'ctime', 'tmpnam', 'signal', 'atexit', 'at_quick_exit',
               'getpid', 'gettid', 'get_id', 'this_thread', 'strerror', 'omp_get_thread_num', 'omp_set_num_threads', 'setNbThreads', 'initParallel'}
BLACK_TYPES = re.compile(r'\b(random_device|mt19937(_64)?|minstd_rand0?|default_random_engine|ranlux\w+|knuth_b|system_clock|steady_clock|high_resolution_clock|'
                         r'time_point|call_once|once_flag)\b')
BLACK_CASTS = ('CXXConstCastExpr', 'CXXReinterpretCastExpr')

# ------------------------------------------------------------------ AST loading (guard-on dump is ours; guard-off is the shared cache)
def dump_guard_on(workdir):
    th = astdump.tree_hash()
    cache = os.path.join(workdir, 'c20ast_on_%s.json' % th[:16])
    if not os.path.exists(cache):
        for old in glob.glob(os.path.join(workdir, 'c20ast_on_*.json')):
            try: os.remove(old)
            except OSError: pass
        tu = os.path.join(workdir, 'c20_tu_all.cpp')
        with open(tu, 'w') as f:
            for h in astdump.all_headers(): f.write('#include <%s>\n' % h)
        cmd = ['clang++-14', '-std=gnu++17', '-fsyntax-only', '-DSPECTRA_VERIF', '-I' + astdump.INC, '-I/usr/include/eigen3',
               '-Xclang', '-ast-dump=json', '-Xclang', '-ast-dump-filter=Spectra::', tu]
        tmp = cache + '.tmp%d' % os.getpid()
        with open(tmp, 'w') as out:
            r = subprocess.run(cmd, stdout=out, stderr=subprocess.PIPE, text=True)
        if r.returncode != 0:
            try: os.remove(tmp)
            except OSError: pass
            raise XlateError('clang (guard on) failed: ' + r.stderr[-1500:])
        os.replace(tmp, cache)
    s = open(cache).read()
    dec = json.JSONDecoder(); i = 0; objs = []; n = len(s)
    while i < n:
        while i < n and s[i].isspace(): i += 1
        if i >= n: break
        o, j = dec.raw_decode(s, i); objs.append(o); i = j
    return objs

def annotate(objs):
    """clang's JSON dumper writes `file` and `line` only when they change: replay that to give every node with a `loc` a
    resolved (_file, _line).  Iterative, document order."""
    cur = {'file': '?', 'line': 0}
    def loc_update(d):
        # a bare location {offset, file?, line?, col, tokLen, includedFrom?} or {spellingLoc, expansionLoc}
        for k in ('spellingLoc', 'expansionLoc'):
            if k in d and isinstance(d[k], dict): loc_update(d[k])
        if 'file' in d: cur['file'] = d['file']
        if 'line' in d: cur['line'] = d['line']
    stack = [objs[::-1]]
    # explicit DFS preserving key order
    def visit(node):
        st = [node]
        while st:
            x = st.pop()
            if isinstance(x, list):
                st.extend(reversed(x)); continue
            if not isinstance(x, dict): continue
            if 'loc' in x and isinstance(x['loc'], dict):
                loc_update(x['loc']); x['_file'] = cur['file']; x['_line'] = cur['line']
            r = x.get('range')
            if isinstance(r, dict):
                for k in ('begin', 'end'):
                    if isinstance(r.get(k), dict): loc_update(r[k])
                if '_file' not in x: x['_file'] = cur['file']; x['_line'] = cur['line']
            if 'inner' in x: st.append(x['inner'])
    for o in objs: visit(o)

def relfile(f):
    f = f or '?'
    f = os.path.normpath(f)
    m = re.search(r'include/Spectra/(.*)$', f)
    return m.group(1) if m else f

def where(n):
    return '%s:%d' % (relfile(n.get('_file')), n.get('_line', 0))

# ------------------------------------------------------------------ type helpers
def tstr(n):
    t = n.get('type', {}) or {}
    return t.get('qualType', ''), t.get('desugaredQualType', t.get('qualType', ''))

def top_const(q):
    q = q.strip()
    if q.endswith('&') or q.endswith('&&'): return False
    if q.endswith('*'): return False
    if re.search(r'\*\s*const$', q): return True
    if q.endswith(']'): q = q[:q.rfind('[')].strip()
    return q.startswith('const ') or q.endswith(' const')

def refers_nonconst(q):
    """raw reference/pointer to non-const, or an Eigen Ref/Map handle of a non-const object"""
    q = q.strip()
    m = re.match(r'^(.*?)(\s*(&&|&|\*)(\s*const)?)$', q)
    if m:
        pointee = m.group(1).strip()
        if not (pointee.startswith('const ') or pointee.endswith(' const')): return True
    for mm in re.finditer(r'\b(Ref|Map)\s*<\s*(const\b)?', q):
        if not mm.group(2): return True
    return False

def hold_kind(q):
    q = q.strip()
    if q.endswith('&&') or q.endswith('&'):
        p = q.rstrip('&').strip()
        return 'cref' if (p.startswith('const ') or p.endswith(' const')) else 'ref'
    if re.search(r'\*(\s*const)?$', q): return 'ptr'
    return 'value'

# ------------------------------------------------------------------ traversal
class Scan:
    def __init__(self, objs, tag):
        self.tag = tag
        self.vars = []        # (qualified name, where, type, tls, const, constexpr, kind)
        self.mut = []         # (class, member, where)
        self.classes = {}     # name -> list of dict(fields, bases, methods, aliases, node)
        self.black = []       # (what, where)
        self.static_decls = set()   # where-strings of AST decls carrying the `static` keyword
        self.tls_decls = set()
        self.mutable_decls = set()
        self.extern_decls = set()
        for o in objs: self.walk(o, [], False, top=True)

    def record(self, rec, cname, scope):
        info = dict(name=cname, fields=[], bases=[], methods=[], aliases={}, where=where(rec))
        for b in rec.get('bases', []) or []:
            info['bases'].append(b.get('type', {}).get('qualType', '?'))
        for c in rec.get('inner', []) or []:
            k = c.get('kind')
            if k == 'FieldDecl':
                q, dq = tstr(c)
                info['fields'].append(dict(name=c.get('name', '?'), mutable=bool(c.get('mutable')), q=q, dq=dq, where=where(c)))
                if c.get('mutable'):
                    self.mut.append((cname, c.get('name', '?'), where(c))); self.mutable_decls.add(where(c))
            elif k in ('TypeAliasDecl', 'TypedefDecl'):
                info['aliases'][c.get('name')] = tstr(c)[0]
            elif k == 'CXXMethodDecl':
                info['methods'].append((c.get('name', '?'), tstr(c)[0], c.get('storageClass', '')))
            elif k == 'FunctionTemplateDecl':
                for x in c.get('inner', []) or []:
                    if x.get('kind') == 'CXXMethodDecl':
                        info['methods'].append((x.get('name', '?'), tstr(x)[0], x.get('storageClass', ''))); break
        self.classes.setdefault(cname, []).append(info)

    def walk(self, n, scope, in_fn, top=False, parent_kind=None):
        k = n.get('kind')
        name = n.get('name')
        if k == 'ClassTemplateDecl':
            for c in n.get('inner', []) or []:
                if c.get('kind') == 'CXXRecordDecl': self.walk(c, scope, in_fn, parent_kind=k)
                # implicit instantiations nested here are copies of the pattern: skipped
            return
        if k in ('FunctionTemplateDecl', 'VarTemplateDecl'):
            done = False
            for c in n.get('inner', []) or []:
                if c.get('kind') in FUNC_KINDS + ('VarDecl',):
                    if not done: self.walk(c, scope, in_fn, parent_kind=k); done = True   # first = the pattern; rest are instantiations
            return
        if k in REC_KINDS:
            if k == 'CXXRecordDecl' and n.get('isImplicit'): return
            if k == 'CXXRecordDecl' and not n.get('completeDefinition') and not any(c.get('kind') == 'FieldDecl' for c in n.get('inner', []) or []):
                # forward declaration or injected class name
                if not n.get('inner'): return
            cname = name or '?'
            if k == 'ClassTemplateSpecializationDecl' and parent_kind == 'ClassTemplateDecl': return
            self.record(n, cname, scope)
            for c in n.get('inner', []) or []:
                if c.get('kind') == 'CXXRecordDecl' and c.get('name') == cname and not c.get('inner'): continue
                self.walk(c, scope + [cname], False, parent_kind=k)
            return
        if k in FUNC_KINDS:
            if n.get('storageClass') == 'static': self.static_decls.add(where(n))
            if n.get('storageClass') == 'extern': self.extern_decls.add(where(n))
            for c in n.get('inner', []) or []: self.walk(c, scope + [name or '?'], True, parent_kind=k)
            return
        if k == 'VarDecl':
            q, dq = tstr(n)
            sc = n.get('storageClass', '')
            tls = 'tls' in n
            if sc == 'static': self.static_decls.add(where(n))
            if sc == 'extern': self.extern_decls.add(where(n))
            if tls: self.tls_decls.add(where(n))
            static_storage = (not in_fn) or sc in ('static', 'extern') or tls
            if static_storage:
                kind = ('function-local' if in_fn else ('static-member' if (scope and scope[-1] in self.classes) else 'namespace-scope'))
                self.vars.append(dict(name='::'.join(scope + [name or '?']), where=where(n), type=q, tls=tls,
                                      const=top_const(q) or top_const(dq), constexpr=bool(n.get('constexpr')), kind=kind))
        # blacklist: any reference by name, any type mention, any const_cast / reinterpret_cast
        if k in BLACK_CASTS: self.black.append((k.replace('CXX', '').replace('Expr', ''), where(n)))
        if in_fn or k in ('FieldDecl', 'VarDecl'):
            rd = n.get('referencedDecl')
            if isinstance(rd, dict) and rd.get('name') in BLACK_NAMES and rd.get('kind') in ('FunctionDecl', 'VarDecl', 'NamespaceDecl', 'CXXMethodDecl'):
                self.black.append((rd.get('name'), where(n)))
            if k in ('UnresolvedLookupExpr', 'DependentScopeDeclRefExpr') and name in BLACK_NAMES: self.black.append((name, where(n)))
            for l in n.get('lookups', []) or []:
                if l.get('name') in BLACK_NAMES: self.black.append((l.get('name'), where(n)))
            if k == 'CXXDependentScopeMemberExpr' and n.get('member') in BLACK_NAMES: self.black.append((n.get('member'), where(n)))
            for t in tstr(n):
                m = BLACK_TYPES.search(t or '')
                if m: self.black.append((m.group(1), where(n))); break
        for c in n.get('inner', []) or []:
            if isinstance(c, dict): self.walk(c, scope + ([name] if (k == 'NamespaceDecl' and name) else []), in_fn, parent_kind=k)

# ------------------------------------------------------------------ token level (second net; independent of clang)
def strip_cpp(src):
    """remove comments, string and char literals; keep newlines"""
    out = []; i = 0; n = len(src)
    while i < n:
        c = src[i]
        if src.startswith('//', i):
            j = src.find('\n', i); i = n if j < 0 else j; continue
        if src.startswith('/*', i):
            j = src.find('*/', i + 2); j = n if j < 0 else j + 2
            out.append('\n' * src.count('\n', i, j)); i = j; continue
        if c == '"' or c == "'":
            j = i + 1
            while j < n and src[j] != c: j += 2 if src[j] == '\\' else 1
            out.append(c + c); i = j + 1; continue
        out.append(c); i += 1
    return ''.join(out)

def token_scan():
    kw = {k: [] for k in ('static', 'thread_local', 'mutable', 'extern', 'volatile')}
    outside = []; calls = []
    for h in astdump.all_headers():
        txt = strip_cpp(open(os.path.join(astdump.INC, h)).read())
        rel = relfile('include/' + h)
        # join continuation lines of preprocessor directives, then drop directives
        lines = txt.split('\n')
        code = []; cont = False
        for ln in lines:
            if cont or ln.lstrip().startswith('#'):
                cont = ln.rstrip().endswith('\\'); code.append(''); continue
            code.append(ln)
        depth = 0; ns_depths = []; pending = ''
        for lno, ln in enumerate(code, 1):
            for m in re.finditer(r'\b(static|thread_local|mutable|extern|volatile)\b', ln): kw[m.group(1)].append('%s:%d' % (rel, lno))
            for m in re.finditer(r'(?<![\w.>])(?:std\s*::\s*|::\s*)?(\w+)\s*\(', ln):
                if m.group(1) in BLACK_NAMES and not re.search(r'(\.|->)\s*$', ln[:m.start()]): calls.append((m.group(1), '%s:%d' % (rel, lno)))
            for m in BLACK_TYPES.finditer(ln): calls.append((m.group(1), '%s:%d' % (rel, lno)))
            # namespace tracking
            i = 0
            while i < len(ln):
                ch = ln[i]
                if ch == '{':
                    if re.search(r'\bnamespace\s+Spectra\s*$', pending.strip()) and depth == 0: ns_depths.append(depth)
                    elif depth == 0 and not ns_depths: outside.append('%s:%d' % (rel, lno))
                    depth += 1; pending = ''
                elif ch == '}':
                    depth -= 1; pending = ''
                    if ns_depths and ns_depths[-1] == depth: ns_depths.pop()
                elif ch == ';':
                    if depth == 0 and not ns_depths and pending.strip():
                        if not re.match(r'^\s*(struct|class)\s+\w+\s*$', pending): outside.append('%s:%d' % (rel, lno))
                    pending = ''
                else:
                    pending += ch
                i += 1
            pending += ' '
    # `static thread_local` counts once as static and once as thread_local
    return kw, sorted(set(outside)), calls

# ------------------------------------------------------------------ analysis (memoised per TU)
_memo = {}
def analysis(tu):
    key = id(tu)
    if key in _memo: return _memo[key]
    work = os.path.join(os.path.dirname(os.path.dirname(os.path.abspath(__file__))), 'build', 'xlate')
    os.makedirs(work, exist_ok=True)
    off = tu.objs                       # library as shipped (shared dump, no -DSPECTRA_VERIF)
    on = dump_guard_on(work)            # the build every harness uses
    if '_c20_annotated' not in off[0]:
        annotate(off); off[0]['_c20_annotated'] = True
    annotate(on)
    a = dict(off=Scan(off, 'off'), on=Scan(on, 'on'))
    a['kw'], a['outside'], a['calls'] = token_scan()
    _memo.clear(); _memo[key] = a
    return a

def lstr(s): return '"' + str(s).replace('\\', '\\\\').replace('"', '\\"') + '"'
def lbool(b): return 'true' if b else 'false'
def llist(items, per_line=True):
    if not items: return '[]'
    sep = ',\n  ' if per_line else ', '
    return '[' + ('\n  ' if per_line else '') + sep.join(items) + ']'

def uniq(seq):
    seen = set(); out = []
    for x in seq:
        if x not in seen: seen.add(x); out.append(x)
    return out

# ------------------------------------------------------------------ targets
def t_statics(tu, t):
    a = analysis(tu)
    def fmt(v): return '(%s, %s, %s, %s)' % (lstr(v['name']), lstr(v['where']), lstr(v['kind']), lstr(v['type']))
    mutable_static = lambda v: not (v['const'] or v['constexpr'])
    s = '-- variables with static storage duration, not const/constexpr, not thread_local: (name, location, kind, type).\n'
    s += '-- `statics`: library as shipped; `statics_verif`: compiled with -DSPECTRA_VERIF as every harness is\n'
    s += 'def statics : List (String × String × String × String) := ' + llist(uniq(fmt(v) for v in a['off'].vars if mutable_static(v) and not v['tls'])) + '\n'
    s += 'def statics_verif : List (String × String × String × String) := ' + llist(uniq(fmt(v) for v in a['on'].vars if mutable_static(v) and not v['tls'])) + '\n'
    s += '/-- thread_local variables (one instance per thread, so not shared between concurrent solvers) -/\n'
    s += 'def thread_locals : List (String × String × String × String) := ' + llist(uniq(fmt(v) for v in a['off'].vars if mutable_static(v) and v['tls'])) + '\n'
    s += 'def thread_locals_verif : List (String × String × String × String) := ' + llist(uniq(fmt(v) for v in a['on'].vars if mutable_static(v) and v['tls'])) + '\n'
    s += '/-- const/constexpr variables with static storage (immutable; listed for completeness): (name, location) -/\n'
    s += 'def const_statics : List (String × String) := ' + llist(uniq('(%s, %s)' % (lstr(v['name']), lstr(v['where'])) for sc in ('off', 'on') for v in a[sc].vars if not mutable_static(v))) + '\n'
    s += '/-- top-level code of the Spectra headers outside `namespace Spectra` other than forward declarations (token scan; invisible to the AST filter) -/\n'
    s += 'def outside_namespace : List String := ' + llist([lstr(x) for x in a['outside']]) + '\n'
    return s

def t_mutable(tu, t):
    a = analysis(tu)
    m = uniq((c, f) for sc in ('off', 'on') for (c, f, w) in a[sc].mut)
    s = '-- every `mutable` data member: (class, member)\n'
    s += 'def mutable_members : List (String × String) := ' + llist(['(%s, %s)' % (lstr(c), lstr(f)) for c, f in sorted(m)]) + '\n'
    s += 'def mutable_locations : List String := ' + llist([lstr(w) for w in sorted(uniq(w for sc in ('off', 'on') for (_, _, w) in a[sc].mut))]) + '\n'
    return s

def t_wrappers(tu, t):
    a = analysis(tu)
    fl = []; ml = []; bl = []
    for w in WRAPPERS:
        seen_f = set(); seen_m = set()
        infos = [i for sc in ('off', 'on') for i in a[sc].classes.get(w, [])]
        if not infos: raise XlateError('product wrapper %s not found in the AST' % w)
        for info in infos:
            for f in info['fields']:
                key = (f['name'], f['mutable'], f['q'])
                if key in seen_f: continue
                seen_f.add(key)
                cq = top_const(f['q']) or top_const(f['dq'])
                nc = refers_nonconst(f['q']) or refers_nonconst(f['dq'])
                fl.append('(%s, %s, %s, %s, %s, %s)' % (lstr(w), lstr(f['name']), lbool(f['mutable']), lbool(cq), lbool(nc), lstr(f['dq'])))
            for (mn, mt, sc_) in info['methods']:
                if mn in ('perform_op', 'operator*', 'operator()', 'rows', 'cols'):
                    key = (mn, mt)
                    if key in seen_m: continue
                    seen_m.add(key)
                    ml.append('(%s, %s, %s)' % (lstr(w), lstr(mn), lbool(mt.rstrip().endswith('const') or sc_ == 'static')))
            for b in info['bases']:
                bl.append('(%s, %s)' % (lstr(w), lstr(b)))
    s = '-- data members of the matrix-product wrappers: (class, member, is_mutable, is_const_qualified, refers_to_non_const, type)\n'
    s += 'def wrappers : List (String × String × Bool × Bool × Bool × String) := ' + llist(fl) + '\n'
    s += '/-- operation methods of the wrappers: (class, method, is_const_qualified) -/\n'
    s += 'def wrapper_methods : List (String × String × Bool) := ' + llist(uniq(ml)) + '\n'
    s += 'def wrapper_bases : List (String × String) := ' + llist(uniq(bl)) + '\n'
    s += 'def wrapper_names : List String := ' + llist([lstr(w) for w in WRAPPERS], per_line=False) + '\n'
    return s

def expand_aliases(q, aliases, rounds=4):
    for _ in range(rounds):
        q2 = re.sub(r'\b(?:Spectra::)?(?:\w+::)?(\w+)\b', lambda m: aliases.get(m.group(1), m.group(0)) if m.group(1) in aliases else m.group(0), q)
        if q2 == q: break
        q = q2
    return q

def t_holders(tu, t):
    a = analysis(tu)
    mutc = sorted(set(c for sc in ('off', 'on') for (c, _, _) in a[sc].mut))
    res = []
    # a class with a mutable member may be held through (a pointer/reference to) one of its Spectra base classes
    via = {mc: [mc] for mc in mutc}
    for mc in mutc:
        for sc in ('off', 'on'):
            for info in a[sc].classes.get(mc, []):
                for b in info['bases']:
                    bn = b.split('<')[0].split('::')[-1].strip()
                    if bn and bn not in via[mc]: via[mc].append(bn)
    for sc in ('off', 'on'):
        for cname, infos in a[sc].classes.items():
            for info in infos:
                al = {k: v for k, v in info['aliases'].items() if k not in mutc}
                for f in info['fields']:
                    full = expand_aliases(f['q'], al) + ' | ' + expand_aliases(f['dq'], al)
                    for mc in mutc:
                        if mc == cname: continue
                        if any(re.search(r'\b%s\b' % re.escape(nm), full) for nm in via[mc]):
                            res.append((mc, cname, f['name'], hold_kind(f['q'])))
                for b in info['bases']:
                    fb = expand_aliases(b, al)
                    for mc in mutc:
                        if re.search(r'\b%s\b' % re.escape(mc), fb):
                            res.append((mc, cname, 'base:' + fb.split('<')[0].strip(), 'base-argument'))
    res = sorted(set(res))
    s = '-- how classes that have a `mutable` member are held by other Spectra classes: (class with mutable member, holder, member | base:<class>, how)\n'
    s += '-- how = value | ref | cref | ptr | base-argument (the adaptor is the OpType argument of the named base, which stores it in `m_op_container`)\n'
    s += 'def holders : List (String × String × String × String) := ' + llist(['(%s, %s, %s, %s)' % tuple(lstr(x) for x in r) for r in res]) + '\n'
    # the members of the two solver bases and of the factorization classes through which an adaptor is owned
    own = []
    for cname, fname in (('HermEigsBase', 'm_op_container'), ('HermEigsBase', 'm_fac'), ('GenEigsBase', 'm_fac'), ('Arnoldi', 'm_op'),
                         ('HermEigsBase', 'm_op'), ('GenEigsBase', 'm_op'), ('JDSymEigsBase', 'm_matrix_operator')):
        for sc in ('off',):
            for info in a[sc].classes.get(cname, []):
                for f in info['fields']:
                    if f['name'] == fname: own.append('(%s, %s, %s, %s)' % (lstr(cname), lstr(fname), lstr(hold_kind(f['q'])), lstr(f['q'])))
    s += '/-- how the solver bases hold their operator and factorization objects: (class, member, how, declared type) -/\n'
    s += 'def solver_members : List (String × String × String × String) := ' + llist(uniq(own)) + '\n'
    return s

def t_blacklist(tu, t):
    a = analysis(tu)
    items = uniq([(w, loc) for sc in ('off', 'on') for (w, loc) in a[sc].black] + list(a['calls']))
    s = '-- references to process-global / time- / address- / environment-dependent facilities and const-removing casts: (what, location)\n'
    s += '-- names: ' + ' '.join(sorted(BLACK_NAMES)) + '\n-- types: random_device, standard random engines, chrono clocks, call_once; casts: const_cast, reinterpret_cast\n'
    s += 'def blacklist_uses : List (String × String) := ' + llist(['(%s, %s)' % (lstr(w), lstr(l)) for w, l in sorted(items)]) + '\n'
    return s

def t_keywords(tu, t):
    a = analysis(tu)
    kw = a['kw']; on = a['on']; off = a['off']
    ast = {'static': len(on.static_decls | off.static_decls), 'thread_local': len(on.tls_decls | off.tls_decls),
           'mutable': len(on.mutable_decls | off.mutable_decls), 'extern': len(on.extern_decls | off.extern_decls), 'volatile': 0}
    order = ['static', 'thread_local', 'mutable', 'extern', 'volatile']
    s = '-- storage keywords: occurrences in the comment-stripped header text vs declarations the AST scan accounted for (same order).\n'
    s += '-- Equality means no `static`/`mutable`/... in the tree escaped the AST scan (e.g. inside an uninstantiated or macro-hidden construct).\n'
    s += 'def keyword_text_counts : List (String × Nat) := ' + llist(['(%s, %d)' % (lstr(k), len(kw[k])) for k in order], per_line=False) + '\n'
    s += 'def keyword_ast_counts : List (String × Nat) := ' + llist(['(%s, %d)' % (lstr(k), ast[k]) for k in order], per_line=False) + '\n'
    unacc = sorted(set(kw['static']) - (on.static_decls | off.static_decls))
    s += '/-- `static` keyword sites of the text with no AST declaration at the same file:line -/\n'
    s += 'def static_sites_unaccounted : List String := ' + llist([lstr(x) for x in unacc]) + '\n'
    s += 'def n_headers : Nat := %d\n' % len(astdump.all_headers())
    s += 'def n_classes : Nat := %d\n' % len(on.classes)
    return s

HANDLE_RE = re.compile(r'\b(Ref|Map|ConstGenericMatrix|ConstGenericSparseMatrix|reference_wrapper|shared_ptr|unique_ptr|weak_ptr|function)\b')
def t_handles(tu, t):
    """every data member of every Spectra class that does not OWN its value: raw reference / pointer members and non-owning or
    shared handles (Eigen::Ref / Map and the library's ConstGeneric* aliases of them, reference_wrapper, smart pointers,
    std::function).  These are the only places where something outside the object can influence a later call."""
    a = analysis(tu)
    res = []
    for sc in ('off', 'on'):
        for cname, infos in a[sc].classes.items():
            for info in infos:
                al = dict(info['aliases'])
                for f in info['fields']:
                    how = hold_kind(f['q'])
                    full = expand_aliases(f['q'], al) + ' | ' + f['dq']
                    if how == 'value':
                        m = HANDLE_RE.search(full)
                        if not m: continue
                        how = 'handle:' + m.group(1)
                    res.append((cname, f['name'], how, f['q']))
    res = sorted(set(res))
    s = '-- (class, member, how, declared type); how = ref | cref | ptr | handle:<kind>\n'
    s += 'def handle_members : List (String × String × String × String) := ' + llist(['(%s, %s, %s, %s)' % tuple(lstr(x) for x in r) for r in res]) + '\n'
    return s

FOOT = [dict(lean=n, header='*', custom=f, path='*') for n, f in
        (('statics', t_statics), ('mutable_members', t_mutable), ('wrappers', t_wrappers), ('holders', t_holders),
         ('blacklist_uses', t_blacklist), ('keywords', t_keywords), ('handle_members', t_handles))]
MODULES = [('Footprint', FOOT, '')]
