"""C03 (generalized symmetric solvers): structural footprint of the DATA MEMBERS of the five generalized solver classes / specializations
(SymGEigsSolver<Cholesky|RegularInverse>, SymGEigsShiftSolver<ShiftInvert|Buckling|Cayley>), of their base HermEigsBase and of the five
composite operator classes SymGEigs*Op, and of the places where the user's shift `sigma` flows into a member -> module `Gen.GSymMembers`
(Lean list literals), regenerated from the clang-14 AST of /repo's working tree on every run.

 members      one record per data member: class, specialization ("" for a primary template), name, declared type (source text), reference?,
              pointer / non-owning handle?, top-level const?, `mutable`?
 sigma_sinks  every constructor mem-initializer and every assignment in a member function of these classes whose source expression mentions a
              function parameter named `sigma` / `shift`: Sink{class, specialization, function, target, isBase, how}; target = member name or base class;
              how = "copy" (the initializer / right-hand side IS the parameter) | "expr" (the parameter occurs inside a larger expression)
 back_reads   for every member function of the five solver classes: the class's OWN data members it reads: (class, specialization, function, member)
 spec_classes (class, specialization, base class text) for the five solver classes, in source order

A member that keeps the shift by reference (`const Scalar& m_sigma`), by pointer, or through an Eigen::Ref / Map / reference_wrapper handle changes
`members`, a shift that is no longer copied into the member read by the back-transformation changes `sigma_sinks` / `back_reads`:
`C03.c03_sigma_by_value` breaks."""
import os, re
import astdump
from xlate import XlateError

SOLVERS = ('SymGEigsSolver', 'SymGEigsShiftSolver')
OPS = ('SymGEigsCholeskyOp', 'SymGEigsRegInvOp', 'SymGEigsShiftInvertOp', 'SymGEigsBucklingOp', 'SymGEigsCayleyOp')
BASES = ('HermEigsBase',)
HEADER_OF = {'SymGEigsSolver': 'SymGEigsSolver.h', 'SymGEigsShiftSolver': 'SymGEigsShiftSolver.h', 'HermEigsBase': 'HermEigsBase.h'}
for _o in OPS: HEADER_OF[_o] = 'MatOp/internal/%s.h' % _o
SHIFT_PARAMS = ('sigma', 'shift')
HANDLE = re.compile(r'\b(Ref|Map|reference_wrapper|shared_ptr|unique_ptr|weak_ptr|function)\s*<')
FUNC_KINDS = ('CXXMethodDecl', 'CXXConstructorDecl', 'CXXDestructorDecl', 'CXXConversionDecl')

def lstr(s): return '"' + str(s).replace('\\', '\\\\').replace('"', '\\"') + '"'
def lbool(b): return 'true' if b else 'false'
def llist(items): return '[]' if not items else '[\n  ' + ',\n  '.join(items) + ']'

_src = {}
def src_of(cls):
    h = HEADER_OF[cls]
    if h not in _src: _src[h] = open(os.path.join(astdump.INC, 'Spectra', h)).read()
    return _src[h]

def off(loc):
    loc = loc.get('expansionLoc', loc)
    if 'offset' not in loc: raise XlateError('no source offset')
    return loc['offset'], loc.get('tokLen', 0)

def walk(n):
    st = [n]
    while st:
        x = st.pop()
        yield x
        for c in reversed(x.get('inner', []) or []):
            if isinstance(c, dict): st.append(c)

def records(tu):
    """(class, spec, record node, base texts) for the classes of interest; spec = GEigsMode enumerator of a partial specialization"""
    modes = tu.enums.get('GEigsMode')
    if not modes: raise XlateError('enum GEigsMode not found')
    out = []
    for o in tu.objs:
        k = o.get('kind'); nm = o.get('name')
        if k == 'ClassTemplateDecl' and nm in OPS + BASES:
            rec = [c for c in o.get('inner', []) if c.get('kind') == 'CXXRecordDecl' and c.get('completeDefinition')]
            if len(rec) != 1: raise XlateError('%s: expected one definition' % nm)
            out.append((nm, '', rec[0]))
        elif k == 'ClassTemplateDecl' and nm in SOLVERS:
            # the primary template must stay empty (no data members): otherwise a member could hide there
            for c in o.get('inner', []):
                if c.get('kind') == 'CXXRecordDecl' and any(x.get('kind') == 'FieldDecl' for x in c.get('inner', []) or []): out.append((nm, '', c))
        elif k == 'ClassTemplatePartialSpecializationDecl' and nm in SOLVERS:
            args = [c for c in o.get('inner', []) if c.get('kind') == 'TemplateArgument']
            vals = [a['value'] for a in args if 'value' in a]
            if len(vals) != 1 or not (0 <= int(vals[0]) < len(modes)): raise XlateError('%s: specialization without a GEigsMode argument' % nm)
            out.append((nm, modes[int(vals[0])], o))
        elif k in ('ClassTemplateSpecializationDecl', 'CXXRecordDecl') and nm in SOLVERS + OPS + BASES and o.get('completeDefinition') and not o.get('isImplicit'):
            raise XlateError('%s: unexpected full specialization / non-template definition' % nm)
    return out

def field_type_text(cls, f):
    s = src_of(cls)
    b, _ = off(f['range']['begin']); e, _ = off(f['loc'])
    t = re.sub(r'\s+', ' ', s[b:e]).strip()
    return re.sub(r'^(mutable\s+)', '', t)

def classify(qual, text):
    q = qual.strip(); t = text.strip()
    is_ref = q.endswith('&') or t.endswith('&')
    is_ptr = bool(re.search(r'\*(\s*const)?$', q)) or bool(re.search(r'\*(\s*const)?$', t)) or bool(HANDLE.search(q)) or bool(HANDLE.search(t))
    core = q.rstrip('&').strip()
    is_const = (not is_ref and not is_ptr) and (core.startswith('const ') or core.endswith(' const') or t.startswith('const '))
    return is_ref, is_ptr, is_const

def t_members(tu, t):
    recs = records(tu)
    rows = []; specs = []
    for cls, spec, rec in recs:
        if cls in SOLVERS:
            bases = [b.get('type', {}).get('qualType', '?') for b in rec.get('bases', []) or []]
            specs.append('(%s, %s, %s)' % (lstr(cls), lstr(spec), lstr(' | '.join(bases))))
        for f in rec.get('inner', []) or []:
            if f.get('kind') != 'FieldDecl': continue
            q = f.get('type', {}).get('qualType', ''); txt = field_type_text(cls, f)
            r, p, c = classify(q, txt)
            rows.append('{ cls := %s, spec := %s, name := %s, type := %s, isRef := %s, isPtr := %s, isConst := %s, isMutable := %s }' %
                        (lstr(cls), lstr(spec), lstr(f.get('name', '?')), lstr(txt), lbool(r), lbool(p), lbool(c), lbool(bool(f.get('mutable')))))
    found = set((c, s) for c, s, _ in recs)
    for need in [('SymGEigsSolver', 'Cholesky'), ('SymGEigsSolver', 'RegularInverse'), ('SymGEigsShiftSolver', 'ShiftInvert'),
                 ('SymGEigsShiftSolver', 'Buckling'), ('SymGEigsShiftSolver', 'Cayley'), ('HermEigsBase', '')] + [(o, '') for o in OPS]:
        if need not in found: raise XlateError('class %s<%s> not found' % need)
    s = '-- one data member of a class: `type` is the declared type as written in the header; `isPtr` also covers non-owning handles (Eigen::Ref / Map, reference_wrapper, smart pointers, std::function)\n'
    s += 'structure Member where\n  cls : String\n  spec : String\n  name : String\n  type : String\n  isRef : Bool\n  isPtr : Bool\n  isConst : Bool\n  isMutable : Bool\n  deriving DecidableEq, Repr\n\n'
    s += '/-- ALL data members of the five generalized solver classes, of their base `HermEigsBase` and of the five composite operator classes -/\n'
    s += 'def members : List Member := ' + llist(rows) + '\n\n'
    s += '/-- the solver specializations found in the headers: (class, GEigsMode, base class) -/\n'
    s += 'def spec_classes : List (String × String × String) := ' + llist(specs) + '\n'
    return s

def mentions_param(n, params):
    for x in walk(n):
        if x.get('kind') == 'DeclRefExpr' and x.get('referencedDecl', {}).get('kind') == 'ParmVarDecl' and x['referencedDecl'].get('name') in params: return True
    return False

def strip(n):
    while n.get('kind') in ('ParenExpr', 'ImplicitCastExpr', 'ExprWithCleanups', 'ParenListExpr', 'InitListExpr', 'CXXConstructExpr', 'MaterializeTemporaryExpr') and len(n.get('inner', []) or []) == 1:
        n = n['inner'][0]
    return n

def is_param(n, params):
    n = strip(n)
    return n.get('kind') == 'DeclRefExpr' and n.get('referencedDecl', {}).get('kind') == 'ParmVarDecl' and n['referencedDecl'].get('name') in params

def functions(rec):
    for c in rec.get('inner', []) or []:
        if c.get('kind') in FUNC_KINDS: yield c
        elif c.get('kind') == 'FunctionTemplateDecl':
            for x in c.get('inner', []) or []:
                if x.get('kind') in FUNC_KINDS: yield x; break

def fn_name(cls, fn): return cls if fn.get('kind') == 'CXXConstructorDecl' else ('~' + cls if fn.get('kind') == 'CXXDestructorDecl' else fn.get('name', '?'))

def t_sinks(tu, t):
    rows = []
    for cls, spec, rec in records(tu):
        own = set(f.get('name') for f in rec.get('inner', []) or [] if f.get('kind') == 'FieldDecl')
        for fn in functions(rec):
            params = [p.get('name') for p in fn.get('inner', []) or [] if p.get('kind') == 'ParmVarDecl' and p.get('name') in SHIFT_PARAMS]
            if not params: continue
            name = fn_name(cls, fn)
            for c in fn.get('inner', []) or []:
                if c.get('kind') == 'CXXCtorInitializer' and mentions_param(c, params):
                    if 'anyInit' in c: tgt = c['anyInit'].get('name', '?')
                    elif 'baseInit' in c: tgt = 'base:' + c['baseInit'].get('desugaredQualType', c['baseInit'].get('qualType', '?')).split('<')[0].split('::')[-1].strip()
                    else: tgt = 'delegating'
                    inner = c.get('inner', []) or []
                    how = 'copy' if (len(inner) == 1 and is_param(inner[0], params)) else 'expr'
                    rows.append((cls, spec, name, tgt, how))
            for x in walk(fn):
                if x.get('kind') in ('BinaryOperator', 'CXXOperatorCallExpr', 'CompoundAssignOperator') and x.get('opcode', '=') == '=' and len(x.get('inner', []) or []) >= 2:
                    ops = x['inner'] if x.get('kind') != 'CXXOperatorCallExpr' else x['inner'][1:]
                    if len(ops) < 2: continue
                    lhs = strip(ops[0]); rhs = ops[-1]
                    if lhs.get('kind') == 'MemberExpr' and lhs.get('name') in own and mentions_param(rhs, params):
                        rows.append((cls, spec, name, lhs.get('name'), 'copy' if is_param(rhs, params) else 'expr'))
    order = SOLVERS + BASES + OPS; modes = tu.enums.get('GEigsMode', [])
    rows = sorted(set(rows), key=lambda r: (order.index(r[0]), modes.index(r[1]) if r[1] in modes else -1, r[2], r[3], r[4]))
    if not any(r[0] == 'SymGEigsShiftSolver' for r in rows): raise XlateError('no shift sink found in SymGEigsShiftSolver')
    s = '-- one place where a function parameter named `sigma` / `shift` flows into a data member (`isBase = false`, `target` = member name) or into a base-class initializer (`isBase = true`); `how` = "copy" (the initializer / right-hand side IS the parameter) | "expr"\n'
    s += 'structure Sink where\n  cls : String\n  spec : String\n  fn : String\n  target : String\n  isBase : Bool\n  how : String\n  deriving DecidableEq, Repr\n\n'
    s += 'def sigma_sinks : List Sink := ' + llist(['{ cls := %s, spec := %s, fn := %s, target := %s, isBase := %s, how := %s }' %
                                                    (lstr(r[0]), lstr(r[1]), lstr(r[2]), lstr(r[3][5:] if r[3].startswith('base:') else r[3]), lbool(r[3].startswith('base:')), lstr(r[4])) for r in rows]) + '\n'
    return s

def t_reads(tu, t):
    rows = []
    for cls, spec, rec in records(tu):
        if cls not in SOLVERS: continue
        own = set(f.get('name') for f in rec.get('inner', []) or [] if f.get('kind') == 'FieldDecl')
        for fn in functions(rec):
            name = fn_name(cls, fn)
            body = [c for c in fn.get('inner', []) or [] if c.get('kind') in ('CompoundStmt', 'CXXTryStmt')]
            seen = []
            for b in body:
                for x in walk(b):
                    if x.get('kind') == 'MemberExpr' and x.get('name') in own and x.get('name') not in seen: seen.append(x.get('name'))
            for m in seen: rows.append((cls, spec, name, m))
    s = '-- the OWN data members each member function of the five solver classes reads: (class, specialization, function, member)\n'
    s += 'def back_reads : List (String × String × String × String) := ' + llist(['(%s, %s, %s, %s)' % tuple(lstr(x) for x in r) for r in rows]) + '\n'
    return s

MODULES = [('GSymMembers', [
    dict(lean='members', header='SymGEigsShiftSolver.h', custom=t_members, path='SymGEigsSolver | SymGEigsShiftSolver | HermEigsBase | SymGEigs*Op : data members'),
    dict(lean='sigma_sinks', header='SymGEigsShiftSolver.h', custom=t_sinks, path='constructors / set_shift : where the shift is stored'),
    dict(lean='back_reads', header='SymGEigsShiftSolver.h', custom=t_reads, path='SymGEigsSolver | SymGEigsShiftSolver : own members read per function'),
], '')]
