"""C13: restart-size kernels and the index skeletons of the restart / compute loops, translated from the headers on every run
into module `Gen.Restart`.

  is_complex, is_conj         <- GenEigsBase::is_complex / is_conj  (exact tests on std::complex, modelled as pairs)
  hermNevAdj                  <- HermEigsBase::nev_adjusted
  genNevPre                   <- GenEigsBase::nev_adjusted WITHOUT its two trailing statements: the value `nev_new` at the moment
                                 the function reads m_ritz_val[nev_new - 1] and m_ritz_val[nev_new]  (the indices of those reads)
  genNevAdj                   <- GenEigsBase::nev_adjusted (whole function)
  hermShiftSkel / genShiftSkel<- the shift loops of HermEigsBase::restart / GenEigsBase::restart as *index skeletons* (custom extractor
                                 below): loop bounds, which m_ritz_val indices the loop condition reads, single/double shift, the
                                 extra `i++`, and the k >= m_ncv early return.  Numeric calls (decomp.compute, apply_YQ, compress_H)
                                 are recorded as events, not evaluated.
  computeSkel                 <- HermEigsBase::compute / GenEigsBase::compute statement skeleton: call order and loop header
  opSites / opParamBinds      <- STORAGE footprint of every vector handed to the user's operator (custom extractor `op_buffers` below):
                                 every `perform_op(x, y)` call made by a class that is not itself an operator (Arnoldi::init,
                                 Arnoldi::expand_basis, Arnoldi::factorize_from, Lanczos::factorize_from,
                                 GenEigsComplexShiftSolver::sort_ritzpair), the two argument expressions as written, and for each the
                                 ROOT object the pointer comes from (followed through `.data()`, `&M(0, i)`, `.col(i)`, Map views and
                                 references): automatic / static / thread_local local of the calling function, data member, parameter
                                 (then every call of that function in the library with the root of the bound argument), global, or
                                 unknown.  A work vector that becomes `static thread_local` changes the table and breaks
                                 `c13_op_buffers_owned`.
"""
import os, re, glob
from targets import T
from xlate import XlateError, Fn
import astdump

H = 'HermEigsBase.h'
G = 'GenEigsBase.h'

CALLS = {'is_complex': {'lean': 'is_complex', 'kind': 'bool'}, 'is_conj': {'lean': 'is_conj', 'kind': 'bool'}}

def drop_last(n):
    return lambda fn, ss: ss[:-n]

# ------------------------------------------------------------------------------------------------------------------
# index skeleton of a `restart` function.  Accepted shape (anything else fails the target):
#     using ...;  if (k >= m_ncv) return;  <decls>  [const int nshift = m_ncv - k; shifts = tail(nshift); std::sort(..)]
#     for (Index i = LO; i < HI; i++) { BODY }   m_fac.compress_V(Q); m_fac.factorize_from(k, m_ncv, m_nmatop); retrieve_ritzpair(..); hook
# Herm BODY : three member-call statements (compute / apply_YQ / compress_H), no branch on Ritz data.
# Gen  BODY : if (is_complex(m_ritz_val[i]) && is_conj(m_ritz_val[i], m_ritz_val[i + 1])) { ...3 calls...; i++; } else { ...3 calls... }
def _calls_in(x, acc):
    if not isinstance(x, dict): return acc
    if x.get('kind') in ('CXXMemberCallExpr', 'CallExpr', 'CXXOperatorCallExpr'):
        c = x['inner'][0]
        while c.get('kind') in ('ImplicitCastExpr', 'ParenExpr'): c = c['inner'][0]
        nm = c.get('member') or c.get('name') or (c.get('referencedDecl') or {}).get('name')
        if nm: acc.append(nm)
    for c in x.get('inner', []): _calls_in(c, acc)
    return acc

def _idx_expr(fn, n, env):
    s, k = fn.expr(n, env)
    if k != 'int': raise XlateError('index expression of kind ' + k)
    return s

def _ritz_reads(fn, n, env, acc):
    """all subscripts m_ritz_val[e] under n, in evaluation order"""
    if not isinstance(n, dict): return acc
    if n.get('kind') == 'ArraySubscriptExpr':
        b = n['inner'][0]
        while b.get('kind') in ('ImplicitCastExpr', 'ParenExpr'): b = b['inner'][0]
        if b.get('kind') == 'MemberExpr' and b.get('name') == 'm_ritz_val':
            acc.append(_idx_expr(fn, n['inner'][1], env)); return acc
    for c in n.get('inner', []): _ritz_reads(fn, c, env, acc)
    return acc

def restart_skel(family):
    def g(tu, t):
        node = tu.find(t['path'], 0)
        fn = Fn(tu, node, dict(mode='value', members={'m_ncv': 'int', 'm_nev': 'int', 'm_ritz_val': 'arr_cplx'}))
        body = [c for c in node['inner'] if c['kind'] == 'CompoundStmt'][0]['inner']
        env = {'k': ('k', 'int')}
        # 1. early return
        ifs = [s for s in body if s['kind'] == 'IfStmt']
        if not ifs or not fn.escapes(ifs[0]): raise XlateError('restart: leading `if (k >= m_ncv) return;` not found')
        guard, gk = fn.expr(ifs[0]['inner'][0], env)
        if body.index(ifs[0]) > 1: raise XlateError('restart: statements before the early return')
        # 2. the single for loop
        fors = [s for s in body if s['kind'] == 'ForStmt']
        if len(fors) != 1: raise XlateError('restart: expected exactly one for loop')
        f = fors[0]
        init, _, cond, inc, lbody = f['inner']
        if init['kind'] != 'DeclStmt': raise XlateError('for-init')
        vd = init['inner'][0]; iv = vd['name']
        pre_env = dict(env)
        # integer constants declared before the loop (nshift)
        for s in body[:body.index(f)]:
            if s['kind'] == 'DeclStmt':
                for d in s.get('inner', []):
                    if d['kind'] == 'VarDecl' and fn.kind_of(d) == 'int' and d.get('inner'):
                        try:
                            e, k = fn.expr(d['inner'][0], pre_env)
                            pre_env[d['name']] = ('(' + e + ')', 'int')
                        except XlateError:
                            pass
        lo = _idx_expr(fn, vd['inner'][0], pre_env)
        if not (inc['kind'] == 'UnaryOperator' and inc['opcode'] == '++'): raise XlateError('for-increment')
        c = cond
        while c['kind'] in ('ParenExpr',): c = c['inner'][0]
        if not (c['kind'] == 'BinaryOperator' and c['opcode'] == '<'): raise XlateError('for-condition')
        hi = _idx_expr(fn, c['inner'][1], pre_env)
        benv = dict(pre_env); benv[iv] = (iv, 'int')
        stmts = fn.body_list(lbody)
        # 3. after the loop: compress_V, factorize_from(k, m_ncv, ..), retrieve_ritzpair
        after = _calls_in({'inner': body[body.index(f) + 1:]}, [])
        want = ['compress_V', 'factorize_from', 'retrieve_ritzpair']
        if [a for a in after if a in want] != want: raise XlateError('restart: tail is not compress_V; factorize_from; retrieve_ritzpair: ' + str(after))
        fac = [s for s in body[body.index(f) + 1:] if 'factorize_from' in _calls_in(s, [])][0]
        def find_call(x):
            if x.get('kind') in ('CXXMemberCallExpr', 'CallExpr'):
                c0 = x['inner'][0]
                if c0.get('member') == 'factorize_from' or c0.get('name') == 'factorize_from': return x
            for cc in x.get('inner', []):
                r = find_call(cc)
                if r: return r
        fc = find_call(fac)
        if fc is None: raise XlateError('restart: factorize_from call not found')
        fk = _idx_expr(fn, fc['inner'][1], env); fm = _idx_expr(fn, fc['inner'][2], env)
        if family == 'herm':
            if any(s['kind'] in ('IfStmt', 'ForStmt', 'WhileStmt') for s in stmts): raise XlateError('herm restart: branch inside the shift loop')
            calls = _calls_in({'inner': stmts}, [])
            if [x for x in calls if x in ('compute', 'apply_YQ', 'compress_H')] != ['compute', 'apply_YQ', 'compress_H']:
                raise XlateError('herm restart: loop body is not compute; apply_YQ; compress_H: ' + str(calls))
            return (f'def {t["lean"]} (m_ncv : Int) (k : Int) : Bool × Int × Int × Int :=\n'
                    f'  if {guard} then (true, 0, {fk}, {fm}) else\n'
                    f'  let cnt : Int := (intRange {fn.atom(lo)} {fn.atom(hi)}).foldl (fun cnt _ => cnt + 1) 0\n'
                    f'  (false, cnt, {fk}, {fm})\n')
        # general family
        if len(stmts) != 1 or stmts[0]['kind'] != 'IfStmt': raise XlateError('gen restart: loop body is not a single if/else')
        ifs_ = stmts[0]
        cnd, thn, els = ifs_['inner'][0], ifs_['inner'][1], ifs_['inner'][2]
        # the condition is a short-circuit conjunction t1 && t2 && ... (any number of terms, e.g. with an added bounds guard)
        def conj_terms(x):
            while x['kind'] in ('ParenExpr',): x = x['inner'][0]
            if x['kind'] == 'BinaryOperator' and x['opcode'] == '&&': return conj_terms(x['inner'][0]) + conj_terms(x['inner'][1])
            return [x]
        terms = conj_terms(cnd)
        if len(terms) < 2: raise XlateError('gen restart: condition is not a conjunction')
        fn.calls = CALLS
        tx = [fn.to_bool(*fn.expr(t_, benv)) for t_ in terms]
        rds = [_ritz_reads(fn, t_, benv, []) for t_ in terms]
        tcalls = [x for x in _calls_in(thn, []) if x in ('compute', 'apply_YQ', 'compress_H')]
        ecalls = [x for x in _calls_in(els, []) if x in ('compute', 'apply_YQ', 'compress_H')]
        if tcalls != ['compute', 'apply_YQ', 'compress_H'] or ecalls != tcalls: raise XlateError('gen restart: branch bodies')
        def decomp_of(x):
            # which decomposition object is handed to compress_H
            res = []
            def rec(y):
                if y.get('kind') in ('CXXMemberCallExpr', 'CallExpr'):
                    cal = y['inner'][0]
                    if cal.get('member') == 'compress_H' or cal.get('name') == 'compress_H':
                        def names(z):
                            if z.get('kind') == 'DeclRefExpr': res.append(z['referencedDecl']['name'])
                            for w in z.get('inner', []): names(w)
                        for a in y['inner'][1:]: names(a)
                for w in y.get('inner', []): rec(w)
            rec(x); return res
        dt, de = decomp_of(thn), decomp_of(els)
        types = {}
        for s in body:
            if s['kind'] == 'DeclStmt':
                for d in s.get('inner', []):
                    if d['kind'] == 'VarDecl': types[d['name']] = d.get('type', {}).get('qualType', '')
        if not (len(dt) == 1 and 'DoubleShiftQR' in types.get(dt[0], '')): raise XlateError('gen restart: then-branch does not compress with DoubleShiftQR')
        if not (len(de) == 1 and 'UpperHessenbergQR' in types.get(de[0], '')): raise XlateError('gen restart: else-branch does not compress with UpperHessenbergQR')
        # extra increments of the loop variable in the branches
        def incs(x):
            n_ = 0
            def rec(y):
                nonlocal n_
                if y.get('kind') == 'UnaryOperator' and y.get('opcode') == '++':
                    z = y['inner'][0]
                    if z.get('kind') == 'DeclRefExpr' and z['referencedDecl']['name'] == iv: n_ += 1
                if y.get('kind') in ('BinaryOperator', 'CompoundAssignOperator') and y.get('opcode', '').endswith('=') and y.get('opcode') not in ('==', '!=', '<=', '>='):
                    z = y['inner'][0]
                    if z.get('kind') == 'DeclRefExpr' and z['referencedDecl']['name'] == iv: raise XlateError('gen restart: loop variable assigned')
                for w in y.get('inner', []): rec(w)
            rec(x); return n_
        it, ie = incs(thn), incs(els)
        def rdl(upto): return ' ++ '.join('[' + ', '.join(r_) + ']' for r_ in rds[:upto + 1])
        body_txt = ''
        for j, t_ in enumerate(tx):
            ind = '  ' * (j + 1)
            body_txt += f'{ind}if {t_} then\n'
        ind = '  ' * (len(tx) + 1)
        body_txt += f'{ind}({rdl(len(tx) - 1)}, true, {iv} + {it} + 1)\n'
        for j in range(len(tx) - 1, -1, -1):
            ind = '  ' * (j + 1)
            body_txt += f'{ind}else ({rdl(j)}, false, {iv} + {ie} + 1)\n'
        return (f'def {t["lean"]}_step {{α : Type}} [Add α] [Sub α] [Mul α] [Div α] [Neg α] [Sc α] (m_ncv : Int) (m_ritz_val : Int → α × α) ({iv} : Int) : List Int × Bool × Int :=\n'
                f'  let _ := m_ncv\n' + body_txt + '\n'
                f'-- loop header and tail: (early return taken, first loop index, loop bound, arguments of factorize_from)\n'
                f'def {t["lean"]}_frame (m_ncv : Int) (k : Int) : Bool × Int × Int × Int × Int :=\n'
                f'  ({guard}, {lo}, {hi}, {fk}, {fm})\n')
    return g

# ------------------------------------------------------------------------------------------------------------------
# compute(): statement skeleton.  Accepted shape:
#   m_fac.factorize_from(<expr in m_fac.subspace_dim()>, m_ncv, m_nmatop); retrieve_ritzpair(selection); Index i, nconv = 0, nev_adj;
#   for (i = 0; i < maxit; i++) { nconv = num_converged(tol); if (nconv >= m_nev) break; nev_adj = nev_adjusted(nconv); restart(nev_adj, selection); }
#   [if (i >= maxit) nconv = num_converged(tol);]  sort_ritzpair(sorting); ...      (no operator work after the loop)
def compute_skel(tu, t):
    node = tu.find(t['path'], 0)
    # `m_fac.subspace_dim()` (Arnoldi::m_k at entry; 1 right after init()) becomes the parameter `m_k`
    fn = Fn(tu, node, dict(mode='value', members={'m_ncv': 'int', 'm_nev': 'int', 'm_fac': 'other'},
                           methods={('m_fac', 'subspace_dim'): ('m_k', 'int')}))
    body = [c for c in node['inner'] if c['kind'] == 'CompoundStmt'][0]['inner']
    fors = [s for s in body if s['kind'] == 'ForStmt']
    if len(fors) != 1: raise XlateError('compute: expected exactly one loop')
    f = fors[0]
    pre = _calls_in({'inner': body[:body.index(f)]}, [])
    if [x for x in pre if x in ('factorize_from', 'retrieve_ritzpair')] != ['factorize_from', 'retrieve_ritzpair']:
        raise XlateError('compute: prologue is not factorize_from; retrieve_ritzpair')
    def find_call(x, name):
        if x.get('kind') in ('CXXMemberCallExpr', 'CallExpr'):
            c = x['inner'][0]
            if c.get('member') == name or c.get('name') == name: return x
        for cc in x.get('inner', []):
            r = find_call(cc, name)
            if r: return r
    fc = find_call({'inner': body[:body.index(f)]}, 'factorize_from')
    init, _, cond, inc, lbody = f['inner']
    if not (init and init['kind'] == 'BinaryOperator' and init['opcode'] == '='): raise XlateError('compute: for-init')
    def _ref(x):
        while x.get('kind') in ('ParenExpr', 'ImplicitCastExpr'): x = x['inner'][0]
        return (x.get('referencedDecl') or {}).get('name') if x.get('kind') == 'DeclRefExpr' else None
    lv = _ref(init['inner'][0])     # the loop counter, called `i` in the generated text whatever its name in the source
    if not lv: raise XlateError('compute: for-init does not assign a plain counter')
    env = {'maxit': ('maxit', 'int'), 'nconv': ('nconv', 'int'), lv: ('i', 'int')}
    f0, _ = fn.expr(fc['inner'][1], env); f1, _ = fn.expr(fc['inner'][2], env)
    lo, _ = fn.expr(init['inner'][1], env)
    c = cond
    while c['kind'] in ('ParenExpr',): c = c['inner'][0]
    if not (c['kind'] == 'BinaryOperator' and c['opcode'] == '<' and _ref(c['inner'][0]) == lv): raise XlateError('compute: for-condition')
    hi, _ = fn.expr(c['inner'][1], env)
    if not (inc['kind'] == 'UnaryOperator' and inc['opcode'] == '++' and _ref(inc['inner'][0]) == lv): raise XlateError('compute: for-increment')
    ss = fn.body_list(lbody)
    names = []
    for s in ss:
        if s['kind'] == 'IfStmt':
            br = s['inner'][1]
            brs = fn.body_list(br)
            if len(brs) != 1 or brs[0]['kind'] != 'BreakStmt': raise XlateError('compute: loop `if` is not a plain break')
            cnd, _ = fn.expr(s['inner'][0], env)
            names.append('break-if ' + cnd)
        else:
            cl = [x for x in _calls_in(s, []) if x in ('num_converged', 'nev_adjusted', 'restart')]
            if len(cl) != 1: raise XlateError('compute: unexpected statement in the restart loop: ' + s['kind'] + str(cl))
            names.append(cl[0])
    brk = [n for n in names if n.startswith('break-if ')]
    if [n for n in names if not n.startswith('break-if ')] != ['num_converged', 'nev_adjusted', 'restart'] or len(brk) != 1 or names.index(brk[0]) != 1:
        raise XlateError('compute: loop body is not num_converged; if (..) break; nev_adjusted; restart: ' + str(names))
    post = _calls_in({'inner': body[body.index(f) + 1:]}, [])
    if 'factorize_from' in post or 'restart' in post or 'perform_op' in post: raise XlateError('compute: operator work after the loop')
    return (f'def {t["lean"]}_frame (m_ncv : Int) (maxit : Int) (m_k : Int) : Int × Int × Int × Int := ({f0}, {f1}, {lo}, {hi})\n\n'
            f'-- the loop leaves by `break` exactly when this holds (evaluated right after num_converged)\n'
            f'def {t["lean"]}_break (m_nev : Int) (nconv : Int) : Bool := {brk[0][len("break-if "):]}\n')

# ------------------------------------------------------------------------------------------------------------------
# storage footprint of the buffers handed to the operator
VIEW_MEMBERS = ('data', 'col', 'row', 'head', 'tail', 'segment', 'block', 'leftCols', 'rightCols', 'topRows', 'bottomRows', 'derived')

def _header_src(cls):
    ps = glob.glob(os.path.join(astdump.INC, 'Spectra', '**', cls + '.h'), recursive=True)
    if len(ps) != 1: raise XlateError(f'op_buffers: no unique header {cls}.h for class {cls}')
    return open(ps[0]).read()

def _txt(src, node):
    r = node.get('range', {}); b = r.get('begin', {}); e = r.get('end', {})
    b = b.get('expansionLoc', b); e = e.get('expansionLoc', e)
    if 'offset' not in b or 'offset' not in e: raise XlateError('op_buffers: no source range for a ' + str(node.get('kind')))
    return re.sub(r'\s+', ' ', src[b['offset']: e['offset'] + e.get('tokLen', 0)]).strip()

def _lstr(s): return '"' + s.replace('\\', '\\\\').replace('"', '\\"') + '"'

def _classes(tu):
    """(name, record node) of every class template / class of namespace Spectra"""
    out = []
    for o in tu.objs:
        if o.get('kind') == 'ClassTemplateDecl':
            for c in o.get('inner', []):
                if c.get('kind') == 'CXXRecordDecl' and c.get('name') == o.get('name') and any(x.get('kind', '').endswith('Decl') for x in c.get('inner', [])):
                    out.append((o['name'], c)); break
        elif o.get('kind') == 'CXXRecordDecl' and o.get('inner'):
            out.append((o.get('name'), o))
    return out

def _methods(rec):
    """(name, method node, body) of every member function with a body (templates: the pattern)"""
    res = []
    for c in rec.get('inner', []):
        cand = [c]
        if c.get('kind') == 'FunctionTemplateDecl': cand = [x for x in c.get('inner', []) if x.get('kind') in ('CXXMethodDecl', 'CXXConstructorDecl')][:1]
        for m in cand:
            if m.get('kind') in ('CXXMethodDecl', 'CXXConstructorDecl', 'CXXDestructorDecl'):
                b = [x for x in m.get('inner', []) if x.get('kind') == 'CompoundStmt']
                if b: res.append((m.get('name'), m, b[0]))
    return res

def _callee(call):
    """(receiver node or None, member / function name or None) of a call expression"""
    c = call['inner'][0]
    while c.get('kind') in ('ImplicitCastExpr', 'ParenExpr'): c = c['inner'][0]
    k = c.get('kind')
    if k in ('CXXDependentScopeMemberExpr', 'MemberExpr'):
        return (c['inner'][0] if c.get('inner') else None), (c.get('member') or c.get('name'))
    if k == 'UnresolvedLookupExpr' or k == 'DeclRefExpr':
        return None, c.get('name') or (c.get('referencedDecl') or {}).get('name')
    return None, None     # UnresolvedMemberExpr etc.: name only available as text

def _walk_calls(n, name, src, acc):
    if not isinstance(n, dict): return acc
    if n.get('kind') in ('CallExpr', 'CXXMemberCallExpr') and n.get('inner'):
        rcv, nm = _callee(n)
        if nm is None and n['inner'][0].get('kind') == 'UnresolvedMemberExpr':
            nm = _txt(src, n['inner'][0]).split('->')[-1].split('.')[-1].strip()
        if nm == name: acc.append(n)
    for c in n.get('inner', []): _walk_calls(c, name, src, acc)
    return acc

class _Ctx:
    """one member function: its source text, parameters, local variable declarations (by clang id)"""
    def __init__(self, cls, rec, mnode, body, src):
        self.cls, self.rec, self.src = cls, rec, src
        self.params = [c for c in mnode.get('inner', []) if c.get('kind') == 'ParmVarDecl']
        self.locals = {}
        def rec_(n):
            if n.get('kind') == 'VarDecl': self.locals[n.get('id')] = n
            for c in n.get('inner', []): rec_(c)
        rec_(body)
        self.fields = set(); self.inherited = set()
        for c in rec.get('inner', []):
            if c.get('kind') == 'FieldDecl': self.fields.add(c.get('name'))
            if c.get('kind') in ('UnresolvedUsingValueDecl', 'UsingDecl'): self.inherited.add((c.get('name') or '').split('::')[-1])

def _storage(vd):
    if vd.get('tls'): return 'thread_local'
    sc = vd.get('storageClass')
    if sc == 'static': return 'static'
    if sc == 'extern': return 'global'
    if sc in (None, 'auto', 'register'): return 'automatic'
    return 'unknown'

def _vartype(vd):
    t = vd.get('type', {}); q = t.get('desugaredQualType') or t.get('qualType', '')
    q0 = re.sub(r'^(const|volatile)\s+', '', q.strip())
    if '&' in q or '*' in q or re.match(r'(Eigen::)?(Map|Ref|Block|VectorBlock)\s*<', q0): return 'view'
    if re.match(r'(Eigen::)?(Matrix|Array)\s*<', q0): return 'owning'
    return 'other'

def _root(ctx, n, via):
    """-> (kind, name, storage, via-list)"""
    while n.get('kind') in ('ImplicitCastExpr', 'ParenExpr', 'CXXFunctionalCastExpr', 'CStyleCastExpr', 'CXXStaticCastExpr', 'CXXConstCastExpr',
                            'CXXReinterpretCastExpr', 'ExprWithCleanups', 'MaterializeTemporaryExpr', 'CXXBindTemporaryExpr') and n.get('inner'):
        n = n['inner'][-1]
    k = n.get('kind')
    if k == 'UnaryOperator' and n.get('opcode') in ('&', '*'): return _root(ctx, n['inner'][0], via)
    if k == 'ArraySubscriptExpr': return _root(ctx, n['inner'][0], via)
    if k == 'CXXOperatorCallExpr' and len(n.get('inner', [])) >= 2: return _root(ctx, n['inner'][1], via)
    if k in ('CallExpr', 'CXXMemberCallExpr') and n.get('inner'):
        c = n['inner'][0]
        while c.get('kind') in ('ImplicitCastExpr', 'ParenExpr'): c = c['inner'][0]
        if c.get('kind') in ('CXXDependentScopeMemberExpr', 'MemberExpr') and (c.get('member') or c.get('name')) in VIEW_MEMBERS and c.get('inner'):
            return _root(ctx, c['inner'][0], via)            # x.data(), M.col(i), v.head(k): same object
        if c.get('kind') in ('MemberExpr', 'DeclRefExpr', 'UnresolvedMemberExpr') and not str(c.get('type', {}).get('qualType', '')).startswith('<bound member'):
            return _root(ctx, c, via)                        # M(r, c): element of the object M
        return ('unknown', _txt(ctx.src, n), 'unknown', via)
    if k == 'CXXThisExpr': return ('unknown', 'this', 'unknown', via)
    if k in ('MemberExpr', 'CXXDependentScopeMemberExpr'):
        b = n['inner'][0] if n.get('inner') else None
        nm = n.get('name') or n.get('member')
        if b is None or b.get('kind') == 'CXXThisExpr': return ('member', nm, 'member', via)
        return ('unknown', _txt(ctx.src, n), 'unknown', via)
    if k == 'UnresolvedMemberExpr':
        nm = _txt(ctx.src, n).replace('this->', '').strip()
        if nm in ctx.fields or nm in ctx.inherited: return ('member', nm, 'member', via)
        return ('unknown', nm, 'unknown', via)
    if k == 'DeclRefExpr':
        rd = n.get('referencedDecl') or {}
        nm = rd.get('name', '?')
        if rd.get('kind') == 'ParmVarDecl':
            p = [x for x in ctx.params if x.get('id') == rd.get('id')]
            if not p: return ('unknown', nm, 'unknown', via)
            return ('param', nm, 'caller', via)
        if rd.get('kind') == 'VarDecl':
            vd = ctx.locals.get(rd.get('id'))
            if vd is None: return ('global', nm, 'global', via)
            st = _storage(vd); ty = _vartype(vd)
            if st != 'automatic' or ty == 'owning': return ('local', nm, st, via)     # a non-automatic variable ends the chain (never owned)
            if ty == 'view':
                init = [c for c in vd.get('inner', []) if isinstance(c, dict) and c.get('kind') not in ('FullComment',)]
                if not init: return ('unknown', nm, 'unknown', via)
                e = init[-1]
                while e.get('kind') in ('ExprWithCleanups', 'ImplicitCastExpr', 'MaterializeTemporaryExpr') and e.get('inner'): e = e['inner'][0]
                if e.get('kind') in ('ParenListExpr', 'InitListExpr', 'CXXConstructExpr', 'CXXUnresolvedConstructExpr', 'CXXTemporaryObjectExpr') and e.get('inner'):
                    e = e['inner'][0]                    # Map<T>(pointer, sizes...): the pointer
                return _root(ctx, e, via + [nm])
            return ('unknown', nm, 'unknown', via)
        return ('unknown', nm, 'unknown', via)
    return ('unknown', _txt(ctx.src, n), 'unknown', via)

def _root_lean(ctx, n):
    kind, name, storage, via = _root(ctx, n, [])
    return 'BufRoot.mk ' + ' '.join(_lstr(x) for x in (_txt(ctx.src, n), kind, name, storage, ','.join(via)))

def op_buffers(tu, t):
    classes = _classes(tu)
    operator_classes = set(nm for nm, rec in classes if any(m[0] == 'perform_op' for m in _methods(rec)))
    sites = []; need = []      # need: (cls, fn, param index, param name)
    srcs = {}
    def src_of(cls):
        if cls not in srcs: srcs[cls] = _header_src(cls)
        return srcs[cls]
    by_name = {}
    for nm, rec in classes: by_name.setdefault(nm, rec)
    for nm, rec in classes:
        if nm in operator_classes or by_name[nm] is not rec: continue
        for fn, mnode, body in _methods(rec):
            # calls through a dependent / resolved member expression carry the name in the AST; a call written through an
            # UnresolvedMemberExpr (`using Base::perform_op`-style) has it only in the source text, hence the header is read for every class
            try: src = src_of(nm)
            except XlateError:
                if 'perform_op' in _calls_in(body, []): raise
                continue
            calls = _walk_calls(body, 'perform_op', src, [])
            if not calls: continue
            ctx = _Ctx(nm, rec, mnode, body, src)
            for k, c in enumerate(calls):
                args = c['inner'][1:]
                if len(args) != 2: raise XlateError(f'{nm}::{fn}: perform_op with {len(args)} arguments')
                rs = [_root(ctx, a, []) for a in args]
                sites.append((nm, fn, k, _root_lean(ctx, args[0]), _root_lean(ctx, args[1])))
                for r in rs:
                    if r[0] == 'param':
                        idx = [i for i, p in enumerate(ctx.params) if p.get('name') == r[1]][0]
                        if (nm, fn, idx, r[1], len(ctx.params)) not in need: need.append((nm, fn, idx, r[1], len(ctx.params)))
    if not sites: raise XlateError('op_buffers: no perform_op call found outside the operator classes')
    site_classes = set(s[0] for s in sites)
    binds = []
    for (cls, fn, idx, pname, npar) in need:
        for nm, rec in classes:
            if by_name[nm] is not rec: continue
            try: src = src_of(nm)
            except XlateError: continue
            for cfn, mnode, body in _methods(rec):
                for c in _walk_calls(body, fn, src, []):
                    args = c['inner'][1:]
                    if len(args) != npar: continue
                    rcv, _ = _callee(c)
                    rtxt = '' if rcv is None else _txt(src, rcv)
                    if n_implicit(rcv): rtxt = 'this'
                    if rtxt in ('', 'this'):
                        if nm not in site_classes: continue          # an unrelated class calling its own function of the same name
                    elif rtxt not in ('m_fac', 'this->m_fac'): continue
                    ctx = _Ctx(nm, rec, mnode, body, src)
                    binds.append((cls + '::' + fn, pname, nm, cfn, _root_lean(ctx, args[idx])))
    # NOTE: gen_module prepends its own `/-- translated from ... -/` doc comment, so this text must not START with a doc comment
    s = ('/- root object of one pointer handed to `perform_op`: the argument as written, what it resolves to (kind: "local" | "member" | "param" |\n'
         '    "global" | "unknown"; name of the root variable), its storage ("automatic" | "static" | "thread_local" | "member" | "caller" | "global" |\n'
         '    "unknown"), and the view variables (Map / reference locals) the resolution went through -/\n'
         'structure BufRoot where\n  expr : String\n  kind : String\n  name : String\n  storage : String\n  via : String\n  deriving Repr, DecidableEq\n\n'
         '/-- one `perform_op(x, y)` call site: class, member function, ordinal of the call inside the function (source order) -/\n'
         'structure OpSite where\n  cls : String\n  fn : String\n  ord : Nat\n  x : BufRoot\n  y : BufRoot\n  deriving Repr, DecidableEq\n\n'
         '/-- a call (in class `cls`, function `caller`) of a function that hands its parameter `param` to the operator, with the root of the bound argument -/\n'
         'structure ParamBind where\n  callee : String\n  param : String\n  cls : String\n  caller : String\n  root : BufRoot\n  deriving Repr, DecidableEq\n\n'
         '-- every perform_op call made by a class that does not itself define perform_op (i.e. every call that reaches the USER\'s operator from solver code)\n'
         'def opSites : List OpSite := [\n' + ',\n'.join(f'  ⟨{_lstr(a)}, {_lstr(b)}, {k}, {x}, {y}⟩' for a, b, k, x, y in sites) + ']\n\n'
         '-- every call in the library of a function above whose PARAMETER reaches the operator\n'
         'def opParamBinds : List ParamBind := [\n' + ',\n'.join(f'  ⟨{_lstr(a)}, {_lstr(b)}, {_lstr(c)}, {_lstr(d)}, {r}⟩' for a, b, c, d, r in binds) + ']\n')
    return s

def n_implicit(rcv):
    return rcv is not None and rcv.get('kind') == 'CXXThisExpr'

RESTART = [
    T('is_complex', 'GenEigsBase::is_complex', G, mode='value', params={'v': 'cplx'}, ret_type='Bool'),
    T('is_conj', 'GenEigsBase::is_conj', G, mode='value', params={'v1': 'cplx', 'v2': 'cplx'}, ret_type='Bool'),
    T('hermNevAdj', 'HermEigsBase::nev_adjusted', H, mode='value', members={'m_nev': 'int', 'm_ncv': 'int', 'm_ritz_est': 'arr_sc'},
      member_order=['m_nev', 'm_ncv', 'm_ritz_est'], ret_type='Int'),
    T('genNevPre', 'GenEigsBase::nev_adjusted', G, mode='state', state_out=['@intlocal0'], slice=drop_last(2),     # the adjusted count, whatever the source calls it
      members={'m_nev': 'int', 'm_ncv': 'int', 'm_ritz_est': 'arr_cplx', 'm_ritz_val': 'arr_cplx'},
      member_order=['m_nev', 'm_ncv', 'm_ritz_est', 'm_ritz_val'], calls=CALLS, ret_type='Int'),
    T('genNevAdj', 'GenEigsBase::nev_adjusted', G, mode='value',
      members={'m_nev': 'int', 'm_ncv': 'int', 'm_ritz_est': 'arr_cplx', 'm_ritz_val': 'arr_cplx'},
      member_order=['m_nev', 'm_ncv', 'm_ritz_est', 'm_ritz_val'], calls=CALLS, ret_type='Int'),
    dict(lean='hermShiftSkel', header=H, custom=restart_skel('herm'), path='HermEigsBase::restart'),
    dict(lean='genShiftSkel', header=G, custom=restart_skel('gen'), path='GenEigsBase::restart'),
    dict(lean='hermComputeSkel', header=H, custom=compute_skel, path='HermEigsBase::compute'),
    dict(lean='genComputeSkel', header=G, custom=compute_skel, path='GenEigsBase::compute'),
    dict(lean='opSites', header='LinAlg/Arnoldi.h', custom=op_buffers, path='*::perform_op call sites'),
]

MODULES = [('Restart', RESTART, '')]
