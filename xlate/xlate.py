#!/usr/bin/env python3
"""
xlate: clang-14 JSON AST  ->  Lean 4 definitions (pure, functional) for the decision kernels of Spectra.

The generated files (lean/SpectraVerif/Gen/*.lean) are rewritten on every check run from /repo's
working tree; the property theorems are stated about these generated definitions.

Supported C++ subset (anything else raises XlateError => reported as a broken obligation `xlate:<target>`):
  CompoundStmt, DeclStmt/VarDecl, BinaryOperator, UnaryOperator, CompoundAssignOperator,
  ConditionalOperator, IfStmt, canonical ForStmt, ReturnStmt, CXXThrowExpr, integer/floating/bool literals,
  casts, ParenExpr, DeclRefExpr (params, locals, enum constants), MemberExpr on this, ArraySubscriptExpr /
  operator[] / operator() on vector-like members and parameters, calls to a whitelist of functions.

Modelling conventions
  * every C integer variable is a Lean `Int`; `unsigned long` results are reduced with `u64` (mod 2^64);
    with track_ub=True, a companion definition `<name>_ub` returns the conjunction of "signed result is
    representable" side conditions (signed overflow is UB in C++).
  * `x & (2^k-1)`  ->  `x % 2^k`;  `x >> k` (unsigned) -> `x / 2^k`;  `x << k` -> `x * 2^k`
  * scalar (template-dependent) expressions use `+ - * /` of the type variable `α` and the class `Sc α`
  * arrays / Eigen vectors are functions `Int → β`; writes are `upd`
  * `for (T i = a; i < b; i++)` is `List.foldl` over `intRange a b` with the assigned variables as state
  * reference out-parameters become a result tuple; `throw` becomes `Res.throw "<exception type>"`
"""
import re, os, sys, os

class XlateError(Exception):
    pass

INT_BASE = {'int', 'long', 'unsigned int', 'unsigned long', 'unsigned', 'short', 'size_t', 'std::size_t',
            'long long', 'unsigned long long', 'Eigen::Index', 'Index', 'std::ptrdiff_t', 'ptrdiff_t'}
SC_NAMES = ('Scalar', 'RealScalar', 'RealType', 'ElemType<Scalar>', 'T')

def strip_type(t):
    t = t.replace('const ', '').replace(' const', '').replace('&', '').replace('typename ', '').strip()
    return t

def type_kind(t):
    """'int' | 'uint' | 'bool' | 'sc' | 'dep' | 'other'"""
    if t is None: return 'dep'
    t = strip_type(t)
    if t == 'bool': return 'bool'
    if t in ('unsigned long', 'unsigned long long', 'size_t', 'std::size_t'): return 'u64'
    if t in ('unsigned int', 'unsigned'): return 'u32'
    if t in INT_BASE or t.endswith('::Index') or t == 'Index': return 'int'
    if t == '<dependent type>': return 'dep'
    last = t.split('::')[-1]
    if last in SC_NAMES or t in SC_NAMES: return 'sc'
    if t in ('double', 'float', 'long double'): return 'sc'
    if 'SortRule' in t: return 'enum'
    if 'CompInfo' in t: return 'enum'
    if 'Complex' in t or 'complex' in t: return 'cplx'
    return 'other'

def is_intkind(k): return k in ('int', 'u64', 'u32')

def pow2m1(v):
    """if v == 2^k - 1 return k else None"""
    if v <= 0: return None
    k = (v + 1).bit_length() - 1
    return k if (1 << k) - 1 == v else None

class Out:
    """tiny pretty printer: list of (indent, text)"""
    def __init__(self): self.lines = []
    def add(self, ind, s): self.lines.append((ind, s))
    def render(self, base=0): return '\n'.join(' ' * (base + i) + s for i, s in self.lines)

class Fn:
    """translation of one function"""
    def __init__(self, tu, node, cfg):
        self.tu = tu; self.node = node; self.cfg = cfg
        self.members = cfg.get('members', {})      # member name -> kind ('int','sc','arr_sc','arr_int','arr_bool','enum','arr_cplx')
        self.used_members = []
        self.consts = {}                            # const-initialised int locals: name -> value
        self.ub = []                                # side conditions (track_ub)
        self.track_ub = cfg.get('track_ub', False)
        self.calls = cfg.get('calls', {})           # extra callee name -> lean name
        self.param_kinds = cfg.get('params', {})
        self.fresh = 0
        self.extra_params = []

    # ---------- expressions ----------
    def lit_float(self, v):
        # v: string as printed by clang, e.g. "0.10000000000000001", "1.0E-10"; use the shortest repr of the double
        f = float(v)
        s = repr(f)
        m = re.fullmatch(r'(-?)(\d+)(?:\.(\d+))?(?:e([+-]?\d+))?', s)
        if not m: raise XlateError('float literal ' + v)
        sign, ip, fp, ex = m.groups()
        fp = fp or ''; ex = int(ex or 0)
        mant = int(ip + fp); e = ex - len(fp)
        while mant % 10 == 0 and mant != 0: mant //= 10; e += 1
        if sign: raise XlateError('negative literal')
        return f'(Sc.lit {mant} ({e}))'

    def kind_of(self, n):
        return type_kind(n.get('type', {}).get('qualType'))

    def member(self, name):
        if name not in self.members:
            raise XlateError(f'reference to member {name} not declared for this target (new dependency)')
        if name not in self.used_members: self.used_members.append(name)
        return name, self.members[name]

    def to_sc(self, s, k):
        if k == 'sc': return s
        if is_intkind(k):
            m = re.fullmatch(r'\(?(-?\d+)\)?', s)
            return f'(Sc.ofInt {s})' if not m else f'(Sc.ofInt ({m.group(1)}))' if m.group(1).startswith('-') else f'(Sc.ofInt {m.group(1)})'
        raise XlateError(f'cannot convert {k} to scalar: {s}')

    def expr(self, n, env, want=None):
        """returns (lean, kind)"""
        K = n['kind']
        inner = [c for c in n.get('inner', [])]
        if K in ('ParenExpr',):
            s, k = self.expr(inner[0], env, want); return s, k
        if K in ('ExprWithCleanups', 'MaterializeTemporaryExpr', 'CXXBindTemporaryExpr', 'ConstantExpr'):
            return self.expr(inner[0], env, want)
        if K == 'CXXConstructExpr' and len(inner) == 1:
            return self.expr(inner[0], env, want)
        if K == 'IntegerLiteral':
            return n['value'], 'int'
        if K == 'CXXBoolLiteralExpr':
            return ('true' if n['value'] else 'false'), 'bool'
        if K == 'FloatingLiteral':
            return self.lit_float(n['value']), 'sc'
        if K == 'ImplicitCastExpr' or K == 'CStyleCastExpr' or K == 'CXXStaticCastExpr' or K == 'CXXFunctionalCastExpr':
            ck = n.get('castKind')
            s, k = self.expr(inner[0], env, want)
            tk = self.kind_of(n)
            if ck in ('LValueToRValue', 'NoOp', 'FunctionToPointerDecay', 'ArrayToPointerDecay', 'ConstructorConversion', 'UserDefinedConversion',
                      'UncheckedDerivedToBase', 'DerivedToBase'):      # base-class view of the same object (e.g. Eigen's operator[] on a member array)
                if K in ('CStyleCastExpr', 'CXXFunctionalCastExpr', 'CXXStaticCastExpr') and ck == 'NoOp':
                    return self.cast_to(s, k, tk)
                return s, k
            if ck == 'IntegralCast':
                return self.cast_to(s, k, tk)
            if ck == 'IntegralToFloating':
                return self.to_sc(s, k), 'sc'
            if ck == 'FloatingCast':
                return s, 'sc'
            if ck == 'IntegralToBoolean':
                return f'(decide ({s} ≠ 0))', 'bool'
            if ck == 'Dependent' or ck is None:
                return self.cast_to(s, k, tk)
            raise XlateError(f'cast kind {ck}')
        if K == 'CXXUnresolvedConstructExpr':
            tk = self.kind_of(n)
            if len(inner) != 1: raise XlateError('construct expr with %d args' % len(inner))
            s, k = self.expr(inner[0], env)
            return self.cast_to(s, k, tk)
        if K == 'DeclRefExpr':
            rd = n['referencedDecl']; nm = rd.get('name'); rk = rd.get('kind')
            if rk == 'EnumConstantDecl':
                return self.tu.enum_value(nm), 'enum'
            if rk in ('VarDecl', 'ParmVarDecl'):
                if nm in self.consts: return str(self.consts[nm]), 'int'
                if nm in env: return env[nm][0], env[nm][1]
                raise XlateError(f'reference to non-local variable {nm} (purity check failed)')
            raise XlateError(f'DeclRefExpr to {rk} {nm}')
        if K == 'MemberExpr':
            if inner and inner[0]['kind'] == 'CXXThisExpr':
                nm, k = self.member(n['name'])
                if nm in env: return env[nm][0], env[nm][1]   # member shadowed by assigned state
                return nm, k
            raise XlateError('MemberExpr on non-this')
        if K == 'CXXDependentScopeMemberExpr':
            raise XlateError('bare dependent member expr ' + str(n.get('member')))
        if K == 'ArraySubscriptExpr' or (K == 'CXXOperatorCallExpr' and False):
            a, ak = self.expr(inner[0], env); i, ik = self.expr(inner[1], env)
            if not ak.startswith('arr_'): raise XlateError(f'subscript of non-array {a}:{ak}')
            return f'({a} {self.atom(i)})', ak[4:]
        if K == 'UnaryOperator':
            op = n['opcode']
            s, k = self.expr(inner[0], env, want)
            if op == '-':
                if is_intkind(k):
                    if re.fullmatch(r'\d+', s): return f'(-{s})', 'int'
                    return f'(-{s})', 'int'
                return f'(-{s})', k
            if op == '!':
                return f'(!{self.to_bool(s, k)})', 'bool'
            if op == '+': return s, k
            raise XlateError(f'unary {op} in expression position')
        if K == 'BinaryOperator':
            return self.binop(n, env, want)
        if K == 'ConditionalOperator':
            c, ck = self.expr(inner[0], env)
            a, ak = self.expr(inner[1], env, want); b, bk = self.expr(inner[2], env, want)
            k = ak if ak == bk else ('sc' if 'sc' in (ak, bk) else ak)
            if k == 'sc': a = self.to_sc(a, ak); b = self.to_sc(b, bk)
            return f'(if {self.to_bool(c, ck)} then {a} else {b})', k
        if K in ('CallExpr', 'CXXMemberCallExpr', 'CXXOperatorCallExpr'):
            return self.call(n, env, want)
        raise XlateError(f'unsupported expression kind {K}')

    def atom(self, s):
        return s if re.fullmatch(r'[\w.]+|\(.*\)', s) else f'({s})'

    def to_bool(self, s, k):
        if k == 'bool': return s
        if is_intkind(k): return f'(decide ({s} ≠ 0))'
        if k == 'dep': return s
        raise XlateError(f'condition of kind {k}')

    def cast_to(self, s, k, tk):
        if tk == 'dep' or tk == 'other': return s, k
        if tk == 'sc':
            return (self.to_sc(s, k), 'sc')
        if tk == 'u64':
            if k == 'u64': return s, 'u64'
            if re.fullmatch(r'\d+', s) and int(s) < 2**64: return s, 'u64'
            return f'(u64 {self.atom(s)})', 'u64'
        if tk == 'u32':
            if k == 'u32': return s, 'u32'
            if re.fullmatch(r'\d+', s) and int(s) < 2**32: return s, 'u32'
            return f'(u32 {self.atom(s)})', 'u32'
        if tk == 'int':
            if k in ('u64', 'u32'):
                # implementation-defined conversion when out of range: record as side condition
                if self.track_ub and not re.fullmatch(r'\d+', s): self.ub.append(f'inS64 {self.atom(s)}')
                return s, 'int'
            if k == 'bool': return f'(if {s} then 1 else 0)', 'int'
            if is_intkind(k): return s, 'int'
            if k == 'enum': return s, 'int'
            raise XlateError(f'cast {k} -> int')
        if tk == 'bool':
            return self.to_bool(s, k), 'bool'
        if tk == 'enum': return s, 'enum'
        return s, k

    def binop(self, n, env, want):
        op = n['opcode']; l, r = n['inner']
        if op == ',': raise XlateError('comma operator')
        if op in ('&&', '||'):
            a, ak = self.expr(l, env); b, bk = self.expr(r, env)
            return f'({self.to_bool(a, ak)} {op} {self.to_bool(b, bk)})', 'bool'
        a, ak = self.expr(l, env); b, bk = self.expr(r, env)
        rk = self.kind_of(n)
        if op in ('<', '>', '<=', '>=', '==', '!='):
            if ak == 'sc' or bk == 'sc':
                a = self.to_sc(a, ak); b = self.to_sc(b, bk)
                f = {'<': 'Sc.lt', '>': 'Sc.gt', '<=': 'Sc.le', '>=': 'Sc.ge', '==': 'Sc.eq', '!=': 'Sc.ne'}[op]
                return f'({f} {self.atom(a)} {self.atom(b)})', 'bool'
            if ak == 'cplx' or bk == 'cplx':
                if op == '==': return f'(Sc.ceq {self.atom(a)} {self.atom(b)})', 'bool'
                raise XlateError('complex comparison ' + op)
            if ak == 'bool' and bk == 'bool':
                o = {'==': '==', '!=': '!='}[op]
                return f'({a} {o} {b})', 'bool'
            o = {'<': '<', '>': '>', '<=': '≤', '>=': '≥', '==': '=', '!=': '≠'}[op]
            return f'(decide ({a} {o} {b}))', 'bool'
        if op in ('+', '-', '*', '/', '%', '&', '|', '^', '<<', '>>'):
            if ak == 'sc' or bk == 'sc' or rk == 'sc':
                if op not in ('+', '-', '*', '/'): raise XlateError(f'scalar op {op}')
                a = self.to_sc(a, ak); b = self.to_sc(b, bk)
                return f'({a} {op} {b})', 'sc'
            if not (is_intkind(ak) and is_intkind(bk)):
                raise XlateError(f'arith on kinds {ak},{bk}')
            unsigned = rk in ('u64', 'u32') or (rk == 'dep' and (ak in ('u64', 'u32') or bk in ('u64', 'u32')))
            wrap = 'u64' if (rk == 'u64' or (rk == 'dep' and 'u64' in (ak, bk))) else ('u32' if unsigned else None)
            if op in ('+', '-', '*'):
                e = f'({a} {op} {b})'
            elif op == '/':
                e = f'({a} / {b})' if unsigned else f'(Int.tdiv {self.atom(a)} {self.atom(b)})'
            elif op == '%':
                e = f'({a} % {b})' if unsigned else f'(Int.tmod {self.atom(a)} {self.atom(b)})'
            elif op == '&':
                kk = pow2m1(int(b)) if re.fullmatch(r'\d+', b) else None
                if kk is not None: e = f'({a} % {1 << kk})'            # two's complement: x & (2^k-1) = x mod 2^k
                else:
                    kk = pow2m1(int(a)) if re.fullmatch(r'\d+', a) else None
                    if kk is not None: e = f'({b} % {1 << kk})'
                    else: e = f'(Int.land {self.atom(a)} {self.atom(b)})'
                return e, ('u64' if wrap == 'u64' else ak)
            elif op == '>>':
                if not re.fullmatch(r'\d+', b): raise XlateError('shift by non-literal')
                if not unsigned and self.track_ub: self.ub.append(f'decide (0 ≤ {a})')
                e = f'({a} / {1 << int(b)})'
                return e, (wrap or 'int')
            elif op == '<<':
                if not re.fullmatch(r'\d+', b): raise XlateError('shift by non-literal')
                e = f'({a} * {1 << int(b)})'
            else:
                raise XlateError(f'bit op {op}')
            if wrap:
                return f'({wrap} {e})', wrap
            if self.track_ub and op in ('+', '-', '*', '<<'):
                self.ub.append(f'inS64 {e}')
            return e, 'int'
        raise XlateError(f'binary operator {op}')

    def callee_name(self, c):
        K = c['kind']
        if K in ('ImplicitCastExpr', 'ParenExpr'): return self.callee_name(c['inner'][0])
        if K == 'DeclRefExpr': return c['referencedDecl'].get('name'), None
        if K == 'UnresolvedLookupExpr': return c.get('name'), None
        if K == 'CXXDependentScopeMemberExpr':
            base = c['inner'][0] if c.get('inner') else None
            return c.get('member'), base
        if K == 'MemberExpr':
            return c.get('name'), (c['inner'][0] if c.get('inner') else None)
        if K == 'DependentScopeDeclRefExpr': return '<depscope>', None
        if K == 'UnresolvedMemberExpr': return c.get('name', '<unresolved-member>'), None
        raise XlateError('callee kind ' + K)

    def call(self, n, env, want):
        inner = n['inner']
        if n['kind'] == 'CXXOperatorCallExpr':
            # operator[] / operator() on a vector: inner[0] callee, inner[1] object, rest args
            nm, _ = self.callee_name(inner[0])
            if nm in ('operator[]', 'operator()') and len(inner) == 3:
                a, ak = self.expr(inner[1], env); i, ik = self.expr(inner[2], env)
                if not ak.startswith('arr_'): raise XlateError(f'operator[] on {ak}')
                return f'({a} {self.atom(i)})', ak[4:]
            raise XlateError('operator call ' + str(nm))
        nm, base = self.callee_name(inner[0])
        args = inner[1:]
        if inner[0]['kind'] == 'CXXDependentScopeMemberExpr' and base is None and not args:
            if nm == 'min': return 'Sc.minPos', 'sc'
            if nm == 'epsilon': return 'Sc.eps', 'sc'
        if nm == '<depscope>':
            # TypeTraits<Scalar>::epsilon() / ::min() : which one is not in the JSON; recover from source text
            which = self.tu.src_text(n)
            if 'epsilon' in which: return 'Sc.eps', 'sc'
            if re.search(r'::min\s*\(', which): return 'Sc.minPos', 'sc'
            raise XlateError('dependent scope call: ' + which)
        if base is not None and base.get('kind') != 'CXXThisExpr':
            # method on an object: x.real(), x.imag(), v.size() ...
            bx = base
            while bx.get('kind') in ('ImplicitCastExpr', 'ParenExpr') and bx.get('inner'): bx = bx['inner'][0]
            if (bx.get('kind') == 'DeclRefExpr' and not args and bx['referencedDecl'].get('name') in self.cfg.get('ignore_params', [])
                    and (bx['referencedDecl'].get('name'), nm) in self.cfg.get('methods', {})):
                # size query on an ignored (operator-object) parameter, e.g. `op.rows()` in a constructor initialiser (C15)
                mv = self.cfg['methods'][(bx['referencedDecl'].get('name'), nm)]
                if mv not in self.extra_params: self.extra_params.append(mv)
                return mv[0], mv[1]
            o, ok = self.expr(base, env)
            mv = self.cfg.get('methods', {}).get((o, nm))
            if mv is not None and not args:
                if mv not in self.extra_params: self.extra_params.append(mv)
                return mv[0], mv[1]
            if nm == 'real' and ok == 'cplx': return f'{self.atom(o)}.1', 'sc'
            if nm == 'imag' and ok == 'cplx': return f'{self.atom(o)}.2', 'sc'
            if nm in ('epsilon',) : return 'Sc.eps', 'sc'
            if nm in ('min',) and not args: return 'Sc.minPos', 'sc'
            if nm in ('coeff', 'coeffRef') and ok.startswith('arr_') and len(args) == 1:
                i, ik = self.expr(args[0], env); return f'({o} {self.atom(i)})', ok[4:]
            if nm == 'count' and ok == 'arr_bool':
                cnt = self.cfg.get('count_len', {}).get(o)
                if cnt is None: raise XlateError('count() of array with unknown length ' + o)
                cs, _ = self.expr_from_text(cnt, env)
                return f'(countTrue {o} {self.atom(cs)})', 'int'
            raise XlateError(f'method call .{nm} on {ok}')
        if base is not None and base.get('kind') == 'CXXThisExpr' and 'epsilon' == nm: return 'Sc.eps', 'sc'
        xs = [self.expr(a, env) for a in args]
        if nm in ('min', 'max') and len(xs) == 2:
            (a, ak), (b, bk) = xs
            if ak == 'sc' or bk == 'sc':
                a = self.to_sc(a, ak); b = self.to_sc(b, bk)
                if nm == 'min': return f'(if Sc.lt {self.atom(b)} {self.atom(a)} then {b} else {a})', 'sc'
                return f'(if Sc.lt {self.atom(a)} {self.atom(b)} then {b} else {a})', 'sc'
            return f'({nm} {self.atom(a)} {self.atom(b)})', 'int'
        if nm == 'abs' and len(xs) == 1:
            a, ak = xs[0]
            if ak == 'sc' or ak == 'dep': return f'(Sc.abs {self.atom(a)})', 'sc'
            if ak == 'cplx': return f'(Sc.cabs {self.atom(a)})', 'sc'
            if is_intkind(ak): return f'(Int.natAbs {self.atom(a)} : Int)', 'int'
        if nm == 'sqrt' and len(xs) == 1: return f'(Sc.sqrt {self.atom(self.to_sc(*xs[0]))})', 'sc'
        if nm == 'pow' and len(xs) == 2:
            return f'(Sc.pow {self.atom(self.to_sc(*xs[0]))} {self.atom(self.to_sc(*xs[1]))})', 'sc'
        if nm == 'conj' and len(xs) == 1 and xs[0][1] == 'cplx': return f'(Sc.conj {self.atom(xs[0][0])})', 'cplx'
        if nm == 'norm' and len(xs) == 1 and xs[0][1] == 'cplx': return f'(Sc.cnorm {self.atom(xs[0][0])})', 'sc'
        if nm in self.calls:
            spec = self.calls[nm]
            return f'({spec["lean"]} ' + ' '.join(self.atom(x[0]) for x in xs) + ')', spec.get('kind', 'sc')
        raise XlateError(f'call to non-whitelisted function {nm} (purity check failed)')

    def expr_from_text(self, txt, env):
        # tiny helper: a member or local name
        if txt in env: return env[txt]
        nm, k = self.member(txt); return nm, k

    # ---------- statements ----------
    def assigned(self, stmts, env):
        """names (in env or members) assigned anywhere in stmts"""
        res = []
        def lhs_name(x):
            while x['kind'] in ('ParenExpr', 'ImplicitCastExpr'): x = x['inner'][0]
            if x['kind'] == 'DeclRefExpr': return x['referencedDecl']['name']
            if x['kind'] == 'MemberExpr' and x['inner'][0]['kind'] == 'CXXThisExpr': return x['name']
            if x['kind'] in ('ArraySubscriptExpr',): return lhs_name(x['inner'][0])
            if x['kind'] == 'CXXOperatorCallExpr': return lhs_name(x['inner'][1])
            return None
        def rec(x, declared):
            if x is None or not isinstance(x, dict) or 'kind' not in x: return
            K = x['kind']
            if K in ('BinaryOperator',) and x.get('opcode') == '=' or K == 'CompoundAssignOperator':
                nm = lhs_name(x['inner'][0])
                if nm and nm not in declared and nm not in res: res.append(nm)
            if K == 'UnaryOperator' and x.get('opcode') in ('++', '--'):
                nm = lhs_name(x['inner'][0])
                if nm and nm not in declared and nm not in res: res.append(nm)
            if K == 'CallExpr':
                # out-params of configured calls
                try: nm, _ = self.callee_name(x['inner'][0])
                except XlateError: nm = None
                if nm in self.tu.outparam_fns:
                    for idx in self.tu.outparam_fns[nm]['out']:
                        a = lhs_name(x['inner'][1 + idx])
                        if a and a not in declared and a not in res: res.append(a)
            if K == 'DeclStmt':
                for d in x.get('inner', []):
                    if d['kind'] == 'VarDecl': declared = declared | {d['name']}
                    for c in d.get('inner', []): rec(c, declared)
                return declared
            if K == 'CompoundStmt':
                dd = set(declared)
                for c in x.get('inner', []):
                    r = rec(c, dd)
                    if isinstance(r, set): dd = r
                return
            if K == 'ForStmt':
                dd = set(declared)
                for c in x.get('inner', []):
                    r = rec(c, dd)
                    if isinstance(r, set): dd = r
                return
            for c in x.get('inner', []): rec(c, declared)
        dd = set()
        for s in stmts:
            r = rec(s, dd)
            if isinstance(r, set): dd = r
        return [r for r in res if r in env or r in self.members]

    def escapes(self, x):
        if not isinstance(x, dict): return False
        if x.get('kind') in ('ReturnStmt', 'CXXThrowExpr'): return True
        return any(self.escapes(c) for c in x.get('inner', []))

    def body_list(self, x):
        if x is None: return []
        if x['kind'] == 'CompoundStmt': return list(x.get('inner', []))
        return [x]

    def resolve_local(self, name, body):
        """'@intlocal<k>' -> the source name of the k-th integer-typed local declared at the top level of the function body (so that a
        target can name "the counter" without depending on what the source calls it); anything else is returned unchanged"""
        m = re.fullmatch(r'@intlocal(\d+)', name)
        if not m: return name
        found = []
        for st in (body[0].get('inner', []) if body else []):
            if st.get('kind') != 'DeclStmt': continue
            for d in st.get('inner', []):
                if d.get('kind') == 'VarDecl' and re.search(r'\b(Index|int|long)\b', d.get('type', {}).get('qualType', '')) and '*' not in d.get('type', {}).get('qualType', ''):
                    found.append(d.get('name'))
        k = int(m.group(1))
        if k >= len(found): raise XlateError(f'no {k}-th integer local in the function body')
        return found[k]

    def tuple_of(self, names, env):
        vals = [env[n][0] if n in env else n for n in names]
        if len(vals) == 1: return vals[0]
        return '(' + ', '.join(vals) + ')'

    def pat_of(self, names):
        if len(names) == 1: return names[0]
        return '(' + ', '.join(names) + ')'

    def bind(self, env, name, kind):
        env = dict(env); env[name] = (name, kind); return env

    def flush(self, out, ind):
        """emit pending undefined-behaviour side conditions (track_ub mode) as updates of `ok`"""
        if not self.track_ub: self.ub = []; return
        for c in self.ub: out.add(ind, f'let ok := ok && ({c})')
        self.ub = []

    def lvalue_assign(self, lhs, rhs_s, rhs_k, env, out, ind):
        """emit `let x := rhs` for an assignment; returns new env"""
        self.flush(out, ind)
        x = lhs
        while x['kind'] in ('ParenExpr', 'ImplicitCastExpr'): x = x['inner'][0]
        if x['kind'] == 'DeclRefExpr':
            nm = x['referencedDecl']['name']
            if nm not in env: raise XlateError(f'assignment to non-local {nm}')
            k = env[nm][1]
            if k == 'sc': rhs_s = self.to_sc(rhs_s, rhs_k)
            if k == 'u64' and rhs_k != 'u64': rhs_s, _ = self.cast_to(rhs_s, rhs_k, 'u64')
            out.add(ind, f'let {nm} := {rhs_s}')
            return self.bind(env, nm, k)
        if x['kind'] == 'MemberExpr' and x['inner'][0]['kind'] == 'CXXThisExpr':
            nm, k = self.member(x['name'])
            if k == 'sc': rhs_s = self.to_sc(rhs_s, rhs_k)
            out.add(ind, f'let {nm} := {rhs_s}')
            return self.bind(env, nm, k)
        if x['kind'] == 'ArraySubscriptExpr' or x['kind'] == 'CXXOperatorCallExpr':
            if x['kind'] == 'ArraySubscriptExpr': arr, idx = x['inner'][0], x['inner'][1]
            else: arr, idx = x['inner'][1], x['inner'][2]
            a, ak = self.expr(arr, env); i, ik = self.expr(idx, env)
            if not ak.startswith('arr_'): raise XlateError('write to non-array')
            if ak == 'arr_sc': rhs_s = self.to_sc(rhs_s, rhs_k)
            base = a
            if not re.fullmatch(r'\w+', base): raise XlateError('write to array expression ' + base)
            out.add(ind, f'let {base} := upd {base} {self.atom(i)} {self.atom(rhs_s)}')
            return self.bind(env, base, ak)
        raise XlateError('assignment target ' + x['kind'])

    def stmts(self, ss, env, out, ind, final):
        """translate statement list; `final(env, out, ind)` emits the fall-through result"""
        if not ss:
            final(env, out, ind); return
        s, rest = ss[0], ss[1:]
        K = s['kind']
        if K in ('ExprWithCleanups',):
            return self.stmts([s['inner'][0]] + rest, env, out, ind, final)
        if K == 'NullStmt':
            return self.stmts(rest, env, out, ind, final)
        if K == 'CompoundStmt':
            # nested block: locals may shadow; we inline (names are rebinding lets anyway)
            return self.stmts(list(s.get('inner', [])) + rest, env, out, ind, final)
        if K == 'DeclStmt':
            for d in s.get('inner', []):
                if d['kind'] in ('UsingDecl', 'TypeAliasDecl', 'TypedefDecl', 'UsingDirectiveDecl', 'StaticAssertDecl'): continue
                if d['kind'] != 'VarDecl': raise XlateError('decl ' + d['kind'])
                if d.get('storageClass') == 'static': raise XlateError(f'static local {d["name"]} (hidden state)')
                nm = d['name']; tk = self.kind_of(d)
                init = [c for c in d.get('inner', []) if c.get('kind') not in ('FullComment',)]
                hook = self.cfg.get('decl_hook')
                if hook:
                    r = hook(self, d, env, out, ind)
                    if r is not None: env = r; continue
                qt0 = strip_type(d.get('type', {}).get('qualType', ''))
                if qt0.startswith('std::vector<'):
                    ak = 'arr_int'
                    if init and init[0]['kind'] == 'CXXConstructExpr' and len(init[0].get('inner', [])) == 1:
                        e, k = self.expr(init[0]['inner'][0], env)
                        if k != ak: raise XlateError('vector copy of non-vector')
                        out.add(ind, f'let {nm} := {e}')
                    elif (not init) or (init[0]['kind'] == 'CXXConstructExpr' and not init[0].get('inner')):
                        out.add(ind, f'let {nm} : Int → Int := {self.default_of(ak)}')
                    else: raise XlateError('vector initialiser')
                    env = self.bind(env, nm, ak); continue
                if not init:
                    if tk in ('other', 'dep'):
                        ak = self.cfg.get('locals', {}).get(nm)
                        if ak is None: raise XlateError(f'uninitialised local {nm} of unknown type')
                        env = self.bind(env, nm, ak); out.add(ind, f'let {nm} := {self.default_of(ak)}'); continue
                    out.add(ind, f'let {nm} : Int := 0' if is_intkind(tk) else f'let {nm} := {self.default_of(tk)}')
                    env = self.bind(env, nm, tk); continue
                e, k = self.expr(init[0], env)
                qt = d.get('type', {}).get('qualType', '')
                if tk in ('dep', 'other'):
                    tk = self.cfg.get('locals', {}).get(nm, k)
                e, k = self.cast_to(e, k, tk) if tk in ('sc', 'u64', 'u32', 'int', 'bool') else (e, k)
                if is_intkind(k) and ('const' in qt or d.get('constexpr')) and re.fullmatch(r'-?\d+', e.strip('()')):
                    self.consts[nm] = int(e.strip('()')); continue
                ann = ' : Int' if is_intkind(k) else ''
                self.flush(out, ind)
                out.add(ind, f'let {nm}{ann} := {e}')
                env = self.bind(env, nm, k)
            return self.stmts(rest, env, out, ind, final)
        if K == 'BinaryOperator' and s['opcode'] == '=':
            r, rk = self.expr(s['inner'][1], env)
            env = self.lvalue_assign(s['inner'][0], r, rk, env, out, ind)
            return self.stmts(rest, env, out, ind, final)
        if K == 'CompoundAssignOperator':
            op = s['opcode'][:-1]
            fake = {'kind': 'BinaryOperator', 'opcode': op, 'inner': s['inner'], 'type': s.get('type', {})}
            r, rk = self.binop(fake, env, None)
            env = self.lvalue_assign(s['inner'][0], r, rk, env, out, ind)
            return self.stmts(rest, env, out, ind, final)
        if K == 'UnaryOperator' and s['opcode'] in ('++', '--'):
            x = s['inner'][0]
            one = {'kind': 'IntegerLiteral', 'value': '1', 'type': {'qualType': 'int'}}
            fake = {'kind': 'BinaryOperator', 'opcode': '+' if s['opcode'] == '++' else '-', 'inner': [x, one], 'type': s.get('type', {})}
            r, rk = self.binop(fake, env, None)
            env = self.lvalue_assign(x, r, rk, env, out, ind)
            return self.stmts(rest, env, out, ind, final)
        if K == 'ReturnStmt':
            self.emit_return(s, env, out, ind); return
        if K == 'CXXThrowExpr':
            self.emit_throw(s, env, out, ind); return
        if K == 'IfStmt':
            parts = [c for c in s['inner']]
            cond = parts[0]; thn = parts[1]; els = parts[2] if len(parts) > 2 else None
            c, ck = self.expr(cond, env); c = self.to_bool(c, ck)
            self.flush(out, ind)
            tl = self.body_list(thn); el = self.body_list(els)
            if self.escapes(thn) or (els is not None and self.escapes(els)):
                out.add(ind, f'if {c} then')
                self.stmts(tl + rest, env, out, ind + 2, final)
                out.add(ind, 'else')
                self.stmts(el + rest, env, out, ind + 2, final)
                return
            av = self.assigned(tl + el, env)
            if self.track_ub and 'ok' not in av: av = av + ['ok']
            if not av:
                # nothing the translation tracks is assigned: the statement may be dropped ONLY if every statement in it is one the
                # translator understands (dry run; an unrecognised call or statement raises instead of vanishing silently)
                self.stmts(tl, env, Out(), 0, lambda e, o, i: None); self.stmts(el, env, Out(), 0, lambda e, o, i: None)
                return self.stmts(rest, env, out, ind, final)
            for a in av:
                if a not in env: env = self.bind(env, a, self.members[a]); self.member(a)
            out.add(ind, f'let {self.pat_of(av)} :=')
            out.add(ind + 2, f'if {c} then')
            fin = lambda e, o, i: o.add(i, self.tuple_of(av, e))
            self.stmts(tl, env, out, ind + 4, fin)
            out.add(ind + 2, 'else')
            self.stmts(el, env, out, ind + 4, fin)
            return self.stmts(rest, env, out, ind, final)
        if K == 'ForStmt':
            init, _, cond, inc, body = s['inner'][0], s['inner'][1], s['inner'][2], s['inner'][3], s['inner'][4]
            # canonical form
            if init['kind'] == 'DeclStmt':
                vd = init['inner'][0]; iv = vd['name']; lo, lok = self.expr(vd['inner'][0], env)
            elif init['kind'] == 'BinaryOperator' and init['opcode'] == '=':
                iv = init['inner'][0]['referencedDecl']['name']; lo, lok = self.expr(init['inner'][1], env)
            else: raise XlateError('for-init')
            if not (inc['kind'] == 'UnaryOperator' and inc['opcode'] == '++'): raise XlateError('for-increment')
            extra = None
            cnd = cond
            while cnd['kind'] in ('ParenExpr',): cnd = cnd['inner'][0]
            if cnd['kind'] == 'BinaryOperator' and cnd['opcode'] == '&&':
                extra = cnd['inner'][1]; cnd = cnd['inner'][0]
            if not (cnd['kind'] == 'BinaryOperator' and cnd['opcode'] in ('<', '<=')): raise XlateError('for-condition')
            lhs = cnd['inner'][0]
            while lhs['kind'] in ('ImplicitCastExpr', 'ParenExpr'): lhs = lhs['inner'][0]
            if not (lhs['kind'] == 'DeclRefExpr' and lhs['referencedDecl']['name'] == iv): raise XlateError('for-condition var')
            hi, hik = self.expr(cnd['inner'][1], env)
            if cnd['opcode'] == '<=': hi = f'({hi} + 1)'
            bl = self.body_list(body)
            if self.escapes(body): raise XlateError('return/throw inside for loop')
            av = self.assigned(bl, env)
            if iv in av: raise XlateError('loop variable assigned in body')
            for a in av:
                if a not in env: env = self.bind(env, a, self.members[a]); self.member(a)
            if not av:
                self.stmts(bl, self.bind(env, iv, 'int'), Out(), 0, lambda e, o, i: None)   # dry run, see IfStmt
                return self.stmts(rest, env, out, ind, final)
            benv = self.bind(env, iv, 'int')
            out.add(ind, f'let {self.pat_of(av)} := (intRange {self.atom(lo)} {self.atom(hi)}).foldl (fun {self.pat_of(av) if len(av)==1 else self.pat_of(av)} {iv} =>')
            fin = lambda e, o, i: o.add(i, self.tuple_of(av, e))
            if extra is not None:
                ec, eck = self.expr(extra, benv)
                out.add(ind + 4, f'if {self.to_bool(ec, eck)} then')
                self.stmts(bl, benv, out, ind + 6, fin)
                out.add(ind + 4, 'else')
                out.add(ind + 6, self.tuple_of(av, benv))
            else:
                self.stmts(bl, benv, out, ind + 4, fin)
            out.add(ind + 2, f') {self.tuple_of(av, env)}')
            return self.stmts(rest, env, out, ind, final)
        if K == 'CallExpr':
            try: nm, _ = self.callee_name(s['inner'][0])
            except XlateError: nm = None
            if nm in self.tu.outparam_fns:
                spec = self.tu.outparam_fns[nm]
                args = s['inner'][1:]
                ins = [self.expr(args[i], env) for i in spec['in']]
                outs = []
                for i in spec['out']:
                    x = args[i]
                    while x['kind'] in ('ParenExpr', 'ImplicitCastExpr'): x = x['inner'][0]
                    if x['kind'] != 'DeclRefExpr': raise XlateError('out-argument is not a variable')
                    outs.append(x['referencedDecl']['name'])
                out.add(ind, f'let {self.pat_of(outs)} := {spec["lean"]} ' + ' '.join(self.atom(self.to_sc(a, k) if spec.get("sc") else a) for a, k in ins))
                for o_ in outs:
                    if o_ not in env: raise XlateError('out-argument not local')
                return self.stmts(rest, env, out, ind, final)
            hook = self.cfg.get('call_hook')
            if hook:
                r = hook(self, s, env, out, ind)
                if r is not None: return self.stmts(rest, r, out, ind, final)
            raise XlateError(f'call statement to {nm}')
        if K == 'DoStmt' and not [c for c in s['inner'][0].get('inner', [])]:
            return self.stmts(rest, env, out, ind, final)     # empty `do {} while (0)` (disabled verification hook macro)
        if K in ('CXXMemberCallExpr', 'CXXOperatorCallExpr', 'SwitchStmt', 'WhileStmt', 'DoStmt'):
            hook = self.cfg.get('stmt_hook')
            if hook:
                r = hook(self, s, env, out, ind, rest, final)
                if r is True: return
                if r is not None: return self.stmts(rest, r, out, ind, final)
            raise XlateError(f'unsupported statement {K}')
        if K == 'BreakStmt':
            raise XlateError('break outside a handled switch')
        raise XlateError(f'unsupported statement {K}')

    def default_of(self, k):
        return {'sc': '(Sc.ofInt 0)', 'int': '(0 : Int)', 'u64': '(0 : Int)', 'bool': 'false',
                'arr_int': '(fun _ => (0 : Int))', 'arr_sc': '(fun _ => Sc.ofInt 0)', 'arr_bool': '(fun _ => false)'}[k]

    def emit_return(self, s, env, out, ind):
        mode = self.cfg['mode']
        if self.track_ub:
            inner = s.get('inner', [])
            if inner: self.expr(inner[0], env)
            self.flush(out, ind); out.add(ind, 'ok'); return
        if mode == 'outparams':
            out.add(ind, self.wrap_ok(self.tuple_of(self.cfg['out'], env))); return
        if mode == 'guard':
            out.add(ind, 'Res.ok ()'); return
        inner = s.get('inner', [])
        if not inner: out.add(ind, self.wrap_ok('()')); return
        e, k = self.expr(inner[0], env)
        rk = self.cfg.get('ret_kind')
        if rk == 'sc': e = self.to_sc(e, k)
        rwo = self.cfg.get('ret_with_out')
        if rwo: e = '(' + ', '.join([env[o][0] for o in rwo] + [e]) + ')'
        out.add(ind, self.wrap_ok(e))

    def wrap_ok(self, e):
        return f'Res.ok {self.atom(e)}' if self.cfg.get('throws') else e

    def emit_throw(self, s, env, out, ind):
        t = None
        def rec(x):
            nonlocal t
            qt = x.get('type', {}).get('qualType', '')
            if qt.startswith('std::') and t is None and x['kind'] in ('CXXFunctionalCastExpr', 'CXXConstructExpr', 'CXXTemporaryObjectExpr', 'CXXUnresolvedConstructExpr'): t = qt
            for c in x.get('inner', []): rec(c)
        rec(s)
        if t is None: raise XlateError('throw of unknown type')
        if not self.cfg.get('throws'): raise XlateError('throw in a target not declared as throwing')
        out.add(ind, f'Res.throw "{t}"')

    # ---------- function ----------
    def translate(self, lean_name):
        n = self.node
        params = [c for c in n.get('inner', []) if c['kind'] == 'ParmVarDecl']
        body = [c for c in n.get('inner', []) if c['kind'] == 'CompoundStmt']
        if not body: raise XlateError('no body')
        env = {}
        plist = []
        outp = self.cfg.get('out', [])
        for p in params:
            nm = p.get('name')
            if nm is None: continue
            k = self.param_kinds.get(nm) or self.kind_of(p)
            if k in ('dep', 'other'):
                if nm in self.cfg.get('ignore_params', []): continue
                raise XlateError(f'parameter {nm} of unsupported type {p.get("type")}')
            env[nm] = (nm, k)
            if nm in outp and not self.cfg.get('out_is_inout'): continue
            plist.append((nm, k))
        out = Out()
        if self.track_ub:
            env['ok'] = ('ok', 'bool'); out.add(2, 'let ok := true')
        # ctor initialisers that define members
        for ci in [c for c in n.get('inner', []) if c['kind'] == 'CXXCtorInitializer']:
            fld = (ci.get('anyInit') or {}).get('name')
            if fld in self.cfg.get('ctor_inits', {}):
                k = self.cfg['ctor_inits'][fld]
                x = ci['inner'][0]
                if x['kind'] == 'ParenListExpr': x = x['inner'][0]
                if fld in self.cfg.get('ctor_init_params', {}):
                    pn = self.cfg['ctor_init_params'][fld]
                    env[fld] = (pn, k); plist.append((pn, k)); continue
                e, ek = self.expr(x, env)
                out.add(2, f'let {fld} : Int := {e}' if is_intkind(k) else f'let {fld} := {e}')
                env[fld] = (fld, k)
        for o_ in outp:
            if o_ not in env: raise XlateError('out param missing ' + o_)
        mode = self.cfg['mode']
        def final(e, o, i):
            if self.track_ub: self.flush(o, i); o.add(i, 'ok'); return
            if mode == 'outparams': o.add(i, self.wrap_ok(self.tuple_of(outp, e)))
            elif mode == 'guard': o.add(i, 'Res.ok ()')
            elif mode == 'state': o.add(i, self.wrap_ok(self.tuple_of([self.resolve_local(x, body) for x in self.cfg['state_out']], e)))
            else: raise XlateError('control reaches end of value-returning function')
        ss = list(body[0].get('inner', []))
        sl = self.cfg.get('slice')
        if sl: ss = sl(self, ss)
        self.stmts(ss, env, out, 2, final)
        # header
        mparams = [(m, self.members[m]) for m in self.cfg.get('member_order', []) if m in self.used_members]
        for m in self.used_members:
            if m not in [x[0] for x in mparams]:
                if self.cfg.get('member_order') is not None and m not in self.cfg.get('member_order', []):
                    raise XlateError(f'member {m} used but not in declared order')
                mparams.append((m, self.members[m]))
        allp = [p for p in mparams if p[0] not in self.cfg.get('write_only', []) and p[1] != 'other'] + plist + list(self.extra_params)
        allp = [p for p in allp if not (p[0] in self.cfg.get('ctor_inits', {}) and p[0] not in self.cfg.get('ctor_init_params', {}).values())]
        def ty(k):
            return {'int': 'Int', 'u64': 'Int', 'u32': 'Int', 'bool': 'Bool', 'sc': 'α', 'enum': 'Int', 'cplx': '(α × α)',
                    'arr_sc': '(Int → α)', 'arr_int': '(Int → Int)', 'arr_bool': '(Int → Bool)', 'arr_cplx': '(Int → α × α)'}[k]
        uses_sc = any(k in ('sc', 'arr_sc', 'cplx', 'arr_cplx') for _, k in allp) or 'Sc.' in out.render() or self.cfg.get('force_sc')
        hdr = f'def {lean_name}'
        if uses_sc: hdr += ' {α : Type} [Add α] [Sub α] [Mul α] [Div α] [Neg α] [Sc α]'
        for nm, k in allp: hdr += f' ({nm} : {ty(k)})'
        rt = 'Bool' if self.track_ub else self.cfg.get('ret_type')
        if rt: hdr += f' : {rt}'
        text = hdr + ' :=\n' + out.render()
        return text, allp

def slugify(s): return re.sub(r'\W', '_', s)

# ---------------------------------------------------------------------------------------------
# switch over SortRule whose cases build a `SortEigenvalue<T, SortRule::X>` and swap it into an index vector
def parse_sort_switch(fn, sw):
    """returns (cond_node, groups=[(labels:[int], rule:int, family:'real'|'cplx', data_node, len_node, target_name)], default_throws:bool)"""
    cond = sw['inner'][0]; body = sw['inner'][1]
    groups = []; default_throws = False
    for c in body.get('inner', []):
        labels = []
        x = c
        if x['kind'] == 'DefaultStmt':
            if not fn.escapes(x): raise XlateError('default case does not throw')
            default_throws = True; continue
        while x['kind'] == 'CaseStmt':
            lab = x['inner'][0]
            v = lab.get('value')
            if v is None:
                s_, _ = fn.expr(lab, {}); v = s_
            labels.append(int(v)); x = x['inner'][1]
        if not labels: raise XlateError('statement in switch outside a case: ' + c['kind'])
        stmts = fn.body_list(x)
        vd = None; swap_target = None; has_break = False
        for st in stmts:
            if st['kind'] == 'DeclStmt':
                vd = st['inner'][0]
            elif st['kind'] in ('CallExpr', 'CXXMemberCallExpr'):
                nm, base = fn.callee_name(st['inner'][0])
                if nm != 'swap': raise XlateError('unexpected call in case: ' + str(nm))
                a = st['inner'][1]
                while a['kind'] in ('ImplicitCastExpr', 'ParenExpr'): a = a['inner'][0]
                swap_target = a['referencedDecl']['name']
            elif st['kind'] == 'BreakStmt': has_break = True
            else: raise XlateError('unexpected statement in case: ' + st['kind'])
        if vd is None or swap_target is None or not has_break: raise XlateError('case is not `SortEigenvalue decl; swap; break`')
        qt = vd['type']['qualType']
        m = re.match(r'SortEigenvalue<\s*([\w:]+)\s*,\s*SortRule::(\w+)\s*>', qt)
        if not m: raise XlateError('case variable type ' + qt)
        fam = 'cplx' if m.group(1) in ('Complex',) else 'real'
        rule = int(fn.tu.enum_value(m.group(2)))
        args = vd['inner'][0]['inner'] if vd['inner'][0]['kind'] == 'ParenListExpr' else vd['inner'][0].get('inner', [])
        d = args[0]
        # <x>.data()
        if d['kind'] == 'CallExpr' or d['kind'] == 'CXXMemberCallExpr':
            nm, base = fn.callee_name(d['inner'][0])
            if nm != 'data': raise XlateError('sort data argument')
            d = base
        groups.append((sorted(labels, reverse=True), rule, fam, d, args[1], swap_target))
    if not default_throws: raise XlateError('switch without throwing default')
    # every case is `SortEigenvalue decl; swap; break`, so the order of the cases (and of the labels sharing one body) has no
    # meaning: emit them in one canonical order, so that re-ordering cases in the source does not disturb the proofs
    groups.sort(key=lambda g: (g[1], g[0]))
    return cond, groups

def check_sort_class(tu):
    """`SortEigenvalue`: the comparator handed to std::sort must be exactly `get(m_evals[i]) < get(m_evals[j])` (a strict weak order
    on the keys, nothing else), and the constructor exactly: fill the index vector with 0..size-1, then std::sort over the whole
    vector with `*this`.  The generated `sortIdx (fun i j => Sc.lt (key ..) (key ..))` ASSUMES this shape; it is checked here
    against the source on every run."""
    import astdump
    src = open(os.path.join(astdump.INC, 'Spectra', 'Util', 'SelectionRule.h')).read()
    m = re.search(r'class\s+SortEigenvalue\b(.*?)\n\};', src, re.S)
    if not m: raise XlateError('class SortEigenvalue not found')
    body = re.sub(r'//[^\n]*', '', m.group(1)); body = re.sub(r'/\*.*?\*/', '', body, flags=re.S)
    flat = re.sub(r'\s+', '', body)
    op = re.search(r'booloperator\(\)\(Indexi,Indexj\)(const)?\{(.*?)\}', flat)
    if not op: raise XlateError('SortEigenvalue::operator()(Index i, Index j) not found')
    if op.group(2) != 'returnSortingTarget<T,Rule>::get(m_evals[i])<SortingTarget<T,Rule>::get(m_evals[j]);':
        raise XlateError('SortEigenvalue comparator is not `get(m_evals[i]) < get(m_evals[j])`: ' + op.group(2)[:120])
    ctor = re.search(r'SortEigenvalue\(constT\*start,Indexsize\):m_evals\(start\),m_index\(size\)\{(.*?)\}inline', flat)
    if not ctor: raise XlateError('SortEigenvalue constructor not of the expected form')
    if ctor.group(1) != 'for(Indexi=0;i<size;i++){m_index[i]=i;}std::sort(m_index.begin(),m_index.end(),*this);':
        raise XlateError('SortEigenvalue constructor body is not `fill 0..size-1; std::sort(begin, end, *this)`: ' + ctor.group(1)[:160])
    # no static / thread_local / mutable state in the class
    if re.search(r'\b(static|thread_local|mutable)\b', body): raise XlateError('SortEigenvalue has static/thread_local/mutable state')

def sort_switch_hook(fn, s, env, out, ind, rest, final):
    if s['kind'] != 'SwitchStmt': return None
    check_sort_class(fn.tu)
    cond, groups = parse_sort_switch(fn, s)
    c, ck = fn.expr(cond, env)
    fam = groups[0][2]; tgt = groups[0][5]
    d, dk = fn.expr(groups[0][3], env); ln, lk = fn.expr(groups[0][4], env)
    for g in groups:
        d2, _ = fn.expr(g[3], env); l2, _ = fn.expr(g[4], env)
        if (g[2], g[5], d2, l2) != (fam, tgt, d, ln): raise XlateError('cases of the switch sort different data')
    chain = ''
    for labels, rule, _, _, _, _ in groups:
        cnd = ' || '.join(f'decide ({c} = {l})' for l in labels)
        chain += f'if {cnd} then {rule} else '
    chain += '(-1)'
    out.add(ind, f'let rule : Int := {chain}')
    out.add(ind, 'if decide (rule = -1) then')
    out.add(ind + 2, 'Res.throw "std::invalid_argument"')
    out.add(ind, 'else')
    key = 'Gen.Sort.keyReal' if fam == 'real' else 'Gen.Sort.keyCplx'
    out.add(ind + 2, f'let {tgt} := sortIdx (fun i j => Sc.lt ({key} rule ({d} i)) ({key} rule ({d} j))) {fn.atom(ln)}')
    if not fn.cfg.get('throws'): raise XlateError('sort switch in non-throwing target')
    env2 = fn.bind(env, tgt, 'arr_int')
    fn.stmts(rest, env2, out, ind + 2, final)
    return True
