"""C14 (failing user operator is contained): structural footprint of every function of the solver / factorization / helper
classes -> module `Gen.FaultFootprint` (Lean list literals), regenerated from the clang-14 AST on every run.

 scanned          (class, number of function bodies scanned) for every class / free function of namespace Spectra that is not
                  in EXCLUDED (the contrib solvers and the Davidson family have their own properties)
 required_missing the member functions the property names (init, compute, restart, factorize_from, expand_basis,
                  retrieve_ritzpair, sort_ritzpair, compress_V, ...) that were NOT found with a body (expected: none)
 raw_alloc        (class, function, kind) for every `new` / `delete` expression and every call of malloc/calloc/realloc/free/
                  aligned_malloc/... in a scanned function (constructors, destructors and all other members)
 try_catch        (class, function, "try" | "catch") for every try block / handler in a scanned function
 catch_handlers   for every handler: (class, function, handler is catch-all `catch (...)`, handler's LAST statement is a bare `throw;`
                  (rethrow of the same exception object), the calls made inside the handler rendered as base.method(args));
 catch_handler_shape (class, function, number of statements of the handler, number of throw expressions in the handler)
 catch_handler_decl (class, function, exception-declaration of the handler: "..." for the catch-all, else the declared type): a typed
                  handler (`catch (const std::exception&)`) lets every exception of another type -- `throw 42;`, a user struct that
                  is not derived from std::exception -- pass WITHOUT running the handler's statements
 throws           (class, function, exception type | "rethrow") for every throw expression in a scanned function
 rethrow_by_value (class, function, what) for every `throw <expr>;` whose operand mentions the exception-declaration variable of a
                  catch handler of that function (`catch (const std::exception& e) { ...; throw e; }` throws a NEW object of the
                  handler's declared type: the user's exception is sliced, dynamic type and payload are lost), and for every call
                  of the exception-transport functions std::rethrow_exception / current_exception / throw_with_nested /
                  rethrow_if_nested / make_exception_ptr
 sri_*            `SparseRegularInverse::solve`: the members it assigns, its status/throw logic (translated structurally:
                  `m_info = (m_cg.info() == Eigen::Success) ? Successful : NotConverging; if (m_info != Successful) throw
                  std::runtime_error(...)`), and every use of a B-operator's `info()` inside the solver classes
"""
import astdump
from xlate import XlateError

EXCLUDED = {'PartialSVDSolver', 'SVDMatOp', 'SVDTallMatOp', 'SVDWideMatOp', 'LOBPCGSolver',
            'DavidsonSymEigsSolver', 'JDSymEigsBase', 'RitzPairs', 'SearchSpace', 'Orthogonalization'}
REQUIRED = {
    'HermEigsBase': ['init', 'compute', 'restart', 'retrieve_ritzpair', 'sort_ritzpair', 'num_converged', 'nev_adjusted', 'eigenvalues', 'eigenvectors'],
    'GenEigsBase': ['init', 'compute', 'restart', 'retrieve_ritzpair', 'sort_ritzpair', 'num_converged', 'nev_adjusted', 'eigenvalues', 'eigenvectors'],
    'Arnoldi': ['init', 'factorize_from', 'expand_basis', 'compress_H', 'compress_V'],
    'Lanczos': ['factorize_from', 'compress_H'],
    'ArnoldiOp': ['perform_op', 'inner_product', 'norm', 'adjoint_product'],
    'SymGEigsCholeskyOp': ['perform_op'], 'SymGEigsRegInvOp': ['perform_op'], 'SymGEigsShiftInvertOp': ['perform_op'],
    'SymGEigsBucklingOp': ['perform_op'], 'SymGEigsCayleyOp': ['perform_op'],
    'GenEigsComplexShiftSolver': ['sort_ritzpair'], 'SymEigsShiftSolver': ['sort_ritzpair'], 'GenEigsRealShiftSolver': ['sort_ritzpair'],
    'SymGEigsShiftSolver': ['sort_ritzpair'], 'SparseRegularInverse': ['solve', 'perform_op'],
    'TridiagQR': ['compute'], 'UpperHessenbergQR': ['compute'], 'DoubleShiftQR': ['compute'], 'TridiagEigen': ['compute'], 'UpperHessenbergEigen': ['compute'],
}
ALLOC_CALLS = {'malloc', 'calloc', 'realloc', 'free', 'aligned_malloc', 'aligned_free', 'conditional_aligned_malloc', 'conditional_aligned_free',
               'handmade_aligned_malloc', 'handmade_aligned_free', 'posix_memalign', 'aligned_alloc', 'operator new', 'operator delete',
               'operator new[]', 'operator delete[]', 'alloca', 'strdup'}
FUNC_KINDS = ('FunctionDecl', 'CXXMethodDecl', 'CXXConstructorDecl', 'CXXDestructorDecl', 'CXXConversionDecl')
REC_KINDS = ('CXXRecordDecl', 'ClassTemplatePartialSpecializationDecl')

def walk(x):
    st = [x]
    while st:
        n = st.pop()
        if isinstance(n, dict):
            yield n
            st.extend(reversed(n.get('inner', [])))

def callee_names(call):
    inner = call.get('inner', [])
    if not inner: return []
    out = []
    for n in walk(inner[0]):
        if n.get('kind') == 'DeclRefExpr': out.append(n.get('referencedDecl', {}).get('name', ''))
        elif n.get('kind') in ('UnresolvedLookupExpr', 'DependentScopeDeclRefExpr'): out.append(n.get('name', ''))
        elif n.get('kind') in ('MemberExpr', 'CXXDependentScopeMemberExpr', 'UnresolvedMemberExpr'): out.append(n.get('name') or n.get('member') or '')
    return out

def thrown_type(th):
    inner = th.get('inner', [])
    if not inner: return 'rethrow'
    for n in walk(inner[0]):
        t = n.get('type', {}).get('qualType', '')
        if t and 'dependent' not in t and t != 'void': return t.replace('const ', '')
    return '?'

def first_name(n):
    for x in walk(n):
        k = x.get('kind')
        if k == 'MemberExpr': return x.get('name', '?')
        if k in ('CXXDependentScopeMemberExpr', 'UnresolvedMemberExpr'): return x.get('member') or x.get('name') or '?'
        if k == 'DeclRefExpr': return x.get('referencedDecl', {}).get('name', '?')
        if k in ('UnresolvedLookupExpr', 'DependentScopeDeclRefExpr'): return x.get('name', '?')
        if k in ('IntegerLiteral', 'FloatingLiteral'): return str(x.get('value', '?'))
    return '?'

def token_text(cls, node):
    """source token of a node without a name (an UnresolvedMemberExpr for a using-declared base member such as `m_op`):
    read from the header named after the class"""
    import glob, os
    b = node.get('range', {}).get('begin', {})
    if 'offset' not in b or 'tokLen' not in b: return '?'
    fs = glob.glob(os.path.join(astdump.INC, 'Spectra', '**', cls.split('::')[0] + '.h'), recursive=True)
    if len(fs) != 1: return '?'
    src = open(fs[0], 'rb').read()
    return src[b['offset']: b['offset'] + b['tokLen']].decode('utf8', 'replace')

def render_call(call, cls):
    inner = call.get('inner', [])
    if not inner: return '?'
    callee = inner[0]
    while callee.get('kind') in ('ImplicitCastExpr', 'ParenExpr') and callee.get('inner'): callee = callee['inner'][0]
    meth = callee.get('member') or callee.get('name') or callee.get('referencedDecl', {}).get('name') or '?'
    base = ''
    if callee.get('kind') in ('MemberExpr', 'CXXDependentScopeMemberExpr', 'UnresolvedMemberExpr') and callee.get('inner'):
        b = callee['inner'][0]
        while b.get('kind') in ('ImplicitCastExpr', 'ParenExpr') and b.get('inner'): b = b['inner'][0]
        base = (b.get('name') or b.get('member') or b.get('referencedDecl', {}).get('name') or ('this' if b.get('kind') == 'CXXThisExpr' else token_text(cls, b))) + '.'
    return base + meth + '(' + ','.join(first_name(a) for a in inner[1:]) + ')'

TRANSPORT_CALLS = {'rethrow_exception', 'current_exception', 'throw_with_nested', 'rethrow_if_nested', 'make_exception_ptr'}

def describe_handler(h, cls):
    """(is catch-all, last statement is a bare `throw;`, calls in the handler, number of statements, number of throw expressions,
        exception-declaration: '...' or the declared type)"""
    decls = [c for c in h.get('inner', []) if c.get('kind') == 'VarDecl']
    catch_all = not decls
    decl = '...' if catch_all else decls[0].get('type', {}).get('qualType', '?')
    body = [c for c in h.get('inner', []) if c.get('kind') == 'CompoundStmt']
    stmts = body[0].get('inner', []) if body else []
    last = stmts[-1] if stmts else {}
    while last.get('kind') in ('ExprWithCleanups', 'ParenExpr') and last.get('inner'): last = last['inner'][0]
    bare = last.get('kind') == 'CXXThrowExpr' and not last.get('inner')
    calls = [render_call(n, cls) for n in walk(h) if n.get('kind') in ('CallExpr', 'CXXMemberCallExpr', 'CXXOperatorCallExpr', 'CXXConstructExpr', 'CXXUnresolvedConstructExpr', 'CXXNewExpr', 'CXXDeleteExpr')]
    nthrow = sum(1 for n in walk(h) if n.get('kind') == 'CXXThrowExpr')
    return catch_all, bare, calls, len(stmts), nthrow, decl

def scan_function(cls, fn, res):
    has_body = any(c.get('kind') in ('CompoundStmt', 'CXXTryStmt') for c in fn.get('inner', []))
    if not has_body: return False
    name = fn.get('name', '?')
    # exception-declaration variables of all handlers of this function
    catch_vars = {}
    for n in walk(fn):
        if n.get('kind') == 'CXXCatchStmt':
            for c in n.get('inner', []):
                if c.get('kind') == 'VarDecl' and c.get('id'): catch_vars[c['id']] = c.get('name') or '(unnamed)'
    for n in walk(fn):
        if n.get('kind') == 'CXXThrowExpr' and n.get('inner'):
            for x in walk(n['inner'][0]):
                rid = x.get('referencedDecl', {}).get('id') if x.get('kind') == 'DeclRefExpr' else None
                if rid in catch_vars: res['byvalue'].append((cls, name, 'throw ' + catch_vars[rid])); break
        if n.get('kind') in ('CallExpr', 'CXXMemberCallExpr'):
            for cn in callee_names(n)[:1]:
                if cn in TRANSPORT_CALLS: res['byvalue'].append((cls, name, 'call ' + cn))
    for n in walk(fn):
        k = n.get('kind')
        if k == 'CXXNewExpr': res['alloc'].append((cls, name, 'new'))
        elif k == 'CXXDeleteExpr': res['alloc'].append((cls, name, 'delete'))
        elif k == 'CXXTryStmt': res['try'].append((cls, name, 'try'))
        elif k == 'CXXCatchStmt': res['try'].append((cls, name, 'catch')); res['handlers'].append((cls, name) + describe_handler(n, cls))
        elif k == 'CXXThrowExpr': res['throws'].append((cls, name, thrown_type(n)))
        elif k in ('CallExpr', 'CXXMemberCallExpr'):
            for cn in callee_names(n)[:1]:
                if cn in ALLOC_CALLS: res['alloc'].append((cls, name, cn))
    return True

def scan_record(cls, rec, res, found):
    for c in rec.get('inner', []):
        k = c.get('kind')
        fns = []
        if k in FUNC_KINDS: fns = [c]
        elif k == 'FunctionTemplateDecl': fns = [x for x in c.get('inner', []) if x.get('kind') in FUNC_KINDS][:1]
        elif k in REC_KINDS and c.get('name') and not c.get('isImplicit') and c.get('inner'): scan_record(cls + '::' + c['name'], c, res, found)
        elif k == 'ClassTemplateDecl':
            for r in [x for x in c.get('inner', []) if x.get('kind') == 'CXXRecordDecl'][:1]: scan_record(cls + '::' + c.get('name', '?'), r, res, found)
        for f in fns:
            if scan_function(cls, f, res):
                found.setdefault(cls, set()).add(f.get('name', '?'))
                res['nfun'][cls] = res['nfun'].get(cls, 0) + 1

def lean_str(s): return '"' + s.replace('\\', '\\\\').replace('"', '\\"') + '"'
def lean_list(items, f): return '[' + ', '.join(f(i) for i in items) + ']'

def fault_footprint(tu, t):
    res = {'alloc': [], 'try': [], 'throws': [], 'nfun': {}, 'handlers': [], 'byvalue': []}
    found = {}
    for o in tu.objs:
        k = o.get('kind'); nm = o.get('name', '?')
        if nm in EXCLUDED: continue
        if k == 'ClassTemplateDecl':
            for rec in [c for c in o.get('inner', []) if c.get('kind') == 'CXXRecordDecl'][:1]: scan_record(nm, rec, res, found)
        elif k in REC_KINDS: scan_record(nm, o, res, found)
        elif k == 'FunctionTemplateDecl':
            for f in [x for x in o.get('inner', []) if x.get('kind') in FUNC_KINDS][:1]:
                if scan_function('(free)', f, res): res['nfun']['(free)'] = res['nfun'].get('(free)', 0) + 1
        elif k in FUNC_KINDS:
            if scan_function('(free)', o, res): res['nfun']['(free)'] = res['nfun'].get('(free)', 0) + 1
    missing = []
    for cls, fns in REQUIRED.items():
        for f in fns:
            if f not in found.get(cls, set()): missing.append((cls, f))
    if not res['nfun']: raise XlateError('no function bodies found')
    dedup = lambda l: sorted(set(l))
    trip = lambda x: f'({lean_str(x[0])}, {lean_str(x[1])}, {lean_str(x[2])})'
    s = '-- (class, number of function bodies scanned)\n'
    s += 'def scanned : List (String × Nat) := ' + lean_list(sorted(res['nfun'].items()), lambda x: f'({lean_str(x[0])}, {x[1]})') + '\n\n'
    s += '-- member functions named by the property that were not found with a body\n'
    s += 'def required_missing : List (String × String) := ' + lean_list(missing, lambda x: f'({lean_str(x[0])}, {lean_str(x[1])})') + '\n\n'
    s += '-- every raw allocation / deallocation expression in a scanned function\n'
    s += 'def raw_alloc : List (String × String × String) := ' + lean_list(dedup(res['alloc']), trip) + '\n\n'
    s += '-- every try block / catch handler in a scanned function\n'
    s += 'def try_catch : List (String × String × String) := ' + lean_list(dedup(res['try']), trip) + '\n\n'
    lb = lambda b: 'true' if b else 'false'
    s += '-- every catch handler: (class, function, catch-all, last statement is a bare `throw;`, calls inside the handler)\n'
    s += 'def catch_handlers : List (String × String × Bool × Bool × List String) := ' + lean_list(sorted(res['handlers']),
        lambda x: f'({lean_str(x[0])}, {lean_str(x[1])}, {lb(x[2])}, {lb(x[3])}, {lean_list(x[4], lean_str)})') + '\n'
    s += '-- ... and its shape: (class, function, number of statements of the handler, number of throw expressions in the handler)\n'
    s += 'def catch_handler_shape : List (String × String × Nat × Nat) := ' + lean_list(sorted(res['handlers']),
        lambda x: f'({lean_str(x[0])}, {lean_str(x[1])}, {x[5]}, {x[6]})') + '\n\n'
    s += '-- ... and its exception-declaration: "..." for the catch-all `catch (...)`, else the declared type\n'
    s += 'def catch_handler_decl : List (String × String × String) := ' + lean_list(sorted(res['handlers']),
        lambda x: f'({lean_str(x[0])}, {lean_str(x[1])}, {lean_str(x[7])})') + '\n\n'
    s += '-- every `throw <expr>;` whose operand mentions a handler\'s exception-declaration variable (re-throw BY VALUE: slicing), and every\n'
    s += '-- call of std::rethrow_exception / current_exception / throw_with_nested / rethrow_if_nested / make_exception_ptr\n'
    s += 'def rethrow_by_value : List (String × String × String) := ' + lean_list(dedup(res['byvalue']), trip) + '\n\n'
    s += '-- every throw expression in a scanned function: (class, function, thrown type or "rethrow")\n'
    s += 'def throws : List (String × String × String) := ' + lean_list(dedup(res['throws']), trip) + '\n'
    return s

# ------------------------------------------------------------------ SparseRegularInverse::solve
def strip(n):
    while n.get('kind') in ('ParenExpr', 'ImplicitCastExpr', 'ExprWithCleanups', 'CXXFunctionalCastExpr', 'CXXBindTemporaryExpr', 'MaterializeTemporaryExpr') and n.get('inner'):
        n = n['inner'][0]
    return n

def is_member(n, name):
    n = strip(n); return n.get('kind') == 'MemberExpr' and n.get('name') == name

def enum_ref(n):
    n = strip(n)
    if n.get('kind') == 'DeclRefExpr' and n.get('referencedDecl', {}).get('kind') == 'EnumConstantDecl': return n['referencedDecl']['name']
    return None

def sri_solve(tu, t):
    nodes = astdump.find(tu.objs, 'SparseRegularInverse::solve')
    nodes = [x for x in nodes if any(c.get('kind') == 'CompoundStmt' for c in x.get('inner', []))]
    if len(nodes) != 1: raise XlateError('SparseRegularInverse::solve: expected exactly one definition')
    fn = nodes[0]
    body = [c for c in fn['inner'] if c['kind'] == 'CompoundStmt'][0]
    # members assigned anywhere in the body (plain or compound assignment, ++/--)
    assigned = []
    for n in walk(body):
        if n.get('kind') in ('BinaryOperator', 'CompoundAssignOperator') and (n.get('opcode') == '=' or n.get('kind') == 'CompoundAssignOperator'):
            l = strip(n['inner'][0])
            if l.get('kind') == 'MemberExpr': assigned.append(l.get('name'))
        if n.get('kind') == 'UnaryOperator' and n.get('opcode') in ('++', '--'):
            l = strip(n['inner'][0])
            if l.get('kind') == 'MemberExpr': assigned.append(l.get('name'))
    stmts = body['inner']
    if len(stmts) < 2: raise XlateError('solve: body too short')
    asg, iff = stmts[-2], stmts[-1]
    # m_info = (m_cg.info() == Eigen::Success) ? A : B
    if not (asg.get('kind') == 'BinaryOperator' and asg.get('opcode') == '=' and is_member(asg['inner'][0], 'm_info')): raise XlateError('solve: last-but-one statement is not `m_info = ...`')
    co = strip(asg['inner'][1])
    if co.get('kind') != 'ConditionalOperator': raise XlateError('solve: m_info is not assigned a conditional expression')
    cond = strip(co['inner'][0])
    if not (cond.get('kind') == 'BinaryOperator' and cond.get('opcode') == '=='): raise XlateError('solve: condition is not ==')
    lhs = strip(cond['inner'][0])
    names = callee_names(lhs) if lhs.get('kind') in ('CallExpr', 'CXXMemberCallExpr') else []
    if not (lhs.get('kind') in ('CallExpr', 'CXXMemberCallExpr') and 'info' in names and any(n.get('kind') == 'MemberExpr' and n.get('name') == 'm_cg' for n in walk(lhs))):
        raise XlateError('solve: condition does not test m_cg.info()')
    if enum_ref(cond['inner'][1]) != 'Success': raise XlateError('solve: m_cg.info() is not compared with Eigen::Success')
    a, b = enum_ref(co['inner'][1]), enum_ref(co['inner'][2])
    if a is None or b is None: raise XlateError('solve: branches are not CompInfo constants')
    va, vb = tu.enum_value(a), tu.enum_value(b)
    # if (m_info != Successful) throw std::runtime_error(...)
    if iff.get('kind') != 'IfStmt' or len(iff['inner']) != 2: raise XlateError('solve: last statement is not an if without else')
    c2 = strip(iff['inner'][0])
    if not (c2.get('kind') == 'BinaryOperator' and c2.get('opcode') == '!=' and is_member(c2['inner'][0], 'm_info')): raise XlateError('solve: guard is not `m_info != ...`')
    g = enum_ref(c2['inner'][1])
    if g is None: raise XlateError('solve: guard constant')
    vg = tu.enum_value(g)
    th = strip(iff['inner'][1])
    if th.get('kind') == 'CompoundStmt' and len(th.get('inner', [])) == 1: th = strip(th['inner'][0])
    if th.get('kind') != 'CXXThrowExpr': raise XlateError('solve: guarded statement is not a throw')
    ty = thrown_type(th)
    # no other throw / try / catch in the body
    others = [n for n in walk(body) if n.get('kind') in ('CXXThrowExpr', 'CXXTryStmt', 'CXXCatchStmt')]
    if len(others) != 1: raise XlateError('solve: more than the one throw (or a try/catch) in the body')
    mut = []
    for o in tu.objs:
        if o.get('name') == 'SparseRegularInverse' and o.get('kind') == 'ClassTemplateDecl':
            for rec in [c for c in o.get('inner', []) if c.get('kind') == 'CXXRecordDecl'][:1]:
                for c in rec.get('inner', []):
                    if c.get('kind') == 'FieldDecl' and c.get('mutable'): mut.append(c['name'])
    s = '-- members assigned by `SparseRegularInverse::solve` (the output goes through the caller\'s pointer)\n'
    s += 'def sri_solve_assigned : List String := ' + lean_list(sorted(set(assigned)), lean_str) + '\n'
    s += 'def sri_mutable_members : List String := ' + lean_list(sorted(set(mut)), lean_str) + '\n\n'
    s += f'/-- `m_info` after `solve` as a function of `m_cg.info() == Eigen::Success` (CompInfo codes: {a} = {va}, {b} = {vb}) -/\n'
    s += f'def sri_solve_info (cgSuccess : Bool) : Int := if cgSuccess then {va} else {vb}\n\n'
    s += '/-- outcome of `solve`: normal return, or the exception it throws -/\n'
    s += f'def sri_solve_outcome (cgSuccess : Bool) : Res Unit :=\n  if sri_solve_info cgSuccess != {vg} then Res.throw {lean_str(ty)} else Res.ok ()\n'
    return s

def bop_info_uses(tu, t):
    """calls of `info()` on an operator member (m_op / m_Bop / m_B / op / Bop) inside the solver / ArnoldiOp / SymGEigs*Op classes"""
    uses = []
    def visit(cls, rec):
        for c in rec.get('inner', []):
            fns = []
            if c.get('kind') in FUNC_KINDS: fns = [c]
            elif c.get('kind') == 'FunctionTemplateDecl': fns = [x for x in c.get('inner', []) if x.get('kind') in FUNC_KINDS][:1]
            for f in fns:
                for n in walk(f):
                    if n.get('kind') in ('CallExpr', 'CXXMemberCallExpr') and n.get('inner'):
                        cal = strip(n['inner'][0])
                        nm = cal.get('name') or cal.get('member')
                        if nm == 'info' and cal.get('kind') in ('MemberExpr', 'CXXDependentScopeMemberExpr') and cal.get('inner'):
                            base = strip(cal['inner'][0])
                            bn = base.get('name') or base.get('member') or base.get('referencedDecl', {}).get('name', '')
                            if bn in ('m_op', 'm_Bop', 'm_B', 'op', 'Bop', 'm_bop'): uses.append((cls, f.get('name', '?'), bn))
    SOLVERS = ('HermEigsBase', 'GenEigsBase', 'SymEigsSolver', 'SymEigsShiftSolver', 'HermEigsSolver', 'GenEigsSolver', 'GenEigsRealShiftSolver',
               'GenEigsComplexShiftSolver', 'SymGEigsSolver', 'SymGEigsShiftSolver', 'Arnoldi', 'Lanczos', 'ArnoldiOp', 'SymGEigsCholeskyOp',
               'SymGEigsRegInvOp', 'SymGEigsShiftInvertOp', 'SymGEigsBucklingOp', 'SymGEigsCayleyOp')
    for o in tu.objs:
        if o.get('name') not in SOLVERS: continue
        if o.get('kind') == 'ClassTemplateDecl':
            for rec in [c for c in o.get('inner', []) if c.get('kind') == 'CXXRecordDecl'][:1]: visit(o['name'], rec)
        elif o.get('kind') in REC_KINDS: visit(o['name'], o)
    trip = lambda x: f'({lean_str(x[0])}, {lean_str(x[1])}, {lean_str(x[2])})'
    return ('-- (class, function, operator member) for every call of an operator\'s `info()` inside the solver classes\n'
            'def solver_reads_op_info : List (String × String × String) := ' + lean_list(sorted(set(uses)), trip) + '\n')

MODULES = [('FaultFootprint', [
    dict(lean='fault_footprint', header='HermEigsBase.h', custom=fault_footprint, path='*'),
    dict(lean='sri_solve', header='MatOp/SparseRegularInverse.h', custom=sri_solve, path='SparseRegularInverse::solve'),
    dict(lean='solver_reads_op_info', header='HermEigsBase.h', custom=bop_info_uses, path='*'),
], '')]
