"""C12: shape guards of the matrix-operation wrappers, regenerated from MatOp/*.h on every run  ->  Gen.MatOpGuard

  ctor_<Class> (rows cols : Int) : Res Unit                      one per single-matrix wrapper (13 that require a square matrix,
                                                                 DenseGenMatProd / SparseGenMatProd that accept every shape)
  ctor_SymShiftInvert (a_rows a_cols b_rows b_cols : Int)        the two-matrix wrapper
  geigs_ctor_<Op> (op_rows bop_rows : Int) : Res Unit            constructors of the internal SymGEigs*Op adapters (two operators)
  geigs_rows_<Op> (op_rows bop_rows : Int) : Int                 the size the adapter reports to the solver (`rows()`)
  wrap1 / wrap2 / geigs_ctor / geigs_rows                        name/mode dispatch used by the driver

Every definition has a FIXED parameter list (the integer shape parameters of the constructor's arguments), so that a rewritten
guard changes the body only: the theorems of Properties/C12.lean either still prove (harmless rewrite) or break.

Shape queries on an Eigen-object parameter (or on a member initialised from it: `m_mat(mat)`, `m_matA(A.derived())`) are translated
as integer expressions of that argument's shape:  x.rows() -> <x>_rows,  x.cols() -> <x>_cols,  x.size() -> (<x>_rows * <x>_cols)
(Eigen: size() == rows() * cols(); NOT an opaque name).  Any other member function of such an object is outside the subset
(XlateError -> broken obligation).  Integer members set in the initialiser list from shape queries (`m_n(mat.rows())`) are bound as
`let`s in front of the body.  Of the constructor body only declarations and the statements that can leave the constructor (throw)
are kept; the dropped ones (factorisation calls, status assignments) must not mention a kept local.
"""
import os, glob
from xlate import Fn, XlateError
import astdump

# header -> (class, kind).  kind: 'square' | 'any' (single matrix), 'pair' (two matrices)
WRAPPERS = [
    ('DenseSymMatProd', 'square'), ('DenseHermMatProd', 'square'), ('SparseSymMatProd', 'square'), ('SparseHermMatProd', 'square'),
    ('DenseSymShiftSolve', 'square'), ('SparseSymShiftSolve', 'square'), ('DenseGenRealShiftSolve', 'square'),
    ('SparseGenRealShiftSolve', 'square'), ('DenseGenComplexShiftSolve', 'square'), ('SparseGenComplexShiftSolve', 'square'),
    ('DenseCholesky', 'square'), ('SparseCholesky', 'square'), ('SparseRegularInverse', 'square'),
    ('DenseGenMatProd', 'any'), ('SparseGenMatProd', 'any'),
    ('SymShiftInvert', 'pair'),
]
# GEigsMode value -> internal adapter class (SymGEigsSolver.h / SymGEigsShiftSolver.h specialisations)
GEIGS = [(0, 'SymGEigsCholeskyOp'), (1, 'SymGEigsRegInvOp'), (2, 'SymGEigsShiftInvertOp'), (3, 'SymGEigsBucklingOp'), (4, 'SymGEigsCayleyOp')]

def _strip(n):
    while n.get('kind') in ('ImplicitCastExpr', 'ParenExpr', 'ParenListExpr', 'ExprWithCleanups', 'MaterializeTemporaryExpr',
                            'CXXBindTemporaryExpr') and len(n.get('inner', []) or []) == 1:
        n = n['inner'][0]
    return n

class ShapeFn(Fn):
    """Fn + shape queries on Eigen-object parameters / members aliasing them.  cfg['shapes']: object name -> (rows, cols) Lean names;
    cfg['alias']: member name -> object name"""
    def shape_object(self, base):
        if base is None: return None
        b = _strip(base)
        # x.derived()  is the same object
        while b.get('kind') in ('CallExpr', 'CXXMemberCallExpr') and b.get('inner') and len(b['inner']) == 1:
            c = _strip(b['inner'][0])
            if c.get('kind') in ('CXXDependentScopeMemberExpr', 'MemberExpr') and (c.get('member') or c.get('name')) in ('derived', 'const_derived') and c.get('inner'):
                b = _strip(c['inner'][0])
            else: return None
        if b.get('kind') == 'DeclRefExpr' and b.get('referencedDecl', {}).get('kind') == 'ParmVarDecl':
            nm = b['referencedDecl'].get('name')
            return nm if nm in self.cfg['shapes'] else None
        if b.get('kind') == 'MemberExpr' and b.get('inner') and b['inner'][0].get('kind') == 'CXXThisExpr':
            return self.cfg.get('alias', {}).get(b.get('name'))
        return None

    def call(self, n, env, want):
        inner = n.get('inner', [])
        if n['kind'] in ('CallExpr', 'CXXMemberCallExpr') and inner:
            c = _strip(inner[0])
            if c.get('kind') in ('CXXDependentScopeMemberExpr', 'MemberExpr') and c.get('inner'):
                meth = c.get('member') or c.get('name')
                obj = self.shape_object(c['inner'][0])
                if obj is not None:
                    if len(inner) != 1: raise XlateError(f'shape query {obj}.{meth} with arguments')
                    r, cc = self.cfg['shapes'][obj]
                    if meth == 'rows': return r, 'int'
                    if meth == 'cols': return cc, 'int'
                    if meth == 'size': return f'({r} * {cc})', 'int'          # Eigen: size() = rows() * cols()
                    raise XlateError(f'member function {meth}() of the matrix argument {obj} is outside the translated subset (rows, cols, size)')
        return Fn.call(self, n, env, want)

def _class_record(tu, cls):
    for o in tu.objs:
        if o.get('name') == cls and o.get('kind') == 'ClassTemplateDecl':
            recs = [c for c in o.get('inner', []) if c.get('kind') == 'CXXRecordDecl' and c.get('name') == cls]
            if recs: return recs[0]
    raise XlateError(f'class template {cls} not found')

def _user_ctors(rec, nparams):
    """constructors taking `nparams` Eigen/operator objects, excluding copy/move constructors"""
    res = []
    for c in rec.get('inner', []):
        ks = []
        if c.get('kind') == 'CXXConstructorDecl': ks = [c]
        elif c.get('kind') == 'FunctionTemplateDecl': ks = [x for x in c.get('inner', []) if x.get('kind') == 'CXXConstructorDecl'][:1]
        for k in ks:
            if k.get('isImplicit'): continue
            ps = [p for p in k.get('inner', []) if p.get('kind') == 'ParmVarDecl']
            if len(ps) != nparams: continue
            if nparams == 1 and rec.get('name') in ps[0].get('type', {}).get('qualType', '').split('<')[0]: continue   # copy / move
            if not any(x.get('kind') == 'CompoundStmt' for x in k.get('inner', [])): continue
            res.append(k)
    return res

def _aliases(ctor, shapes):
    """members initialised by exactly one shaped parameter (or its .derived()) denote the same matrix"""
    probe = ShapeFn(None, ctor, dict(mode='guard', throws=True, shapes=shapes))
    al = {}
    for ci in [c for c in ctor.get('inner', []) if c.get('kind') == 'CXXCtorInitializer']:
        fld = (ci.get('anyInit') or {}).get('name')
        if not fld or not ci.get('inner'): continue
        x = ci['inner'][0]
        if x.get('kind') == 'ParenListExpr' and len(x.get('inner', [])) != 1: continue
        o = probe.shape_object(x)
        if o is not None: al[fld] = o
    return al

def _int_inits(tu, ctor, shapes, alias):
    """members whose initialiser is an integer expression of the shape parameters"""
    res = {}
    for ci in [c for c in ctor.get('inner', []) if c.get('kind') == 'CXXCtorInitializer']:
        fld = (ci.get('anyInit') or {}).get('name')
        if not fld or fld in alias or not ci.get('inner'): continue
        x = ci['inner'][0]
        if x.get('kind') == 'ParenListExpr':
            if len(x.get('inner', [])) != 1: continue
            x = x['inner'][0]
        qt = (ci.get('anyInit') or {}).get('type', {}).get('qualType', '')
        if not ('Index' in qt or qt.replace('const ', '').strip() in ('int', 'long', 'std::size_t', 'size_t')): continue
        try:
            f = ShapeFn(tu, ctor, dict(mode='guard', throws=True, shapes=shapes, alias=alias))
            s, k = f.expr(x, {})
            if k in ('int', 'u64', 'u32'): res[fld] = 'int'
        except XlateError:
            pass
    return res

def _guard_slice(fn, ss):
    kept = []; declared = set()
    def refs(x):
        if not isinstance(x, dict): return set()
        r = set()
        if x.get('kind') == 'DeclRefExpr' and x.get('referencedDecl', {}).get('kind') == 'VarDecl': r.add(x['referencedDecl'].get('name'))
        for c in x.get('inner', []) or []: r |= refs(c)
        return r
    for s in ss:
        if s.get('kind') == 'DeclStmt':
            kept.append(s)
            for d in s.get('inner', []):
                if d.get('kind') == 'VarDecl': declared.add(d.get('name'))
        elif fn.escapes(s):
            kept.append(s)
        else:
            bad = refs(s) & declared
            if bad: raise XlateError('a statement outside the guard slice uses the local(s) ' + ', '.join(sorted(bad)))
    return kept

def _translate(tu, node, lean, params, shapes, mode='guard', ret='Res Unit', alias_from=None, slice_=_guard_slice):
    ctor_for_alias = alias_from if alias_from is not None else node
    alias = _aliases(ctor_for_alias, shapes)
    inits = _int_inits(tu, node, shapes, alias) if node is ctor_for_alias else {}
    cfg = dict(mode=mode, throws=(mode == 'guard'), shapes=shapes, alias=alias, members=dict(inits), ctor_inits=dict(inits),
               ignore_params=list(shapes.keys()), slice=slice_)
    fn = ShapeFn(tu, node, cfg)
    txt, _ = fn.translate(lean)
    body = txt.split(':=\n', 1)[1]
    hdr = f'def {lean} ' + ' '.join(f'({p} : Int)' for p in params) + f' : {ret} :=\n'
    return hdr + body

def _single(cls):
    def g(tu, t):
        tu.header = f'MatOp/{cls}.h'
        ks = _user_ctors(_class_record(tu, cls), 1)
        if len(ks) != 1: raise XlateError(f'{cls}: expected one constructor taking a matrix, found {len(ks)}')
        p = [x for x in ks[0]['inner'] if x.get('kind') == 'ParmVarDecl'][0].get('name')
        return _translate(tu, ks[0], 'ctor_' + cls, ['rows', 'cols'], {p: ('rows', 'cols')})
    return g

def _pair(cls):
    def g(tu, t):
        tu.header = f'MatOp/{cls}.h'
        ks = _user_ctors(_class_record(tu, cls), 2)
        if len(ks) != 1: raise XlateError(f'{cls}: expected one constructor taking two matrices, found {len(ks)}')
        ps = [x.get('name') for x in ks[0]['inner'] if x.get('kind') == 'ParmVarDecl']
        return _translate(tu, ks[0], 'ctor_' + cls, ['a_rows', 'a_cols', 'b_rows', 'b_cols'],
                          {ps[0]: ('a_rows', 'a_cols'), ps[1]: ('b_rows', 'b_cols')})
    return g

def _geigs_ctor_node(tu, cls):
    ks = [k for k in _user_ctors(_class_record(tu, cls), 2)]
    if len(ks) != 1: raise XlateError(f'{cls}: expected one constructor taking (op, Bop), found {len(ks)}')
    return ks[0]

def _op_shapes(ctor):
    ps = [x.get('name') for x in ctor['inner'] if x.get('kind') == 'ParmVarDecl']
    # the operators are square by their own constructors: rows() and cols() of an operator are the same number
    return {ps[0]: ('op_rows', 'op_rows'), ps[1]: ('bop_rows', 'bop_rows')}

def _geigs_ctor(cls):
    def g(tu, t):
        tu.header = f'MatOp/internal/{cls}.h'
        k = _geigs_ctor_node(tu, cls)
        return _translate(tu, k, 'geigs_ctor_' + cls, ['op_rows', 'bop_rows'], _op_shapes(k))
    return g

def _geigs_rows(cls):
    def g(tu, t):
        tu.header = f'MatOp/internal/{cls}.h'
        k = _geigs_ctor_node(tu, cls)
        ms = [c for c in _class_record(tu, cls).get('inner', []) if c.get('kind') == 'CXXMethodDecl' and c.get('name') == 'rows'
              and any(x.get('kind') == 'CompoundStmt' for x in c.get('inner', []))]
        if len(ms) != 1: raise XlateError(f'{cls}::rows() not found')
        return _translate(tu, ms[0], 'geigs_rows_' + cls, ['op_rows', 'bop_rows'], _op_shapes(k), mode='value', ret='Int', alias_from=k, slice_=None)
    return g

def _dispatch(tu, t):
    # every header of MatOp/ must be in the table: a new wrapper without a guard theorem is a gap, not a pass
    have = sorted(os.path.splitext(os.path.basename(p))[0] for p in glob.glob(os.path.join(astdump.INC, 'Spectra', 'MatOp', '*.h')))
    missing = [h for h in have if h not in [w for w, _ in WRAPPERS]]
    if missing: raise XlateError('MatOp wrapper(s) without a translated constructor guard: ' + ', '.join(missing))
    havei = sorted(os.path.splitext(os.path.basename(p))[0] for p in glob.glob(os.path.join(astdump.INC, 'Spectra', 'MatOp', 'internal', 'SymGEigs*.h')))
    missing = [h for h in havei if h not in [c for _, c in GEIGS]]
    if missing: raise XlateError('internal SymGEigs adapter(s) not in the table: ' + ', '.join(missing))
    # GEigsMode numbering is read off the enum, not assumed
    modes = tu.enums.get('GEigsMode')
    if modes is None: raise XlateError('enum GEigsMode not found')
    want = {'Cholesky': 'SymGEigsCholeskyOp', 'RegularInverse': 'SymGEigsRegInvOp', 'ShiftInvert': 'SymGEigsShiftInvertOp',
            'Buckling': 'SymGEigsBucklingOp', 'Cayley': 'SymGEigsCayleyOp'}
    for v, cls in GEIGS:
        if v >= len(modes) or want.get(modes[v]) != cls: raise XlateError(f'GEigsMode value {v} is {modes[v] if v < len(modes) else "?"}, expected the mode of {cls}')
    s = 'def wrap1 (name : String) (rows cols : Int) : Option (Res Unit) :=\n'
    for w, k in WRAPPERS:
        if k != 'pair': s += f'  if name = "{w}" then some (ctor_{w} rows cols) else\n'
    s += '  none\n\n'
    s += 'def wrap2 (name : String) (a_rows a_cols b_rows b_cols : Int) : Option (Res Unit) :=\n'
    for w, k in WRAPPERS:
        if k == 'pair': s += f'  if name = "{w}" then some (ctor_{w} a_rows a_cols b_rows b_cols) else\n'
    s += '  none\n\n'
    s += '/-- constructor of the adapter the generalized solver of GEigsMode `mode` builds from (op, Bop) -/\n'
    s += 'def geigs_ctor (mode : Int) (op_rows bop_rows : Int) : Res Unit :=\n'
    for v, cls in GEIGS: s += f'  if mode = {v} then geigs_ctor_{cls} op_rows bop_rows else\n'
    s += '  Res.ok ()\n\n'
    s += '/-- the problem size `n` that adapter reports to HermEigsBase (its `rows()`) -/\n'
    s += 'def geigs_rows (mode : Int) (op_rows bop_rows : Int) : Int :=\n'
    for v, cls in GEIGS: s += f'  if mode = {v} then geigs_rows_{cls} op_rows bop_rows else\n'
    s += '  op_rows\n'
    return s

TARGETS = []
for _w, _k in WRAPPERS:
    TARGETS.append(dict(lean='ctor_' + _w, header=f'MatOp/{_w}.h', path=f'{_w}::{_w}', custom=(_pair(_w) if _k == 'pair' else _single(_w))))
for _v, _c in GEIGS:
    TARGETS.append(dict(lean='geigs_ctor_' + _c, header=f'MatOp/internal/{_c}.h', path=f'{_c}::{_c}', custom=_geigs_ctor(_c)))
    TARGETS.append(dict(lean='geigs_rows_' + _c, header=f'MatOp/internal/{_c}.h', path=f'{_c}::rows', custom=_geigs_rows(_c)))
TARGETS.append(dict(lean='dispatch', header='MatOp/SymShiftInvert.h', path='wrap1 / wrap2 / geigs_ctor / geigs_rows', custom=_dispatch))

MODULES = [('MatOpGuard', TARGETS, '')]
