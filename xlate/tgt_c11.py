"""C11: structural footprint of the MatOp wrappers, regenerated from the clang AST on every run.
For every wrapper class with a triangle template parameter (Uplo / UploA / UploB): which triangle argument is handed to which
triangle-sensitive Eigen member type (LLT, SimplicialLLT, ConjugateGradient, ...), view (`selfadjointView<>`, `triangularView<>`)
and factorization call (`compute(mat, uplo, ...)`).  A dropped or swapped `Uplo` changes the generated table and breaks
`c11_uplo_passthrough_partial` / `c11_helper_footprint`."""
import os, re
from xlate import XlateError
import astdump

TRI_TYPES = ('LLT', 'LDLT', 'SimplicialLLT', 'SimplicialLDLT', 'SimplicialCholesky', 'ConjugateGradient',
             'LeastSquaresConjugateGradient', 'BiCGSTAB', 'SelfAdjointEigenSolver')
VIEWS = ('selfadjointView', 'triangularView')

def _walk(n, f, stack=()):
    f(n, stack)
    for c in n.get('inner', []):
        if isinstance(c, dict): _walk(c, f, stack + (n,))

def _header_of(name):
    p = os.path.join(astdump.INC, 'Spectra', 'MatOp', name + '.h')
    if os.path.exists(p): return p
    if name == 'SymShiftInvertHelper': return os.path.join(astdump.INC, 'Spectra', 'MatOp', 'SymShiftInvert.h')
    return None

def _text(src, node):
    r = node.get('range', {}); b = r.get('begin', {}); e = r.get('end', {})
    b = b.get('expansionLoc', b); e = e.get('expansionLoc', e)
    if 'offset' not in b or 'offset' not in e: raise XlateError('no source range for a ' + str(node.get('kind')))
    return re.sub(r'\s+', ' ', src[b['offset']: e['offset'] + e.get('tokLen', 0)]).strip()

def _lean_str(s): return '"' + s.replace('\\', '\\\\').replace('"', '\\"') + '"'

def footprint(tu, t):
    classes = []      # (name, record node, uplo parameter names)
    for o in tu.objs:
        if o.get('kind') == 'ClassTemplateDecl':
            rec = [c for c in o.get('inner', []) if c.get('kind') == 'CXXRecordDecl']
            params = [c.get('name', '') for c in o.get('inner', []) if c.get('kind') == 'NonTypeTemplateParmDecl']
            if rec: classes.append((o.get('name'), rec[0], params))
        elif o.get('kind') == 'ClassTemplatePartialSpecializationDecl':
            params = [c.get('name', '') for c in o.get('inner', []) if c.get('kind') == 'NonTypeTemplateParmDecl']
            classes.append((o.get('name'), o, params))
    uses = []; ucls = []; helper = []
    lu, shifts = _solver_footprint(classes)
    for name, rec, params in classes:
        hp = _header_of(name)
        if hp is None: continue
        up = [p for p in params if p.lower().startswith('uplo')]
        if not up: continue
        if name not in ucls: ucls.append(name)
        src = open(hp).read()
        def visit(n, stack):
            k = n.get('kind')
            if k == 'FieldDecl':
                qt = n.get('type', {}).get('qualType', '')
                m = re.match(r'(?:const\s+)?(?:Eigen::)?(\w+)<(.*)>$', qt)
                if m and m.group(1) in TRI_TYPES:
                    args = [a.strip() for a in m.group(2).split(',')]
                    tri = [a for a in args[1:] if a in up]
                    uses.append((name, 'field:' + m.group(1), ','.join(args[1:]), bool(tri)))
            elif k == 'TypeAliasDecl' and 'SymShiftInvertHelper<' in n.get('type', {}).get('qualType', ''):
                args = [a.strip() for a in n['type']['qualType'].split('<', 1)[1].rsplit('>', 1)[0].split(',')]
                uses.append((name, 'alias:SymShiftInvertHelper', ','.join(args[-2:]), args[-2:] == ['UploA', 'UploB']))
            elif k == 'CXXDependentScopeMemberExpr' and n.get('member') in VIEWS:
                ta = n.get('explicitTemplateArgs') or []
                if len(ta) != 1: raise XlateError(f'{name}: {n.get("member")} without exactly one explicit template argument')
                arg = _text(src, ta[0])
                base = _text(src, n['inner'][0]) if n.get('inner') else '?'
                uses.append((name, 'view:' + n['member'], arg, arg in up))
                if name == 'SymShiftInvertHelper':
                    guarded = ''
                    for anc in reversed(stack):
                        if anc.get('kind') == 'IfStmt':
                            cond = _text(src, anc['inner'][0]); branch = 'then' if _contains(anc['inner'][1], n) else 'else'
                            guarded = f'{branch}({cond})'; break
                    tr = len(stack) >= 2 and stack[-1].get('kind') == 'CallExpr' and stack[-2].get('kind') == 'CXXDependentScopeMemberExpr' and stack[-2].get('member') == 'transpose'
                    helper.append((base, n['member'] + ('.transpose' if tr else ''), arg, guarded))
            elif k == 'CallExpr' and n.get('inner') and n['inner'][0].get('kind') in ('CXXDependentScopeMemberExpr', 'MemberExpr') and n['inner'][0].get('member', n['inner'][0].get('name')) == 'compute':
                args = n['inner'][1:]
                if len(args) >= 2:
                    arg = _text(src, args[1])
                    uses.append((name, 'call:compute', arg, arg in up))
                    if name == 'SymShiftInvertHelper': helper.append((_text(src, n['inner'][0]['inner'][0]), 'compute', arg, ''))
        _walk(rec, visit)
    if not uses: raise XlateError('no triangle-sensitive uses found in MatOp/')
    s = '-- (wrapper class, use, triangle argument as written, argument is a triangle template parameter of the class)\n'
    s += 'def uploUses : List (String × String × String × Bool) := [\n' + ',\n'.join(
        f'  ({_lean_str(a)}, {_lean_str(b)}, {_lean_str(c)}, {"true" if d else "false"})' for a, b, c, d in uses) + ']\n\n'
    s += '-- wrapper classes of MatOp/ that have a triangle template parameter\n'
    s += 'def uploClasses : List String := [' + ', '.join(_lean_str(c) for c in ucls) + ']\n\n'
    s += '-- SymShiftInvertHelper, in source order over its three definitions: (expression the view/call is applied to, member, triangle argument, enclosing if-branch)\n'
    s += 'def helperUses : List (String × String × String × String) := [\n' + ',\n'.join(
        f'  ({_lean_str(a)}, {_lean_str(b)}, {_lean_str(c)}, {_lean_str(d)})' for a, b, c, d in helper) + ']\n'
    s += '\n-- every Eigen::SparseLU instantiated by a MatOp wrapper: (class, matrix type argument with aliases expanded, argument is explicitly column-major,\n'
    s += '-- the class (or its helper in the same header) declares the factorized matrix symmetric via isSymmetric(true))\n'
    s += 'def sparseLUUses : List (String × String × Bool × Bool) := [\n' + ',\n'.join(
        f'  ({_lean_str(a)}, {_lean_str(b)}, {"true" if c else "false"}, {"true" if d else "false"})' for a, b, c, d in lu) + ']\n\n'
    s += '-- every method that factorizes with a shift: (class, method, solver kind, the factorization status is tested (info()) and failure is thrown / returned to a caller that throws)\n'
    s += 'def shiftChecks : List (String × String × String × Bool) := [\n' + ',\n'.join(
        f'  ({_lean_str(a)}, {_lean_str(b)}, {_lean_str(c)}, {"true" if d else "false"})' for a, b, c, d in shifts) + ']\n'
    return s

def _solver_footprint(classes):
    """SparseLU instantiations (F19) and info()-checks of every factorizing set_shift / factorize (F20)"""
    lu = []; shifts = []
    symhdr = {}       # header -> some class in it calls isSymmetric(true)
    per = []
    for name, rec, params in classes:
        hp = _header_of(name)
        if hp is None: continue
        src = open(hp).read()
        aliases = {}; fields = {}; methods = []
        def visit(n, stack):
            k = n.get('kind')
            if k == 'TypeAliasDecl': aliases[n.get('name')] = n.get('type', {}).get('qualType', '')
            elif k == 'FieldDecl': fields[n.get('name')] = n.get('type', {}).get('qualType', '')
            elif k in ('CXXMethodDecl',) and n.get('name') in ('set_shift', 'factorize') and any(c.get('kind') == 'CompoundStmt' for c in n.get('inner', [])):
                methods.append(n)
            elif k == 'CXXDependentScopeMemberExpr' and n.get('member') == 'isSymmetric':
                call = stack[-1] if stack else {}
                if call.get('kind') == 'CallExpr' and any(a.get('kind') == 'CXXBoolLiteralExpr' and a.get('value') is True for a in call.get('inner', [])[1:]):
                    symhdr[hp] = True
        _walk(rec, visit)
        per.append((name, hp, src, aliases, fields, methods))
    def expand(t, aliases, depth=0):
        if depth > 6: return t
        def rep(m):
            w = m.group(0)
            return expand(aliases[w], aliases, depth + 1) if w in aliases and aliases[w] != w else w
        return re.sub(r'(?<![:\w])[A-Za-z_]\w*\b', rep, re.sub(r'Spectra::\w+::', '', t))
    for name, hp, src, aliases, fields, methods in per:
        seen = set()
        for t in list(aliases.values()) + list(fields.values()):
            for m in re.finditer(r'SparseLU<', t):
                # balanced argument
                i = m.end(); d = 1; j = i
                while j < len(t) and d: d += (t[j] == '<') - (t[j] == '>'); j += 1
                arg = expand(t[i:j - 1], aliases)
                if arg in seen: continue
                seen.add(arg)
                first = arg.strip()
                colmajor = bool(re.match(r'(Eigen::)?SparseMatrix<[^,]+,\s*(Eigen::)?ColMajor\b', first))
                lu.append((name, re.sub(r'\s+', ' ', arg), colmajor, bool(symhdr.get(hp))))
        for mth in methods:
            body = [c for c in mth['inner'] if c.get('kind') == 'CompoundStmt'][0]
            txt = _text(src, body)
            if 'compute(' not in txt and 'factorize(' not in txt: continue
            solver = fields.get('m_solver', 'Fac' if mth.get('name') == 'factorize' else '?')
            kind = next((k for k in ('PartialPivLU', 'SparseLU', 'BKLDLT', 'FacType', 'ComplexSolver', 'Fac') if k in solver), solver)
            if kind == 'ComplexSolver': kind = 'PartialPivLU' if 'PartialPivLU' in aliases.get('ComplexSolver', '') else ('SparseLU' if 'SparseLU' in aliases.get('ComplexSolver', '') else kind)
            checked = False
            for st in body.get('inner', []):
                if st.get('kind') == 'IfStmt':
                    cond = _text(src, st['inner'][0]); then = st['inner'][1]
                    if _has_kind(then, 'CXXThrowExpr') and ('info()' in cond or ('success' in cond and 'factorize(' in txt)): checked = True
                if st.get('kind') == 'ReturnStmt' and mth.get('name') == 'factorize' and re.search(r'\.info\(\)\s*==', _text(src, st)): checked = True
            shifts.append((name, mth.get('name'), kind, checked))
    if not lu: raise XlateError('no SparseLU instantiation found in MatOp/')
    if not shifts: raise XlateError('no factorizing set_shift found in MatOp/')
    return lu, shifts

def _has_kind(n, kind):
    if n.get('kind') == kind: return True
    return any(isinstance(c, dict) and _has_kind(c, kind) for c in n.get('inner', []))

def _contains(root, node):
    if root is node: return True
    return any(isinstance(c, dict) and _contains(c, node) for c in root.get('inner', []))

MODULES = [('OpsFootprint', [dict(lean='uploUses', header='MatOp/SymShiftInvert.h', custom=footprint, path='MatOp/*')], '')]
