"""C11: structural footprint of the MatOp wrappers, regenerated from the clang AST on every run.
For every wrapper class with a triangle template parameter (Uplo / UploA / UploB): which triangle argument is handed to which
triangle-sensitive Eigen member type (LLT, SimplicialLLT, ConjugateGradient, ...), view (`selfadjointView<>`, `triangularView<>`)
and factorization call (`compute(mat, uplo, ...)`).  A dropped or swapped `Uplo` changes the generated table and breaks
`c11_uplo_passthrough_partial` / `c11_helper_footprint`.
Third table family (`solverFields`, `solverCalls`, `configCallsElsewhere`): EVERY call a wrapper method makes on one of its
third-party solver objects (Eigen::SparseLU / PartialPivLU / LLT / SimplicialLLT / ConjugateGradient / Spectra::BKLDLT members, the
`Fac&` parameter of SymShiftInvertHelper, local references to them), in source order with the argument text, plus every other use
of such an object (passed on to a function, ...).  A new configuration call - `setPivotThreshold`, `setTolerance`, `setMaxIterations`,
a changed `isSymmetric` argument, a second solver member - changes the table and breaks `c11_solver_calls_documented` /
`c11_no_pivot_threshold_change`."""
import os, re
from xlate import XlateError
import astdump

TRI_TYPES = ('LLT', 'LDLT', 'SimplicialLLT', 'SimplicialLDLT', 'SimplicialCholesky', 'ConjugateGradient',
             'LeastSquaresConjugateGradient', 'BiCGSTAB', 'SelfAdjointEigenSolver')
VIEWS = ('selfadjointView', 'triangularView')

def _walk(n, f, stack=()):
    f(n, stack)
    for c in n.get('inner', []):
        if isinstance(c, dict): _walk(c, f, stack + (n,))

def _header_of(name):
    p = os.path.join(astdump.INC, 'Spectra', 'MatOp', name + '.h')
    if os.path.exists(p): return p
    if name == 'SymShiftInvertHelper': return os.path.join(astdump.INC, 'Spectra', 'MatOp', 'SymShiftInvert.h')
    return None

def _text(src, node):
    r = node.get('range', {}); b = r.get('begin', {}); e = r.get('end', {})
    b = b.get('expansionLoc', b); e = e.get('expansionLoc', e)
    if 'offset' not in b or 'offset' not in e: raise XlateError('no source range for a ' + str(node.get('kind')))
    return re.sub(r'\s+', ' ', src[b['offset']: e['offset'] + e.get('tokLen', 0)]).strip()

def _lean_str(s): return '"' + s.replace('\\', '\\\\').replace('"', '\\"') + '"'

def footprint(tu, t):
    classes = []      # (name, record node, uplo parameter names)
    for o in tu.objs:
        if o.get('kind') == 'ClassTemplateDecl':
            rec = [c for c in o.get('inner', []) if c.get('kind') == 'CXXRecordDecl']
            params = [c.get('name', '') for c in o.get('inner', []) if c.get('kind') == 'NonTypeTemplateParmDecl']
            if rec: classes.append((o.get('name'), rec[0], params))
        elif o.get('kind') == 'ClassTemplatePartialSpecializationDecl':
            params = [c.get('name', '') for c in o.get('inner', []) if c.get('kind') == 'NonTypeTemplateParmDecl']
            classes.append((o.get('name'), o, params))
    uses = []; ucls = []; helper = []
    lu, shifts = _solver_footprint(classes)
    sfields, scalls, selse = _solver_calls(classes)
    for name, rec, params in classes:
        hp = _header_of(name)
        if hp is None: continue
        up = [p for p in params if p.lower().startswith('uplo')]
        if not up: continue
        if name not in ucls: ucls.append(name)
        src = open(hp).read()
        def visit(n, stack):
            k = n.get('kind')
            if k == 'FieldDecl':
                qt = n.get('type', {}).get('qualType', '')
                m = re.match(r'(?:const\s+)?(?:Eigen::)?(\w+)<(.*)>$', qt)
                if m and m.group(1) in TRI_TYPES:
                    args = [a.strip() for a in m.group(2).split(',')]
                    tri = [a for a in args[1:] if a in up]
                    uses.append((name, 'field:' + m.group(1), ','.join(args[1:]), bool(tri)))
            elif k == 'TypeAliasDecl' and 'SymShiftInvertHelper<' in n.get('type', {}).get('qualType', ''):
                args = [a.strip() for a in n['type']['qualType'].split('<', 1)[1].rsplit('>', 1)[0].split(',')]
                uses.append((name, 'alias:SymShiftInvertHelper', ','.join(args[-2:]), args[-2:] == ['UploA', 'UploB']))
            elif k == 'CXXDependentScopeMemberExpr' and n.get('member') in VIEWS:
                ta = n.get('explicitTemplateArgs') or []
                if len(ta) != 1: raise XlateError(f'{name}: {n.get("member")} without exactly one explicit template argument')
                arg = _text(src, ta[0])
                base = _text(src, n['inner'][0]) if n.get('inner') else '?'
                uses.append((name, 'view:' + n['member'], arg, arg in up))
                if name == 'SymShiftInvertHelper':
                    guarded = ''
                    for anc in reversed(stack):
                        if anc.get('kind') == 'IfStmt':
                            cond = _text(src, anc['inner'][0]); branch = 'then' if _contains(anc['inner'][1], n) else 'else'
                            guarded = f'{branch}({cond})'; break
                    tr = len(stack) >= 2 and stack[-1].get('kind') == 'CallExpr' and stack[-2].get('kind') == 'CXXDependentScopeMemberExpr' and stack[-2].get('member') == 'transpose'
                    helper.append((base, n['member'] + ('.transpose' if tr else ''), arg, guarded))
            elif k == 'CallExpr' and n.get('inner') and n['inner'][0].get('kind') in ('CXXDependentScopeMemberExpr', 'MemberExpr') and n['inner'][0].get('member', n['inner'][0].get('name')) == 'compute':
                args = n['inner'][1:]
                if len(args) >= 2:
                    arg = _text(src, args[1])
                    uses.append((name, 'call:compute', arg, arg in up))
                    if name == 'SymShiftInvertHelper': helper.append((_text(src, n['inner'][0]['inner'][0]), 'compute', arg, ''))
        _walk(rec, visit)
    if not uses: raise XlateError('no triangle-sensitive uses found in MatOp/')
    s = '-- (wrapper class, use, triangle argument as written, argument is a triangle template parameter of the class)\n'
    s += 'def uploUses : List (String × String × String × Bool) := [\n' + ',\n'.join(
        f'  ({_lean_str(a)}, {_lean_str(b)}, {_lean_str(c)}, {"true" if d else "false"})' for a, b, c, d in uses) + ']\n\n'
    s += '-- wrapper classes of MatOp/ that have a triangle template parameter\n'
    s += 'def uploClasses : List String := [' + ', '.join(_lean_str(c) for c in ucls) + ']\n\n'
    s += '-- SymShiftInvertHelper, in source order over its three definitions: (expression the view/call is applied to, member, triangle argument, enclosing if-branch)\n'
    s += 'def helperUses : List (String × String × String × String) := [\n' + ',\n'.join(
        f'  ({_lean_str(a)}, {_lean_str(b)}, {_lean_str(c)}, {_lean_str(d)})' for a, b, c, d in helper) + ']\n'
    s += '\n-- every Eigen::SparseLU instantiated by a MatOp wrapper: (class, matrix type argument with aliases expanded, argument is explicitly column-major,\n'
    s += '-- the class (or its helper in the same header) declares the factorized matrix symmetric via isSymmetric(true))\n'
    s += 'def sparseLUUses : List (String × String × Bool × Bool) := [\n' + ',\n'.join(
        f'  ({_lean_str(a)}, {_lean_str(b)}, {"true" if c else "false"}, {"true" if d else "false"})' for a, b, c, d in lu) + ']\n\n'
    s += '-- every method that factorizes with a shift: (class, method, solver kind, the factorization status is tested (info()) and failure is thrown / returned to a caller that throws)\n'
    s += 'def shiftChecks : List (String × String × String × Bool) := [\n' + ',\n'.join(
        f'  ({_lean_str(a)}, {_lean_str(b)}, {_lean_str(c)}, {"true" if d else "false"})' for a, b, c, d in shifts) + ']\n'
    s += '\n-- every data member of a MatOp wrapper whose type is a third-party solver: (class, member, solver classes named by its type with aliases expanded)\n'
    s += 'def solverFields : List (String × String × String) := [\n' + ',\n'.join(
        f'  ({_lean_str(a)}, {_lean_str(b)}, {_lean_str(c)})' for a, b, c in sfields) + ']\n\n'
    s += '-- every use of a solver object inside a wrapper method, in source order: (class, method, solver object, solver classes, member function called\n'
    s += '-- ("(use)" when the object is not the receiver of a member call: passed to a function, copied, ...), arguments as written)\n'
    s += 'def solverCalls : List (String × String × String × String × String × String) := [\n' + ',\n'.join(
        '  (' + ', '.join(_lean_str(x) for x in e) + ')' for e in scalls) + ']\n\n'
    s += '-- member calls with the NAME of a solver configuration / factorization function whose receiver is NOT one of the solver objects above: (class, method, receiver, call)\n'
    s += 'def configCallsElsewhere : List (String × String × String × String) := [' + ', '.join(
        '(' + ', '.join(_lean_str(x) for x in e) + ')' for e in selse) + ']\n'
    return s

SOLVER_TYPES = ('SparseLU', 'SparseQR', 'PartialPivLU', 'FullPivLU', 'LLT', 'LDLT', 'SimplicialLLT', 'SimplicialLDLT', 'SimplicialCholesky',
                'ConjugateGradient', 'LeastSquaresConjugateGradient', 'BiCGSTAB', 'HouseholderQR', 'ColPivHouseholderQR', 'FullPivHouseholderQR',
                'CompleteOrthogonalDecomposition', 'BKLDLT', 'SelfAdjointEigenSolver', 'EigenSolver', 'PardisoLU', 'PardisoLDLT', 'PardisoLLT',
                'UmfPackLU', 'SuperLU', 'CholmodSupernodalLLT', 'CholmodDecomposition', 'KLU', 'JacobiSVD', 'BDCSVD', 'IncompleteLUT', 'IncompleteCholesky')
# names of configuration / analysis / factorization member functions of those classes (checked on ANY receiver, see configCallsElsewhere)
CONFIG_NAMES = ('isSymmetric', 'setPivotThreshold', 'setTolerance', 'setMaxIterations', 'setShift', 'setMode', 'setThreshold', 'setDroptol',
                'setFillfactor', 'setInitialShift', 'analyzePattern', 'factorize', 'compute', 'preconditioner', 'setSplineParameters', 'iparm',
                'pardisoParameterArray', 'umfpackControl', 'options', 'cholmod', 'setDefaultThreshold')

def _kinds_of(typ):
    found = [k for k in SOLVER_TYPES if re.search(r'(?<![A-Za-z_0-9])' + k + r'\s*<', typ)]
    return '|'.join(sorted(set(found)))

def _class_label(name, rec, src, counter):
    """SymShiftInvertHelper has three definitions: label them by their specialization arguments as written"""
    if name != 'SymShiftInvertHelper': return name
    ms = list(re.finditer(r'class\s+SymShiftInvertHelper\s*(<[^>{;]*>)?\s*\{', src))
    k = counter.get(name, 0); counter[name] = k + 1
    if k < len(ms) and ms[k].group(1): return name + re.sub(r'\s+', '', ms[k].group(1))
    return name

def _solver_calls(classes):
    fields_out = []; calls = []; elsewhere = []; counter = {}
    for name, rec, params in classes:
        hp = _header_of(name)
        if hp is None: continue
        src = open(hp).read()
        label = _class_label(name, rec, src, counter)
        aliases = {}; fields = {}
        def collect(n, stack):
            k = n.get('kind')
            if k == 'TypeAliasDecl' and not any(a.get('kind') in ('CXXMethodDecl', 'CXXConstructorDecl') for a in stack): aliases[n.get('name')] = n.get('type', {}).get('qualType', '')
            elif k == 'FieldDecl': fields[n.get('name')] = n.get('type', {}).get('qualType', '')
        _walk(rec, collect)
        def expand(t, depth=0):
            if depth > 6: return t
            def rep(m):
                w = m.group(0)
                return expand(aliases[w], depth + 1) if w in aliases and aliases[w] != w else w
            return re.sub(r'(?<![:\w])[A-Za-z_]\w*\b', rep, re.sub(r'Spectra::\w+::', '', t))
        solver_fields = {}
        for f, t in fields.items():
            kd = _kinds_of(expand(t))
            if kd: solver_fields[f] = kd; fields_out.append((label, f, kd))
        # function bodies (methods, constructors, also inside member function templates)
        fns = []
        def find_fns(n, stack):
            if n.get('kind') in ('CXXMethodDecl', 'CXXConstructorDecl', 'CXXDestructorDecl') and any(c.get('kind') == 'CompoundStmt' for c in n.get('inner', [])):
                tparams = [c.get('name') for a in stack[-1:] if a.get('kind') == 'FunctionTemplateDecl' for c in a.get('inner', []) if c.get('kind') == 'TemplateTypeParmDecl']
                fns.append((n, tparams))
        _walk(rec, find_fns)
        for fn, tparams in fns:
            mname = '(constructor)' if fn.get('kind') == 'CXXConstructorDecl' else fn.get('name')
            recv = dict(solver_fields)          # name -> solver kinds
            for prm in fn.get('inner', []):
                if prm.get('kind') != 'ParmVarDecl': continue
                qt = prm.get('type', {}).get('qualType', '')
                m = re.match(r'^(\w+) &&?$', qt)
                if m and m.group(1) in tparams: recv[prm.get('name')] = 'template parameter ' + m.group(1)     # `Fac& fac`
                elif _kinds_of(expand(qt)): recv[prm.get('name')] = _kinds_of(expand(qt))
            def root_name(e):
                """name of the solver object an expression denotes directly (through parentheses / casts / this->), else None"""
                while e.get('kind') in ('ParenExpr', 'ImplicitCastExpr', 'CXXStaticCastExpr', 'CXXConstCastExpr', 'CStyleCastExpr', 'UnaryOperator') and e.get('inner'): e = e['inner'][-1]
                if e.get('kind') == 'MemberExpr' and e.get('inner') and e['inner'][0].get('kind') == 'CXXThisExpr': nm = e.get('name')
                elif e.get('kind') == 'DeclRefExpr': nm = e.get('referencedDecl', {}).get('name')
                elif e.get('kind') == 'CXXDependentScopeMemberExpr' and e.get('inner') and e['inner'][0].get('kind') == 'CXXThisExpr': nm = e.get('member')
                else: return None
                return nm if nm in recv else None
            handled = set()
            def visit(n, stack):
                k = n.get('kind')
                if k == 'CXXCtorInitializer':
                    nm = n.get('anyInit', {}).get('name')
                    if nm in recv:
                        args = ', '.join(_text(src, a) for a in n.get('inner', []) if 'range' in a)
                        calls.append((label, mname, nm, recv[nm], '(member initializer)', args))
                elif k == 'VarDecl':
                    qt = n.get('type', {}).get('qualType', '')
                    init = [c for c in n.get('inner', []) if 'kind' in c and c.get('kind') != 'FullComment']
                    r0 = root_name(init[-1]) if init else None
                    if _kinds_of(expand(qt)): recv[n.get('name')] = _kinds_of(expand(qt))
                    elif r0 and ('&' in qt or '*' in qt or 'auto' in qt): recv[n.get('name')] = recv[r0]
                elif k == 'CallExpr' and n.get('inner') and n['inner'][0].get('kind') in ('CXXDependentScopeMemberExpr', 'MemberExpr'):
                    cal = n['inner'][0]; member = cal.get('member', cal.get('name'))
                    base = cal['inner'][0] if cal.get('inner') else None
                    r0 = root_name(base) if base is not None else None
                    args = ', '.join(_text(src, a) for a in n['inner'][1:])
                    if r0:
                        handled.add(id(base)); h = base
                        while h.get('inner') and h.get('kind') not in ('MemberExpr', 'DeclRefExpr', 'CXXDependentScopeMemberExpr'): h = h['inner'][-1]; handled.add(id(h))
                        calls.append((label, mname, r0, recv[r0], member, args))
                    elif member in CONFIG_NAMES and base is not None:
                        elsewhere.append((label, mname, _text(src, base), member))
                if k in ('MemberExpr', 'DeclRefExpr', 'CXXDependentScopeMemberExpr') and id(n) not in handled and root_name(n):
                    par = next((a for a in reversed(stack) if a.get('kind') not in ('ImplicitCastExpr', 'ParenExpr')), None)
                    # the receiver of a recorded member call was marked `handled` when its CallExpr was visited (parents come first)
                    if par is not None and par.get('kind') in ('CXXDependentScopeMemberExpr', 'MemberExpr') and len(stack) >= 2 and stack[-2].get('kind') == 'CallExpr': return
                    ctx = _text(src, par)[:120] if par is not None and 'range' in par else '?'
                    calls.append((label, mname, root_name(n), recv[root_name(n)], '(use)', ctx))
            for c in fn.get('inner', []):
                if c.get('kind') in ('CompoundStmt', 'CXXCtorInitializer'): _walk(c, visit, (fn,))
    if not fields_out: raise XlateError('no solver member found in MatOp/')
    if not calls: raise XlateError('no call on a solver member found in MatOp/')
    return fields_out, calls, elsewhere

def _solver_footprint(classes):
    """SparseLU instantiations (F19) and info()-checks of every factorizing set_shift / factorize (F20)"""
    lu = []; shifts = []
    symhdr = {}       # header -> some class in it calls isSymmetric(true)
    per = []
    for name, rec, params in classes:
        hp = _header_of(name)
        if hp is None: continue
        src = open(hp).read()
        aliases = {}; fields = {}; methods = []
        def visit(n, stack):
            k = n.get('kind')
            if k == 'TypeAliasDecl': aliases[n.get('name')] = n.get('type', {}).get('qualType', '')
            elif k == 'FieldDecl': fields[n.get('name')] = n.get('type', {}).get('qualType', '')
            elif k in ('CXXMethodDecl',) and n.get('name') in ('set_shift', 'factorize') and any(c.get('kind') == 'CompoundStmt' for c in n.get('inner', [])):
                methods.append(n)
            elif k == 'CXXDependentScopeMemberExpr' and n.get('member') == 'isSymmetric':
                call = stack[-1] if stack else {}
                if call.get('kind') == 'CallExpr' and any(a.get('kind') == 'CXXBoolLiteralExpr' and a.get('value') is True for a in call.get('inner', [])[1:]):
                    symhdr[hp] = True
        _walk(rec, visit)
        per.append((name, hp, src, aliases, fields, methods))
    def expand(t, aliases, depth=0):
        if depth > 6: return t
        def rep(m):
            w = m.group(0)
            return expand(aliases[w], aliases, depth + 1) if w in aliases and aliases[w] != w else w
        return re.sub(r'(?<![:\w])[A-Za-z_]\w*\b', rep, re.sub(r'Spectra::\w+::', '', t))
    for name, hp, src, aliases, fields, methods in per:
        seen = set()
        for t in list(aliases.values()) + list(fields.values()):
            for m in re.finditer(r'SparseLU<', t):
                # balanced argument
                i = m.end(); d = 1; j = i
                while j < len(t) and d: d += (t[j] == '<') - (t[j] == '>'); j += 1
                arg = expand(t[i:j - 1], aliases)
                if arg in seen: continue
                seen.add(arg)
                first = arg.strip()
                colmajor = bool(re.match(r'(Eigen::)?SparseMatrix<[^,]+,\s*(Eigen::)?ColMajor\b', first))
                lu.append((name, re.sub(r'\s+', ' ', arg), colmajor, bool(symhdr.get(hp))))
        for mth in methods:
            body = [c for c in mth['inner'] if c.get('kind') == 'CompoundStmt'][0]
            txt = _text(src, body)
            if 'compute(' not in txt and 'factorize(' not in txt: continue
            solver = fields.get('m_solver', 'Fac' if mth.get('name') == 'factorize' else '?')
            kind = next((k for k in ('PartialPivLU', 'SparseLU', 'BKLDLT', 'FacType', 'ComplexSolver', 'Fac') if k in solver), solver)
            if kind == 'ComplexSolver': kind = 'PartialPivLU' if 'PartialPivLU' in aliases.get('ComplexSolver', '') else ('SparseLU' if 'SparseLU' in aliases.get('ComplexSolver', '') else kind)
            checked = False
            for st in body.get('inner', []):
                if st.get('kind') == 'IfStmt':
                    cond = _text(src, st['inner'][0]); then = st['inner'][1]
                    if _has_kind(then, 'CXXThrowExpr') and ('info()' in cond or ('success' in cond and 'factorize(' in txt)): checked = True
                if st.get('kind') == 'ReturnStmt' and mth.get('name') == 'factorize' and re.search(r'\.info\(\)\s*==', _text(src, st)): checked = True
            shifts.append((name, mth.get('name'), kind, checked))
    if not lu: raise XlateError('no SparseLU instantiation found in MatOp/')
    if not shifts: raise XlateError('no factorizing set_shift found in MatOp/')
    return lu, shifts

def _has_kind(n, kind):
    if n.get('kind') == kind: return True
    return any(isinstance(c, dict) and _has_kind(c, kind) for c in n.get('inner', []))

def _contains(root, node):
    if root is node: return True
    return any(isinstance(c, dict) and _contains(c, node) for c in root.get('inner', []))

MODULES = [('OpsFootprint', [dict(lean='uploUses', header='MatOp/SymShiftInvert.h', custom=footprint, path='MatOp/*')], '')]
