"""C08: scalar kernels of the shifted-QR helper classes, translated from the headers on every run.

  Gen.Givens.stable_scaling / compute_rotation   <- UpperHessenbergQR<Scalar>::stable_scaling / compute_rotation
  Gen.Refl.stable_norm3 / stable_scaling         <- DoubleShiftQR<Scalar>::stable_norm3 / stable_scaling

`DoubleShiftQR::compute_reflector` writes through raw pointers into member arrays (`u = &m_ref_u.coeffRef(0, ind)`), which is outside
the translator subset: it is hand-modelled in Model/DoubleShiftQR.lean on top of the two translated Gen.Refl kernels.
"""
from targets import T
from xlate import XlateError

HQR = 'LinAlg/UpperHessenbergQR.h'
DSQR = 'LinAlg/DoubleShiftQR.h'

def rotation(tu, t):
    """compute_rotation calls `stable_scaling(a, b, r, c, s)` (three reference out-parameters) as a statement: registered as an
    out-parameter call FOR THIS TARGET ONLY (removed afterwards, so that no other module's target sees it)."""
    from xlate import Fn
    tu.outparam_fns['stable_scaling'] = {'lean': 'stable_scaling', 'in': [0, 1], 'out': [2, 3, 4], 'sc': True}
    try:
        node = tu.find(t['path'], 0)
        txt, _ = Fn(tu, node, dict(mode='outparams', out=['r', 'c', 's'], ret_type='α × α × α')).translate(t['lean'])
    finally:
        del tu.outparam_fns['stable_scaling']
    if txt.count('stable_scaling ') != 2: raise XlateError('expected exactly two calls of stable_scaling in compute_rotation')
    return txt

GIVENS = [
    T('stable_scaling', 'UpperHessenbergQR::stable_scaling', HQR, mode='outparams', out=['r', 'c', 's'], ret_type='α × α × α'),
    dict(lean='compute_rotation', header=HQR, custom=rotation, path='UpperHessenbergQR::compute_rotation'),
]

def norm3(tu, t):
    """stable_norm3 uses `std::swap(x1, x2)` on scalars: registered (for this target only) as a two-out-parameter call, so that
    both the assignment analysis and the statement translation of xlate see it."""
    from xlate import Fn
    tu.outparam_fns['swap'] = {'lean': '(fun u v => (v, u))', 'in': [0, 1], 'out': [0, 1], 'sc': True}
    try:
        node = tu.find(t['path'], 0)
        txt, _ = Fn(tu, node, dict(mode='value', ret_kind='sc', ret_type='α')).translate(t['lean'])
    finally:
        del tu.outparam_fns['swap']
    if txt.count('(fun u v => (v, u))') != 2: raise XlateError('expected exactly two swaps in stable_norm3')
    return txt

REFL = [
    dict(lean='stable_norm3', header=DSQR, custom=norm3, path='DoubleShiftQR::stable_norm3'),
    T('stable_scaling', 'DoubleShiftQR::stable_scaling', DSQR, mode='outparams', out=['x1', 'x2', 'x3'], out_is_inout=True,
      ret_type='α × α × α'),
]

MODULES = [('Givens', GIVENS, ''), ('Refl', REFL, '')]
