"""C08: scalar kernels of the shifted-QR helper classes, translated from the headers on every run.

  Gen.Givens.stable_scaling / compute_rotation   <- UpperHessenbergQR<Scalar>::stable_scaling / compute_rotation
  Gen.Refl.stable_norm3 / stable_scaling         <- DoubleShiftQR<Scalar>::stable_norm3 / stable_scaling

`DoubleShiftQR::compute_reflector` writes through raw pointers into member arrays (`u = &m_ref_u.coeffRef(0, ind)`), which is outside
the translator subset: it is hand-modelled in Model/DoubleShiftQR.lean on top of the two translated Gen.Refl kernels.

  Gen.QRBuf   <- structural footprint of how the three classes ADDRESS their matrix/vector arguments (regenerated from the clang AST):
     paramUses    every use of every output parameter (non-const `Matrix&` / `Vector&` / `ComplexMatrix&`, by-value
                  `GenericMatrix` = Eigen::Ref<Matrix>) of every method, in source order: the member it is accessed through
                  (`resize`, `setZero`, `noalias=` for a whole-object assignment, `coeffRef`, `row`, `col`, `block`, `data`, `[]`, ...),
                  the argument text, the conditions of the enclosing `if`s and whether it sits in a loop;
     ptrAssigns   every value given to a local raw pointer in those methods (`Y_col_i = &Y.coeffRef(0, i)`, `X1 = X0 + stride`);
     strideCalls  every call of the private pointer-walking helpers `DoubleShiftQR::apply_PX/apply_XP(X, stride, ind)`: the matrix
                  the block `X` is taken from and the stride argument (a local variable is replaced by its initializer);
     computeResets every resize / whole-object initialisation of a data member in the three compute() methods, with the conditions of
                  the enclosing ifs (an `if (size changed)` around one of them changes the table: c08_compute_resets);
     qrMethods    the methods each class declares (TridiagQR must inherit, not re-declare, the apply_* family).
  A size-dependent guard around `dest.resize/setZero`, a `Y.data()` walk, a pointer advanced by `rows()` change the tables and break
  c08_dest_initialised / c08_apply_stride_aware / c08_dsqr_stride_calls.
"""
import os, re
from targets import T
from xlate import XlateError
import astdump

HQR = 'LinAlg/UpperHessenbergQR.h'
DSQR = 'LinAlg/DoubleShiftQR.h'

def rotation(tu, t):
    """compute_rotation calls `stable_scaling(a, b, r, c, s)` (three reference out-parameters) as a statement: registered as an
    out-parameter call FOR THIS TARGET ONLY (removed afterwards, so that no other module's target sees it)."""
    from xlate import Fn
    tu.outparam_fns['stable_scaling'] = {'lean': 'stable_scaling', 'in': [0, 1], 'out': [2, 3, 4], 'sc': True}
    try:
        node = tu.find(t['path'], 0)
        txt, _ = Fn(tu, node, dict(mode='outparams', out=['r', 'c', 's'], ret_type='α × α × α')).translate(t['lean'])
    finally:
        del tu.outparam_fns['stable_scaling']
    if txt.count('stable_scaling ') != 2: raise XlateError('expected exactly two calls of stable_scaling in compute_rotation')
    return txt

GIVENS = [
    T('stable_scaling', 'UpperHessenbergQR::stable_scaling', HQR, mode='outparams', out=['r', 'c', 's'], ret_type='α × α × α'),
    dict(lean='compute_rotation', header=HQR, custom=rotation, path='UpperHessenbergQR::compute_rotation'),
]

def norm3(tu, t):
    """stable_norm3 uses `std::swap(x1, x2)` on scalars: registered (for this target only) as a two-out-parameter call, so that
    both the assignment analysis and the statement translation of xlate see it."""
    from xlate import Fn
    tu.outparam_fns['swap'] = {'lean': '(fun u v => (v, u))', 'in': [0, 1], 'out': [0, 1], 'sc': True}
    try:
        node = tu.find(t['path'], 0)
        txt, _ = Fn(tu, node, dict(mode='value', ret_kind='sc', ret_type='α')).translate(t['lean'])
    finally:
        del tu.outparam_fns['swap']
    if txt.count('(fun u v => (v, u))') != 2: raise XlateError('expected exactly two swaps in stable_norm3')
    return txt

REFL = [
    dict(lean='stable_norm3', header=DSQR, custom=norm3, path='DoubleShiftQR::stable_norm3'),
    T('stable_scaling', 'DoubleShiftQR::stable_scaling', DSQR, mode='outparams', out=['x1', 'x2', 'x3'], out_is_inout=True,
      ret_type='α × α × α'),
]


# ---------------------------------------------------------------- Gen.QRBuf: how the arguments are addressed
QR_CLASSES = [('UpperHessenbergQR', HQR), ('TridiagQR', HQR), ('DoubleShiftQR', DSQR)]
LOOPS = ('ForStmt', 'WhileStmt', 'DoStmt', 'CXXForRangeStmt')
RESETS = ('resize', 'conservativeResize', 'resizeLike', 'setZero', 'setOnes', 'setConstant', 'fill', 'noalias', 'swap')

def _lean_str(s): return '"' + s.replace('\\', '\\\\').replace('"', '\\"') + '"'

def _src(header): return open(os.path.join(astdump.INC, 'Spectra', header)).read()

def _text(src, node):
    r = node.get('range', {}); b = r.get('begin', {}); e = r.get('end', {})
    b = b.get('expansionLoc', b); e = e.get('expansionLoc', e)
    if 'offset' not in b or 'offset' not in e: raise XlateError('no source range for a ' + str(node.get('kind')))
    return re.sub(r'\s+', ' ', src[b['offset']: e['offset'] + e.get('tokLen', 0)]).strip()

def _record(tu, cls):
    for o in tu.objs:
        if o.get('kind') == 'ClassTemplateDecl' and o.get('name') == cls:
            rec = [c for c in o.get('inner', []) if c.get('kind') == 'CXXRecordDecl' and c.get('name') == cls]
            if rec: return rec[0]
    raise XlateError('class ' + cls + ' not found')

def _methods(rec):
    """(method node, is it a member function template) for every method with a body, in source order"""
    out = []
    for c in rec.get('inner', []):
        if c.get('kind') == 'CXXMethodDecl' and any(x.get('kind') == 'CompoundStmt' for x in c.get('inner', [])): out.append(c)
        elif c.get('kind') == 'FunctionTemplateDecl':
            out += [x for x in c.get('inner', []) if x.get('kind') == 'CXXMethodDecl' and any(y.get('kind') == 'CompoundStmt' for y in x.get('inner', []))]
    return out

def _is_out_param(qt):
    q = qt.replace('Spectra::', '')
    q = re.sub(r'^\w+::', '', q)
    if q.startswith('const '): return None
    if re.fullmatch(r'(Matrix|Vector|ComplexMatrix|RowVector|Matrix3X) &', q): return q
    if q == 'GenericMatrix' or re.fullmatch(r'Eigen::Ref<\s*Matrix\s*>', q): return 'GenericMatrix'
    return None

def _walk_ctx(n, f, guards=(), loop=False, parents=()):
    """pre-order walk that knows the conditions of the enclosing if-branches (NOT for the condition expression itself) and loops"""
    f(n, guards, loop, parents)
    kids = [c for c in n.get('inner', []) if isinstance(c, dict)]
    k = n.get('kind')
    if k == 'IfStmt' and not n.get('hasInit') and not n.get('hasVar') and len(kids) >= 2:
        _walk_ctx(kids[0], f, guards, loop, parents + (n,))
        _walk_ctx(kids[1], f, guards + (('then', kids[0]),), loop, parents + (n,))
        for e in kids[2:]: _walk_ctx(e, f, guards + (('else', kids[0]),), loop, parents + (n,))
        return
    if k in ('ConditionalOperator',) and len(kids) == 3:
        _walk_ctx(kids[0], f, guards, loop, parents + (n,))
        _walk_ctx(kids[1], f, guards + (('then', kids[0]),), loop, parents + (n,))
        _walk_ctx(kids[2], f, guards + (('else', kids[0]),), loop, parents + (n,))
        return
    if k in ('IfStmt', 'SwitchStmt'):     # an if with an init-statement / a switch: everything below counts as guarded
        for c in kids: _walk_ctx(c, f, guards + (('then', n),), loop, parents + (n,))
        return
    for c in kids: _walk_ctx(c, f, guards, loop or k in LOOPS, parents + (n,))

def _strip(e):
    while e.get('kind') in ('ParenExpr', 'ImplicitCastExpr') and e.get('inner'): e = e['inner'][0]
    return e

def _refers(e, name):
    e = _strip(e)
    return e.get('kind') == 'DeclRefExpr' and e.get('referencedDecl', {}).get('name') == name and e.get('referencedDecl', {}).get('kind') == 'ParmVarDecl'

def qrbuf(tu, t):
    uses = []; ptrs = []; strides = []; decls = []; resets = []
    for cls, header in QR_CLASSES:
        src = _src(header); rec = _record(tu, cls)
        for m in _methods(rec):
            mname = m.get('name')
            params = [c for c in m.get('inner', []) if c.get('kind') == 'ParmVarDecl']
            sig = mname + '(' + ', '.join(re.sub(r'^(Spectra::)?\w+::', '', re.sub(r'Spectra::\w+::', '', p_.get('type', {}).get('qualType', ''))) for p_ in params) + ')'
            decls.append((cls, sig))
            body = [c for c in m.get('inner', []) if c.get('kind') == 'CompoundStmt'][0]
            outs = {p_.get('name'): _is_out_param(p_.get('type', {}).get('qualType', '')) for p_ in params}
            outs = {k: v for k, v in outs.items() if v}
            # local variables with an initializer (to resolve a stride argument such as `nrow`)
            inits = {}
            def collect(n, guards, loop, parents):
                if n.get('kind') == 'VarDecl':
                    init = [c for c in n.get('inner', []) if isinstance(c, dict) and 'kind' in c and not c['kind'].endswith('Comment')]
                    if init: inits[n.get('name')] = init[-1]
            _walk_ctx(body, collect)
            def gtext(guards): return ' && '.join(('' if b == 'then' else 'not ') + '(' + _text(src, c) + ')' for b, c in guards)
            def visit(n, guards, loop, parents):
                k = n.get('kind')
                # ---- uses of an output parameter
                if k == 'DeclRefExpr' and n.get('referencedDecl', {}).get('kind') == 'ParmVarDecl' and n.get('referencedDecl', {}).get('name') in outs:
                    pname = n['referencedDecl']['name']
                    # climb through parentheses / implicit casts
                    i = len(parents) - 1
                    while i >= 0 and parents[i].get('kind') in ('ParenExpr', 'ImplicitCastExpr'): i -= 1
                    par = parents[i] if i >= 0 else {}
                    member = None; args = ''
                    if par.get('kind') in ('CXXDependentScopeMemberExpr', 'MemberExpr') and par.get('inner') and _refers(par['inner'][0], pname):
                        member = par.get('member', par.get('name'))
                        call = parents[i - 1] if i >= 1 else {}
                        if call.get('kind') in ('CallExpr', 'CXXMemberCallExpr') and call.get('inner') and call['inner'][0] is par:
                            args = ', '.join(_text(src, a) for a in call['inner'][1:])
                            # `P.noalias() = X` / `P.noalias() += X`: a whole-object assignment
                            up = parents[i - 2] if i >= 2 else {}
                            if member == 'noalias' and up.get('kind') in ('BinaryOperator', 'CompoundAssignOperator', 'CXXOperatorCallExpr') and up.get('inner') and up['inner'][0] is call:
                                member = 'noalias' + up.get('opcode', '='); args = _text(src, up['inner'][1])
                    elif par.get('kind') in ('ArraySubscriptExpr', 'CXXOperatorCallExpr') and par.get('inner'):
                        kids = par['inner']
                        if par['kind'] == 'ArraySubscriptExpr' and _refers(kids[0], pname): member = '[]'; args = _text(src, kids[1])
                        elif par['kind'] == 'CXXOperatorCallExpr' and len(kids) >= 2 and _refers(kids[1], pname): member = 'operator' ; args = ', '.join(_text(src, a) for a in kids[2:])
                    elif par.get('kind') in ('BinaryOperator', 'CompoundAssignOperator') and par.get('inner') and _refers(par['inner'][0], pname):
                        member = 'whole' + par.get('opcode', '='); args = _text(src, par['inner'][1])
                    if member is None: member = '(use:' + str(par.get('kind')) + ')'; args = _text(src, par) if 'range' in par else ''
                    uses.append((cls, sig, pname, outs[pname], member, args, gtext(guards), loop))
                # ---- compute(): (re)sizing / whole-object initialisation of the data members (object reuse)
                if mname == 'compute' and k in ('CXXDependentScopeMemberExpr', 'MemberExpr') and n.get('inner') and n.get('member', n.get('name')) in RESETS:
                    base = _text(src, n['inner'][0])
                    if re.fullmatch(r'(this->)?m_\w+', base):
                        fn = n.get('member', n.get('name')); call = parents[-1] if parents else {}; args = ''
                        if call.get('kind') in ('CallExpr', 'CXXMemberCallExpr') and call.get('inner') and call['inner'][0] is n:
                            args = ', '.join(_text(src, a) for a in call['inner'][1:])
                            up = parents[-2] if len(parents) >= 2 else {}
                            if fn == 'noalias' and up.get('kind') in ('BinaryOperator', 'CompoundAssignOperator', 'CXXOperatorCallExpr') and up.get('inner') and up['inner'][0] is call:
                                fn = 'noalias' + up.get('opcode', '='); args = _text(src, up['inner'][1])
                        resets.append((cls, sig, base.replace('this->', ''), fn, args, gtext(guards), loop))
                # ---- values given to local raw pointers
                if k == 'VarDecl' and n.get('type', {}).get('qualType', '').rstrip().endswith('*') and n.get('name') in inits:
                    ptrs.append((cls, sig, n.get('name'), _text(src, inits[n['name']])))
                if k in ('BinaryOperator', 'CompoundAssignOperator') and n.get('opcode') in ('=', '+=', '-=') and n.get('inner'):
                    lhs = _strip(n['inner'][0])
                    if lhs.get('kind') == 'DeclRefExpr' and lhs.get('type', {}).get('qualType', '').rstrip().endswith('*') and lhs.get('referencedDecl', {}).get('kind') == 'VarDecl':
                        ptrs.append((cls, sig, lhs['referencedDecl'].get('name'), (n.get('opcode') if n.get('opcode') != '=' else '') + _text(src, n['inner'][1])))
                if k == 'UnaryOperator' and n.get('opcode') in ('++', '--') and n.get('inner'):
                    lhs = _strip(n['inner'][0])
                    if lhs.get('kind') == 'DeclRefExpr' and lhs.get('type', {}).get('qualType', '').rstrip().endswith('*') and lhs.get('referencedDecl', {}).get('kind') == 'VarDecl':
                        ptrs.append((cls, sig, lhs['referencedDecl'].get('name'), n.get('opcode')))
                # ---- calls of the pointer-walking helpers with an explicit stride
                if k == 'CallExpr' and n.get('inner'):
                    callee = _strip(n['inner'][0]); cname = None
                    if callee.get('kind') == 'UnresolvedMemberExpr' or callee.get('kind') == 'UnresolvedLookupExpr':
                        txt = _text(src, callee); cname = txt.split('->')[-1].split('::')[-1].strip()
                    elif callee.get('kind') in ('MemberExpr', 'CXXDependentScopeMemberExpr'): cname = callee.get('member', callee.get('name'))
                    if cname in ('apply_PX', 'apply_XP') and len(n['inner']) == 4:
                        x = _strip(n['inner'][1]); base = '?'
                        if x.get('kind') == 'CallExpr' and x.get('inner'):
                            bm = _strip(x['inner'][0])
                            if bm.get('kind') in ('CXXDependentScopeMemberExpr', 'MemberExpr') and bm.get('member', bm.get('name')) == 'block' and bm.get('inner'): base = _text(src, bm['inner'][0])
                        st = _strip(n['inner'][2]); sttxt = _text(src, st)
                        if st.get('kind') == 'DeclRefExpr' and st.get('referencedDecl', {}).get('kind') == 'VarDecl' and st['referencedDecl'].get('name') in inits:
                            sttxt = _text(src, inits[st['referencedDecl']['name']])
                        strides.append((cls, sig, cname, base, sttxt))
            _walk_ctx(body, visit)
    if not uses: raise XlateError('no output-parameter uses found in the QR helper classes')
    def b(x): return 'true' if x else 'false'
    s_ = '-- (class, method(signature), parameter, parameter type, member the parameter is accessed through, arguments as written,\n'
    s_ += '--  conditions of the enclosing if-branches ("" = unconditional), inside a loop), in source order\n'
    s_ += 'def paramUses : List (String × String × String × String × String × String × String × Bool) := [\n' + ',\n'.join(
        '  (' + ', '.join(_lean_str(x) for x in u[:7]) + ', ' + b(u[7]) + ')' for u in uses) + ']\n\n'
    s_ += '-- (class, method, local raw pointer, value it is given (`+=x`, `++` for an advance)), in source order\n'
    s_ += 'def ptrAssigns : List (String × String × String × String) := [\n' + ',\n'.join('  (' + ', '.join(_lean_str(x) for x in u) + ')' for u in ptrs) + ']\n\n'
    s_ += '-- (class, calling method, helper, matrix the block argument is taken from, stride argument with a local variable replaced by its initializer)\n'
    s_ += 'def strideCalls : List (String × String × String × String × String) := [\n' + ',\n'.join('  (' + ', '.join(_lean_str(x) for x in u) + ')' for u in strides) + ']\n\n'
    s_ += '-- compute() of each class: every resize / whole-object (re)initialisation of a data member: (class, method, data member, call,\n'
    s_ += '-- arguments (right-hand side for `noalias=`), conditions of the enclosing if-branches, inside a loop), in source order\n'
    s_ += 'def computeResets : List (String × String × String × String × String × String × Bool) := [\n' + ',\n'.join(
        '  (' + ', '.join(_lean_str(x) for x in u[:6]) + ', ' + b(u[6]) + ')' for u in resets) + ']\n\n'
    s_ += '-- every method with a body each class declares itself\n'
    s_ += 'def qrMethods : List (String × String) := [\n' + ',\n'.join('  (' + ', '.join(_lean_str(x) for x in u) + ')' for u in decls) + ']\n'
    return s_

QRBUF = [dict(lean='qrbuf', header=HQR, custom=qrbuf, path='(argument footprint of UpperHessenbergQR / TridiagQR / DoubleShiftQR)')]

MODULES = [('Givens', GIVENS, ''), ('Refl', REFL, ''), ('QRBuf', QRBUF, '')]
