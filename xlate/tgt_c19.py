"""C19: call sites of the internal generator (where a SimpleRandom object is created, with which storage class and seed
expression; which seed is passed to Arnoldi::expand_basis) -> module Gen.RandSites, regenerated from the whole tree on every run."""
from xlate import XlateError

def _walk_sites(tu):
    import os, astdump
    src_cache = {}
    def text(node, file):
        r = node.get('range', {}); b = r.get('begin', {}); e = r.get('end', {})
        b = b.get('expansionLoc', b); e = e.get('expansionLoc', e)
        if 'offset' not in b or 'offset' not in e: return '?'
        if file not in src_cache:
            try: src_cache[file] = open(file).read()
            except Exception: src_cache[file] = ''
        s = src_cache[file][b['offset']: e['offset'] + e.get('tokLen', 0)]
        return ' '.join(s.split())
    sites = []; seeds = []
    cur_file = [None]
    def rec(n, fn, cls):
        if not isinstance(n, dict): return
        loc = n.get('loc', {}); f = loc.get('file') or loc.get('expansionLoc', {}).get('file') or loc.get('spellingLoc', {}).get('file')
        if f: cur_file[0] = f
        rb = n.get('range', {}).get('begin', {}); f2 = rb.get('file') or rb.get('expansionLoc', {}).get('file')
        if f2: cur_file[0] = f2
        k = n.get('kind')
        if k in ('CXXRecordDecl', 'ClassTemplateDecl', 'ClassTemplatePartialSpecializationDecl') and n.get('name'): cls = n['name']
        if k in ('CXXMethodDecl', 'FunctionDecl', 'CXXConstructorDecl') and n.get('name'): fn = (cls + '::' if cls else '') + n['name']
        if k == 'VarDecl' and __import__('re').match(r'^(const )?(Spectra::)?SimpleRandom<', n.get('type', {}).get('qualType', '')):
            static = n.get('storageClass') == 'static' or bool(n.get('tls'))
            init = [c for c in n.get('inner', []) if c.get('kind', '').endswith('Expr')]
            arg = '?'
            if init:
                # the constructor argument(s): text between the parentheses of the declaration
                t = text(n, cur_file[0] or '')
                arg = t[t.find('(') + 1: t.rfind(')')] if '(' in t else t
            sites.append((fn or '?', static, arg))
        if k in ('CallExpr', 'CXXMemberCallExpr', 'CXXDependentScopeMemberExpr'):
            callee = n.get('inner', [{}])[0]
            def callee_name(c):
                if not isinstance(c, dict): return None
                if c.get('kind') in ('MemberExpr', 'CXXDependentScopeMemberExpr', 'UnresolvedMemberExpr', 'DeclRefExpr', 'UnresolvedLookupExpr'):
                    return c.get('member') or c.get('name') or (c.get('referencedDecl') or {}).get('name')
                for cc in c.get('inner', []):
                    r = callee_name(cc)
                    if r: return r
                return None
            if k != 'CXXDependentScopeMemberExpr' and callee_name(callee) == 'expand_basis':
                args = n.get('inner', [])[1:]
                if len(args) >= 2: seeds.append((fn or '?', text(args[1], cur_file[0] or '')))
        for c in n.get('inner', []): rec(c, fn, cls)
    for o in tu.objs: rec(o, None, None)
    return sites, seeds

def rand_sites(tu, t):
    sites, seeds = _walk_sites(tu)
    # the same template pattern can be dumped more than once (primary + specialisation patterns): keep distinct entries, sorted
    sites = sorted(set(sites)); seeds = sorted(set(seeds))
    if not sites: raise XlateError('no SimpleRandom object found in the tree (the extractor or the library changed)')
    q = lambda s: '"' + s.replace('\\', '\\\\').replace('"', '\\"') + '"'
    s = '-- every object of type SimpleRandom<..> created in include/Spectra: (function, has static/thread storage, constructor argument text)\n'
    s += 'def sites : List (String × Bool × String) := [' + ', '.join(f'({q(f)}, {"true" if st else "false"}, {q(a)})' for f, st, a in sites) + ']\n\n'
    s += '/-- every call of Arnoldi::expand_basis: (calling function, text of the seed argument) -/\n'
    s += 'def expandSeeds : List (String × String) := [' + ', '.join(f'({q(f)}, {q(a)})' for f, a in seeds) + ']\n'
    return s

MODULES = [('RandSites', [dict(lean='sites', header='LinAlg/Arnoldi.h', custom=rand_sites, path='*')], '')]
