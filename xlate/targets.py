"""Which functions of /repo are translated, under which Lean names (see DESIGN.md §2.1)."""
from xlate import XlateError

def T(lean, path, header, index=0, pred=None, **cfg):
    d = dict(lean=lean, path=path, header=header, index=index, cfg=cfg)
    if pred: d['pred'] = pred
    return d

RAND = [
    T('next_long_rand', 'next_long_rand', 'Util/SimpleRandom.h', mode='value', ret_type='Int', also_ub=True),
    T('seed_norm', 'SimpleRandom::SimpleRandom', 'Util/SimpleRandom.h', mode='state', state_out=['m_rand'],
      members={'m_rand': 'int'}, write_only=['m_rand'], ret_type='Int'),
    T('draw', 'RandomScalar::run', 'Util/SimpleRandom.h', mode='value', ret_with_out=['seed'], ret_kind='sc',
      calls={'next_long_rand': {'lean': 'next_long_rand', 'kind': 'int'}}, ret_type='Int × α'),
]

MODULES = [
    ('Rand', RAND, ''),
]

# ------------------------------------------------------------------ Sort (Util/SelectionRule.h)
from xlate import Fn, Out, parse_sort_switch, sort_switch_hook
import astdump

def sort_keys(tu, t):
    """all SortingTarget<...>::get specialisations -> keyReal / keyCplx dispatch on the rule value"""
    specs = {'real': {}, 'cplx': {}}
    generic = None
    for o in tu.objs:
        if o.get('name') != 'SortingTarget': continue
        if o['kind'] == 'ClassTemplateDecl':
            rec = [c for c in o['inner'] if c['kind'] == 'CXXRecordDecl'][0]
            generic = [c for c in rec['inner'] if c['kind'] == 'CXXMethodDecl' and c['name'] == 'get'][0]
        elif o['kind'] == 'ClassTemplatePartialSpecializationDecl':
            ta = [c for c in o['inner'] if c['kind'] == 'TemplateArgument']
            fam = 'cplx' if 'complex<' in ta[0].get('type', {}).get('qualType', '') else 'any'
            rule = ta[1]['value']
            get = [c for c in o['inner'] if c['kind'] == 'CXXMethodDecl' and c['name'] == 'get'][0]
            if fam == 'cplx': specs['cplx'][rule] = get
            else:
                specs['real'][rule] = get
                specs['cplx'].setdefault(rule, get)   # Scalar = complex instantiates the generic-Scalar specialisation
    if generic is None: raise XlateError('primary SortingTarget template not found')
    # the primary template must throw (that is what rejects undefined rules at run time)
    gfn = Fn(tu, generic, dict(mode='value', throws=True, params={'val': 'sc'}))
    gtxt, _ = gfn.translate('key_generic')
    if 'Res.throw "std::invalid_argument"' not in gtxt.split(':=', 1)[1].strip().split('\n')[0]:
        raise XlateError('primary SortingTarget::get does not start by throwing invalid_argument')
    res = []
    nrules = len(tu.enums['SortRule'])
    for fam, pk in (('real', 'sc'), ('cplx', 'cplx')):
        branches = []; oks = []
        for rule in range(nrules):
            g = specs[fam].get(rule)
            if g is None: continue
            try:
                f = Fn(tu, g, dict(mode='value', params={'val': pk}, ret_kind='sc'))
                txt, _ = f.translate('k')
                body = txt.split(':=\n', 1)[1].strip()
                if '\n' in body: raise XlateError('multi-statement key')
                if fam == 'cplx' and (body == '(-val)' or body == 'val'): raise XlateError('complex-valued key is not ordered')
            except XlateError as e:
                if fam == 'cplx': continue      # e.g. LargestAlge on complex: `-val` is complex, `<` does not compile: no instance
                raise
            branches.append((rule, body)); oks.append(rule)
        nm = 'keyReal' if fam == 'real' else 'keyCplx'
        ty = 'α' if fam == 'real' else '(α × α)'
        s = f'def {nm} {{α : Type}} [Add α] [Sub α] [Mul α] [Div α] [Neg α] [Sc α] (rule : Int) (val : {ty}) : α :=\n'
        for rule, body in branches: s += f'  if rule = {rule} then {body} else\n'
        s += '  Sc.ofInt 0\n'
        s += f'\n/-- rules for which `SortingTarget<{("Scalar" if fam=="real" else "std::complex<Scalar>")}, rule>::get` is defined and real-valued (others throw / do not compile) -/\n'
        s += f'def {nm}_defined (rule : Int) : Bool := ' + (' || '.join(f'decide (rule = {r})' for r in oks) or 'false') + '\n'
        res.append(s)
    return '\n'.join(res)

def sort_rule_fn(lean_name, path, index=0):
    def g(tu, t):
        node = tu.find(path, index)
        fn = Fn(tu, node, dict(mode='value', throws=True, members=t['cfg'].get('members', {})))
        body = [c for c in node['inner'] if c['kind'] == 'CompoundStmt'][0]
        sw = [c for c in body['inner'] if c['kind'] == 'SwitchStmt']
        if len(sw) != 1: raise XlateError('expected exactly one switch')
        # the rule dispatch must be unconditional: only declarations may precede the switch (an early `return` or a guard in
        # front of it would let rules through that the switch's default rejects)
        for c in body['inner']:
            if c is sw[0]: break
            if c['kind'] != 'DeclStmt': raise XlateError('statement before the rule switch: ' + c['kind'])
        cond, groups = parse_sort_switch(fn, sw[0])
        chain = ''
        for labels, rule, *_ in groups:
            chain += 'if ' + ' || '.join(f'decide (sel = {l})' for l in labels) + f' then {rule} else '
        return f'def {lean_name} (sel : Int) : Int := {chain}(-1)'
    return g

SORT = [
    dict(lean='keys', header='Util/SelectionRule.h', custom=sort_keys, path='SortingTarget::get'),
    dict(lean='argsort_rule', header='Util/SelectionRule.h', custom=sort_rule_fn('argsort_rule', 'argsort'), path='argsort', cfg={}),
    T('argsort', 'argsort', 'Util/SelectionRule.h', mode='value', throws=True, params={'values': 'arr_sc', 'selection': 'enum'},
      stmt_hook=sort_switch_hook, ret_type='Res (Int → Int)', force_sc=True),
]
MODULES.append(('Sort', SORT, 'import SpectraVerif.Prelude.Sort\n'))

def first_n(n):
    return lambda fn, ss: ss[:n]

SORT += [
    dict(lean='gen_select_rule', header='GenEigsBase.h', custom=sort_rule_fn('gen_select_rule', 'GenEigsBase::retrieve_ritzpair'), path='GenEigsBase::retrieve_ritzpair', cfg={}),
    dict(lean='gen_sort_rule', header='GenEigsBase.h', custom=sort_rule_fn('gen_sort_rule', 'GenEigsBase::sort_ritzpair'), path='GenEigsBase::sort_ritzpair', cfg={}),
    T('herm_sort_guard', 'HermEigsBase::sort_ritzpair', 'HermEigsBase.h', mode='guard', throws=True, slice=first_n(1),
      params={'sort_rule': 'enum'}, ret_type='Res Unit'),
]

# ------------------------------------------------------------------ Guard (constructor / argument checks)
def ctor_index(i):
    return i

GUARD = [
    T('herm_ctor_lvalue', 'HermEigsBase::HermEigsBase', 'HermEigsBase.h', index=0, mode='guard', throws=True,
      members={'m_n': 'int', 'm_nev': 'int', 'm_ncv': 'int'}, ctor_inits={'m_n': 'int', 'm_nev': 'int', 'm_ncv': 'int'},
      ctor_init_params={'m_n': 'n'}, ignore_params=['op', 'Bop'], ret_type='Res Unit'),
    T('herm_ctor_rvalue', 'HermEigsBase::HermEigsBase', 'HermEigsBase.h', index=1, mode='guard', throws=True,
      members={'m_n': 'int', 'm_nev': 'int', 'm_ncv': 'int'}, ctor_inits={'m_n': 'int', 'm_nev': 'int', 'm_ncv': 'int'},
      ctor_init_params={'m_n': 'n'}, ignore_params=['op', 'Bop'], ret_type='Res Unit'),
    T('herm_ncv_member', 'HermEigsBase::HermEigsBase', 'HermEigsBase.h', index=0, mode='state', state_out=['m_ncv'],
      members={'m_n': 'int', 'm_nev': 'int', 'm_ncv': 'int'}, ctor_inits={'m_n': 'int', 'm_nev': 'int', 'm_ncv': 'int'},
      ctor_init_params={'m_n': 'n'}, ignore_params=['op', 'Bop'], slice=lambda fn, ss: [], ret_type='Int'),
    # the squareness guard `m_op.cols() != m_n` (repair of finding F23) reads the operator's column count: parameter `cols`
    T('gen_ctor', 'GenEigsBase::GenEigsBase', 'GenEigsBase.h', index=0, mode='guard', throws=True,
      members={'m_n': 'int', 'm_nev': 'int', 'm_ncv': 'int', 'm_op': 'other'}, ctor_inits={'m_n': 'int', 'm_nev': 'int', 'm_ncv': 'int'},
      ctor_init_params={'m_n': 'n'}, ignore_params=['op', 'Bop'], methods={('m_op', 'cols'): ('cols', 'int')}, ret_type='Res Unit'),
    T('gen_ncv_member', 'GenEigsBase::GenEigsBase', 'GenEigsBase.h', index=0, mode='state', state_out=['m_ncv'],
      members={'m_n': 'int', 'm_nev': 'int', 'm_ncv': 'int'}, ctor_inits={'m_n': 'int', 'm_nev': 'int', 'm_ncv': 'int'},
      ctor_init_params={'m_n': 'n'}, ignore_params=['op', 'Bop'], slice=lambda fn, ss: [], ret_type='Int'),
]
MODULES.append(('Guard', GUARD, ''))

def sigma_guards(tu, t):
    """SymGEigsShiftSolver<.., Mode>::set_shift_and_move for each mode specialisation: the leading throwing checks"""
    branches = []
    for o in tu.objs:
        if o.get('name') == 'SymGEigsShiftSolver' and o['kind'] == 'ClassTemplatePartialSpecializationDecl':
            tas = [c for c in o['inner'] if c['kind'] == 'TemplateArgument']
            mode = [x.get('value') for x in tas if 'value' in x]
            if len(mode) != 1: raise XlateError('cannot identify GEigsMode of a SymGEigsShiftSolver specialisation')
            ms = [c for c in o['inner'] if c['kind'] == 'CXXMethodDecl' and c.get('name') == 'set_shift_and_move']
            if len(ms) != 1: raise XlateError('set_shift_and_move not found')
            fn = Fn(tu, ms[0], dict(mode='guard', throws=True, params={'sigma': 'sc'}, ignore_params=['op'],
                                    slice=lambda f, ss: [s for s in ss if s['kind'] == 'IfStmt' and f.escapes(s)]))
            txt, _ = fn.translate('g')
            body = txt.split(':=\n', 1)[1]
            branches.append((mode[0], body))
    if not branches: raise XlateError('no SymGEigsShiftSolver specialisations found')
    s = 'def sigma_guard {α : Type} [Add α] [Sub α] [Mul α] [Div α] [Neg α] [Sc α] (mode : Int) (sigma : α) : Res Unit :=\n'
    for mode, body in sorted(branches):
        s += f'  if mode = {mode} then (\n' + '\n'.join('  ' + l for l in body.split('\n')) + '\n  ) else\n'
    s += '  Res.ok ()\n'
    return s

GUARD += [
    dict(lean='sigma_guard', header='SymGEigsShiftSolver.h', custom=sigma_guards, path='SymGEigsShiftSolver::set_shift_and_move'),
    T('jd_check_argument', 'JDSymEigsBase::check_argument', 'JDSymEigsBase.h', mode='guard', throws=True,
      members={'m_number_eigenvalues': 'int', 'm_matrix_operator': 'other'}, ret_type='Res Unit',
      methods={('m_matrix_operator', 'cols'): ('n', 'int'), ('m_matrix_operator', 'rows'): ('n', 'int')}),
]

def ctor_raw_new(tu, t):
    """every constructor in namespace Spectra: raw `new` expressions whose result would leak if a LATER action of the same
    constructor throws (no destructor runs for a partially constructed object).  A later action inside a `try` with a
    catch-all handler counts as protected."""
    def contains(x, kinds):
        if not isinstance(x, dict): return False
        if x.get('kind') in kinds: return True
        return any(contains(c, kinds) for c in x.get('inner', []))
    def may_throw(x):
        return contains(x, ('CXXNewExpr', 'CallExpr', 'CXXMemberCallExpr', 'CXXConstructExpr', 'CXXUnresolvedConstructExpr', 'CXXThrowExpr', 'CXXOperatorCallExpr', 'CXXTemporaryObjectExpr'))
    def protected_try(x):
        if x.get('kind') != 'CXXTryStmt': return False
        return any(h.get('kind') == 'CXXCatchStmt' and not any(c.get('kind') == 'VarDecl' for c in h.get('inner', [])) for h in x.get('inner', []))
    res = []
    def visit_class(name, rec):
        for c in rec.get('inner', []):
            ctors = []
            if c.get('kind') == 'CXXConstructorDecl': ctors = [c]
            elif c.get('kind') == 'FunctionTemplateDecl': ctors = [x for x in c.get('inner', []) if x.get('kind') == 'CXXConstructorDecl'][:1]
            for k in ctors:
                inits = [x for x in k.get('inner', []) if x.get('kind') == 'CXXCtorInitializer']
                body = [x for x in k.get('inner', []) if x.get('kind') == 'CompoundStmt']
                stmts = list(body[0].get('inner', [])) if body else []
                actions = inits + stmts
                n_unprot = 0
                for i, a_ in enumerate(actions):
                    if a_.get('kind') == 'CXXTryStmt': continue
                    if not contains(a_, ('CXXNewExpr',)): continue
                    later = actions[i + 1:]
                    if any(may_throw(l) and not protected_try(l) for l in later): n_unprot += 1
                if contains(k, ('CXXNewExpr',)): res.append((name, n_unprot))
    for o in tu.objs:
        if o.get('kind') == 'ClassTemplateDecl':
            for rec in [c for c in o.get('inner', []) if c.get('kind') == 'CXXRecordDecl'][:1]: visit_class(o['name'], rec)
        elif o.get('kind') in ('ClassTemplatePartialSpecializationDecl', 'CXXRecordDecl'):
            visit_class(o.get('name', '?'), o)
    s = '-- (class, number of raw `new` results that leak if a later constructor action throws), for every constructor that uses `new`\n'
    s += 'def ctor_raw_new : List (String × Nat) := [' + ', '.join(f'("{n}", {k})' for n, k in res) + ']\n'
    return s

GUARD += [dict(lean='ctor_raw_new', header='contrib/PartialSVDSolver.h', custom=ctor_raw_new, path='*')]

# ------------------------------------------------------------------ per-property target files
# Every xlate/tgt_*.py may define MODULES = [(module_name, target_list, lean_prelude_text), ...]; they are appended here so
# that adding translated kernels for a property never edits this shared file.  Inside such a file use
#   from targets import T, first_n;  from xlate import Fn, XlateError, Out
import glob as _glob, os as _os, importlib.util as _ilu
for _p in sorted(_glob.glob(_os.path.join(_os.path.dirname(_os.path.abspath(__file__)), 'tgt_*.py'))):
    _spec = _ilu.spec_from_file_location(_os.path.splitext(_os.path.basename(_p))[0], _p)
    _m = _ilu.module_from_spec(_spec); _spec.loader.exec_module(_m)
    MODULES += list(getattr(_m, 'MODULES', []))
