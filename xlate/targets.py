"""Which functions of /repo are translated, under which Lean names (see DESIGN.md §2.1)."""
from xlate import XlateError

def T(lean, path, header, index=0, pred=None, **cfg):
    d = dict(lean=lean, path=path, header=header, index=index, cfg=cfg)
    if pred: d['pred'] = pred
    return d

RAND = [
    T('next_long_rand', 'next_long_rand', 'Util/SimpleRandom.h', mode='value', ret_type='Int', also_ub=True),
    T('seed_norm', 'SimpleRandom::SimpleRandom', 'Util/SimpleRandom.h', mode='state', state_out=['m_rand'],
      members={'m_rand': 'int'}, write_only=['m_rand'], ret_type='Int'),
    T('draw', 'RandomScalar::run', 'Util/SimpleRandom.h', mode='value', ret_with_out=['seed'], ret_kind='sc',
      calls={'next_long_rand': {'lean': 'next_long_rand', 'kind': 'int'}}, ret_type='Int × α'),
]

MODULES = [
    ('Rand', RAND, ''),
]
